(* driver.ml -- reads one JSON-style nested integer list per line, hands it to the
   extracted [Model.dispatch], prints the result in the same syntax. *)
open Model

let rec pos_of_int (n : int) : positive =
  if n = 1 then XH
  else if n land 1 = 0 then XO (pos_of_int (n lsr 1))
  else XI (pos_of_int (n lsr 1))

let z_of_int (n : int) : z =
  if n = 0 then Z0 else if n > 0 then Zpos (pos_of_int n) else Zneg (pos_of_int (-n))

let rec int_of_pos (p : positive) : int =
  match p with XH -> 1 | XO q -> 2 * int_of_pos q | XI q -> 2 * int_of_pos q + 1

let int_of_z (x : z) : int =
  match x with Z0 -> 0 | Zpos p -> int_of_pos p | Zneg p -> - (int_of_pos p)

exception Parse of string

let parse (s : string) : sx =
  let n = String.length s in
  let pos = ref 0 in
  let rec skip () =
    if !pos < n && (s.[!pos] = ' ' || s.[!pos] = ',' || s.[!pos] = '\t' || s.[!pos] = '\r')
    then (incr pos; skip ()) in
  let rec value () : sx =
    skip ();
    if !pos >= n then raise (Parse "eof");
    if s.[!pos] = '[' then begin
      incr pos;
      let items = ref [] in
      let rec loop () =
        skip ();
        if !pos >= n then raise (Parse "eof in list");
        if s.[!pos] = ']' then incr pos
        else begin items := value () :: !items; loop () end in
      loop ();
      L (List.rev !items)
    end else begin
      let start = !pos in
      if s.[!pos] = '-' then incr pos;
      while !pos < n && s.[!pos] >= '0' && s.[!pos] <= '9' do incr pos done;
      if !pos = start then raise (Parse ("bad char at " ^ string_of_int start));
      I (z_of_int (int_of_string (String.sub s start (!pos - start))))
    end in
  value ()

let rec print (b : Buffer.t) (x : sx) : unit =
  match x with
  | I z -> Buffer.add_string b (string_of_int (int_of_z z))
  | L l ->
      Buffer.add_char b '[';
      List.iteri (fun i y -> if i > 0 then Buffer.add_char b ','; print b y) l;
      Buffer.add_char b ']'

let () =
  try
    while true do
      let line = input_line stdin in
      if String.length line > 0 then begin
        let b = Buffer.create 65536 in
        (try print b (dispatch (parse line))
         with Parse m -> Buffer.add_string b ("[-2]"); prerr_endline ("parse error: " ^ m));
        print_string (Buffer.contents b);
        print_newline ()
      end
    done
  with End_of_file -> ()
