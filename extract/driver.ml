(* driver.ml -- reads one JSON-style nested integer list per line, hands it to the
   extracted [Model.dispatch], prints the result in the same syntax. *)
open Model

(* arbitrary-size conversion between decimal strings and the extracted binary integers *)
let z_of_decimal (str : string) : z =
  let neg = String.length str > 0 && str.[0] = '-' in
  let digits = Array.of_list (List.map (fun c -> Char.code c - 48)
                 (List.of_seq (String.to_seq (if neg then String.sub str 1 (String.length str - 1) else str)))) in
  let n = Array.length digits in
  let is_zero () = Array.for_all (fun d -> d = 0) digits in
  (* bits, least significant first *)
  let bits = ref [] in
  while not (is_zero ()) do
    let rem = ref 0 in
    for i = 0 to n - 1 do
      let cur = !rem * 10 + digits.(i) in
      digits.(i) <- cur / 2;
      rem := cur mod 2
    done;
    bits := !rem :: !bits
  done;
  (* !bits is most significant first *)
  match !bits with
  | [] -> Z0
  | _ :: rest ->
      let p = List.fold_left (fun acc b -> if b = 1 then XI acc else XO acc) XH rest in
      if neg then Zneg p else Zpos p

let decimal_of_z (x : z) : string =
  let rec bits_msb p acc = match p with XH -> 1 :: acc | XO q -> bits_msb q (0 :: acc) | XI q -> bits_msb q (1 :: acc) in
  let to_dec p =
    let bs = bits_msb p [] in
    let digits = ref [0] in   (* least significant first *)
    List.iter (fun b ->
      let carry = ref b in
      digits := List.map (fun d -> let v = d * 2 + !carry in carry := v / 10; v mod 10) !digits;
      if !carry > 0 then digits := !digits @ [!carry]) bs;
    String.concat "" (List.rev_map string_of_int !digits) in
  match x with Z0 -> "0" | Zpos p -> to_dec p | Zneg p -> "-" ^ to_dec p

exception Parse of string

let parse (s : string) : sx =
  let n = String.length s in
  let pos = ref 0 in
  let rec skip () =
    if !pos < n && (s.[!pos] = ' ' || s.[!pos] = ',' || s.[!pos] = '\t' || s.[!pos] = '\r')
    then (incr pos; skip ()) in
  let rec value () : sx =
    skip ();
    if !pos >= n then raise (Parse "eof");
    if s.[!pos] = '[' then begin
      incr pos;
      let items = ref [] in
      let rec loop () =
        skip ();
        if !pos >= n then raise (Parse "eof in list");
        if s.[!pos] = ']' then incr pos
        else begin items := value () :: !items; loop () end in
      loop ();
      L (List.rev !items)
    end else begin
      let start = !pos in
      if s.[!pos] = '-' then incr pos;
      while !pos < n && s.[!pos] >= '0' && s.[!pos] <= '9' do incr pos done;
      if !pos = start then raise (Parse ("bad char at " ^ string_of_int start));
      I (z_of_decimal (String.sub s start (!pos - start)))
    end in
  value ()

let rec print (b : Buffer.t) (x : sx) : unit =
  match x with
  | I z -> Buffer.add_string b (decimal_of_z z)
  | L l ->
      Buffer.add_char b '[';
      List.iteri (fun i y -> if i > 0 then Buffer.add_char b ','; print b y) l;
      Buffer.add_char b ']'

let () =
  try
    while true do
      let line = input_line stdin in
      if String.length line > 0 then begin
        let b = Buffer.create 65536 in
        (try print b (dispatch (parse line))
         with Parse m -> Buffer.add_string b ("[-2]"); prerr_endline ("parse error: " ^ m));
        print_string (Buffer.contents b);
        print_newline ()
      end
    done
  with End_of_file -> ()
