(* Extraction of the executable model.  ExtrOcamlBasic only (bool, option, unit, list,
   prod, sumbool -> OCaml's own); nat, positive, Z stay inductive; no Extract Constant. *)
From Coq Require Extraction ExtrOcamlBasic.
From NasimV Require Import Dispatch.
Extraction Language OCaml.
Extraction "model.ml" dispatch.
