#!/bin/sh
# Runs the repository's pinned test suite (guard off) and checks that every test of
# BASELINE.json's stable_pass list passes.  Usage: tools/baseline.sh [repo dir]
REPO=${1:-/repo}
OUT=$(mktemp /var/tmp/nasim-junit.XXXXXX.xml)
cd "$REPO" && env -u NASIM_VERIF /venv/bin/python -m pytest -ra -q -p no:cacheprovider --timeout=900 \
  --continue-on-collection-errors --junitxml="$OUT" >/dev/null 2>&1
/venv/bin/python - "$OUT" <<'PY'
import json, sys, xml.etree.ElementTree as ET
base = json.load(open('/root/.vp/BASELINE.json'))
want = set(base['stable_pass'])
root = ET.parse(sys.argv[1]).getroot()
passed = set()
for tc in root.iter('testcase'):
    name = tc.get('classname') + '::' + tc.get('name')
    if not any(ch.tag in ('failure', 'error', 'skipped') for ch in tc):
        passed.add(name)
missing = sorted(want - passed)
print(f"baseline: {len(want)} required, {len(want & passed)} pass, {len(passed)} pass in total")
if missing:
    print("NOT PASSING:", missing[:10])
    sys.exit(1)
PY
rc=$?
rm -f "$OUT"
exit $rc
