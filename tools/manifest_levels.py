#!/usr/bin/env python3
"""Rewrites the 'Level 2 (...)' sentence of every check's level text in MANIFEST.json from
harness/check.py's L2_GROUPS / L2_WHAT (run after adding a translator group)."""
import json
import re
src = open('/verif/harness/check.py').read()
ns = {}
exec(src[src.index("L2_GROUPS ="):src.index("def level2")], ns)
G, W = ns["L2_GROUPS"], ns["L2_WHAT"]
m = json.load(open('/verif/MANIFEST.json'))
for c in m['checks']:
    pid = c['property_id']
    t = re.sub(r" Level 2 \(regenerated from the source on every run.*$", "", c['level_claimed']['text'])
    gs = sorted((g for g, ps in G.items() if pid in ps), key=lambda g: int(g[1:]))
    if gs:
        t += (" Level 2 (regenerated from the source on every run by a fail-closed Python-ast translator and proved "
              "equal to the model for all inputs by static tie lemmas that are re-checked each run): "
              + "; ".join(W[g] for g in gs) + ".")
    c['level_claimed']['text'] = t
json.dump(m, open('/verif/MANIFEST.json', 'w'), indent=1)
print("ok")
