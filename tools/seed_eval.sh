#!/bin/bash
# tools/seed_eval.sh <Cxx> <i> [check ids...]: confirm a seeded change in its scratch worktree
# (suite passes with it, demo fails with it and passes without), store it under seeded/,
# and run the named checks (default: the property's own) against the changed tree.
pid=$1; i=$2; shift 2
pre=${SEED_PREFIX:-seed}; wt=/tmp/$pre-$pid; sd=$wt/_seed; dst=/verif/seeded/$pid-$i; [ "$pre" = seed2 ] && dst=/verif/seeded/$pid-w2-$i; [ "$pre" = seed3 ] && dst=/verif/seeded/$pid-w3-$i; [ "$pre" = seed4 ] && dst=/verif/seeded/$pid-w4-$i; [ "$pre" = seed5 ] && dst=/verif/seeded/$pid-w5-$i; [ "$pre" = seed6 ] && dst=/verif/seeded/$pid-w6-$i; [ "$pre" = seed7 ] && dst=/verif/seeded/$pid-w7-$i; [ "$pre" = seed8 ] && dst=/verif/seeded/$pid-w8-$i; [ "$pre" = seed9 ] && dst=/verif/seeded/$pid-w9-$i; [ "$pre" = seed10 ] && dst=/verif/seeded/$pid-w10-$i; [ "$pre" = seed11 ] && dst=/verif/seeded/$pid-w11-$i; [ "$pre" = seed12 ] && dst=/verif/seeded/$pid-w12-$i
checks=${@:-$pid}
[ -f $sd/patch$i.diff ] || { echo "no patch $sd/patch$i.diff"; exit 2; }
mkdir -p $dst; cp $sd/patch$i.diff $dst/patch.diff; cp $sd/demo$i.py $dst/demo.py; cp $sd/notes$i.md $dst/notes.md 2>/dev/null
cd $wt && git checkout -q -- nasim && git apply $sd/patch$i.diff || { echo "patch does not apply"; exit 2; }
base=$(/verif/tools/baseline.sh $wt 2>&1 | grep baseline)
PYTHONPATH=$wt /venv/bin/python $sd/demo$i.py >/dev/null 2>&1; rc_with=$?
results=""
for c in $checks; do
  out=$(NASIM_REPO=$wt VERIF_EVIDENCE_DIR=/verif/work/seed-ev-$pid-$i VERIF_REPLAY_DIR=$dst/replays /verif/check $c quick 2>&1 | grep -v "WARNING: conda" | tail -3)
  results="$results\n[$c] $out"
done
git checkout -q -- nasim
PYTHONPATH=$wt /venv/bin/python $sd/demo$i.py >/dev/null 2>&1; rc_without=$?
echo -e "== $pid-$i: $base | demo rc with=$rc_with without=$rc_without$results"
python3 - "$pid" "$i" "$base" "$rc_with" "$rc_without" "$dst" "$checks" <<'PY'
import sys, json, glob, os
pid,i,base,rw,ro,dst,checks=sys.argv[1:8]
notes=open(os.path.join(dst,'notes.md')).read() if os.path.exists(os.path.join(dst,'notes.md')) else ''
meta=dict(property=pid, seed_index=int(i), breaks=pid, needs_to_manifest=notes[:1500],
  confirmed=dict(baseline=base, demo_rc_with_change=int(rw), demo_rc_without_change=int(ro)),
  ran=f"tools/seed_eval.sh {pid} {i} {checks} (scratch worktree under /tmp, checks run with NASIM_REPO pointing at the changed worktree)",
  replays=sorted(os.path.basename(f) for f in glob.glob(os.path.join(dst,'replays','*.json'))))
json.dump(meta, open(os.path.join(dst,'meta.json'),'w'), indent=1)
PY
rm -rf /verif/work/seed-ev-$pid-$i
