#!/venv/bin/python
"""Entry point of every registered check:  ./check <Cxx> <quick|thorough> [--replay file]

Steps (DESIGN section 5): gate grep; proof obligations of props/Cxx.v re-checked by coqc
(Print Assumptions parsed); files that depend on /repo regenerated; correspondence
(implementation vs. extracted model, plus an in-kernel vm_compute cross-check);
verdict (with a search for a failing input when something broke); evidence."""
import fcntl
import glob
import hashlib
import json
import os
import re
import subprocess
import sys
import time
import traceback

HERE = os.path.dirname(os.path.abspath(__file__))
sys.path.insert(0, HERE)
import common  # noqa: E402
from common import VERIF, COQ, REPO  # noqa: E402

import registry  # noqa: E402

KERNEL_TB = [
    "Coq 8.16.1 kernel incl. its vm_compute machine (no native_compute)",
    "hand-written Gallina model under coq/theories (modelled, not generated, from /repo/nasim)",
    "extraction: Extraction Language OCaml + ExtrOcamlBasic (bool, option, unit, list, prod, sumbool); "
    "no Extract Constant; nat/positive/Z kept inductive; extract/driver.ml (parser/printer); OCaml 4.13.1",
    "Level-2 translator (translator/*.py): fail-closed Python-ast -> Coq rendering of index arithmetic, the gate "
    "cascades of Network.perform_action / HostVector.perform_action, the entitlement table, step-limit/reward, the "
    "per-host loop bodies of reset/_update_reachable/_perform_subnet_scan, the generator's subnet arithmetic "
    "(math.ceil(a/b) rendered as integer ceiling), the score-bound expression, the order of load_action_list, the "
    "observation-space bounds",
    "correspondence harness (harness/*.py): scenario generators, numpy.random.rand shim, "
    "independent documented-layout decoder, float->1/64 fixed point with exactness assertion, "
    "prob -> ceil(prob*2^53)",
]


def sh(cmd, cwd=None, timeout=1800):
    p = subprocess.run(cmd, shell=True, cwd=cwd, capture_output=True, text=True, timeout=timeout)
    return p.returncode, p.stdout + p.stderr


GATE_RE = re.compile(r"\b(Admitted|admit|Axiom|Axioms|Parameter|Parameters|Conjecture|Conjectures|"
                     r"Admit Obligations|bypass_check|native_compute)\b|Unset Guard|Unset Positivity|"
                     r"Unset Universe|type-in-type|impredicative-set")


def strip_comments(text):
    out, depth, i = [], 0, 0
    while i < len(text):
        if text.startswith("(*", i):
            depth += 1
            i += 2
        elif text.startswith("*)", i) and depth:
            depth -= 1
            i += 2
        else:
            if not depth:
                out.append(text[i])
            i += 1
    return "".join(out)


def gate():
    """No admitted proofs, declared axioms or disabled kernel checks anywhere in the development."""
    hits = []
    files = []
    for sub in ("theories", "proofs", "props", "tie"):
        files += sorted(glob.glob(os.path.join(COQ, sub, "*.v")))
    files += [os.path.join(VERIF, "extract", "Extract.v")]
    for f in files:
        txt = strip_comments(open(f).read())
        for n, line in enumerate(txt.splitlines(), 1):
            if GATE_RE.search(line):
                hits.append(f"{f}:{n}: {line.strip()[:120]}")
        # Variable / Hypothesis outside a section
        depth = 0
        for n, line in enumerate(txt.splitlines(), 1):
            s = line.strip()
            if re.match(r"Section\b", s):
                depth += 1
            elif re.match(r"End\b", s) and depth:
                depth -= 1
            elif depth == 0 and re.match(r"(Variable|Variables|Hypothesis|Hypotheses|Context)\b", s):
                hits.append(f"{f}:{n}: {s[:120]} (outside a section)")
    return hits


def build(log):
    """Full .vo build of model, proofs and props (no-op when up to date); serialised by flock."""
    os.makedirs(common.WORK, exist_ok=True)
    with open(os.path.join(common.WORK, "build.lock"), "w") as lk:
        fcntl.flock(lk, fcntl.LOCK_EX)
        rc, out = sh("coq_makefile -f _CoqProject -o Makefile >/dev/null 2>&1; "
                     "timeout 1500 make -j16 2>&1 | tail -40", cwd=COQ, timeout=1600)
        log.append(out[-3000:])
        ok = not re.search(r"\bError\b|\*\*\*", out)
        if not os.path.exists(common.DRIVER) or \
           os.path.getmtime(common.DRIVER) < max(os.path.getmtime(f) for f in glob.glob(os.path.join(COQ, "theories", "*.v"))):
            rc2, out2 = sh("timeout 300 coqc -Q ../coq/theories NasimV Extract.v && "
                           "ocamlfind ocamlopt -O3 -w -a model.mli model.ml driver.ml -o driver 2>&1 | tail -5",
                           cwd=os.path.join(VERIF, "extract"), timeout=400)
            log.append(out2[-2000:])
            ok = ok and os.path.exists(common.DRIVER)
    return ok


def check_props(pid, log):
    """Re-check props/<pid>.v with coqc, parse Print Assumptions."""
    path = os.path.join(COQ, "props", pid + ".v")
    src = strip_comments(open(path).read())
    theorems = re.findall(r"^\s*Theorem\s+(\w+)", src, re.M)
    cmd = f"timeout 600 coqc -Q theories NasimV -Q proofs NasimV.proofs -Q props NasimV.props props/{pid}.v"
    rc, out = sh(cmd, cwd=COQ, timeout=700)
    log.append(out[-3000:])
    closed = out.count("Closed under the global context")
    axioms = sorted(set(re.findall(r"^([A-Za-z_][\w.']*)\s*:", out, re.M))) if "Axioms:" in out else []
    allowed = set(registry.ALLOWED_AXIOMS)
    bad_axioms = [a for a in axioms if a not in allowed]
    n_pa = len(re.findall(r"Print Assumptions", src))
    ok = (rc == 0 and n_pa == len(theorems) and not bad_axioms
          and closed + (1 if axioms else 0) >= 1 and (closed == len(theorems) or axioms))
    return dict(ok=ok, theorems=theorems, closed=closed, axioms=axioms, bad_axioms=bad_axioms,
                cmd=f"cd {COQ} && {cmd}", rc=rc)


def jsonable(x):
    if isinstance(x, dict):
        return {(str(k) if not isinstance(k, (str, int, float, bool)) and k is not None else k): jsonable(v)
                for k, v in x.items()}
    if isinstance(x, (list, tuple)):
        return [jsonable(y) for y in x]
    if isinstance(x, (set, frozenset)):
        return sorted(jsonable(y) for y in x)
    return x


L2_GROUPS = {"T2": {"C01", "C02", "C03", "C04", "C05", "C06", "C07"}, "T1": {"C09", "C10", "C11"},
             "T3": {"C05", "C06"}, "T4": {"C01", "C04", "C05"}, "T5": {"C08"}, "T6": {"C03", "C04", "C05"}, "T7": {"C15"}, "T8": {"C20"}, "T9": {"C11", "C10"}, "T10": {"C10"}, "T11": {"C01", "C02", "C06", "C17"}, "T12": {"C11", "C12"}, "T13": {"C17", "C18"},
             "T14": {"C14", "C15", "C16"}}
L2_SOURCE = {"T1": ("translate.py", "Tr"), "T2": ("translate.py", "Tr"), "T3": ("translate.py", "Tr"),
             "T4": ("translate_host.py", "TrHost"), "T5": ("translate_host.py", "TrHost"),
             "T6": ("translate_loops.py", "TrLoops"), "T7": ("translate_gen.py", "TrGen"),
             "T8": ("translate_bound.py", "TrBound"), "T9": ("translate_actions.py", "TrActions"),
             "T10": ("translate_bounds.py", "TrSpace"), "T11": ("translate_search.py", "TrSearch"),
             "T12": ("translate_param.py", "TrParam"), "T13": ("translate_loader.py", "TrLoader"),
             "T14": ("translate_phases.py", "TrPhases")}
L2_WHAT = {"T1": "index arithmetic of HostVector._update_vector_idxs, Scenario.get_state_dims / get_observation_dims / "
                 "get_action_space_size and ParameterisedActionSpace nvec",
           "T2": "gate cascade of Network.perform_action (order, polarity, chance comparison)",
           "T3": "step-limit flag / reward expression of NASimEnv.step and generative_step",
           "T4": "host-level transition HostVector.perform_action (gates, access/value effects)",
           "T5": "entitlement table of State.get_observation",
           "T6": "per-host loop bodies of Network.reset, _update_reachable and _perform_subnet_scan",
           "T7": "subnet-size arithmetic of ScenarioGenerator._generate_subnets (how many hosts a generated scenario has)",
           "T8": "accumulator expression of NASimEnv.get_score_upper_bound and the per-host terms of the two totals",
           "T9": "order of load_action_list (per host: scan classes with their cost fields, exploit definitions, escalation definitions)",
           "T10": "low / high of the observation space (Observation.get_space_bounds and the two min/max loops it reads)",
           "T11": "search loops of Network: has_required_remote_permission, traffic_permitted, subnet_traffic_permitted, goal test, state accessors, host-level deny rule",
           "T12": "ParameterisedActionSpace.get_action: meaning of each vector component, class order, subnet + 1, host modulo, 0 = any OS, scan cost fields",
           "T13": "loader rules for a host's value entry (_get_host_value, the value block of _validate_host_config) and for the optional step limit",
           "T14": "phase sequence of ScenarioGenerator.generate (which step draws after which, what each step reads, the seed applied before the first draw, every draw through numpy's global generator)"}


def level2(pid, log):
    """Level-2 tie: regenerate gen/Tr.v from /repo's source and re-check the equivalence lemmas."""
    groups = sorted(g for g, ps in L2_GROUPS.items() if pid in ps)
    if not groups:
        return None
    os.makedirs(common.WORK, exist_ok=True)
    with open(os.path.join(common.WORK, "level2.lock"), "w") as lk:
        fcntl.flock(lk, fcntl.LOCK_EX)
        q = "-Q theories NasimV -Q proofs NasimV.proofs -Q gen NasimV.gen -Q tie NasimV.tie"
        res = dict(status="ok", groups=groups, lemmas=0,
                   cmd=f"cd {COQ} && python3 ../translator/translate*.py && coqc {q} gen/Tr*.v tie/TieT*.v")
        done_src = set()
        for g in groups:
            script, mod = L2_SOURCE[g]
            if mod not in done_src:
                done_src.add(mod)
                rc, out = sh(f"NASIM_REPO={REPO} VERIF_COQ={COQ} {sys.executable} {VERIF}/translator/{script}", timeout=120)
                if rc != 0:
                    return dict(status="unavailable", groups=groups, detail=out.strip()[-600:], lemmas=0)
                rc, out = sh(f"timeout 300 coqc {q} gen/{mod}.v", cwd=COQ, timeout=400)
                if rc != 0:
                    res.update(status="broken", detail=out[-800:],
                               broken=f"gen/{mod}.v (regenerated from source) no longer type-checks against the model's vocabulary")
                    break
            rc, out = sh(f"timeout 300 coqc {q} tie/Tie{g}.v", cwd=COQ, timeout=400)
            n = out.count("Closed under the global context")
            if rc != 0 or n == 0:
                res.update(status="broken", broken=f"tie/Tie{g}.v: equivalence of the regenerated {L2_WHAT[g]} with the model",
                           detail=out[-800:])
                break
            res["lemmas"] += n
        sh("rm -f gen/Tr*.vo gen/Tr*.glob gen/Tr*.vos gen/Tr*.vok gen/.Tr*.aux tie/*.vo tie/*.glob tie/*.vos tie/*.vok tie/.*.aux", cwd=COQ)
        return res


def write_replay(pid, payload):
    payload = jsonable(payload)
    rdir = os.environ.get("VERIF_REPLAY_DIR") or os.path.join(VERIF, "replays")
    os.makedirs(rdir, exist_ok=True)
    h = hashlib.sha1(json.dumps(payload, sort_keys=True, default=str).encode()).hexdigest()[:12]
    path = os.path.join(rdir, f"{pid}-{h}.json")
    with open(path, "w") as f:
        json.dump(payload, f, indent=1, default=str)
    return path


def load_known():
    p = os.path.join(VERIF, "known_findings.json")
    if not os.path.exists(p):
        return []
    return json.load(open(p)).get("findings", [])


def main():
    args = sys.argv[1:]
    if len(args) < 2:
        print("usage: check <Cxx> <quick|thorough> | check <Cxx> --replay <file>")
        sys.exit(2)
    pid = args[0]
    replay = None
    if args[1] == "--replay":
        tier, replay = "quick", args[2]
    else:
        tier = os.environ.get("VERIF_TIER") or args[1]
        if "--replay" in args:
            replay = args[args.index("--replay") + 1]
    if tier not in ("quick", "thorough"):
        tier = "quick"
    try:
        seed = int(os.environ.get("VERIF_SEED") or "20260930")
    except ValueError:      # any text is a seed
        seed = int.from_bytes(os.environ["VERIF_SEED"].encode()[:8], "big")
    t0 = time.time()
    log = []
    spec = registry.PROPS.get(pid)
    if spec is None:
        print(f"unknown or unclaimed property {pid}")
        sys.exit(2)

    hits = gate()
    if hits:
        print("machinery broken: gate grep hit:\n" + "\n".join(hits))
        sys.exit(2)
    if not build(log):
        print("machinery broken: the hand-written Coq development does not build:\n" + "\n".join(log)[-3000:])
        sys.exit(2)
    pr = check_props(pid, log)
    if not pr["ok"]:
        print(f"machinery broken: props/{pid}.v does not check: {json.dumps(pr)[:1500]}\n" + "\n".join(log)[-2000:])
        sys.exit(2)

    ctx = dict(pid=pid, tier=tier, seed=seed, log=log, props=pr)
    if replay:
        rc = spec["module"].replay(ctx, spec, json.load(open(replay)))
        sys.exit(rc)

    try:
        outcome = spec["module"].run(ctx, spec)
    except common.Inexact as e:
        print(f"machinery broken: harness produced a number outside the exact domain: {e}")
        sys.exit(2)
    except Exception:   # noqa: BLE001
        tb = traceback.format_exc()
        if os.path.join(REPO, "nasim") + os.sep not in tb:
            raise
        # the implementation itself raised while the check was exercising it
        outcome = dict(violations=[dict(
            kind="implementation-raised", property=pid, failing_input_found=False,
            broken=f"correspondence of {pid} could not be executed: the implementation raised",
            what="an exception escaped from the implementation while the check was driving it with valid inputs",
            traceback=tb[-2500:])], evaluations=1, distinct_nontrivial=0, samples=[dict(traceback=tb[-400:])])

    # ---- Level-2 tie ----
    l2 = level2(pid, log)
    if l2 and l2["status"] == "broken" and not [v for v in outcome.get("violations", []) if v.get("failing_input_found")]:
        outcome.setdefault("violations", []).append(dict(
            kind="broken-proof-obligation", property=pid, failing_input_found=False, broken=l2["broken"],
            what="the control logic regenerated from the current source is no longer proved equal to the model, and "
                 "neither the correspondence streams nor the monitors of this run found a failing input",
            detail=l2.get("detail")))
    if l2 and l2["status"] == "ok":
        outcome["extra_obligations"] = outcome.get("extra_obligations", 0) + l2["lemmas"]
        outcome["extra_discharged"] = outcome.get("extra_discharged", 0) + l2["lemmas"]
        outcome["checker_extra"] = outcome.get("checker_extra", "") + " ; " + l2["cmd"]
    # ---- verdict ----
    known = [k for k in load_known() if k["property"] == pid and k["status"] == "open"]
    violations = []
    known_hits = []
    for v in outcome.get("violations", []):
        sig = v.get("signature")
        match = [k for k in known if sig and k.get("signature") == sig]
        if match:
            known_hits.append((match[0], v))
        else:
            violations.append(v)
    for k in known:
        if k.get("always_report") or any(k is m for m, _ in known_hits):
            print(f"KNOWN-FINDING: property={pid} {k['what']}")
    obligations = len(pr["theorems"]) + outcome.get("extra_obligations", 0)
    discharged = len(pr["theorems"]) + outcome.get("extra_discharged", 0)
    cov = dict(
        obligations=obligations, discharged=discharged,
        checker_cmd=pr["cmd"] + outcome.get("checker_extra", ""),
        trusted_base=KERNEL_TB + outcome.get("trusted_extra", []),
        theorems=pr["theorems"], print_assumptions="Closed under the global context" if not pr["axioms"] else pr["axioms"],
        evaluations=outcome.get("evaluations", 0),
        distinct_nontrivial=outcome.get("distinct_nontrivial", 0),
        rule=outcome.get("rule", ""),
        samples=outcome.get("samples", []),
        correspondence=outcome.get("correspondence", {}),
        explanation=outcome.get("explanation", ""),
        level2=({k: v for k, v in l2.items() if k != "cmd"} if l2 else "not applicable to this property"),
    )
    for k in ("states", "transitions", "exhaustive", "traces_validated_against_impl"):
        if k in outcome:
            cov[k] = outcome[k]
    ev = dict(property_id=pid, tier=tier, seed=seed, level="proof", coverage=cov,
              assumptions=spec.get("assumptions", []) + outcome.get("assumptions", []),
              wall_s=round(time.time() - t0, 2), violations=len(violations),
              known_findings=[k["id"] for k, _ in known_hits])
    evdir = os.environ.get("VERIF_EVIDENCE_DIR") or os.path.join(VERIF, "evidence")
    os.makedirs(evdir, exist_ok=True)
    with open(os.path.join(evdir, pid + ".json"), "w") as f:
        json.dump(jsonable(ev), f, indent=1, default=str)

    if violations:
        violations.sort(key=lambda v: not v.get("failing_input_found"))   # concrete failing inputs first
        for v in violations[:3]:
            path = write_replay(pid, v)
            tail = "" if v.get("failing_input_found") else " no-failing-input-found"
            print(f"VIOLATION property={pid} replay={path}{tail}")
        sys.exit(1)
    print(f"OK property={pid} tier={tier} obligations={obligations}/{discharged} "
          f"evaluations={cov['evaluations']} wall={ev['wall_s']}s")
    sys.exit(0)


if __name__ == "__main__":
    try:
        main()
    except SystemExit:
        raise
    except Exception:   # noqa: BLE001
        traceback.print_exc()
        print("machinery broken: unexpected exception in the check itself")
        sys.exit(2)
