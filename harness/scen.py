"""Scenario descriptions (SD): a plain canonical Python form, its conversion to the
wire format of the Coq model, to nasim Scenario objects, and back from nasim
Scenario objects (shipped / generated).  Also the random structured generator."""
from common import fx, pz_of, REPO  # noqa: F401  (REPO import puts /repo on sys.path)

# SD = dict(
#   subnets=[1, n1, ...], topo=[[0/1]], nos, nsrv, nproc,
#   exploits=[dict(srv, os (int|None), prob, cost, acc)], privescs=[dict(proc, os, prob, cost, acc)],
#   costs=(service, os, subnet, process), fw={(s,t): [srv]}, hosts=[((s,h), dict(os=[b], srv=[b], proc=[b], val, dval, fw={(s,h):[srv]}))],
#   sens=[((s,h), val)], limit=None|int, bounds=(b0,b1) )


def sd_wire(sd):
    def opt(x):
        return [] if x is None else [x]
    ex = [[e["srv"], opt(e["os"]), pz_of(e["prob"]), fx(e["cost"]), e["acc"]] for e in sd["exploits"]]
    pe = [[p["proc"], opt(p["os"]), pz_of(p["prob"]), fx(p["cost"]), p["acc"]] for p in sd["privescs"]]
    fw = [[[s, t], list(v)] for (s, t), v in sd["fw"].items()]
    hosts = []
    for (a, c) in sd["hosts"]:
        hosts.append([[a[0], a[1]],
                      [[int(b) for b in c["os"]], [int(b) for b in c["srv"]], [int(b) for b in c["proc"]],
                       fx(c["val"]), fx(c["dval"]),
                       [[[k[0], k[1]], list(v)] for k, v in c["fw"].items()]]])
    sens = [[[a[0], a[1]], fx(v)] for a, v in sd["sens"]]
    return [list(sd["subnets"]), [[int(x) for x in r] for r in sd["topo"]],
            sd["nos"], sd["nsrv"], sd["nproc"], ex, pe, [fx(c) for c in sd["costs"]],
            fw, hosts, sens, opt(sd["limit"]), [sd["bounds"][0], sd["bounds"][1]]]


def names(sd):
    if "names" in sd:
        return sd["names"]
    return ([f"os{i}" for i in range(sd["nos"])], [f"srv{i}" for i in range(sd["nsrv"])],
            [f"proc{i}" for i in range(sd["nproc"])])


def sd_to_dict(sd, explicit_bounds=None):
    """SD -> the scenario_dict nasim.scenarios.Scenario wraps."""
    import nasim.scenarios.utils as u
    from nasim.scenarios.host import Host
    osn, srvn, procn = names(sd)
    d = {}
    d[u.SUBNETS] = list(sd["subnets"])
    d[u.TOPOLOGY] = [list(r) for r in sd["topo"]]
    d[u.OS] = osn
    d[u.SERVICES] = srvn
    d[u.PROCESSES] = procn
    d[u.SENSITIVE_HOSTS] = {a: v for a, v in sd["sens"]}
    en, pn = sd.get("anames") or ([f"e{i}" for i in range(len(sd["exploits"]))],
                                  [f"pe{i}" for i in range(len(sd["privescs"]))])
    d[u.EXPLOITS] = {
        en[i]: {u.EXPLOIT_SERVICE: srvn[e["srv"]], u.EXPLOIT_OS: None if e["os"] is None else osn[e["os"]],
                  u.EXPLOIT_PROB: e["prob"], u.EXPLOIT_COST: e["cost"], u.EXPLOIT_ACCESS: e["acc"]}
        for i, e in enumerate(sd["exploits"])}
    d[u.PRIVESCS] = {
        pn[i]: {u.PRIVESC_PROCESS: procn[p["proc"]], u.PRIVESC_OS: None if p["os"] is None else osn[p["os"]],
                   u.PRIVESC_PROB: p["prob"], u.PRIVESC_COST: p["cost"], u.PRIVESC_ACCESS: p["acc"]}
        for i, p in enumerate(sd["privescs"])}
    d[u.SERVICE_SCAN_COST], d[u.OS_SCAN_COST], d[u.SUBNET_SCAN_COST], d[u.PROCESS_SCAN_COST] = sd["costs"]
    d[u.FIREWALL] = {k: [srvn[s] for s in v] for k, v in sd["fw"].items()}
    hosts = {}
    for a, c in sd["hosts"]:
        hosts[a] = Host(address=a,
                        os={n: bool(b) for n, b in zip(osn, c["os"])},
                        services={n: bool(b) for n, b in zip(srvn, c["srv"])},
                        processes={n: bool(b) for n, b in zip(procn, c["proc"])},
                        firewall={k: [srvn[s] for s in v] for k, v in c["fw"].items()},
                        value=c["val"], discovery_value=c["dval"])
    d[u.HOSTS] = hosts
    d[u.STEP_LIMIT] = sd["limit"]
    default_bounds = (len(sd["subnets"]), max(sd["subnets"]))
    if explicit_bounds or tuple(sd["bounds"]) != default_bounds:
        d[u.ADDRESS_SPACE_BOUNDS] = tuple(sd["bounds"])
    return d


def sd_to_scenario(sd):
    from nasim.scenarios import Scenario
    return Scenario(sd_to_dict(sd), name="verif")


def scenario_to_sd(sc, strict_keys=False):
    """nasim Scenario (loaded or generated) -> SD; names become positions."""
    osn, srvn, procn = list(sc.os), list(sc.services), list(sc.processes)
    oi = {n: i for i, n in enumerate(osn)}
    si = {n: i for i, n in enumerate(srvn)}
    pi = {n: i for i, n in enumerate(procn)}
    sd = {"names": (osn, srvn, procn)}
    sd["subnets"] = [int(x) for x in sc.subnets]
    sd["topo"] = [[int(x) for x in r] for r in sc.topology]
    sd["nos"], sd["nsrv"], sd["nproc"] = len(osn), len(srvn), len(procn)
    sd["exploits"] = [dict(srv=si[e["service"]], os=None if e["os"] is None else oi[e["os"]],
                           prob=float(e["prob"]), cost=e["cost"], acc=int(e["access"]))
                      for e in sc.exploits.values()]
    sd["privescs"] = [dict(proc=pi[p["process"]], os=None if p["os"] is None else oi[p["os"]],
                           prob=float(p["prob"]), cost=p["cost"], acc=int(p["access"]))
                      for p in sc.privescs.values()]
    sd["costs"] = (sc.service_scan_cost, sc.os_scan_cost, sc.subnet_scan_cost, sc.process_scan_cost)
    sd["fw"] = {(int(k[0]), int(k[1])): (sorted(si[s] for s in v) if isinstance(v, (set, frozenset))
                                         else [si[s] for s in v]) for k, v in sc.firewall.items()}
    hosts = []
    for a, h in sc.hosts.items():
        hfw = {}
        for k, v in h.firewall.items():
            if not isinstance(k, tuple):
                if strict_keys:
                    k = (-7, -7)     # not an address: visible to the loader correspondence
                else:
                    # the file's key as written, read independently of the loader
                    import ast
                    k = ast.literal_eval(k)
            hfw[(int(k[0]), int(k[1]))] = [si[s] for s in v]
        hosts.append(((int(a[0]), int(a[1])),
                      dict(os=[bool(h.os[n]) for n in osn], srv=[bool(h.services[n]) for n in srvn],
                           proc=[bool(h.processes[n]) for n in procn],
                           val=h.value, dval=h.discovery_value, fw=hfw)))
    sd["hosts"] = hosts
    sd["sens"] = [((int(a[0]), int(a[1])), v) for a, v in sc.sensitive_hosts.items()]
    sd["limit"] = sc.step_limit
    b = sc.address_space_bounds
    sd["bounds"] = (int(b[0]), int(b[1]))
    return sd


# ---------------------------------------------------------------------------
# random structured scenarios

PROBS = [1.0, 1.0, 1.0, 0.8, 0.5, 0.3, 0.0, 2.0 ** -53, 1 - 2.0 ** -53, 0.9]
COSTS = [1, 1, 2, 3, 0.5, 1.25, 0.015625, 10]
VALUES = [0, 0, 1, 1, 5, 100, -3, 0.5, -0.25, 40]
DVALUES = [0, 1, 1, 2, -1, 0.5]


def random_sd(rng, max_subnets=5, max_size=3, small=False, family=None, wide_frac=0.0):
    if family is None:
        family = "random" if (small or rng.random() < 0.6) else rng.choice(["ring", "diamond", "star", "chain"])
    if family == "random":
        nsub = rng.randint(1, 2 if small else max_subnets)
    elif family == "ring":
        nsub = rng.randint(4, 6)
    elif family == "diamond":
        nsub = rng.randint(4, 5)
    else:
        nsub = rng.randint(3, 6)
    sizes = [rng.randint(1, 2 if (small or family != "random") else max_size) for _ in range(nsub)]
    subnets = [1] + sizes
    n = nsub + 1
    topo = [[1 if i == j else 0 for j in range(n)] for i in range(n)]

    def link(i, j):
        topo[i][j] = topo[j][i] = 1
    if family == "random":
        # random spanning tree over 1..nsub
        order = list(range(1, n))
        rng.shuffle(order)
        for idx in range(1, len(order)):
            link(order[idx], order[rng.randrange(idx)])
        for _ in range(rng.randint(0, nsub)):
            i, j = rng.randint(1, nsub), rng.randint(1, nsub)
            if i != j:
                link(i, j)
        npub = 1 if rng.random() < 0.7 else min(nsub, 2)
        pubs = rng.sample(range(1, n), npub)
    elif family == "ring":          # internet - 1 - 2 - ... - nsub - internet
        for i in range(1, nsub):
            link(i, i + 1)
        pubs = [1, nsub]
    elif family == "chain":         # internet - 1 - 2 - ... - nsub
        for i in range(1, nsub):
            link(i, i + 1)
        pubs = [1]
    elif family == "star":          # public hub 1 with private leaves
        for i in range(2, nsub + 1):
            link(1, i)
        pubs = [1]
    else:                           # diamond: 1 public; 1-2, 1-3, 2-4, 3-4 (4-5)
        link(1, 2), link(1, 3), link(2, 4), link(3, 4)
        if nsub == 5:
            link(4, 5)
        pubs = [1]
    for p in pubs:
        link(0, p)
    nos, nsrv, nproc = rng.randint(1, 3), rng.randint(1, 3), rng.randint(1, 3)
    exploits = []
    for _ in range(rng.randint(1, 2 if small else 4)):
        exploits.append(dict(srv=rng.randrange(nsrv), os=None if rng.random() < 0.35 else rng.randrange(nos),
                             prob=rng.choice(PROBS if family == "random" else [1.0, 1.0, 0.8]),
                             cost=rng.choice(COSTS), acc=rng.choice([1, 1, 2])))
    privescs = []
    for _ in range(rng.randint(0, 1 if small else 3)):
        privescs.append(dict(proc=rng.randrange(nproc), os=None if rng.random() < 0.35 else rng.randrange(nos),
                             prob=rng.choice(PROBS), cost=rng.choice(COSTS), acc=rng.choice([2, 2, 2, 1])))
    costs = tuple(rng.choice([0, 1, 1, 2, 0.5]) for _ in range(4))
    fw = {}
    for s in range(n):
        for t in range(n):
            if s != t and topo[s][t]:
                r = rng.random()
                if family != "random":
                    r = 0.3 + 0.7 * r if r > 0.1 else r      # structured families: mostly open rules
                if r < 0.2:
                    fw[(s, t)] = []
                elif r < 0.55:
                    fw[(s, t)] = list(range(nsrv))
                else:
                    fw[(s, t)] = sorted(rng.sample(range(nsrv), rng.randint(1, nsrv)))
    if rng.random() < 0.2:
        # rules for pairs the topology does not connect (also from the internet into a private subnet): allowed, ignored
        spare = [(s, t) for s in range(n) for t in range(n) if s != t and not topo[s][t]]
        for k in rng.sample(spare, min(len(spare), rng.randint(1, 3))):
            fw[k] = sorted(rng.sample(range(nsrv), rng.randint(0, nsrv)))
    addrs = [(s, h) for s in range(1, n) for h in range(subnets[s])]
    order = list(addrs)
    if rng.random() < 0.3:
        rng.shuffle(order)      # dict scenarios need not list hosts in subnet-major order
    hosts = []
    for a in order:
        os_i = rng.randrange(nos)
        srv = [rng.random() < 0.6 for _ in range(nsrv)]
        proc = [rng.random() < 0.6 for _ in range(nproc)]
        if rng.random() < (0.75 if family == "random" else 0.95) and exploits:
            e = rng.choice(exploits)
            srv[e["srv"]] = True
            if e["os"] is not None:
                os_i = e["os"]
        hfw = {}
        if rng.random() < (0.6 if small else 0.3):
            for _ in range(rng.randint(1, 3 if small else 2)):
                src_ = a if rng.random() < 0.2 else rng.choice(addrs)      # a host may deny traffic from itself
                hfw[src_] = sorted(rng.sample(range(nsrv), rng.randint(1, nsrv)))
        hosts.append((a, dict(os=[i == os_i for i in range(nos)], srv=srv, proc=proc,
                              val=rng.choice(VALUES), dval=rng.choice(DVALUES), fw=hfw)))
    # make public entry likely
    for p in pubs:
        if rng.random() < 0.8 and exploits:
            e = rng.choice(exploits)
            if e["srv"] not in fw[(0, p)]:
                fw[(0, p)] = sorted(fw[(0, p)] + [e["srv"]])
    # pivot-inside-a-public-subnet pattern (as in medium-multi-site): the internet rule admits only one
    # service; a second host of that subnet is exploitable only through another service
    if rng.random() < 0.2 and len(exploits) >= 2 and exploits[0]["srv"] != exploits[1]["srv"]:
        p = pubs[0]
        if subnets[p] >= 2:
            fw[(0, p)] = [exploits[0]["srv"]]
            hm_ = dict(hosts)
            for h_id, e in ((0, exploits[0]), (1, exploits[1])):
                c = hm_[(p, h_id)]
                c["srv"] = [i == e["srv"] for i in range(nsrv)]
                if e["os"] is not None:
                    c["os"] = [i == e["os"] for i in range(nos)]
                c["fw"] = {}
    nsens = rng.randint(1, min(3, len(addrs)))
    sens_addrs = rng.sample(addrs, nsens)
    hostmap = dict(hosts)
    sens = [(a, hostmap[a]["val"]) for a in sens_addrs]
    limit = None if rng.random() < 0.5 else rng.randint(2, 12)
    if rng.random() < 0.06:
        limit = rng.choice([49, 98, 103, 107])
    b0, b1 = n, max(subnets)
    if rng.random() < 0.3:
        b0 += rng.randint(0, 3)
        b1 += rng.randint(0, 3)
    if rng.random() < wide_frac:
        b0, b1 = b0 + rng.choice([124, 200]), b1 + rng.choice([126, 60])     # host vectors wider than 256 entries
    sd = dict(subnets=subnets, topo=topo, nos=nos, nsrv=nsrv, nproc=nproc, exploits=exploits,
              privescs=privescs, costs=costs, fw=fw, hosts=hosts, sens=sens, limit=limit, bounds=(b0, b1))
    return maybe_collide(rng, sd)


def many_hosts_sd(rng):
    """a public host and, behind it, a subnet of more than 256 hosts (row numbers that do not fit one byte)"""
    big = rng.randint(258, 262)
    sd = random_sd(rng, max_subnets=2, max_size=1, family="chain")
    while len(sd["subnets"]) != 4:
        sd = random_sd(rng, max_subnets=2, max_size=1, family="chain")
    sd = dict(sd)
    sd.pop("names", None)
    sd.pop("anames", None)
    tmpl = dict(sd["hosts"])[(2, 0)]
    hosts = [(a, c) for a, c in sd["hosts"] if a[0] != 2] + [((2, h), dict(tmpl, fw={}, val=0 if h else tmpl["val"])) for h in range(big)]
    hosts.sort(key=lambda x: x[0])
    subnets = list(sd["subnets"])
    subnets[2] = big
    hm = dict(hosts)
    sens = [(a, hm[a]["val"]) for a, _ in sd["sens"] if a in hm] or [((2, big - 1), 0)]
    sd.update(subnets=subnets, hosts=hosts, sens=sens, bounds=(max(sd["bounds"][0], 4), max(sd["bounds"][1], big)),
              exploits=sd["exploits"][:2], privescs=sd["privescs"][:1])
    return sd


def mixed_magnitudes(rng, sd):
    """one host worth 2^18, others worth 1/64 or 1/2, every cost a whole number: each single reward (value - cost)
    is exact in single precision, a running TOTAL of what was collected is not"""
    import math
    hosts = [(a, dict(c, val=rng.choice([0.015625, 0.5, 0, 3]))) for a, c in sd["hosts"]]
    hm = dict(hosts)
    big = rng.choice([a for a, _ in sd["sens"]] or [hosts[0][0]])
    hm[big]["val"] = 262144
    out = dict(sd, hosts=hosts, sens=[(a, hm[a]["val"]) for a, _ in sd["sens"]],
               exploits=[dict(e, cost=max(1, math.ceil(e["cost"]))) for e in sd["exploits"]],
               privescs=[dict(q, cost=max(1, math.ceil(q["cost"]))) for q in sd["privescs"]],
               costs=tuple(math.ceil(c) for c in sd["costs"]))
    return out


def small_values(rng, sd):
    """every value and discovery value below 2, exploits grant USER only, root comes from an escalation: the access
    level is then the largest number an observation can hold"""
    hosts = [(a, dict(c, val=rng.choice([0, 0.5, 1, 1.5]), dval=rng.choice([0, 1, 0.5]),
                      proc=[True] + list(c["proc"][1:]))) for a, c in sd["hosts"]]
    hm = dict(hosts)
    out = dict(sd, hosts=hosts, sens=[(a, hm[a]["val"]) for a, _ in sd["sens"]],
               exploits=[dict(e, acc=1, prob=1.0) for e in sd["exploits"]],
               privescs=[dict(proc=0, os=None, prob=1.0, cost=1, acc=2)] + [dict(q) for q in sd["privescs"][:1]])
    out.pop("anames", None)
    return out


def widen_subnet(rng, sd):
    """one subnet grows to 11-13 hosts (two-digit host ids); some hosts deny services from its late hosts"""
    sd = dict(sd)
    s_ = rng.randrange(1, len(sd["subnets"]))
    old, new = sd["subnets"][s_], rng.randint(11, 13)
    subnets = list(sd["subnets"])
    subnets[s_] = new
    hosts = [(a, dict(c)) for a, c in sd["hosts"]]
    tmpl = dict(hosts)[(s_, 0)]
    for h in range(old, new):
        hosts.append(((s_, h), dict(tmpl, fw={}, val=0, dval=tmpl["dval"])))
    for a, c in hosts:
        if rng.random() < 0.4:
            c["fw"] = dict(c["fw"])
            c["fw"][(s_, rng.randint(10, new - 1))] = sorted(rng.sample(range(sd["nsrv"]), rng.randint(1, sd["nsrv"])))
    b0, b1 = sd["bounds"]
    sd.update(subnets=subnets, hosts=hosts, bounds=(b0, max(b1, new)))
    return sd


def maybe_collide(rng, sd):
    """the same name may be an OS, a service and a process at once ("names can be anything")"""
    sd.pop("names", None)
    if rng.random() < 0.3:
        pool = [f"n{i}" for i in range(max(sd["nos"], sd["nsrv"], sd["nproc"]) + 1)]
        sd["names"] = (rng.sample(pool, sd["nos"]), rng.sample(pool, sd["nsrv"]), rng.sample(pool, sd["nproc"]))
    elif rng.random() < 0.15:
        # long names that agree in their first thirty characters ("names can be anything")
        mk = lambda kind, n: [f"internal-{kind}-gateway-service-release-candidate-v{i}" for i in range(n)]   # noqa: E731
        sd["names"] = (mk("os", sd["nos"]), mk("service", sd["nsrv"]), mk("process", sd["nproc"]))
    # an exploit and an escalation may carry the same name (two separate dicts), also the name of a scan
    sd.pop("anames", None)
    if rng.random() < 0.25:
        pool = [f"cve{i}" for i in range(max(len(sd["exploits"]), len(sd["privescs"])) + 1)] + \
               ["service_scan", "os_scan", "subnet_scan", "process_scan"]
        sd["anames"] = (rng.sample(pool, len(sd["exploits"])), rng.sample(pool, len(sd["privescs"])))
    return sd


def permuted_sibling(sd):
    """the same scenario with the three name lists in reverse order (same names, same meaning)"""
    osn, srvn, procn = names(sd)
    no, ns, npr = sd["nos"], sd["nsrv"], sd["nproc"]
    s2 = dict(sd)
    s2["names"] = (list(reversed(osn)), list(reversed(srvn)), list(reversed(procn)))
    s2["exploits"] = [dict(e, srv=ns - 1 - e["srv"], os=None if e["os"] is None else no - 1 - e["os"]) for e in sd["exploits"]]
    s2["privescs"] = [dict(q, proc=npr - 1 - q["proc"], os=None if q["os"] is None else no - 1 - q["os"]) for q in sd["privescs"]]
    s2["fw"] = {k: [ns - 1 - x for x in v] for k, v in sd["fw"].items()}
    s2["hosts"] = [(a, dict(c, os=list(reversed(c["os"])), srv=list(reversed(c["srv"])), proc=list(reversed(c["proc"])),
                            fw={k: [ns - 1 - x for x in v] for k, v in c["fw"].items()})) for a, c in sd["hosts"]]
    return s2


def explore_sd(rng):
    """small but pattern-rich scenarios for exhaustive exploration: 3-4 subnets of 1 (sometimes 2)
    hosts, one or two public subnets, two services, asymmetric subnet rules, dense host deny-lists,
    a USER and a ROOT exploit and an escalation, so that most of the graph is reachable"""
    family = rng.choice(["chain", "star", "ring", "random", "diamond"])
    sd = random_sd(rng, max_subnets=4, max_size=1, family=family)
    n = len(sd["subnets"])
    if n > 5 or sd["nsrv"] < 2:
        return explore_sd(rng)
    if rng.random() < 0.4:
        hs = list(sd["hosts"])
        rng.shuffle(hs)               # hosts need not be listed in address order
        sd["hosts"] = hs
    nsrv, nos = sd["nsrv"], sd["nos"]
    sd["exploits"] = [dict(srv=0, os=None if rng.random() < 0.5 else rng.randrange(nos), prob=rng.choice([1.0, 0.5]),
                           cost=1, acc=1),
                      dict(srv=nsrv - 1, os=None, prob=1.0, cost=2, acc=rng.choice([2, 1]))]
    sd["privescs"] = [dict(proc=0, os=None, prob=rng.choice([1.0, 0.5]), cost=1, acc=2)]
    addrs = [a for a, _ in sd["hosts"]]
    hosts = []
    for a, c in sd["hosts"]:
        c = dict(c)
        c["srv"] = [rng.random() < 0.8 for _ in range(nsrv)]
        if not any(c["srv"]):
            c["srv"][rng.randrange(nsrv)] = True
        c["proc"] = [rng.random() < 0.7 for _ in range(sd["nproc"])]
        c["fw"] = {}
        if rng.random() < 0.5:
            for _ in range(rng.randint(1, 2)):
                # mostly proper subsets: the verdict then depends on the service, not only on the source
                src_ = a if rng.random() < 0.25 else rng.choice(addrs)       # also: traffic denied from the host itself
                c["fw"][src_] = sorted(rng.sample(range(nsrv), rng.randint(1, max(1, nsrv - 1))))
        hosts.append((a, c))
    sd["hosts"] = hosts
    for k in list(sd["fw"]):
        sd["fw"][k] = [s for s in range(nsrv) if rng.random() < 0.7]
    hm = dict(hosts)
    sd["sens"] = [(a, hm[a]["val"]) for a, _ in sd["sens"]]
    sd["limit"] = None
    return maybe_collide(rng, sd)


def open_sd(rng, family, nsub):
    """a structured topology with everything open and deterministic (one service, one ROOT exploit
    with probability 1, all firewall rules allowing it): explores topology-dependent behaviour"""
    while True:
        sd = random_sd(rng, family=family)
        if len(sd["subnets"]) - 1 == nsub:
            break
    n = len(sd["subnets"])
    sd["subnets"] = [1] * n
    sd["nos"], sd["nsrv"], sd["nproc"] = 1, 1, 1
    sd["exploits"] = [dict(srv=0, os=None, prob=1.0, cost=1, acc=2)]
    sd["privescs"] = []
    sd["costs"] = (1, 1, 1, 1)
    sd["fw"] = {k: [0] for k in sd["fw"]}
    sd["hosts"] = [((s, 0), dict(os=[True], srv=[True], proc=[True], val=rng.choice([0, 1, 5]), dval=rng.choice([0, 1]),
                                 fw={})) for s in range(1, n)]
    sd["sens"] = [((n - 1, 0), dict(sd["hosts"])[(n - 1, 0)]["val"])]
    sd["limit"] = None
    sd["bounds"] = (n, 1)
    sd.pop("names", None)
    return sd


SHIPPED = ["tiny", "tiny-hard", "tiny-small", "small", "small-honeypot", "small-linear",
           "medium", "medium-single-site", "medium-multi-site"]
GENERATED = ["tiny-gen", "tiny-gen-rgoal", "small-gen", "small-gen-rgoal", "medium-gen",
             "large-gen", "huge-gen", "pocp-1-gen", "pocp-2-gen"]


def shipped_scenario(name):
    import nasim
    return nasim.load_scenario(f"{REPO}/nasim/scenarios/benchmark/{name}.yaml", name=name)
