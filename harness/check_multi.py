"""C19: several environments in one process.

Random interleavings of constructions, generate_initial_state() calls, resets, steps and
generative steps of two or three environments (equal and different vector layouts) are run on
the implementation in ONE process; every output of every environment is compared with the
model's shared-cell semantics (Multi.run_shared).  Where the model's output is defined it is
proved equal to the environment running alone, so a disagreement there is a violation; where
the model says 'undefined' (an operation under a foreign layout cell) any deviation of the
implementation is the known finding D12."""
import json
import random
import traceback

import numpy as np

import dyn
import scen
from common import run_driver, coq_eval_cases, Inexact
from impl import ImplRunner


def run(ctx, spec):
    pid, tier, seed = ctx["pid"], ctx["tier"], ctx["seed"]
    rng = random.Random(seed)
    ncases, nops = spec["sizes"][tier]
    out = dict(violations=[], evaluations=0, distinct_nontrivial=0, samples=[], correspondence={})
    cmds, recs = [], []
    stats = dict(same_layout_cases=0, mixed_layout_cases=0, ops_defined=0, ops_undefined=0,
                 undefined_but_impl_agrees=0, known_d12_hits=0)
    for _ in range(ncases):
        gen = dyn.CaseGen(rng, {})
        nenv = rng.choice([2, 2, 3])
        same = rng.random() < 0.5
        scen_list = []
        base = gen.pick_scenario()
        for e in range(nenv):
            if same and e > 0:
                if rng.random() < 0.25 and "names" not in base[1] or rng.random() < 0.1:
                    # the same scenario with its OS / service / process names listed in another order
                    sdp = scen.permuted_sibling(base[1])
                    scen_list.append((base[0] + "~permuted", sdp, scen.sd_to_scenario(sdp)))
                elif rng.random() < 0.5:
                    scen_list.append(base)
                else:
                    # a different scenario with the same layout: same sizes of everything, other content
                    sd2 = json.loads(json.dumps(None)) or None
                    name, sd, sc = base
                    sd2 = dict(sd)
                    sd2["hosts"] = [(a, dict(c, val=c["val"] + 1 if (a, c["val"]) not in sd["sens"] else c["val"]))
                                    for a, c in sd["hosts"]]
                    sd2["sens"] = [(a, dict(sd2["hosts"])[a]["val"]) for a, _ in sd["sens"]]
                    # ... other scan costs and other action costs, too
                    sd2["costs"] = tuple(c + rng.choice([1, 2, 0.5]) for c in sd["costs"])
                    sd2["exploits"] = [dict(e, cost=e["cost"] + 1) for e in sd["exploits"]]
                    if "names" in sd:
                        scen_list.append(base)
                    else:
                        scen_list.append((name, sd2, scen.sd_to_scenario(sd2)))
            else:
                scen_list.append(gen.pick_scenario() if e > 0 else base)
        keys = []
        for name, sd, sc in scen_list:
            keys.append((tuple(sd["bounds"]), tuple(tuple(x) for x in scen.names(sd))))
        name_ids = {}
        same_keys = len(set(keys)) == 1
        stats["same_layout_cases" if same_keys else "mixed_layout_cases"] += 1
        runners = {}
        flats = {}
        mops, impl_outs = [], []
        created = []
        held = {}          # env index -> (the Observation object it holds, copy of its content, copy of its state)

        def hold(i_):
            e_ = runners[i_].env
            lo = getattr(e_, "last_obs", None)
            held[i_] = (lo, None if lo is None else np.array(lo.tensor, copy=True),
                        np.array(e_.current_state.tensor, copy=True))

        def others_untouched(i_, idx_):
            for j_, (lo, oc, sc_) in held.items():
                if j_ == i_:
                    continue
                e_ = runners[j_].env
                what = None
                if lo is not None and (e_.last_obs is not lo or not np.array_equal(np.asarray(lo.tensor), oc)):
                    what = "the observation another environment holds (last_obs)"
                elif not np.array_equal(np.asarray(e_.current_state.tensor), sc_):
                    what = "the state of another environment"
                if what:
                    out["violations"].append(dict(
                        kind="interleaving", property=pid, failing_input_found=True, signature=None if same_keys else "layout-cell-differs",
                        what=f"an operation on environment {i_} changed {what} (environment {j_})", op_index=idx_,
                        ops=[x if x[0] != 0 else [0, x[1], "<scenario>", x[3], x[4]] for x in mops],
                        scenarios=[s_[1] for s_ in scen_list]))
                    hold(j_)
        n = rng.randint(*nops)
        try:
            for step in range(n):
                if len(created) < nenv and (not created or rng.random() < 0.25):
                    i = len(created)
                    name, sd, sc = scen_list[i]
                    modes = [rng.randrange(2), rng.randrange(2), rng.randrange(2)]
                    nid = name_ids.setdefault(keys[i][1], len(name_ids))
                    runners[i] = ImplRunner(sc, sd, modes)
                    fl = run_driver([[1, scen.sd_wire(sd)]])[0][0]
                    bt = {}
                    for j, a in enumerate(fl):
                        bt.setdefault(tuple(a[1]), []).append(j)
                    flats[i] = (fl, bt)
                    created.append(i)
                    mops.append([0, i, scen.sd_wire(sd), modes, nid])
                    impl_outs.append([7])
                    hold(i)
                    others_untouched(i, len(mops) - 1)
                    continue
                i = rng.choice(created)
                r = runners[i]
                x = rng.random()
                if x < 0.06:
                    mops.append([1, i])
                    try:
                        r.env.generate_initial_state()
                        impl_outs.append([7])
                    except Exception:   # noqa: BLE001
                        impl_outs.append([9])
                    continue
                fl, bt = flats[i]
                if x < 0.12:
                    op = [0] if rng.random() < 0.6 else [0, rng.randrange(100)]      # reset() / reset(seed=..., options=...)
                else:
                    try:
                        ai = gen.pick_action(r, fl, bt)
                    except Exception:   # noqa: BLE001  (guidance reads the tensor with a foreign layout)
                        ai = rng.randrange(len(fl))
                    k = gen.pick_draw(fl[ai][3])
                    arg = [0, ai] if r.modes[1] else [1, dyn.param_vector(rng, scen_list[i][1], fl[ai])]
                    op = [1, arg, k] if x < 0.85 else [2, rng.randrange(len(r.pool)), arg, k]
                mops.append([2, i, dyn.model_ops([op])[0]])
                try:
                    impl_outs.append(r.run_op(op))
                except Inexact:
                    impl_outs.append([9])
                hold(i)
                others_untouched(i, len(mops) - 1)
        except Inexact:
            raise
        cmds.append([12, mops])
        recs.append((scen_list, mops, impl_outs, len(set(keys)) == 1))
        if len(out["samples"]) < 2:
            out["samples"].append(dict(scenarios=[s[0] for s in scen_list], same_layout=len(set(keys)) == 1,
                                       ops=[m if m[0] != 0 else [0, m[1], "<scenario>", m[3], m[4]] for m in mops[:8]]))
    outs = run_driver(cmds) if cmds else []
    small = [(c, o) for c, o in zip(cmds, outs) if len(json.dumps(c)) < 60000][:spec["coq_sample"][tier]]
    if small and coq_eval_cases(small, f"{pid}_{tier}"):
        raise RuntimeError("extracted driver and vm_compute disagree on multi-environment commands")
    distinct = set()
    for (scen_list, mops, impl_outs, same), mo in zip(recs, outs):
        if mo == [-1]:
            raise RuntimeError("model cannot decode a multi-environment case")
        for idx, (m, io, xo) in enumerate(zip(mops, impl_outs, mo)):
            out["evaluations"] += 1
            distinct.add((idx, json.dumps(m)[:200]))
            if xo == [8]:
                stats["ops_undefined"] += 1
                # compare with the environment running alone, for the record
                continue
            stats["ops_defined"] += 1
            if m[0] != 2:
                if io != xo:
                    out["violations"].append(dict(
                        kind="interleaving", property=pid, failing_input_found=True, signature=None,
                        what="constructing / re-initialising an environment failed", op_index=idx,
                        ops=[x if x[0] != 0 else [0, x[1], "<scenario>", x[3], x[4]] for x in mops[:idx + 1]],
                        scenarios=[s[1] for s in scen_list]))
                continue
            d = dyn.diff_outs([io], [xo], dyn.FIELDS["all"] - {"mask", "goal"})
            if d is not None:
                out["violations"].append(dict(
                    kind="interleaving", property=pid, failing_input_found=True, signature=None,
                    what=f"environment {m[1]} does not behave as it would alone (field '{d[1]}') although every "
                         "environment constructed so far has the same vector layout",
                    op_index=idx, ops=[x if x[0] != 0 else [0, x[1], "<scenario>", x[3], x[4]] for x in mops[:idx + 1]],
                    scenarios=[s[1] for s in scen_list], impl=str(io)[:800], prescribed=str(xo)[:800]))
        # known finding D12: in mixed-layout interleavings, does an environment deviate from running alone?
        if not same:
            per_env = {}
            for m, io in zip(mops, impl_outs):
                if m[0] == 0:
                    per_env[m[1]] = dict(sdw=m[2], modes=m[3], ops=[], outs=[])
                elif m[0] == 2:
                    per_env[m[1]]["ops"].append(m[2])
                    per_env[m[1]]["outs"].append(io)
            alone = run_driver([[0, e["sdw"], e["modes"], e["ops"]] for e in per_env.values()])
            for (i, e), a in zip(per_env.items(), alone):
                d = dyn.diff_outs(e["outs"], a[1], dyn.FIELDS["all"] - {"mask", "goal"})
                if d is not None:
                    stats["known_d12_hits"] += 1
                    out["violations"].append(dict(
                        kind="interleaving", property=pid, failing_input_found=True, signature="layout-cell-differs",
                        what=f"environment {i} deviates from running alone (field '{d[1]}') after an environment of a "
                             "different vector layout was constructed",
                        scenarios=[s[1] for s in scen_list],
                        ops=[x if x[0] != 0 else [0, x[1], "<scenario>", x[3], x[4]] for x in mops]))
                    break
    # ---- constructing an environment must not depend on what was constructed before ----
    pass
    import nasim
    import hashlib
    from check_gen import fingerprint
    for name in ("tiny-gen", "small-gen", "small-gen-rgoal", "medium-gen")[:2 if tier == "quick" else 4]:
        for s0 in range(2 if tier == "quick" else 6):
            np.random.seed(100 + s0)
            alone = fingerprint(nasim.make_benchmark_scenario(name))
            nasim.make_benchmark_scenario(name, seed=3 + s0)          # an earlier, seeded construction
            np.random.seed(100 + s0)
            after = fingerprint(nasim.make_benchmark_scenario(name))
            out["evaluations"] += 1
            if alone != after:
                out["violations"].append(dict(
                    kind="construction-history", property=pid, failing_input_found=True, signature=None,
                    what=f"make_benchmark_scenario('{name}') with the global generator seeded to {100 + s0} builds a "
                         f"different scenario after make_benchmark_scenario('{name}', seed={3 + s0}) was called first",
                    name=name))
    # ---- a seeded generation late in this process (many scenarios were generated before) equals the same seeded
    # generation as the FIRST thing a fresh process does
    from check_gen import sub_fingerprints
    for name in ("small-gen", "medium-gen")[:1 if tier == "quick" else 2]:
        seeds_ = list(range(4, 10 if tier == "quick" else 24))
        heres = [fingerprint(nasim.make_benchmark_scenario(name, seed=s0)) for s0 in seeds_]
        freshs = [sub_fingerprints([dict(kind="bench", name=name, seed=s0)], 0)[0] for s0 in seeds_]   # one process each
        for s0, here, fresh in zip(seeds_, heres, freshs):
            out["evaluations"] += 1
            if here != fresh:
                out["violations"].append(dict(
                    kind="construction-history", property=pid, failing_input_found=True, signature=None,
                    what=f"make_benchmark_scenario('{name}', seed={s0}) late in a process that generated other scenarios before "
                         "differs from the same call as the first generation of a fresh process", name=name))
    # ---- loading a document must not depend on the documents loaded before it
    import copy
    import check_load
    docs = check_load.shipped_docs()
    lrng = random.Random(seed ^ 0x10AD)
    for name, doc in (list(docs.items()) if isinstance(docs, dict) else list(docs))[:2 if tier == "quick" else 6]:
        variants = []
        d = copy.deepcopy(doc)
        d.pop("step_limit", None)
        variants.append(("without step_limit", d))
        d = copy.deepcopy(doc)
        for h in d["host_configurations"].values():
            h.pop("firewall", None)
            h.pop("value", None)
        variants.append(("without host firewalls / values", d))
        for label, b in variants:
            fps = []
            for lim in (7, 1234):
                a = copy.deepcopy(doc)
                a["step_limit"] = lim
                if not check_load.impl_load(a, "hist_a")[1]:
                    continue
                _, ok_, sc_ = check_load.impl_load(b, "hist_b")
                fps.append((ok_, fingerprint(sc_) + f"|{sc_.step_limit}|{sc_.address_space_bounds}" if ok_ else sc_))
                out["evaluations"] += 1
            if len(fps) == 2 and fps[0] != fps[1]:
                out["violations"].append(dict(
                    kind="construction-history", property=pid, failing_input_found=True, signature=None,
                    what=f"loading the document '{name}' {label} gives a different scenario depending on which document "
                         "(step limit 7 / 1234) was loaded in the process just before",
                    name=name, after_first=str(fps[0])[:200], after_second=str(fps[1])[:200]))
    # keep: every unknown violation (up to 5) and one witness of the known finding
    unknown = [v for v in out["violations"] if v.get("signature") is None]
    known = [v for v in out["violations"] if v.get("signature") is not None]
    out["violations"] = unknown[:5] + known[:1]
    out["distinct_nontrivial"] = len(distinct)
    out["rule"] = ("each case: 2-3 environments (same scenario, different scenario of equal layout, or different "
                   "layouts; shipped, generated and random) created at random points of one interleaved history of "
                   "resets, steps, generative steps and generate_initial_state() calls, all in one process; "
                   "evaluations = operations compared; distinct = distinct (position, operation)")
    out["correspondence"] = dict(cases=ncases, **stats,
                                 in_kernel_crosscheck=dict(commands=len(small), differing=0))
    return out


def replay(ctx, spec, payload):
    print(json.dumps({k: str(v)[:300] for k, v in payload.items() if k not in ("scenarios",)}, indent=1))
    o = run(ctx, spec)
    if any(v.get("signature") == payload.get("signature") for v in o["violations"]):
        print(f"VIOLATION property={ctx['pid']} replay=<given>")
        return 1
    return 0
