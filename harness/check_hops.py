"""C20: the advertised score upper bound.

Tie: get_minimum_hops() / get_score_upper_bound() of the implementation against the model's
min_hops / score_upper_bound on random topologies.  Judgement of the property itself: on small
scenarios of the property's cost/value domain the exact optimum return over goal-reaching
episodes is computed on the REAL environment (dynamic programming over its monotone state
graph, draws forced to succeed) and compared with the advertised bound."""
import json
import random
import sys

import numpy as np

import scen
from common import run_driver, coq_eval_cases, fx, U, draw_of
from impl import Shim

sys.setrecursionlimit(100000)


def domain_sd(rng, max_sub=4, negative_dval=True):
    """random small scenario inside C20's domain: every cost >= 1, non-sensitive values <= 1"""
    return to_domain(rng, scen.random_sd(rng, max_subnets=max_sub, max_size=2), negative_dval)


def to_domain(rng, sd, negative_dval=True):
    """the scenario moved into C20's domain (topology, firewalls, sensitive addresses kept)"""
    sd = dict(sd, exploits=[dict(e) for e in sd["exploits"]], privescs=[dict(q) for q in sd["privescs"]])
    for e in sd["exploits"]:
        e["cost"] = rng.choice([1, 1, 2, 1.5])
        e["prob"] = rng.choice([1.0, 0.8, 1.0])
    for p in sd["privescs"]:
        p["cost"] = rng.choice([1, 1, 3])
        p["prob"] = 1.0
    sd["costs"] = tuple(rng.choice([1, 1, 2]) for _ in range(4))
    sens = {a for a, _ in sd["sens"]}
    hosts = []
    for a, c in sd["hosts"]:
        c = dict(c)
        if a in sens:
            c["val"] = rng.choice([10, 100, 5])
        else:
            c["val"] = rng.choice([0, 1, 1, -2, 0.5])
        c["dval"] = rng.choice([0, 1, 1, 2] + ([-1] if negative_dval else []))
        hosts.append((a, c))
    sd["hosts"] = hosts
    hm = dict(hosts)
    sd["sens"] = [(a, hm[a]["val"]) for a, _ in sd["sens"]]
    sd["limit"] = None
    return sd


def one_per_subnet(sd):
    """same topology, one host per subnet, sensitive where the subnet had a sensitive host"""
    subs = sorted({a[0] for a, _ in sd["sens"]})
    n = len(sd["subnets"])
    return dict(sd, subnets=[1] * n, hosts=[((s_, 0), {}) for s_ in range(1, n)], sens=[((s_, 0), 100) for s_ in subs],
                bounds=(max(n, sd["bounds"][0]), max(1, sd["bounds"][1])))


def tight_sd(rng, sd, dup=False):
    """the scenario's topology and sensitive addresses with everything else as favourable to the attacker as the
    domain allows (one root exploit of cost 1 that works everywhere, open firewalls, non-sensitive hosts worth 1):
    the optimum return then comes as close to the advertised bound as the topology lets it.  dup: the cheap
    exploit is the SECOND definition for its (service, os) pair, the first one costs 3."""
    n = len(sd["subnets"])
    # discovery values only where a scan can earn them (hosts of public subnets are discovered from the start)
    cfg = lambda a: dict(os=[True], srv=[True], proc=[True], val=1,   # noqa: E731
                         dval=0 if sd["topo"][a[0]][0] else rng.choice([0, 1]), fw={})
    hosts = [(a, cfg(a)) for a, _ in sd["hosts"]]
    hm = dict(hosts)
    for a, _ in sd["sens"]:
        hm[a]["val"] = 100
    ex = [dict(srv=0, os=0 if dup else None, prob=1.0, cost=1, acc=2)]
    if dup:
        ex = [dict(srv=0, os=0, prob=1.0, cost=3, acc=2)] + ex
    return dict(subnets=list(sd["subnets"]), topo=[list(r) for r in sd["topo"]], nos=1, nsrv=1, nproc=1, exploits=ex,
                privescs=[], costs=(1, 1, 1, 1),
                fw={(s_, t_): [0] for s_ in range(n) for t_ in range(n) if s_ != t_ and sd["topo"][s_][t_]},
                hosts=hosts, sens=[(a, 100) for a, _ in sd["sens"]], limit=None, bounds=tuple(sd["bounds"]))


def star_sd(k):
    n = k + 2
    con = lambda s, t: s == t or (s <= 1 and t <= 1) or (s == 1 and t >= 2) or (t == 1 and s >= 2)   # noqa: E731
    topo = [[int(con(s, t)) for t in range(n)] for s in range(n)]
    fw = {(s, t): [0] for s in range(n) for t in range(n) if s != t and con(s, t)}
    hosts = [((s, 0), dict(os=[True], srv=[True], proc=[True], val=100 if s >= 2 else 0, dval=0, fw={}))
             for s in range(1, n)]
    return dict(subnets=[1] * n, topo=topo, nos=1, nsrv=1, nproc=1,
                exploits=[dict(srv=0, os=None, prob=1.0, cost=1, acc=2)], privescs=[], costs=(1, 1, 1, 1),
                fw=fw, hosts=hosts, sens=[((s, 0), 100) for s in range(2, n)], limit=None, bounds=(n, 1))


def cliques_sd(k):
    """k public single-host sensitive subnets in two cliques joined only through the internet (no branching:
    the walk the original computation minimises IS the number of hosts); k + 1 waypoints to permute"""
    n, half = k + 1, k // 2
    con = lambda s, t: int(s == t or s == 0 or t == 0 or ((s <= half) == (t <= half)))   # noqa: E731
    topo = [[con(s, t) for t in range(n)] for s in range(n)]
    fw = {(s, t): [0] for s in range(n) for t in range(n) if s != t and con(s, t)}
    hosts = [((s, 0), dict(os=[True], srv=[True], proc=[True], val=100, dval=0, fw={})) for s in range(1, n)]
    return dict(subnets=[1] * n, topo=topo, nos=1, nsrv=1, nproc=1,
                exploits=[dict(srv=0, os=None, prob=1.0, cost=1, acc=2)], privescs=[], costs=(1, 1, 1, 1),
                fw=fw, hosts=hosts, sens=[((s, 0), 100) for s in range(1, n)], limit=None, bounds=(n, 1))


def optimum_return(env, max_states=40000):
    """max total reward over episodes of the real environment that end in a goal state
    (draws forced to succeed; only state-changing steps matter because every action costs >= 1)"""
    shim = Shim()
    shim.k = 0
    n_act = int(env.action_space.n)
    actions = [env.action_space.get_action(i) for i in range(n_act)]
    memo = {}
    NEG = float("-inf")
    stack = {}          # states on the current search path -> (reward collected on the way to them, actions so far)
    cycles = []         # state-changing steps that lead BACK to a state on the path with a positive balance

    def best(state, cum=0.0, sofar=()):
        key = state.tensor.tobytes()
        if key in stack and cum - stack[key][0] > 1e-9 and not cycles:
            cycles.append((list(stack[key][1]), list(sofar[len(stack[key][1]):]), cum - stack[key][0]))
        if key in memo:
            return memo[key]
        if len(memo) > max_states:
            raise OverflowError
        memo[key] = (NEG, [])     # (a cycle through state-changing steps -- impossible when states only grow -- ends here)
        stack[key] = (cum, sofar)
        res = (0.0, []) if env.goal_reached(state) else (NEG, [])
        loop = None
        for i, a in enumerate(actions):
            if a.prob <= 0:
                continue
            shim.install()
            try:
                ns, _, rew, done, info = env.generative_step(state, a)
            finally:
                shim.remove()
            if ns.tensor.tobytes() == key:
                if rew > 1e-9 and (loop is None or rew > loop[1]):
                    loop = (i, float(rew))      # a step that changes nothing and still earns: repeatable
                continue
            sub, path = best(ns, cum + float(rew), sofar + (i,))
            if sub != NEG and rew + sub > res[0]:
                res = (float(rew) + sub, [i] + path)
        if loop is not None and res[0] != NEG:
            # the goal is reachable from here and a repeatable step pays: 50 repetitions are already an episode
            res = (res[0] + 50 * loop[1], [loop[0]] * 50 + res[1])
        memo[key] = res
        del stack[key]
        return res
    env.reset()
    top = best(env.current_state)
    if cycles and top[0] != NEG:
        # states came back to an earlier one with a positive balance: the cycle can be repeated before going for the goal
        prefix, cyc, gain = cycles[0]
        env.reset()
        reach = best_from_prefix(env, actions, shim, prefix, memo)
        if reach is not None:
            top = (reach[0] + 30 * gain, prefix + cyc * 30 + reach[1])
    return top, len(memo)


def best_from_prefix(env, actions, shim, prefix, memo):
    """(reward of the prefix + best continuation from the state it leads to, continuation) or None"""
    st, tot = env.current_state, 0.0
    for i in prefix:
        shim.install()
        try:
            st, _, rew, _, _ = env.generative_step(st, actions[i])
        finally:
            shim.remove()
        tot += float(rew)
    res = memo.get(st.tensor.tobytes())
    if res is None or res[0] == float("-inf"):
        return None
    return (tot + res[0], list(res[1]))


def run(ctx, spec):
    pid, tier, seed = ctx["pid"], ctx["tier"], ctx["seed"]
    rng = random.Random(seed)
    n_tie, n_opt = spec["sizes"][tier]
    from nasim.envs.environment import NASimEnv
    out = dict(violations=[], evaluations=0, distinct_nontrivial=0, samples=[], correspondence={})
    # ---- tie: hops and bound on random topologies (chains, stars, trees, cycles, several public subnets)
    sds = [scen.random_sd(rng, max_subnets=6) for _ in range(n_tie)] + [star_sd(k) for k in (1, 2, 3, 4)] \
        + [cliques_sd(k) for k in (5, 7, 8)]
    wires = [scen.sd_wire(sd) for sd in sds]
    mo = []
    for i in range(0, len(wires), 25):
        mo += run_driver([[11, wires[i:i + 25]]])[0]
    cmds = [[11, wires[i:i + 5]] for i in range(0, min(len(wires), 15), 5)]
    cc = run_driver(cmds)
    if coq_eval_cases(list(zip(cmds, cc)), f"{pid}_{tier}"):
        raise RuntimeError("extracted driver and vm_compute disagree on hop-count commands")
    distinct = set()
    for sd, m in zip(sds, mo):
        env = NASimEnv(scen.sd_to_scenario(sd))
        hops = int(env.get_minimum_hops())
        try:
            bound = fx(float(env.get_score_upper_bound()))
        except Exception:   # noqa: BLE001
            bound = None
        out["evaluations"] += 1
        distinct.add(json.dumps(sd["topo"]) + json.dumps([a for a, _ in sd["sens"]]))
        if hops != m[0] or bound != m[1]:
            out["violations"].append(dict(
                kind="broken-correspondence", property=pid, failing_input_found=False,
                broken="hop-count / score-bound correspondence (implementation vs. model)", scenario=sd,
                what="get_minimum_hops()/get_score_upper_bound() differ from the model's values",
                impl=[hops, bound], model=m[:2]))
    # ---- the property itself on the real environment
    cases = [("star2", star_sd(2)), ("star3", star_sd(3))] + [(f"random{i}", domain_sd(rng)) for i in range(n_opt)]
    # where the tie broke, the search for a failing input starts: the same topology inside the property's domain
    broken = [v for v in out["violations"] if v["kind"] == "broken-correspondence"]
    for j, v in enumerate(broken[:12]):
        cases.append((f"tie-broken{j}.tight-1-per-subnet", tight_sd(rng, one_per_subnet(v["scenario"]))))
        if len(v["scenario"]["hosts"]) > 7:
            continue
        cases.append((f"tie-broken{j}.random", to_domain(rng, v["scenario"])))
        cases.append((f"tie-broken{j}.tight", tight_sd(rng, v["scenario"])))
        cases.append((f"tie-broken{j}.tight-dup", tight_sd(rng, v["scenario"], dup=True)))
    wires = [scen.sd_wire(sd) for _, sd in cases]
    mo = []
    for i in range(0, len(wires), 25):
        mo += run_driver([[11, wires[i:i + 25]]])[0]
    solved, goal_unreachable, too_big = 0, 0, 0
    for (name, sd), m in zip(cases, mo):
        hops, bound, steiner, in_domain, wf = m
        if not wf or not in_domain:
            continue
        env = NASimEnv(scen.sd_to_scenario(sd), fully_obs=True, flat_actions=True, flat_obs=True)
        try:
            (opt, path), nstates = optimum_return(env)
        except OverflowError:
            too_big += 1
            continue
        out["evaluations"] += nstates
        if opt == float("-inf"):
            goal_unreachable += 1
            continue
        solved += 1
        distinct.add(json.dumps(wires[cases.index((name, sd))]))
        adv = float(env.get_score_upper_bound())
        ihops = int(env.get_minimum_hops())
        # the recorded finding D13 is the ORIGINAL computation (the model's walk length) being too large;
        # any other value the implementation advertises is not that finding
        as_modelled = ihops == hops and fx(adv) == bound
        if len(out["samples"]) < 3:
            out["samples"].append(dict(scenario=name, advertised_bound=adv, optimum_return=opt, min_hops=hops,
                                       hosts_that_must_be_compromised=steiner, best_episode=path))
        if opt > adv + 1e-9:
            neg_dval = any(c["dval"] < 0 for _, c in sd["hosts"])
            if hops > steiner and as_modelled:
                sig = "hops-is-walk-length"
            elif neg_dval and as_modelled:
                sig = "negative-discovery-value"
            else:
                sig = None
            out["violations"].append(dict(
                kind="scenario+episode", property=pid, failing_input_found=True, signature=sig, scenario=sd, name=name,
                what=f"a goal-reaching episode of the real environment earns {opt} > advertised upper bound {adv} "
                     f"(advertised min hops {ihops}, hosts that must be compromised {steiner})",
                episode_flat_action_indices=path, optimum=opt, advertised=adv))
        elif ihops > steiner and not as_modelled:
            out["violations"].append(dict(
                kind="scenario", property=pid, failing_input_found=True, signature=None, scenario=sd, name=name,
                what=f"advertised minimum hops {ihops} exceeds the {steiner} hosts that must be compromised "
                     f"(the original computation gives {hops})"))
        elif hops > steiner and name.startswith("star"):
            out["violations"].append(dict(
                kind="scenario", property=pid, failing_input_found=True, signature="hops-is-walk-length", scenario=sd,
                name=name, what=f"advertised minimum hops {hops} exceeds the {steiner} hosts that must be compromised"))
    out["distinct_nontrivial"] = len(distinct)
    out["rule"] = ("tie: random topologies + stars, hops and bound compared with the model; property: exact optimum "
                   "return over ALL goal-reaching episodes of small random scenarios in the cost/value domain "
                   "(every cost >= 1, non-sensitive values <= 1, discovery values of any sign), computed on the real "
                   "environment by dynamic programming over its complete reachable state graph (draws forced to "
                   "succeed), compared with get_score_upper_bound(); evaluations = scenarios + states expanded")
    out["correspondence"] = dict(tie_scenarios=len(sds), optimum_scenarios_solved=solved,
                                 goal_unreachable=goal_unreachable, state_graph_too_big=too_big,
                                 in_kernel_crosscheck=dict(commands=len(cmds), differing=0))
    out["exhaustive"] = True
    out["states"] = out["evaluations"]
    out["explanation"] = ("C20's full statement is REFUTED for the faithful model by kernel-checked witnesses "
                          "(theorems C20_hops_le_hosts_refuted, C20_bound_refuted); what holds is proved: C20_sound_bound "
                          "(S + D - |sensitive hosts| bounds every goal-reaching episode) and "
                          "C20_advertised_bound_valid_when (the advertised bound is valid whenever hops <= |sensitive hosts|)")
    return out


def replay(ctx, spec, payload):
    from nasim.envs.environment import NASimEnv
    import check_dyn
    sd = check_dyn.fix_sd(payload["scenario"])
    env = NASimEnv(scen.sd_to_scenario(sd))
    (opt, path), _ = optimum_return(env)
    adv = float(env.get_score_upper_bound())
    print(json.dumps(dict(optimum=opt, advertised=adv, hops=int(env.get_minimum_hops()))))
    if opt > adv + 1e-9:
        print(f"VIOLATION property={ctx['pid']} replay=<given>")
        return 1
    return 0
