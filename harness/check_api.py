"""Checks for observations, vector layout, Gymnasium contract, action spaces, modes and the
generative step (C08-C13).  Each judges implementation behaviour against values computed
by the Coq model (extracted driver) from the implementation's own inputs; disagreements
are direct failing inputs because the theorems prove the model's value is the prescribed one."""
import itertools
import json
import random
import traceback

import numpy as np

import dyn
import scen
from common import run_driver, run_driver_parallel, coq_eval_cases, fx, pz_of, TWO53, U, Timer, Inexact
from impl import ImplRunner, state_wire, mat_wire, result_wire, decode_row, BAD


# ---------------------------------------------------------------------------
def action_wire(a, sd):
    """nasim Action object -> wire action (names -> positions)"""
    from nasim.envs import action as A
    osn, srvn, procn = scen.names(sd)
    t = [int(a.target[0]), int(a.target[1])]
    if isinstance(a, A.NoOp):
        return [6, t, fx(a.cost), pz_of(a.prob), int(a.req_access), 0, 0, [], 0]
    kinds = {A.ServiceScan: 0, A.OSScan: 1, A.SubnetScan: 2, A.ProcessScan: 3}
    for cls, k in kinds.items():
        if isinstance(a, cls):
            return [k, t, fx(a.cost), pz_of(a.prob), int(a.req_access), 0, 0, [], 0]
    o = [] if a.os is None else [osn.index(a.os)]
    if isinstance(a, A.Exploit):
        return [4, t, fx(a.cost), pz_of(a.prob), int(a.req_access), srvn.index(a.service), 0, o, int(a.access)]
    if isinstance(a, A.PrivilegeEscalation):
        return [5, t, fx(a.cost), pz_of(a.prob), int(a.req_access), 0, procn.index(a.process), o, int(a.access)]
    return [BAD]


def base_outcome(report=None):
    o = dict(violations=[], evaluations=0, distinct_nontrivial=0, samples=[], correspondence={})
    if report:
        o["evaluations"] = report["ops"]
        o["distinct_nontrivial"] = report["distinct_nontrivial"]
        o["correspondence"] = dict(cases=report["cases"], ops=report["ops"], stats=report["stats"])
    return o


def viol(pid, what, **kw):
    return dict(kind=kw.pop("kind", "api-record"), property=pid, failing_input_found=True, what=what, **kw)


def crosscheck(pid, tier, cmds_outs, k, seed):
    """in-kernel vm_compute evaluation of a sample of the driver commands of this run"""
    rng = random.Random(seed ^ 0xC0C)
    pairs = [p for p in cmds_outs if p[1] != [-1]]
    sample = rng.sample(pairs, min(k, len(pairs)))
    if not sample:
        return dict(cases=0, differing=0)
    fails = coq_eval_cases(sample, f"{pid}_{tier}")
    if fails:
        raise RuntimeError(f"extracted driver and vm_compute disagree on commands {fails}")
    return dict(cases=len(sample), evaluated_in_kernel=getattr(coq_eval_cases, 'evaluated', 0), differing=0)


def flat_of(mat):
    return [x for r in mat for x in r]


def present(mat, flat_obs):
    return [flat_of(mat)] if flat_obs else mat


# ---------------------------------------------------------------------------
# C08: observations
def run_c08(ctx, spec):
    pid, tier, seed = ctx["pid"], ctx["tier"], ctx["seed"]
    ncases, nops = spec["sizes"][tier]
    cfg = dict(traj_fields={"error"}, resync_fields={"disc"}, scan_bias=0.35)
    report, bad, cases, rdiffs = dyn.run_stream(pid, seed, ncases, nops, cfg, jobs=12)
    out = base_outcome(report)
    # which hosts a subnet scan reports (and therefore reveals) is prescribed by the scenario's topology, not by
    # whatever the implementation's result says: compared per step with the model from the implementation's pre-state
    for c, i, f, iv, mv, r in rdiffs[:3]:
        out["violations"].append(viol(pid, "a subnet scan reports / reveals other hosts than those of the subnets "
                                           "connected to the scanning host's subnet", kind="obs-record", scenario=c["sd"],
                                      modes=c["modes"], history=c["ops"][:i + 1], op_index=i, impl=str(iv)[:600],
                                      prescribed=str(mv)[:600]))
    out["rule"] = ("every observation returned by reset/step/generative_step in random histories under random mode "
                   "combinations is compared entry by entry (2-D and 1-D) with the model's get_observation / "
                   "initial_observation evaluated on the implementation's own next state, action and result; "
                   "non-trivial = observation with at least one non-zero host entry; distinct by content")
    cmds, index = [], []
    for c in cases:
        recs, _, resets = dyn.records_of(c)
        items, where = [], []
        for i, r in recs:
            if dyn.has_bad(r[3]) or dyn.has_bad(r[4]):
                continue
            items.append([c["modes"][0], r[3], r[1], r[4]])
            where.append(i)
        for i, _, after in resets:
            if not dyn.has_bad(after):
                items.append([c["modes"][0], after])
                where.append(i)
        if items:
            cmds.append([7, c["cmd"][1], items])
            index.append((c, where))
    outs = run_driver_parallel(cmds, jobs=12) if cmds else []
    compared, nontriv = 0, set()
    for (c, where), mo in zip(index, outs):
        if mo == [-1]:
            out["violations"].append(dict(kind="broken-correspondence", property=pid, failing_input_found=False,
                                          broken="C08 observation stream: model rejects the recorded input",
                                          scenario=c["sd"], what="undecodable record"))
            continue
        for i, m in zip(where, mo):
            impl_o = c["impl"][i]
            impl_obs = impl_o[1] if impl_o[0] == 0 else impl_o[1][1]
            want = present(m, c["modes"][2])
            compared += 1
            if any(x != 0 for r in m[:-1] for x in r):
                nontriv.add(hash(json.dumps(m)))
            if impl_obs != want:
                j = next((jj for jj, (a, b) in enumerate(zip(flat_of(impl_obs), flat_of(want))) if a != b), None)
                out["violations"].append(viol(
                    pid, "the observation returned by the implementation is not the one the property prescribes "
                         f"for its own next state/action/result (first differing flat entry {j})",
                    kind="obs-record", scenario=c["sd"], modes=c["modes"], history=c["ops"][:i + 1], op_index=i,
                    impl=str(impl_obs)[:3000], prescribed=str(want)[:3000]))
    out["correspondence"].update(observations_compared=compared,
                                 in_kernel_crosscheck=crosscheck(pid, tier, list(zip(cmds, outs)),
                                                                 spec["coq_sample"][tier], seed))
    out["evaluations"] = compared
    out["distinct_nontrivial"] = len(nontriv)
    out["traces_validated_against_impl"] = compared
    out["samples"] = [dict(scenario=c["name"], modes=c["modes"], ops=c["ops"][:4]) for c in cases[:2]]
    for c in bad:
        out["violations"].append(dict(kind="broken-correspondence", property=pid, failing_input_found=False,
                                      broken="C08 stream: implementation raised on a valid operation",
                                      scenario=c["sd"], modes=c["modes"], ops=c["ops"][:c["diff"][0] + 1],
                                      impl_error=c.get("errs"), what="unexpected exception"))
    out["violations"] = out["violations"][:5]
    return out


# ---------------------------------------------------------------------------
def scenario_pool(rng, n, cfg=None):
    gen = dyn.CaseGen(rng, cfg or {})
    return [gen.pick_scenario() for _ in range(n)]


def walk_states(rng, scenario, sd, nsteps):
    """a few implementation states along a guided random walk (flat actions, 2-D obs)"""
    gen = dyn.CaseGen(rng, {})
    runner = ImplRunner(scenario, sd, [1, 1, 0])
    flat = run_driver([[1, scen.sd_wire(sd)]])[0][0]
    by_target = {}
    for i, a in enumerate(flat):
        by_target.setdefault(tuple(a[1]), []).append(i)
    states = [runner.env.current_state.copy()]
    for _ in range(nsteps):
        ai = gen.pick_action(runner, flat, by_target)
        runner.run_op([1, [0, ai], 0])
        states.append(runner.env.current_state.copy())
    return runner, states


# C09: layout
def run_c09(ctx, spec):
    pid, tier, seed = ctx["pid"], ctx["tier"], ctx["seed"]
    rng = random.Random(seed)
    nscen, nsteps = spec["sizes"][tier]
    out = base_outcome()
    out["rule"] = ("per scenario (random incl. enlarged address bounds and 1-3 OS/services/processes, shipped, "
                   "generated): the initial tensor is decoded with the harness's independent documented-layout "
                   "decoder and compared with every host definition; the model's encode_state is compared entry by "
                   "entry with implementation tensors along a random walk; from_numpy / get_readable round trips; "
                   "advertised dims; non-trivial = distinct (scenario, state) pairs")
    from nasim.envs.state import State
    from nasim.envs.observation import Observation
    from nasim.envs.host_vector import HostVector
    cmds_outs = []
    evals, distinct = 0, set()
    pool9 = scenario_pool(rng, nscen)
    for _w in range(2 if tier == "quick" else 12):
        sdw_ = scen.random_sd(rng, max_subnets=3, max_size=2, wide_frac=1.0)      # host vectors wider than 256 entries
        pool9.append(("random-wide", sdw_, scen.sd_to_scenario(sdw_)))
    for name, sd, scenario in pool9:
        try:
            if rng.random() < 0.5:
                # an environment for the same names in another order was alive in this process before
                from nasim.envs.environment import NASimEnv as _E
                _E(scen.sd_to_scenario(scen.permuted_sibling(sd)))
            runner, states = walk_states(rng, scenario, sd, nsteps)
            env = runner.env
            init_states = [states[0]]
            if rng.random() < 0.5:
                # the other documented constructor of states was used on this environment before: what reset() and
                # generate_initial_state() hand out afterwards is still the scenario's own initial state
                try:
                    env.generate_random_initial_state()
                except Exception:   # noqa: BLE001
                    pass
                env.reset()
                init_states += [env.current_state.copy(), env.generate_initial_state()]
            lay = runner.lay
            osn, srvn, procn = scen.names(sd)
            sdw = scen.sd_wire(sd)
            spaces = run_driver([[1, sdw]])[0]
            # (a) initial tensor decodes to the scenario's host definitions
            for st0_ in init_states:
                rows0 = state_wire(st0_.tensor, lay)
                for (a, c), row in zip(sd["hosts"], rows0):
                    pub = bool(sd["topo"][a[0]][0])
                    want = [[a[0], a[1]], 0, int(pub), int(pub), fx(c["val"]), fx(c["dval"]), 0,
                            [int(b) for b in c["os"]], [int(b) for b in c["srv"]], [int(b) for b in c["proc"]]]
                    evals += 1
                    if row != want:
                        out["violations"].append(viol(pid, "decoding the initial state with the documented layout does "
                                                           "not reproduce the scenario's host definition",
                                                      scenario=sd, host=a, decoded=row, definition=want,
                                                      after_generate_random_initial_state=st0_ is not states[0]))
                        break
            # (b) dims
            if list(scenario.get_state_dims()) != spaces[3] or list(scenario.get_observation_dims()) != spaces[4] \
               or list(states[0].tensor.shape) != spaces[3]:
                out["violations"].append(viol(pid, "advertised state/observation dimensions differ from the documented "
                                                   "layout's", scenario=sd,
                                              impl=[list(scenario.get_state_dims()), list(scenario.get_observation_dims())],
                                              prescribed=[spaces[3], spaces[4]]))
            # (c) model encode_state == implementation tensor, along the walk
            sts = [state_wire(s.tensor, lay) for s in states]
            good = [i for i, s in enumerate(sts) if not dyn.has_bad(s)]
            cmd = [8, sdw, [sts[i] for i in good]]
            enc = run_driver([cmd])[0]
            cmds_outs.append((cmd, enc))
            for i, e in zip(good, enc):
                evals += 1
                distinct.add(hash(json.dumps(sts[i])))
                if mat_wire(states[i].tensor) != e[0]:
                    out["violations"].append(viol(pid, "state tensor differs from the documented encoding of its own "
                                                       "decoded rows", scenario=sd, state=sts[i],
                                                  impl=mat_wire(states[i].tensor), prescribed=e[0]))
            if len(good) != len(sts):
                out["violations"].append(viol(pid, "a state row is not decodable with the documented layout",
                                              scenario=sd, states=[s for s in sts if dyn.has_bad(s)][:1]))
            # (d) round trips through the public constructors and readable decoders
            for s in states:
                t = s.tensor
                s2 = State.from_numpy(t.flatten(), t.shape, s.host_num_map)
                ok = np.array_equal(s2.tensor, t) and np.array_equal(s.numpy_flat(), t.flatten(order="C"))
                # the same content handed over in another memory layout (column-major copy, a frame of a
                # column-major rollout buffer, a strided view): flattening is row-major whatever the layout
                buf = np.zeros((3,) + t.shape, order="F", dtype=t.dtype)
                buf[1] = t
                wide = np.zeros((t.shape[0], 2 * t.shape[1]), dtype=t.dtype)
                wide[:, ::2] = t
                for alt in (np.asfortranarray(t), buf[1], wide[:, ::2]):
                    s3 = State.from_numpy(alt, t.shape, s.host_num_map) if alt.shape == t.shape else None
                    if s3 is not None:
                        ok = ok and np.array_equal(s3.numpy_flat(), t.flatten(order="C")) \
                            and np.array_equal(s3.copy().numpy_flat(), t.flatten(order="C"))
                AR = __import__("nasim.envs.action", fromlist=["ActionResult"]).ActionResult
                NoOp_ = __import__("nasim.envs.action", fromlist=["NoOp"]).NoOp
                for res_, flags_ in ((AR(False, connection_error=True), [0.0, 1.0, 0.0, 0.0]),
                                     (AR(False, permission_error=True), [0.0, 0.0, 1.0, 0.0]),
                                     (AR(False, undefined_error=True), [0.0, 0.0, 0.0, 1.0]),
                                     (AR(True), [1.0, 0.0, 0.0, 0.0])):
                    # an ordinary action and the no-op, fully and partially observable: the auxiliary row always
                    # leads with the four flags of the result, in the documented order
                    for act_, fo_ in ((runner.env.action_space.get_action(0), True), (NoOp_(), True),
                                      (NoOp_(), False), (runner.env.action_space.get_action(0), False)):
                        o = s.get_observation(act_, res_, fo_)
                        o2d = o.numpy().copy()
                        fbuf = np.zeros((2,) + o2d.shape, order="F", dtype=o2d.dtype)
                        fbuf[0] = o2d
                        for arr in (o.numpy_flat(), o.numpy().copy(), np.asfortranarray(o2d), fbuf[0]):
                            o2 = Observation.from_numpy(arr, t.shape)
                            ok = ok and np.array_equal(o2.numpy(), o.tensor) and np.array_equal(o2.numpy_flat(), o.numpy_flat())
                            r2, aux2 = o2.get_readable()
                            ok = ok and [float(aux2[k_]) for k_ in ("Success", "Connection Error", "Permission Error",
                                                                     "Undefined Error")] == flags_
                            # the readable host rows say what the array's entries say (also where nothing was observed)
                            p0_ = lay[0] + lay[1] + 6
                            for rd_, raw_ in zip(r2, np.asarray(o2.numpy())[:-1]):
                                for j_, n_ in enumerate(list(osn) + list(srvn) + list(procn)):
                                    if len(set(list(osn) + list(srvn) + list(procn))) == len(osn) + len(srvn) + len(procn):
                                        ok = ok and bool(rd_[n_]) == bool(raw_[p0_ + j_])
                        ok = ok and np.array_equal(o.numpy_flat(), o.tensor.flatten(order="C"))
                        ok = ok and o.tensor.shape == (t.shape[0] + 1, t.shape[1])
                        aux = [float(x) for x in o.tensor[-1]]
                        ok = ok and aux[:4] == flags_ and not any(aux[4:])
                readable = s.get_readable()
                rows = state_wire(t, lay)
                for rd, row in zip(readable, rows):
                    want = {"Address": (row[0][0], row[0][1]), "Compromised": bool(row[1]), "Reachable": bool(row[2]),
                            "Discovered": bool(row[3]), "Value": row[4] / U, "Discovery Value": row[5] / U,
                            "Access": float(row[6])}
                    for n_, b in zip(osn, row[7]):
                        want[n_] = bool(b)
                    for n_, b in zip(srvn, row[8]):
                        want[n_] = bool(b)
                    for n_, b in zip(procn, row[9]):
                        want[n_] = bool(b)
                    got = {k: (tuple(int(x) for x in v) if k == "Address" else
                               (float(v) if k in ("Value", "Discovery Value", "Access") else v)) for k, v in rd.items()}
                    ok = ok and got == want
                ro, raux = o.get_readable()
                ok = ok and raux == {"Success": True, "Connection Error": False, "Permission Error": False,
                                     "Undefined Error": False} and len(ro) == t.shape[0]
                evals += 1
                if not ok:
                    out["violations"].append(viol(pid, "from_numpy / flatten / get_readable round trip does not give "
                                                       "back the same content", scenario=sd,
                                                  state=state_wire(t, lay)))
            # (e) ONE Observation object through a random history of its public writers and readers: after
            # every call the 1-D form is the row-major flattening of the 2-D form, the four flags lead the
            # auxiliary row in the documented order, and the host rows are those last written
            AR = __import__("nasim.envs.action", fromlist=["ActionResult"]).ActionResult
            results = ((AR(False, connection_error=True), [0.0, 1.0, 0.0, 0.0]),
                       (AR(False, permission_error=True), [0.0, 0.0, 1.0, 0.0]),
                       (AR(False, undefined_error=True), [0.0, 0.0, 0.0, 1.0]), (AR(True), [1.0, 0.0, 0.0, 0.0]))
            t0 = states[0].tensor
            o = Observation(t0.shape)
            want_rows, want_flags, hist = np.zeros(t0.shape), None, []
            for _ in range(14):
                w = rng.randrange(7)
                if w == 0:
                    s_ = rng.choice(states)
                    o.from_state(s_)
                    want_rows = s_.tensor.copy()
                    hist.append("from_state")
                elif w == 1:
                    r_, want_flags = rng.choice(results)
                    o.from_action_result(r_)
                    hist.append(f"from_action_result{want_flags}")
                elif w == 2:
                    s_ = rng.choice(states)
                    r_, want_flags = rng.choice(results)
                    o.from_state_and_action(s_, r_)
                    want_rows = s_.tensor.copy()
                    hist.append(f"from_state_and_action{want_flags}")
                elif w == 3:
                    s_ = rng.choice(states)
                    hi = rng.randrange(t0.shape[0])
                    o.update_from_host(hi, s_.tensor[hi])
                    want_rows[hi] = s_.tensor[hi]
                    hist.append(f"update_from_host({hi})")
                elif w == 4:
                    o.numpy_flat()
                    hist.append("numpy_flat")
                elif w == 5:
                    o.shape_flat()
                    hist.append("shape_flat")
                else:
                    o.numpy()
                    hist.append("numpy")
                f1, m2 = np.array(o.numpy_flat(), dtype=float), np.array(o.numpy(), dtype=float)
                ok = (np.array_equal(f1, m2.flatten(order="C")) and m2.shape == (t0.shape[0] + 1, t0.shape[1])
                      and tuple(o.shape_flat()) == f1.shape and tuple(o.shape()) == m2.shape
                      and np.array_equal(m2[:-1], want_rows)
                      and (want_flags is None or ([float(x) for x in m2[-1][:4]] == want_flags
                                                  and [float(o.success), float(o.connection_error),
                                                       float(o.permission_error), float(o.undefined_error)] == want_flags)))
                evals += 1
                if not ok:
                    out["violations"].append(viol(pid, "after a history of public calls on one Observation object its 1-D "
                                                       "form is not the row-major flattening of its 2-D form, or the "
                                                       "auxiliary flags / host rows are not those last written",
                                                  scenario=sd, history=hist, flat=[float(x) for x in f1][-t0.shape[1]:],
                                                  aux_row=[float(x) for x in m2[-1]], expected_flags=want_flags))
                    break
        except Inexact:
            raise
        except Exception:   # noqa: BLE001
            tb = traceback.format_exc()
            if "/nasim/" not in tb:
                raise
            out["violations"].append(viol(pid, "the implementation raised while its vectors were being decoded",
                                          scenario=sd, traceback=tb[-2000:]))
        if len(out["samples"]) < 2:
            out["samples"].append(dict(scenario=name, bounds=sd["bounds"], nos=sd["nos"], nsrv=sd["nsrv"],
                                       nproc=sd["nproc"], first_row=rows0[0] if 'rows0' in dir() else None))
    out["evaluations"], out["distinct_nontrivial"] = evals, len(distinct)
    out["correspondence"] = dict(scenarios=nscen, checks=evals,
                                 in_kernel_crosscheck=crosscheck(pid, tier, cmds_outs, spec["coq_sample"][tier], seed))
    out["violations"] = out["violations"][:5]
    return out


# ---------------------------------------------------------------------------
# C10: Gymnasium contract
def run_c10(ctx, spec):
    pid, tier, seed = ctx["pid"], ctx["tier"], ctx["seed"]
    rng = random.Random(seed)
    nscen, nsteps = spec["sizes"][tier]
    out = base_outcome()
    out["rule"] = ("per scenario (incl. negative host values, enlarged bounds) and mode combination: the "
                   "observation space's shape and bounds are compared with the model's obs_dims / obs_low / obs_high; "
                   "reset and step are driven with the action space's own seeded sampler (NumPy scalars / arrays); "
                   "every returned observation must be float32, of the advertised shape and inside the space; "
                   "tuple arities are checked; non-trivial = distinct (scenario, modes, sampled action)")
    from nasim.envs.environment import NASimEnv
    evals, distinct = 0, set()
    cmds_outs = []
    for name, sd, scenario in scenario_pool(rng, nscen):
        if name == "random" and rng.random() < 0.5:
            # one field of one host is the unique extreme of the whole scenario: each argument of the
            # space's min(...) / max(...) gets its turn at deciding the bound
            hs = [(a, dict(c)) for a, c in sd["hosts"]]
            a_, c_ = rng.choice([hs[0], hs[-1], rng.choice(hs)])      # first / last listed host, or any
            fld = rng.choice(["val", "dval"])
            c_[fld] = rng.choice([500, -500, 300.5, -0.5])
            sens_ = [(x, (dict(hs)[x]["val"])) for x, _ in sd["sens"]]
            sd = dict(sd, hosts=hs, sens=sens_)
            scenario = scen.sd_to_scenario(sd)
        sdw = scen.sd_wire(sd)
        cmd = [1, sdw]
        spaces = run_driver([cmd])[0]
        cmds_outs.append((cmd, spaces))
        n_flat, nvec, dims, low, high = len(spaces[0]), spaces[1], spaces[4], spaces[5], spaces[6]
        for modes in itertools.product([0, 1], repeat=3):
            if tier == "quick" and rng.random() < 0.5:
                continue
            where = dict(scenario=sd, modes=list(modes))
            try:
                env = NASimEnv(scenario, fully_obs=bool(modes[0]), flat_actions=bool(modes[1]), flat_obs=bool(modes[2]))
                sp = env.observation_space
                want_shape = (dims[0] * dims[1],) if modes[2] else (dims[0], dims[1])
                evals += 1
                if tuple(sp.shape) != want_shape or fx(float(np.min(sp.low))) != low or fx(float(np.max(sp.high))) != high \
                   or fx(float(np.max(sp.low))) != low or fx(float(np.min(sp.high))) != high:
                    out["violations"].append(viol(pid, "observation space shape/bounds differ from the advertised ones",
                                                  impl=[list(sp.shape), float(np.min(sp.low)), float(np.max(sp.high))],
                                                  prescribed=[list(want_shape), low / U, high / U], **where))
                if modes[1]:
                    if int(env.action_space.n) != n_flat:
                        out["violations"].append(viol(pid, "flat action space size differs", impl=int(env.action_space.n),
                                                      prescribed=n_flat, **where))
                else:
                    if [int(x) for x in env.action_space.nvec] != nvec:
                        out["violations"].append(viol(pid, "parameterised action space nvec differs",
                                                      impl=[int(x) for x in env.action_space.nvec], prescribed=nvec, **where))
                env.action_space.seed(rng.randrange(2 ** 31))
                r = env.reset()
                ok = isinstance(r, tuple) and len(r) == 2 and isinstance(r[1], dict)
                obs = r[0]

                def obs_ok(o):
                    return (isinstance(o, np.ndarray) and o.dtype == np.float32 and tuple(o.shape) == want_shape
                            and bool(sp.contains(o)) and fx(float(o.min())) >= low and fx(float(o.max())) <= high)
                if not (ok and obs_ok(obs)):
                    out["violations"].append(viol(pid, "reset() does not return a Gymnasium (observation, info) pair with "
                                                       "an observation inside the space", impl=str(r)[:500], **where))
                for step_no in range(nsteps):
                    a = env.action_space.sample()
                    if step_no == 0 and modes[1] and env.action_space.contains(True):
                        a = bool(step_no == 0)          # bool is an int: True is the member 1
                    # the same member in the other forms the space contains: other integer dtypes (signed and
                    # unsigned), Python ints / lists / tuples
                    if rng.random() < 0.5 and not isinstance(a, bool):
                        if modes[1]:
                            alts = [int(a), np.int32(a), np.int64(a)] + ([np.uint8(a)] if int(a) < 256 else []) + [np.uint32(a), np.uint16(a % 65536)]
                            if int(a) in (0, 1):
                                alts += [bool(int(a)), np.bool_(bool(int(a)))]        # bool is an int: the space contains it
                        else:
                            alts = [np.asarray(a, dtype=dt) for dt in (np.int32, np.uint8, np.uint16, np.uint32, np.int8)
                                    if int(np.max(a)) <= np.iinfo(dt).max] + [list(int(x) for x in a), tuple(int(x) for x in a)]
                            ro_ = np.array(a)
                            ro_.setflags(write=False)          # a read-only array is a member, too
                            alts += [ro_, np.broadcast_to(np.array(a), (2, len(a)))[1]]
                        alts = [x for x in alts if isinstance(x, (list, tuple)) or (env.action_space.contains(x) and np.all(np.asarray(x) == np.asarray(a)))]
                        if alts:
                            a = rng.choice(alts)
                    evals += 1
                    distinct.add((hash(json.dumps(sdw)), modes, str(a)))
                    try:
                        r = env.step(a)
                    except Exception as e:   # noqa: BLE001
                        out["violations"].append(viol(pid, "step() rejects a member of its own action space "
                                                           f"({type(a).__name__} from action_space.sample()): {e!r}"[:600],
                                                      action=str(a), action_type=type(a).__name__, **where))
                        break
                    ok = (isinstance(r, tuple) and len(r) == 5 and isinstance(r[2], (bool, np.bool_))
                          and isinstance(r[3], (bool, np.bool_)) and isinstance(r[4], dict)
                          and isinstance(r[1], (int, float, np.floating, np.integer)))
                    if not (ok and obs_ok(r[0])):
                        out["violations"].append(viol(pid, "step() does not return the Gymnasium 5-tuple with an "
                                                           "observation inside the space", action=str(a),
                                                      impl=str(r)[:800], **where))
                        break
                    if r[2] or r[3] or rng.random() < 0.05:
                        env.reset()
            except Inexact:
                raise
            except Exception:   # noqa: BLE001
                tb = traceback.format_exc()
                if "/nasim/" not in tb:
                    raise
                out["violations"].append(viol(pid, "the implementation raised while the environment was built/reset",
                                              traceback=tb[-2000:], **where))
        if len(out["samples"]) < 2:
            out["samples"].append(dict(scenario=name, obs_dims=dims, low=low / U, high=high / U, n_flat=n_flat, nvec=nvec))
    # ---- deep histories (guided towards root access, resets, generative steps) with NumPy-typed actions
    # (np.int64 indices, int64 arrays): every member is accepted, every observation lies inside the space
    hcfg = dict(arg_style="numpy", traj_fields={"error"}, small_values_frac=0.35, obj_frac=0.0)
    rep, bad, hcases, _ = dyn.run_stream("C10", seed + 10, 80 if tier == "quick" else 1200, (8, 40), hcfg, jobs=12)
    evals += rep["ops"]
    for c in bad:
        i, f = c["diff"]
        out["violations"].append(viol(pid, "step() / generative_step() rejects a member of the action space given as a NumPy "
                                           "integer / array (or the model and the implementation disagree on which "
                                           f"operations fail), operation {i}", kind="history", scenario=c["sd"],
                                      modes=c["modes"], ops=c["ops"][:i + 1], impl_error=c.get("errs")))
    for c in hcases:
        lo_, hi_ = c["space"]
        for i, o in enumerate(c["impl"]):
            obs_ = o[1] if o[0] == 0 else o[1][1] if o[0] in (1, 2) else None
            if obs_ is None:
                continue
            flat_ = flat_of(obs_)
            if flat_ and (min(flat_) < fx(lo_) or max(flat_) > fx(hi_)):
                out["violations"].append(viol(pid, f"an observation holds an entry outside the observation space "
                                                   f"[{lo_}, {hi_}] (operation {i})", kind="history", scenario=c["sd"],
                                              modes=c["modes"], ops=c["ops"][:i + 1],
                                              entry=[min(flat_) / U, max(flat_) / U]))
                break
    # de-duplicate identical findings
    seen, uniq = set(), []
    for v in out["violations"]:
        key = v["what"][:60]
        if key not in seen:
            seen.add(key)
            uniq.append(v)
    out["violations"] = uniq[:5]
    out["evaluations"], out["distinct_nontrivial"] = evals, len(distinct)
    out["correspondence"] = dict(scenarios=nscen, checks=evals, deep_history_ops=rep["ops"],
                                 in_kernel_crosscheck=crosscheck(pid, tier, cmds_outs, spec["coq_sample"][tier], seed))
    return out


# ---------------------------------------------------------------------------
# C11: action spaces
def run_c11(ctx, spec):
    pid, tier, seed = ctx["pid"], ctx["tier"], ctx["seed"]
    rng = random.Random(seed)
    nscen, nsteps = spec["sizes"][tier]
    out = base_outcome()
    out["rule"] = ("per scenario: the flat action list is compared index by index and field by field with the model's "
                   "flat list, its size with the advertised count, two environments' mappings with each other; every "
                   "vector of the parameterised space (exhaustively up to a cap, then sampled) is decoded by both "
                   "sides; the action mask is compared with the model's in every state of a random walk; "
                   "non-trivial = distinct (scenario, index/vector/state)")
    from nasim.envs.action import FlatActionSpace, ParameterisedActionSpace
    evals, distinct = 0, set()
    cmds_outs = []
    cap = 1500 if tier == "quick" else 20000
    pool11 = scenario_pool(rng, nscen, dict(multi_route_frac=0.35))
    sdm_ = scen.many_hosts_sd(rng)          # more than 256 hosts: row numbers that do not fit one byte
    pool11.append(("random-many-hosts", sdm_, scen.sd_to_scenario(sdm_)))
    for name, sd, scenario in pool11:
        where = dict(scenario=sd)
        try:
            sdw = scen.sd_wire(sd)
            cmd = [1, sdw]
            spaces = run_driver([cmd])[0]
            cmds_outs.append((cmd, spaces))
            mflat, nvec, size = spaces[0], spaces[1], spaces[2]
            fs = FlatActionSpace(scenario)
            impl_flat = [action_wire(fs.get_action(i), sd) for i in range(int(fs.n))]
            evals += len(impl_flat)
            if int(fs.n) != len(mflat) or int(fs.n) != size or scenario.get_action_space_size() != size:
                out["violations"].append(viol(pid, "flat action space size differs from the scenario's action count",
                                              impl=[int(fs.n), scenario.get_action_space_size()], prescribed=size, **where))
            for i, (a, b) in enumerate(zip(impl_flat, mflat)):
                if a != b:
                    out["violations"].append(viol(pid, f"flat action {i} is not the action the scenario defines at that "
                                                       "position", index=i, impl=a, prescribed=b, **where))
                    break
            fs2 = FlatActionSpace(scen.sd_to_scenario(sd) if "names" not in sd else scenario)
            if [str(fs2.get_action(i)) for i in range(int(fs2.n))] != [str(fs.get_action(i)) for i in range(int(fs.n))]:
                out["violations"].append(viol(pid, "two environments built from the same scenario map indices to "
                                                   "different actions", **where))
            ps = ParameterisedActionSpace(scenario)
            if [int(x) for x in ps.nvec] != nvec:
                out["violations"].append(viol(pid, "parameterised space nvec differs", impl=[int(x) for x in ps.nvec],
                                              prescribed=nvec, **where))
            total = 1
            for x in nvec:
                total *= x
            if total <= cap:
                vecs = [list(v) for v in itertools.product(*[range(x) for x in nvec])]
                exhaustive = True
            else:
                vecs = [[rng.randrange(x) for x in nvec] for _ in range(cap)]
                exhaustive = False
            cmd = [2, sdw, vecs]
            dec = run_driver([cmd])[0]
            if len(vecs) <= 400:
                cmds_outs.append((cmd, dec))
            flatset = set(json.dumps(a) for a in mflat)
            for v, d in zip(vecs, dec):
                evals += 1
                distinct.add((hash(json.dumps(sdw)), tuple(v)))
                try:
                    ia = action_wire(ps.get_action(rng.choice([list, tuple, np.array])(v)), sd)
                except Exception as e:   # noqa: BLE001
                    ia = ["raised", repr(e)[:200]]
                want = d[0] if d else ["raised"]
                if ia != want:
                    out["violations"].append(viol(pid, "a vector of the parameterised space does not decode to the "
                                                       "documented action", vector=v, impl=ia, prescribed=want, **where))
                    break
                if d and d[0][0] != 6 and json.dumps(d[0]) not in flatset:
                    out["violations"].append(viol(pid, "decoded action is neither the no-op nor a member of the flat set",
                                                  vector=v, impl=ia, **where))
                    break
            # the same structure with costs and probabilities that are NOT exactly representable in float32 (or as
            # multiples of 1/64): positions and definitions are the model's, cost / probability equality is the
            # implementation's own double arithmetic -- a decoded action IS the flat action, to the last bit
            sdx = dict(sd, costs=(0.1, 0.3, 0.7, 1.2),
                       exploits=[dict(e, cost=e["cost"] + 0.1, prob=min(1.0, max(0.001, float(e["prob"]) * 0.999 + 0.0003))) for e in sd["exploits"]],
                       privescs=[dict(q, cost=q["cost"] + 0.3) for q in sd["privescs"]])
            scx = scen.sd_to_scenario(sdx)
            fsx, psx = FlatActionSpace(scx), ParameterisedActionSpace(scx)
            pos = {json.dumps(a): j for j, a in reversed(list(enumerate(mflat)))}
            for v, d in list(zip(vecs, dec))[:600]:
                if not d or d[0][0] == 6:
                    continue
                j = pos.get(json.dumps(d[0]))
                if j is None:
                    continue
                a_, b_ = psx.get_action(list(v)), fsx.get_action(j)
                evals += 1
                if not (a_ == b_ and a_.cost == b_.cost and a_.prob == b_.prob and type(a_) is type(b_)):
                    out["violations"].append(viol(pid, "a vector of the parameterised space decodes to an action that is not "
                                                       "the member of the flat set at its position (costs / probabilities "
                                                       "that are not exactly representable in single precision)",
                                                  vector=v, decoded=[str(a_), repr(float(a_.cost)), repr(float(a_.prob))],
                                                  flat_member=[str(b_), repr(float(b_.cost)), repr(float(b_.prob))],
                                                  scenario=sdx))
                    break
            # the mask in the states of several independent walks (other routes, equal numbers of discovered
            # hosts), visited in random order on ONE environment: it is a function of the current state alone
            runner, states = walk_states(rng, scenario, sd, nsteps)
            for _w in range(3):
                states = states + walk_states(rng, scenario, sd, nsteps + 6)[1]
            rng.shuffle(states)
            sts = [state_wire(s.tensor, runner.lay) for s in states]
            cmd = [8, sdw, sts]
            enc = run_driver([cmd])[0]
            env = runner.env
            for s, st_w, e in zip(states, sts, enc):
                env.current_state = s
                evals += 1
                distinct.add((hash(json.dumps(sdw)), hash(json.dumps(st_w))))
                try:
                    m = [int(x) for x in env.get_action_mask()]
                    if not isinstance(env.get_action_mask(), np.ndarray):
                        m = ["not an ndarray"]
                except Exception as ex:   # noqa: BLE001
                    m = ["raised", repr(ex)[:300]]
                if m != e[1]:
                    out["violations"].append(viol(pid, "the action mask is not 'target host discovered' per flat action",
                                                  state=st_w, impl=m, prescribed=e[1], **where))
                    break
            if len(out["samples"]) < 2:
                out["samples"].append(dict(scenario=name, n_flat=size, nvec=nvec, vectors=len(vecs), exhaustive=exhaustive,
                                           first_actions=mflat[:3]))
        except Inexact:
            raise
        except Exception:   # noqa: BLE001
            tb = traceback.format_exc()
            if "/nasim/" not in tb:
                raise
            out["violations"].append(viol(pid, "the implementation raised while its action spaces were enumerated",
                                          traceback=tb[-2000:], **where))
    # the mask along whole histories (mask queries right after resets, between steps, after further resets)
    hcfg = dict(need_flat=True, traj_fields={"mask", "error"},
                op_weights=dict(step=0.5, gen=0.04, reset=0.14, goal=0.02, mask=0.3),
                mask_choices=[0.3, 0.3, 0.08, 0.03], multi_route_frac=0.4)
    rep, bad, hcases, _ = dyn.run_stream("C11", seed + 11, 150 if tier == "quick" else 1500, (8, 50), hcfg, jobs=12)
    evals += rep["ops"]
    for c in bad:
        i, f = c["diff"]
        out["violations"].append(viol(pid, f"along this history the action mask (field '{f}') at operation {i} is not "
                                           "'target host discovered' per flat action", kind="history",
                                      scenario=c["sd"], modes=c["modes"], ops=c["ops"][:i + 1],
                                      impl=str(dyn.split_out(c["impl"][i]).get(f))[:600],
                                      prescribed=str(dyn.split_out(c["model"][1][i]).get(f))[:600] if c["model"] != [-1] else None))
    seen, uniq = set(), []
    for v in out["violations"]:
        key = v["what"][:60]
        if key not in seen:
            seen.add(key)
            uniq.append(v)
    out["violations"] = uniq[:5]
    out["evaluations"], out["distinct_nontrivial"] = evals, len(distinct)
    out["correspondence"] = dict(scenarios=nscen, checks=evals, mask_history_ops=rep["ops"],
                                 in_kernel_crosscheck=crosscheck(pid, tier, cmds_outs, spec["coq_sample"][tier], seed))
    return out


# ---------------------------------------------------------------------------
# C12: modes
def semantic_case(rng, sd, scenario, nops):
    """a mode-free history: list of ('reset',) | ('step', flat index, vector, k) whose action is
    expressible identically in both action spaces (checked with the model's decoder)"""
    sdw = scen.sd_wire(sd)
    flat = run_driver([[1, sdw]])[0][0]
    vecs = [dyn.param_vector(rng, sd, wa) for wa in flat]
    dec = run_driver([[2, sdw, vecs]])[0]
    same = [i for i, (wa, d) in enumerate(zip(flat, dec)) if d and d[0] == wa]
    runner = ImplRunner(scenario, sd, [1, 1, 0])
    gen = dyn.CaseGen(rng, {})
    by_target = {}
    for i in same:
        by_target.setdefault(tuple(flat[i][1]), []).append(i)
    hist = []
    if not same:
        return sdw, hist
    worked, retry = [], []
    ban = set()          # subnets the current episode stays out of (another route after a reset)

    def changing(limit=40):
        """actions of `same` that change the implementation's current state when their draw succeeds"""
        env, st0 = runner.env, runner.env.current_state
        cands = [i for i in same if flat[i][1][0] not in ban and flat[i][0] != 6]
        rng.shuffle(cands)
        res = []
        for i in cands[:limit]:
            runner.shim.k, runner.shim.calls = 0, 0
            runner.shim.install()
            try:
                ns = env.generative_step(st0, runner.arg([0, i]))[0]
            except Exception:   # noqa: BLE001
                continue
            finally:
                runner.shim.remove()
            if not np.array_equal(ns.tensor, st0.tensor):
                res.append(i)
        return res
    since_reset = 0
    for _ in range(nops):
        since_reset += 1
        if rng.random() < (0.06 if since_reset < 8 else 0.15):
            hist.append(("reset",))
            st = np.asarray(runner.env.current_state.tensor)
            p_ = runner.lay[0] + runner.lay[1]
            comp_subnets = sorted({runner.addrs[i][0] for i, row in enumerate(st) if row[p_]})
            runner.run_op([0])
            since_reset = 0
            # after a reset: what worked before -- replayed in order (deep states again), latest first
            # (targets now out of reach), or a random part of it in order while the episode stays out of one
            # subnet it went through before (another way in, then the same deep targets: pivots,
            # reachability and firewalls differ from the first episode)
            x_ = rng.random()
            ban = set()
            if x_ < 0.3:
                retry = list(reversed(worked[-8:]))
            elif x_ < 0.45:
                retry = list(worked[-6:])
            else:
                deep = flat[worked[-1]][1][0] if worked else None
                if [c_ for c_ in comp_subnets if c_ != deep]:
                    ban = {rng.choice([c_ for c_ in comp_subnets if c_ != deep])}
                retry = list(reversed([w_ for w_ in worked[-10:] if rng.random() < 0.7 and flat[w_][1][0] not in ban]))
            continue
        ai = None
        x_ = rng.random()
        if retry and x_ < 0.5:
            st = np.asarray(runner.env.current_state.tensor)
            p_ = runner.lay[0] + runner.lay[1]
            hi_ = runner.addrs.index(tuple(flat[retry[-1]][1]))
            if (st[hi_][p_ + 1] and st[hi_][p_ + 2]) or rng.random() < 0.15:
                ai = retry.pop()      # mostly kept back until its target is reachable and discovered again
        elif x_ < 0.85:
            ch = changing()
            if ch:
                ai = rng.choice(ch)
            elif retry:
                ai = retry.pop()      # nothing else moves: now the held-back ones
        elif worked and x_ < 0.9:
            ai = rng.choice(worked)
            if flat[ai][1][0] in ban:
                ai = None
        for _try in range(6 if ai is None else 0):
            cand = gen.pick_action(runner, flat, {k: v for k, v in by_target.items()}) if by_target else None
            if cand in same and flat[cand][1][0] not in ban:
                ai = cand
                break
        if ai is None:
            ok_ = [i for i in same if flat[i][1][0] not in ban] or same
            ai = rng.choice(ok_)
        k = gen.pick_draw(flat[ai][3])
        hist.append(("step", ai, dyn.param_vector(rng, sd, flat[ai]), k))
        o_ = runner.run_op([1, [0, ai], k])
        if o_[0] == 1 and o_[1][4][0] and flat[ai][0] in (4, 5):
            worked.append(ai)
    # param_vector randomises: re-check each chosen vector decodes to the same action
    chk = run_driver([[2, sdw, [h[2] for h in hist if h[0] == "step"]]])[0]
    it = iter(chk)
    final = []
    for h in hist:
        if h[0] == "step":
            d = next(it)
            if d and d[0] == flat[h[1]]:
                final.append(h)
        else:
            final.append(h)
    return sdw, final


def run_c12(ctx, spec):
    pid, tier, seed = ctx["pid"], ctx["tier"], ctx["seed"]
    rng = random.Random(seed)
    ncases, nops = spec["sizes"][tier]
    out = base_outcome()
    out["rule"] = ("each case = one semantic history (resets + actions expressible in both action spaces, scripted "
                   "draws) executed by the implementation under ALL 8 mode combinations in lock-step; compared across "
                   "modes: next state, reward, terminal flag, step-limit flag, result info, step counter; 1-D "
                   "observation = row-major flattening of the 2-D one; partially observable = mask of fully observable; "
                   "each run is also compared with the one model trajectory; non-trivial = distinct (scenario, step)")
    evals, distinct = 0, set()
    cmds, expect = [], []
    for _ in range(ncases):
        if rng.random() < 0.3:
            # several routes to the same deep subnets (ring: two public ends; diamond: two branches)
            fam = rng.choice(["ring", "diamond"])
            sd = scen.random_sd(rng, family=fam)
            name, scenario = fam, scen.sd_to_scenario(sd)
        else:
            name, sd, scenario = dyn.CaseGen(rng, {}).pick_scenario()
        sdw, hist = semantic_case(rng, sd, scenario, rng.randint(*nops) if not isinstance(nops, int) else nops)
        if not hist:
            continue
        runs = {}
        try:
            for modes in itertools.product([0, 1], repeat=3):
                runner = ImplRunner(scenario, sd, list(modes), arg_style=rng.choice(["plain", "tuple", "numpy"]))
                ops = [[0] if h[0] == "reset" else [1, [0, h[1]] if modes[1] else [1, h[2]], h[3]] for h in hist]
                runs[modes] = (ops, [runner.run_op(op) for op in ops])
        except Inexact:
            raise
        ref_modes = (0, 1, 0)
        ref = runs[ref_modes][1]

        def core(o):
            if o[0] == 0:
                return [0, o[2]]
            if o[0] == 1:
                return [1, o[1][0], o[1][2], o[1][3], o[1][4], o[1][5], o[2], o[3]]
            return o
        for modes, (ops, outs) in runs.items():
            for i, (a, b) in enumerate(zip(outs, ref)):
                evals += 1
                distinct.add((hash(json.dumps(sdw)), i))
                if core(a) != core(b):
                    out["violations"].append(viol(
                        pid, f"under modes {list(modes)} the trajectory (state/reward/done/limit/info/steps) differs "
                             f"from the one under modes {list(ref_modes)} at operation {i}",
                        kind="modes-record", scenario=sd, history=[list(h) for h in hist[:i + 1]], modes=list(modes),
                        impl=str(core(a))[:1500], reference=str(core(b))[:1500]))
                    break
        for fo in (0, 1):
            for fa in (0, 1):
                a2, a1 = runs[(fo, fa, 0)][1], runs[(fo, fa, 1)][1]
                for i, (x, y) in enumerate(zip(a2, a1)):
                    o2 = x[1] if x[0] == 0 else x[1][1] if x[0] == 1 else None
                    o1 = y[1] if y[0] == 0 else y[1][1] if y[0] == 1 else None
                    if o2 is not None and o1 is not None and [flat_of(o2)] != o1:
                        out["violations"].append(viol(pid, "the 1-D observation is not the row-major flattening of the "
                                                           "2-D one", kind="modes-record", scenario=sd,
                                                      history=[list(h) for h in hist[:i + 1]], modes=[fo, fa]))
                        break
        for fa in (0, 1):
            full, part = runs[(1, fa, 0)][1], runs[(0, fa, 0)][1]
            for i, (x, y) in enumerate(zip(full, part)):
                of = x[1] if x[0] == 0 else x[1][1] if x[0] == 1 else None
                op = y[1] if y[0] == 0 else y[1][1] if y[0] == 1 else None
                if of is not None and op is not None and any(q != 0 and q != p for p, q in zip(flat_of(of), flat_of(op))):
                    out["violations"].append(viol(pid, "a partially observable observation has a non-zero entry that "
                                                       "differs from the fully observable one", kind="modes-record",
                                                  scenario=sd, history=[list(h) for h in hist[:i + 1]], modes=[0, fa, 0]))
                    break
        for modes in ((0, 1, 0), (1, 0, 1)):
            ops, outs = runs[modes]
            cmds.append([0, sdw, list(modes), ops])
            expect.append((sd, list(modes), ops, outs))
        if len(out["samples"]) < 2:
            out["samples"].append(dict(scenario=name, history=[list(h) for h in hist[:5]]))
    # ---- exhaustive on small scenarios: every reachable state x every action expressible in both spaces x both
    # draw outcomes, given to a flat-action and to a parameterised-action environment (the same State object)
    for _e in range(8 if tier == "quick" else 40):
        sd = scen.explore_sd(rng)
        scenario = scen.sd_to_scenario(sd)
        sdw = scen.sd_wire(sd)
        flat = run_driver([[1, sdw]])[0][0]
        vecs = [dyn.param_vector(rng, sd, wa) for wa in flat]
        dec = run_driver([[2, sdw, vecs]])[0]
        same = [i for i, (wa, d_) in enumerate(zip(flat, dec)) if d_ and d_[0] == wa]
        fo = rng.randrange(2)
        rf, rp = ImplRunner(scenario, sd, [fo, 1, 0]), ImplRunner(scenario, sd, [fo, 0, 0], arg_style=rng.choice(["plain", "numpy"]))
        seen, queue = {rf.env.current_state.tensor.tobytes(): rf.env.current_state}, [rf.env.current_state]
        stop = False
        while queue and not stop and len(seen) < (150 if tier == "quick" else 600):
            st = queue.pop()
            for i in same:
                for k in ([0] if flat[i][3] >= TWO53 or flat[i][3] <= 0 else [0, TWO53 - 1]):
                    res = []
                    for r_, a_ in ((rf, [0, i]), (rp, [1, vecs[i]])):
                        r_.shim.k, r_.shim.calls = k, 0
                        r_.shim.install()
                        try:
                            ns, o_, rew, done, info = r_.env.generative_step(st, r_.arg(a_))
                            res.append((ns, [state_wire(ns.tensor, r_.lay), fx(rew), int(bool(done)),
                                             result_wire(info, r_.names, r_.addrs)]))
                        except Inexact:
                            raise
                        except Exception as e_:   # noqa: BLE001
                            res.append((None, ["raised", repr(e_)[:200]]))
                        finally:
                            r_.shim.remove()
                    evals += 1
                    if res[0][1] != res[1][1]:
                        out["violations"].append(viol(
                            pid, "the same state, action and draw give different next state / reward / done / info under "
                                 "flat and under parameterised actions (exhaustive exploration of a small scenario)",
                            kind="modes-record", scenario=sd, state=state_wire(st.tensor, rf.lay), action=flat[i],
                            vector=vecs[i], draw=k, flat=str(res[0][1])[:1200], parameterised=str(res[1][1])[:1200]))
                        stop = True
                        break
                    ns = res[0][0]
                    if ns is not None and ns.tensor.tobytes() not in seen:
                        seen[ns.tensor.tobytes()] = ns
                        queue.append(ns)
                if stop:
                    break
    mouts = run_driver_parallel(cmds, jobs=12) if cmds else []
    for (sd, modes, ops, outs), m in zip(expect, mouts):
        d = dyn.diff_outs(outs, m[1], dyn.FIELDS["all"] - {"mask", "goal"}) if m != [-1] else (0, "model-rejects")
        if d is not None:
            out["violations"].append(dict(kind="broken-correspondence", property=pid, failing_input_found=False,
                                          broken=f"C12 trajectory correspondence, field '{d[1]}'", scenario=sd, modes=modes,
                                          ops=ops[:d[0] + 1], what="implementation and model trajectories differ"))
    out["evaluations"], out["distinct_nontrivial"] = evals, len(distinct)
    out["correspondence"] = dict(cases=ncases, mode_runs=8 * ncases, compared_ops=evals,
                                 in_kernel_crosscheck=crosscheck(pid, tier, list(zip(cmds, mouts)),
                                                                 spec["coq_sample"][tier], seed))
    real = [v for v in out["violations"] if v.get("failing_input_found")]
    out["violations"] = (real or out["violations"])[:5]
    return out


# ---------------------------------------------------------------------------
# C13: generative step
def snapshot(env):
    return (env.current_state.tensor.tobytes(), id(env.current_state), env.last_obs.tensor.tobytes(),
            id(env.last_obs), int(env.steps))


def run_c13(ctx, spec):
    pid, tier, seed = ctx["pid"], ctx["tier"], ctx["seed"]
    rng = random.Random(seed)
    ncases, nops = spec["sizes"][tier]
    out = base_outcome()
    out["rule"] = ("random histories; before every step() the same action and draw are first given to "
                   "generative_step on the current state and on an older state of the pool: bytes of the argument "
                   "tensor, of env.current_state, of env.last_obs and env.steps are compared before/after; "
                   "np.shares_memory(next, argument) must be false; writing a sentinel into the returned tensor must "
                   "not change the argument (and vice versa); step() must return the same next state, observation, "
                   "reward, done, info as the generative step and install exactly that state; all outputs are also "
                   "compared with the model; non-trivial = distinct (scenario, state, action, draw side)")
    from impl import Shim
    evals, distinct = 0, set()
    cmds, expect = [], []
    for _ in range(ncases):
        gen = dyn.CaseGen(rng, dict(loaded_frac=0.3, many_hosts_frac=0.0))
        name, sd, scenario = gen.pick_scenario()
        modes = [rng.randrange(2), rng.randrange(2), rng.randrange(2)]
        sdw = scen.sd_wire(sd)
        flat = run_driver([[1, sdw]])[0][0]
        by_target = {}
        for i, a in enumerate(flat):
            by_target.setdefault(tuple(a[1]), []).append(i)
        runner = ImplRunner(scenario, sd, modes)
        env = runner.env
        ops, outs = [], []
        n = rng.randint(*nops) if not isinstance(nops, int) else nops
        where = dict(scenario=sd, modes=modes)
        try:
            for _ in range(n):
                if rng.random() < 0.05:
                    ops.append([0])
                    outs.append(runner.run_op([0]))
                    continue
                ai = gen.pick_action(runner, flat, by_target)
                wa = flat[ai]
                x = [0, ai] if modes[1] else [1, dyn.param_vector(rng, sd, wa)]
                if rng.random() < 0.08:
                    x = [2, [6, [1, 0], 0, TWO53, 0, 0, 0, [], 0]]     # the no-op, as an Action object
                k = gen.pick_draw(wa[3])
                cur_idx = len(runner.pool) - 1
                for which in ("current", "older"):
                    idx = cur_idx if which == "current" else rng.randrange(len(runner.pool))
                    arg = runner.pool[idx]
                    before_arg = arg.tensor.tobytes()
                    before_env = snapshot(env)
                    op = [2, idx, x, k]
                    o = runner.run_op(op)
                    ops.append(op)
                    outs.append(o)
                    evals += 1
                    distinct.add((hash(json.dumps(sdw)), hash(before_arg), ai, k >= wa[3]))
                    if o[0] == 9:
                        continue
                    ns = runner.pool[-1]
                    problems = []
                    if arg.tensor.tobytes() != before_arg:
                        problems.append("the argument state was modified")
                    if snapshot(env) != before_env:
                        problems.append("the environment's current state / last observation / step counter changed")
                    if np.shares_memory(ns.tensor, arg.tensor) or ns is arg:
                        problems.append("the returned state shares storage with its argument")
                    else:
                        keep = ns.tensor[0, 0]
                        ns.tensor[0, 0] = 12345.0
                        if arg.tensor.tobytes() != before_arg:
                            problems.append("writing to the returned state changes the argument")
                        ns.tensor[0, 0] = keep
                    if problems:
                        out["violations"].append(viol(pid, "generative_step is not pure: " + "; ".join(problems),
                                                      kind="genstep-record", history=ops[:], **where))
                    if o[1][4][0] and wa[0] == 4 and rng.random() < 0.7:
                        # a discarded successful exploit must leave no trace: probe the SAME argument state
                        # again with exploits against other hosts (compared with the model afterwards)
                        others = [j for j, fa in enumerate(flat) if fa[0] == 4 and fa[1] != wa[1]]
                        for j in rng.sample(others, min(3, len(others))):
                            x2 = [0, j] if modes[1] else [1, dyn.param_vector(rng, sd, flat[j])]
                            op2 = [2, idx, x2, 0]
                            ops.append(op2)
                            outs.append(runner.run_op(op2))
                            evals += 1
                gen_out = next((oo for pp, oo in zip(reversed(ops), reversed(outs))
                                if pp[0] == 2 and pp[2] == x and pp[3] == k and pp[1] == cur_idx), None)
                cur_before = env.current_state
                op = [1, x, k]
                o = runner.run_op(op)
                ops.append(op)
                outs.append(o)
                evals += 1
                if o[0] == 1 and gen_out is not None and gen_out[0] == 2:
                    if o[1] != gen_out[1]:
                        out["violations"].append(viol(pid, "step() and generative_step() on the same state, action and "
                                                           "draw return different results", kind="genstep-record",
                                                      history=ops[:], step=str(o[1])[:1500], generative=str(gen_out[1])[:1500],
                                                      **where))
                    if state_wire(env.current_state.tensor, runner.lay) != o[1][0] or env.current_state is cur_before:
                        out["violations"].append(viol(pid, "step() did not install the returned next state as current",
                                                      kind="genstep-record", history=ops[:], **where))
        except Inexact:
            raise
        cmds.append([0, sdw, modes, ops])
        expect.append((sd, modes, ops, outs))
        if len(out["samples"]) < 2:
            out["samples"].append(dict(scenario=name, modes=modes, ops=ops[:4]))
    # ---- step() against generative_step() on scenarios whose costs and values are NOT exactly representable in single
    # precision (0.1, 0.3, 99.9): no model here, the two calls of the implementation are compared to the last bit
    from nasim.envs.environment import NASimEnv
    for _x in range(12 if tier == "quick" else 150):
        sd = scen.random_sd(rng, max_subnets=3, max_size=2)
        sdx = dict(sd, costs=(0.1, 0.3, 0.7, 1.2),
                   exploits=[dict(e, cost=e["cost"] + 0.1, prob=1.0) for e in sd["exploits"]],
                   privescs=[dict(q, cost=q["cost"] + 0.3, prob=1.0) for q in sd["privescs"]],
                   hosts=[(a, dict(c, val=c["val"] + 0.3, dval=c["dval"] + 0.1)) for a, c in sd["hosts"]])
        sdx["sens"] = [(a, dict(sdx["hosts"])[a]["val"]) for a, _ in sd["sens"]]
        sdx.pop("anames", None)
        fo = rng.randrange(2)
        envx = NASimEnv(scen.sd_to_scenario(sdx), fully_obs=bool(fo), flat_actions=True, flat_obs=bool(rng.randrange(2)))
        runner = ImplRunner(scen.sd_to_scenario(sd), sd, [fo, 1, 0])     # only to guide the walk (same structure)
        flat = run_driver([[1, scen.sd_wire(sd)]])[0][0]
        by_target = {}
        for i, a in enumerate(flat):
            by_target.setdefault(tuple(a[1]), []).append(i)
        gen = dyn.CaseGen(rng, dict(oracle=0.6))
        for _s in range(14):
            ai = gen.pick_action(runner, flat, by_target)
            runner.run_op([1, [0, ai], 0])
            real = np.random.rand
            np.random.rand = lambda *a_: 0.0
            try:
                g = envx.generative_step(envx.current_state, ai)
                st_ = envx.step(ai)
            finally:
                np.random.rand = real
            evals += 1
            same = (np.array_equal(g[0].tensor, envx.current_state.tensor) and float(g[2]) == float(st_[1])
                    and bool(g[3]) == bool(st_[2]) and np.array_equal(np.asarray(g[1].numpy_flat() if envx.flat_obs else g[1].numpy()), np.asarray(st_[0]))
                    and {k: str(v) for k, v in g[4].items()} == {k: str(v) for k, v in st_[4].items()})
            if not same:
                out["violations"].append(viol(pid, "step() and generative_step() on the same state, action and draw differ (costs / "
                                                   "values not exactly representable in single precision): "
                                                   f"rewards {float(g[2])!r} vs {float(st_[1])!r}", kind="genstep-record",
                                              scenario=sdx, flat_action_index=ai, modes=[fo, 1, int(envx.flat_obs)]))
                break
    mouts = run_driver_parallel(cmds, jobs=12) if cmds else []
    for (sd, modes, ops, outs), m in zip(expect, mouts):
        d = dyn.diff_outs(outs, m[1], dyn.FIELDS["C13"]) if m != [-1] else (0, "model-rejects")
        if d is not None:
            found = c13_search(sd, modes, ops, d[0])
            if found:
                out["violations"].append(viol(pid, found, kind="genstep-record", scenario=sd, modes=modes,
                                              history=ops[:d[0] + 1]))
            else:
                out["violations"].append(dict(kind="broken-correspondence", property=pid, failing_input_found=False,
                                              broken=f"C13 trajectory correspondence, field '{d[1]}'", scenario=sd, modes=modes,
                                              ops=ops[:d[0] + 1], what="implementation and model trajectories differ"))
    out["evaluations"], out["distinct_nontrivial"] = evals, len(distinct)
    out["correspondence"] = dict(cases=ncases, compared_ops=evals,
                                 in_kernel_crosscheck=crosscheck(pid, tier, list(zip(cmds, mouts)),
                                                                 spec["coq_sample"][tier], seed))
    real = [v for v in out["violations"] if v.get("failing_input_found")]
    out["violations"] = (real or out["violations"])[:5]
    return out


def c13_search(sd, modes, ops, d):
    """the trajectory tie broke at operation d: replay the history on a fresh environment and give the
    operation's own (state, action, draw) to generative_step of a SECOND environment that has no history;
    a different answer is a failing input for C13 (step = generative step; the generative step depends on
    nothing but its arguments)"""
    try:
        r1 = ImplRunner(scen.sd_to_scenario(sd), sd, modes)
        for op in ops[:d]:
            r1.run_op(op)
        op = ops[d]
        if op[0] not in (1, 2):
            return None
        idx = len(r1.pool) - 1 if op[0] == 1 else op[1]
        if idx >= len(r1.pool):
            return None
        arg = r1.pool[idx].copy()
        o1 = r1.run_op(op)
        r2 = ImplRunner(scen.sd_to_scenario(sd), sd, modes)
        r2.pool.append(arg)
        o2 = r2.run_op([2, len(r2.pool) - 1, op[1] if op[0] == 1 else op[2], op[2] if op[0] == 1 else op[3]])
        if o1[0] == 9 or o2[0] == 9:
            return None if o1[0] == o2[0] else "after this history the operation raises, on an environment without history it does not (or vice versa)"
        if o1[1] != o2[1]:
            return (("step()" if op[0] == 1 else "generative_step()") + " after this history returns a different next state / "
                    "observation / reward / done / info than generative_step() of an environment without history "
                    "for the same state, action and draw")
    except Inexact:
        raise
    except Exception:   # noqa: BLE001
        return None
    return None


RUNNERS = {"C08": run_c08, "C09": run_c09, "C10": run_c10, "C11": run_c11, "C12": run_c12, "C13": run_c13}


def run(ctx, spec):
    return RUNNERS[ctx["pid"]](ctx, spec)


def replay(ctx, spec, payload):
    """re-run the check with the seed recorded in the replay's context (API findings are
    re-derived by re-running the stream; the payload itself documents the failing input)"""
    pid = ctx["pid"]
    print(json.dumps({k: str(v)[:300] for k, v in payload.items() if k != "scenario"}, indent=1))
    o = run(ctx, spec)
    same = [v for v in o["violations"] if v.get("what", "")[:50] == payload.get("what", "")[:50]]
    if same:
        print(f"VIOLATION property={pid} replay=<given>")
        return 1
    return 0
