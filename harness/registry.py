"""Which properties are claimed, how each is checked."""
import check_dyn

ALLOWED_AXIOMS = []   # target: every property theorem is closed under the global context

DYN_SIZES = {"quick": (260, (5, 40)), "thorough": (3000, (5, 100))}

PROPS = {}


def dyn_prop(pid, **kw):
    PROPS[pid] = dict(module=check_dyn, sizes=DYN_SIZES, coq_sample={"quick": 24, "thorough": 200},
                      search_rounds={"quick": 3, "thorough": 10},
                      explore={"quick": (12, 160), "thorough": (40, 1200)}, **kw)


dyn_prop("C01", resync_fields={"state", "success"})
dyn_prop("C02", resync_fields={"state", "success"})
dyn_prop("C03", resync_fields={"state", "success", "reset"})
dyn_prop("C04", traj_fields={"state", "steps"}, resync_fields={"state", "reset"}, direct_fields={"steps", "reset"})
dyn_prop("C05", resync_fields={"reward", "value", "state", "success"})
dyn_prop("C06", traj_fields={"limit", "steps"}, resync_fields={"goal"}, direct_fields={"limit", "steps", "goal"})
dyn_prop("C07", resync_fields={"success", "state", "used", "value"})

import check_api

API_SIZES = {
    "C08": {"quick": (400, (8, 40)), "thorough": (4000, (5, 80))},
    "C09": {"quick": (40, 10), "thorough": (600, 30)},
    "C10": {"quick": (30, 25), "thorough": (400, 80)},
    "C11": {"quick": (30, 10), "thorough": (400, 30)},
    "C12": {"quick": (140, (6, 30)), "thorough": (1500, (6, 60))},
    "C13": {"quick": (100, (4, 14)), "thorough": (1500, (4, 40))},
}
for _pid, _sz in API_SIZES.items():
    PROPS[_pid] = dict(module=check_api, sizes=_sz, coq_sample={"quick": 12, "thorough": 100})

import check_load

for _pid in ("C17", "C18"):
    PROPS[_pid] = dict(module=check_load, sizes={"quick": (12, 1), "thorough": (150, 4)},
                       coq_sample={"quick": 3, "thorough": 10})

import check_hops

PROPS["C20"] = dict(module=check_hops, sizes={"quick": (60, 40), "thorough": (1500, 800)})

import check_multi

PROPS["C19"] = dict(module=check_multi, sizes={"quick": (100, (8, 40)), "thorough": (800, (8, 120))},
                    coq_sample={"quick": 4, "thorough": 20})

import check_gen

GEN_SIZES = {
    "quick": dict(random_params=10, seeds=2, seeds_small=8, scripted=2, c14_sets=16, hashseeds=[1, "random"], traj_steps=150, watchdog_s=6),
    "thorough": dict(random_params=200, seeds=6, seeds_small=40, scripted=12, c14_sets=60, hashseeds=[0, 1, 2, "random"], traj_steps=600, watchdog_s=20),
}
for _pid in ("C14", "C15", "C16"):
    PROPS[_pid] = dict(module=check_gen, sizes=GEN_SIZES, coq_sample={"quick": 3, "thorough": 12})
