"""Which properties are claimed, how each is checked."""
import check_dyn

ALLOWED_AXIOMS = []   # target: every property theorem is closed under the global context

DYN_SIZES = {"quick": (260, (5, 40)), "thorough": (6000, (5, 120))}

PROPS = {}


def dyn_prop(pid, **kw):
    PROPS[pid] = dict(module=check_dyn, sizes=DYN_SIZES, coq_sample={"quick": 24, "thorough": 200},
                      search_rounds={"quick": 3, "thorough": 10}, **kw)


dyn_prop("C01", resync_fields={"state", "success", "flags"})
dyn_prop("C02", resync_fields={"state", "success", "flags", "disc"})
dyn_prop("C03", resync_fields={"state", "success", "disc", "reset"})
dyn_prop("C04", traj_fields={"state", "steps"}, resync_fields={"state", "reset"}, direct_fields={"steps", "reset"})
dyn_prop("C05", resync_fields={"reward", "value", "state", "success"})
dyn_prop("C06", traj_fields={"limit", "steps"}, resync_fields={"goal"}, direct_fields={"limit", "steps", "goal"})
dyn_prop("C07", resync_fields={"success", "flags", "state", "used", "value"})
