"""Level-1 tie for the dynamics: drives the implementation and the Coq model with the
same scenarios, operation histories and scripted draws, and diffs the observables."""
import random
from collections import Counter

import numpy as np

import scen
from common import TWO53, run_driver_parallel, run_driver
from impl import ImplRunner, make_action

KINDS = ["service_scan", "os_scan", "subnet_scan", "process_scan", "exploit", "privesc", "noop"]

# which parts of an op output a property's check diffs (DESIGN section 9)
FIELDS = {
    "all": {"state", "obs", "reward", "done", "success", "value", "flags", "info", "disc",
            "used", "limit", "steps", "goal", "mask", "error"},
    "C01": {"state", "success", "flags", "error"},
    "C02": {"state", "success", "flags", "disc", "error"},
    "C03": {"state", "success", "disc", "error"},
    "C04": {"state", "steps", "error"},
    "C05": {"reward", "value", "state", "success", "error"},
    "C06": {"done", "goal", "limit", "steps", "error"},
    "C07": {"success", "flags", "state", "used", "value", "error"},
    "C08": {"obs", "success", "flags", "error"},
    "C09": {"obs", "state", "error"},
    "C10": {"obs", "error"},
    "C11": {"mask", "error"},
    "C12": {"state", "reward", "done", "limit", "success", "value", "flags", "info", "disc", "steps", "error"},
    "C13": {"state", "obs", "reward", "done", "success", "value", "flags", "info", "disc", "steps", "error"},
}


def split_out(o):
    """op output (wire) -> dict field -> value"""
    tag = o[0]
    if tag == 9:
        return {"error": 1}
    d = {"error": 0}
    if tag == 0:
        d["obs"], d["state"] = o[1], o[2]
    elif tag in (1, 2):
        st, obs, rew, done, res, used = o[1]
        d.update(state=st, obs=obs, reward=rew, done=done, success=res[0], value=res[1],
                 flags=res[2:5], info=res[5:9], disc=res[9:11], used=used)
        if tag == 1:
            d["limit"], d["steps"] = o[2], o[3]
        else:
            d["steps"] = o[2]
    elif tag == 3:
        d["goal"] = o[1]
    elif tag == 4:
        d["mask"] = o[1]
    elif tag == 5:
        d["state"] = o[1]
    return d


def diff_outs(impl_outs, model_outs, fields):
    """first differing (op index, field) or None"""
    if len(impl_outs) != len(model_outs):
        return (min(len(impl_outs), len(model_outs)), "length")
    for i, (a, b) in enumerate(zip(impl_outs, model_outs)):
        da, db = split_out(a), split_out(b)
        if a[0] != b[0] and not (a[0] == 9 or b[0] == 9):
            return (i, "tag")
        if "error" in fields and da["error"] != db["error"]:
            return (i, "error")
        for f in sorted(fields):
            if da.get(f) != db.get(f):
                return (i, f)
    return None


def param_vector(rng, sd, wa, randomise_host=True):
    """a parameter vector that decodes (if expressible) to the flat action wa"""
    kind, tgt = wa[0], wa[1]
    ty = {4: 0, 5: 1, 0: 2, 1: 3, 2: 4, 3: 5}[kind]
    size = sd["subnets"][tgt[0]]
    hmax = max(sd["subnets"])
    cands = [h for h in range(hmax) if h % size == tgt[1]]
    h = rng.choice(cands) if randomise_host else tgt[1]
    o = 0 if not wa[7] else wa[7][0] + 1
    if kind not in (4, 5):
        o = rng.randrange(sd["nos"] + 1)
    srv = wa[5] if kind == 4 else rng.randrange(sd["nsrv"])
    proc = wa[6] if kind == 5 else rng.randrange(sd["nproc"])
    return [ty, tgt[0] - 1, h, o, srv, proc]


class CaseGen:
    def __init__(self, rng, cfg):
        self.rng = rng
        self.cfg = cfg
        self.stats = Counter()

    def pick_scenario(self):
        rng = self.rng
        r = rng.random()
        src = self.cfg.get("sources", ("random", "shipped", "generated"))
        if rng.random() < self.cfg.get("multi_route_frac", 0.12):
            # several routes to the same deep subnets (ring: two public ends; diamond: two branches)
            fam = rng.choice(["ring", "diamond"])
            sd = scen.random_sd(rng, family=fam)
            return fam, sd, scen.sd_to_scenario(sd)
        if rng.random() < self.cfg.get("many_hosts_frac", 0.012):
            sd = scen.many_hosts_sd(rng)
            return "random-many-hosts", sd, scen.sd_to_scenario(sd)
        if rng.random() < self.cfg.get("loaded_frac", 0.08):
            # a random document written to disk and read back by the real loader: the Scenario object (host firewalls,
            # definitions) is then the loader's, not the harness's
            import check_load
            doc_ = check_load.random_doc(rng) if rng.random() < 0.5 else check_load.sd_to_doc(rng, scen.explore_sd(rng))
            seen_, ok_, sc_ = check_load.impl_load(doc_, "dyn")
            if ok_:
                try:
                    return "random-loaded", scen.scenario_to_sd(sc_), sc_
                except Exception:   # noqa: BLE001 -- unreadable loaded scenarios are C17's business
                    pass
        if rng.random() < self.cfg.get("very_wide_frac", 0.03):
            # an address space so large that one host vector has more than a thousand entries
            sd = scen.random_sd(rng, max_subnets=3, max_size=2)
            sd["bounds"] = (sd["bounds"][0] + rng.randint(0, 3), sd["bounds"][1] + rng.choice([1000, 1100]))
            return "random-very-wide", sd, scen.sd_to_scenario(sd)
        if r < 0.72 or src == ("random",):
            sd = scen.random_sd(rng, small=self.cfg.get("small", False))
            if rng.random() < self.cfg.get("small_values_frac", 0.0):
                sd = scen.small_values(rng, sd)
            elif rng.random() < self.cfg.get("mixed_magnitudes_frac", 0.06):
                sd = scen.mixed_magnitudes(rng, sd)
            return "random", sd, scen.sd_to_scenario(sd)
        if r < 0.9 and "shipped" in src:
            name = rng.choice(scen.SHIPPED[:6] if rng.random() < 0.8 else scen.SHIPPED)
            sc = scen.shipped_scenario(name)
            return name, scen.scenario_to_sd(sc), sc
        if "generated" in src:
            import nasim
            name = rng.choice(scen.GENERATED[:5])
            sc = nasim.make_benchmark_scenario(name, seed=rng.randrange(1000))
            return name, scen.scenario_to_sd(sc), sc
        sd = scen.random_sd(rng)
        return "random", sd, scen.sd_to_scenario(sd)

    def pick_draw(self, pz):
        rng = self.rng
        r = rng.random()
        if r < 0.35:
            k = 0
        elif r < 0.50:
            k = pz - 1
        elif r < 0.65:
            k = pz
        elif r < 0.70:
            k = pz + 1
        elif r < 0.80:
            k = TWO53 - 1
        else:
            k = rng.randrange(TWO53)
        return min(max(k, 0), TWO53 - 1)

    def changing(self, runner, flat, state, ban=(), limit=25):
        """flat indices of actions that change `state` when their draw succeeds, found by asking the
        implementation itself (generative_step is documented to be free of side effects)"""
        rng = self.rng
        cands = [i for i, a in enumerate(flat) if a[0] != 6 and a[1][0] not in ban]
        rng.shuffle(cands)
        res = []
        for i in cands[:limit]:
            runner.shim.k, runner.shim.calls = 0, 0
            runner.shim.install()
            try:
                ns = runner.env.generative_step(state, make_action(flat[i], runner.names, None, None))[0]
            except Exception:   # noqa: BLE001
                continue
            finally:
                runner.shim.remove()
            if not np.array_equal(ns.tensor, state.tensor):
                res.append(i)
        self.stats["oracle_calls"] += 1
        return res

    def pick_action(self, runner, flat, by_target, state=None, ban=()):
        """index into the model's flat list, guided by the implementation state the action will be applied to"""
        rng = self.rng
        hist = getattr(runner, "succeeded", None)
        queue = getattr(runner, "retry_queue", None)
        state = runner.env.current_state if state is None else state
        look = getattr(runner, "scan_queue", None)
        if look and rng.random() < self.cfg.get("scan_bias", 0.2):
            return look.pop(rng.randrange(len(look)))     # look at a host again after something changed on it
        if queue and rng.random() < (0.85 if not ban else 0.5):
            st = np.asarray(state.tensor)
            p = runner.lay[0] + runner.lay[1]
            hi = runner.addrs.index(tuple(flat[queue[-1]][1]))
            if not ban or (st[hi][p + 1] and st[hi][p + 2]) or rng.random() < 0.15:
                return queue.pop()       # right after a reset: what worked before
        if hist and rng.random() < 0.15:
            ai = rng.choice(hist)        # retry something that worked before
            if flat[ai][1][0] not in ban:
                return ai
        if rng.random() < self.cfg.get("oracle", 0.3):
            ch = self.changing(runner, flat, state, ban)
            if ch:
                return rng.choice(ch)
            if queue:
                return queue.pop()
        r = rng.random()
        if r < 0.8:
            st = np.asarray(state.tensor)
            b0, b1 = runner.lay[0], runner.lay[1]
            p = b0 + b1
            live = [i for i, row in enumerate(st) if row[p + 1] and row[p + 2]]
            comp = [i for i in live if st[i][p]]
            if live:
                pool = comp if (comp and rng.random() < 0.45) else live
                hi = rng.choice(pool)
                idxs = by_target[tuple(runner.addrs[hi])]
                rr = rng.random()
                want = 4 if rr < 0.4 else 5 if rr < 0.55 else 2 if rr < 0.75 else None
                if hi in comp and rr < 0.75:
                    want = 5 if rr < 0.35 else 2 if rr < 0.65 else 3
                c = [i for i in idxs if (want is None or flat[i][0] == want) and flat[i][1][0] not in ban]
                if c:
                    return rng.choice(c)
        return rng.randrange(len(flat))

    def gen_case(self, nops):
        rng, cfg = self.rng, self.cfg
        name, sd, scenario = self.pick_scenario()
        modes = cfg.get("modes") or [rng.randrange(2), rng.randrange(2), rng.randrange(2)]
        if cfg.get("need_flat"):
            modes = [modes[0], 1, modes[2]]
        wire = scen.sd_wire(sd)
        spaces = run_driver([[1, wire]])[0]
        flat = spaces[0]
        by_target = {}
        for i, a in enumerate(flat):
            by_target.setdefault(tuple(a[1]), []).append(i)
        runner = ImplRunner(scenario, sd, modes, arg_style=cfg.get("arg_style", "plain"))
        ops, outs = [], []
        weights = cfg.get("op_weights", dict(step=0.72, gen=0.12, reset=0.05, goal=0.09, mask=0.0, init=0.02))
        weights = dict(weights)
        weights.setdefault("init", 0.02)
        if cfg.get("mask_choices"):
            weights["mask"] = rng.choice(cfg["mask_choices"])      # masks read at every step ... hardly ever
        if not modes[1]:
            weights = dict(weights, mask=0.0)
        names_, ws = zip(*weights.items())
        ban, last_gen, branch_ban = set(), False, set()
        for _ in range(nops):
            kind = rng.choices(names_, ws)[0]
            pi = None
            if kind == "reset":
                op = [0] if rng.random() < 0.7 else [0, rng.randrange(1000)]      # reset(seed=..., options=...)
                if cfg.get("mask_choices") and modes[1]:
                    weights["mask"] = rng.choice(cfg["mask_choices"])     # re-drawn for every episode
                    names_, ws = zip(*weights.items())
                done_ = list(getattr(runner, "succeeded", []))
                x_ = rng.random()
                ban = set()
                if x_ < 0.45:
                    runner.retry_queue = done_[-6:]                       # latest first: targets now out of reach
                elif x_ < 0.7:
                    runner.retry_queue = list(reversed(done_[-8:]))       # in order: deep states again
                else:
                    # another route: stay out of one subnet the last episode went through, then the same deep targets
                    st_ = np.asarray(runner.env.current_state.tensor)
                    p_ = runner.lay[0] + runner.lay[1]
                    deep = flat[done_[-1]][1][0] if done_ else None
                    through = sorted({runner.addrs[i][0] for i, row in enumerate(st_) if row[p_]} - {deep})
                    if through:
                        ban = {rng.choice(through)}
                    runner.retry_queue = list(reversed([w_ for w_ in done_[-10:]
                                                        if rng.random() < 0.7 and flat[w_][1][0] not in ban]))
            elif kind in ("step", "gen"):
                base = None
                if kind == "gen":
                    # a branch: mostly continued from the state the previous generative step produced
                    if rng.random() < (0.75 if last_gen else 0.35):
                        pi = len(runner.pool) - 1
                        if not last_gen:
                            branch_ban = set()
                    else:
                        # a new branch from an older state: it stays out of a subnet the real episode has
                        # entered since, so that it ends somewhere the environment's own state is not
                        pi = rng.randrange(len(runner.pool))
                        p_ = runner.lay[0] + runner.lay[1]
                        cur_, old_ = np.asarray(runner.env.current_state.tensor), np.asarray(runner.pool[pi].tensor)
                        newer = sorted({runner.addrs[i][0] for i in range(len(cur_)) if cur_[i][p_] and not old_[i][p_]})
                        branch_ban = {rng.choice(newer)} if newer and rng.random() < 0.6 else set()
                    base = runner.pool[pi]
                ai = self.pick_action(runner, flat, by_target, state=base, ban=(ban | branch_ban) if kind == "gen" else ban)
                wa = flat[ai]
                r = rng.random()
                if r < cfg.get("obj_frac", 0.1):
                    x = [2, wa if rng.random() < 0.9 else [6, [1, 0], 0, TWO53, 0, 0, 0, [], 0]]
                    if x[1][0] != 6 and rng.random() < 0.45:
                        # an Action object need not be one the scenario lists: another required access on the
                        # pivot, another probability (scans included), another cost
                        wa = list(wa)
                        y_ = rng.random()
                        if y_ < 0.45:
                            wa[4] = 2 if wa[4] == 1 else 1
                        elif y_ < 0.8:
                            wa[3] = rng.choice([TWO53 // 2, TWO53 // 4, 0, TWO53])
                        else:
                            wa[2] = wa[2] + 64
                        # (granted access stays USER / ROOT: an Exploit object built with the constructor's default
                        # access=0 is outside every property's domain -- the implementation itself lowers access for it)
                        x = [2, wa]
                elif modes[1]:
                    x = [0, ai]
                else:
                    x = [1, param_vector(rng, sd, wa)]
                k = self.pick_draw(wa[3])
                if kind == "step":
                    op = [1, x, k]
                else:
                    op = [2, pi, x, k] if rng.random() < 0.85 else [2, pi, x, k, 1]     # ... or on its checkpoint copy
            elif kind == "goal":
                # mostly about a recently produced state (the end of a branch), else any state handed out so far
                n_ = len(runner.pool)
                op = [3, rng.randrange(max(0, n_ - 3), n_) if rng.random() < 0.6 else rng.randrange(n_)]
                if rng.random() < 0.25:
                    op.append(1)       # ... after rendering that state, the last observation and an action
            elif kind == "init":
                op = [5, 1] if rng.random() < 0.5 else [5]
            else:
                op = [4]
            out = runner.run_op(op)
            last_gen = kind == "gen"
            ops.append(op)
            outs.append(out)
            self.note(op, out, flat)
            if kind in ("step", "gen") and out[0] in (1, 2) and out[1][4][0] and wa[0] in (4, 5):
                if not hasattr(runner, "succeeded"):
                    runner.succeeded = []
                    runner.scan_queue = []
                runner.succeeded.append(ai)
                # scans of the host whose access just changed (process scans report the access level)
                scans = [i for i in by_target.get(tuple(wa[1]), []) if flat[i][0] in (0, 1, 3)]
                runner.scan_queue = (runner.scan_queue + [i for i in scans if flat[i][0] == 3 or rng.random() < 0.4])[-6:]
        if weights.get("goal", 0) > 0 and rng.random() < cfg.get("final_goal_sweep", 0.5):
            # the goal query about EVERY state handed out so far (other episodes, abandoned branches), asked
            # while the environment sits wherever its own history has left it
            idxs = list(range(len(runner.pool)))
            rng.shuffle(idxs)
            for pi in idxs[:40]:
                op = [3, pi]
                out = runner.run_op(op)
                ops.append(op)
                outs.append(out)
                self.note(op, out, flat)
        errs = getattr(runner, "last_error", None)
        self.stats["scenario:" + ("random" if name == "random" else "named")] += 1
        self.stats[f"hosts:{len(sd['hosts'])}"] += 1
        sp_ = runner.env.observation_space
        return dict(name=name, sd=sd, modes=modes, ops=ops, cmd=[0, wire, modes, model_ops(ops)], impl=outs,
                    space=(float(np.min(sp_.low)), float(np.max(sp_.high))), errs=errs, impl_init=runner.init_wire,
                    arg_style=cfg.get("arg_style", "plain"))

    def note(self, op, out, flat):
        st = self.stats
        st["ops"] += 1
        st["op:" + ["reset", "step", "gen", "goal", "mask", "init"][op[0]]] += 1
        if out[0] == 9:
            st["impl_error"] += 1
            return
        if out[0] in (1, 2):
            res = out[1][4]
            x = op[1] if op[0] == 1 else op[2]
            kind = "?"
            if x[0] == 0 and x[1] < len(flat):
                kind = KINDS[flat[x[1]][0]]
            elif x[0] == 2:
                kind = KINDS[x[1][0]]
            elif x[0] == 1:
                kind = ["exploit", "privesc", "service_scan", "os_scan", "subnet_scan", "process_scan"][x[1][0]]
            outcome = ("success" if res[0] else "conn" if res[2] else "perm" if res[3]
                       else "chance" if res[4] else "plainfail")
            st[f"{kind}:{outcome}"] += 1
            st["outcome:" + outcome] += 1
            if out[1][5] == 1:
                st["draw_used"] += 1


def model_ops(ops):
    """the operations as the model sees them: a goal query that is preceded by render calls ([3, i, 1]) is, for
    the model, the plain goal query (rendering is documented to change nothing)"""
    return [[3, op[1]] if op[0] == 3 else [5] if op[0] == 5 else [0] if op[0] == 0 else op[:4] if op[0] == 2 else op
            for op in ops]


def has_bad(x):
    if isinstance(x, list):
        return any(has_bad(y) for y in x)
    return x == -7


def wire_actions(case, flat_cache={}):
    """the decoded wire action of every step/gen op of a case (None when undecodable);
    decoding is done by the model (flat list / decode_param): action decoding itself is C11's"""
    sdw = case["cmd"][1]
    vecs = []
    for op in case["ops"]:
        if op[0] in (1, 2):
            x = op[1] if op[0] == 1 else op[2]
            if x[0] == 1:
                vecs.append(x[1])
    cmds = [[1, sdw]] + ([[2, sdw, vecs]] if vecs else [])
    res = run_driver(cmds)
    flat = res[0][0]
    dec = res[1] if vecs else []
    it = iter(dec)
    out = []
    for op in case["ops"]:
        if op[0] not in (1, 2):
            out.append(None)
            continue
        x = op[1] if op[0] == 1 else op[2]
        if x[0] == 0:
            out.append(flat[x[1]] if x[1] < len(flat) and case["modes"][1] else None)
        elif x[0] == 1:
            d = next(it)
            out.append(d[0] if d and not case["modes"][1] else None)
        else:
            out.append(x[1])
    return out


def records_of(case):
    """one record per implementation step of the case:
    (op index, [state before, action, draw, state after, result, used, reward, done])
    plus the (op index, state) pairs of goal queries and resets; states are the implementation's own"""
    acts = wire_actions(case)
    recs, goals, resets = [], [], []
    pool = [case["impl_init"]]
    cur = case["impl_init"]
    for i, (op, out) in enumerate(zip(case["ops"], case["impl"])):
        if out[0] == 9:
            continue
        if op[0] == 0:
            resets.append((i, cur, out[2]))
            cur = out[2]
            pool.append(cur)
        elif op[0] == 1:
            st_after = out[1][0]
            if acts[i] is not None:
                recs.append((i, [cur, acts[i], op[2], st_after, out[1][4], out[1][5], out[1][2], out[1][3]]))
            cur = st_after
            pool.append(cur)
        elif op[0] == 2:
            st_before = pool[op[1]] if op[1] < len(pool) else None
            st_after = out[1][0]
            if acts[i] is not None and st_before is not None:
                recs.append((i, [st_before, acts[i], op[3], st_after, out[1][4], out[1][5], out[1][2], out[1][3]]))
            pool.append(st_after)
        elif op[0] == 3:
            if op[1] < len(pool):
                goals.append((i, pool[op[1]], out[1]))
        elif op[0] == 5:
            pool.append(out[1])
    return recs, goals, resets


STEP_FIELDS = ["state", "obs", "reward", "done", "success", "value", "flags", "info", "disc", "used"]


def resync_compare(cases, fields, jobs=8):
    """Per-step correspondence: the model's generative_step / goal / reset are evaluated on the
    implementation's OWN pre-state of every step, so one divergence does not cascade.
    Returns list of (case, op index, field, impl value, model value, record)."""
    cmds, index = [], []
    for c in cases:
        recs, goals, resets = records_of(c)
        recs = [(i, r) for i, r in recs if not has_bad(r[0]) and not has_bad(r[1])]
        goals = [g for g in goals if not has_bad(g[1])]
        resets = [g for g in resets if not has_bad(g[1])]
        sdw, m = c["cmd"][1], c["modes"]
        if recs:
            cmds.append([5, sdw, m, [[r[0], r[1], r[2]] for _, r in recs]])
            index.append(("step", c, recs))
        if goals or resets:
            cmds.append([6, sdw, [g[1] for g in goals] + [g[1] for g in resets]])
            index.append(("goal", c, (goals, resets)))
        c["n_records"] = len(recs)
    outs = run_driver_parallel(cmds, jobs=jobs) if cmds else []
    diffs = []
    for (kind, c, payload), out in zip(index, outs):
        if out == [-1]:
            diffs.append((c, 0, "model-rejects-input", None, None, None))
            continue
        if kind == "step":
            for (i, r), mo in zip(payload, out):
                impl_o = c["impl"][i]
                da = split_out([2, impl_o[1], 0])
                db = split_out([2, mo, 0])
                for f in STEP_FIELDS:
                    if f in fields and da.get(f) != db.get(f):
                        diffs.append((c, i, f, da.get(f), db.get(f), r))
                        break
        else:
            goals, resets = payload
            for (i, st, impl_goal), mo in zip(goals, out[:len(goals)]):
                if "goal" in fields and impl_goal != mo[0]:
                    diffs.append((c, i, "goal", impl_goal, mo[0], [st]))
            for (i, st, impl_after), mo in zip(resets, out[len(goals):]):
                if "reset" in fields and (impl_after != mo[1] or not mo[2]):
                    diffs.append((c, i, "reset", impl_after, mo[1], [st]))
    return diffs


def run_stream(prop, seed, ncases, nops, cfg=None, jobs=8):
    """Generates cases, runs both sides; returns (report dict, list of disagreeing cases)."""
    cfg = dict(cfg or {})
    rng = random.Random(seed)
    gen = CaseGen(rng, cfg)
    cases = []
    for i in range(ncases):
        n = nops if isinstance(nops, int) else rng.randint(*nops)
        cases.append(gen.gen_case(n))
    model = run_driver_parallel([c["cmd"] for c in cases], jobs=jobs)
    fields = cfg.get("traj_fields")
    if fields is None:
        fields = FIELDS[cfg.get("fields", prop)] if cfg.get("fields", prop) in FIELDS else FIELDS["all"]
    bad = []
    nontrivial = set()
    for c, m in zip(cases, model):
        c["model"] = m
        if m == [-1] or m[0] != 1:
            c["diff"] = (0, "model-rejects-scenario")
            bad.append(c)
            continue
        d = diff_outs(c["impl"], m[1], fields)
        if d is not None:
            c["diff"] = d
            bad.append(c)
        prev = None
        for op, out in zip(c["ops"], c["impl"]):
            if out[0] in (1, 2):
                cur = out[1][0]
                key = (repr(c["cmd"][1])[:0] + str(hash(repr(c["cmd"][1]))), str(op), out[1][4][0], tuple(out[1][4][2:5]))
                if prev is None or cur != prev or not out[1][4][0]:
                    nontrivial.add(key)
                prev = cur
    rdiffs = []
    if cfg.get("resync_fields"):
        rdiffs = resync_compare(cases, cfg["resync_fields"], jobs=jobs)
    report = dict(cases=len(cases), ops=gen.stats["ops"], stats=dict(gen.stats),
                  distinct_nontrivial=len(nontrivial), disagreements=len(bad), resync_disagreements=len(rdiffs),
                  resync_steps=sum(c.get("n_records", 0) for c in cases))
    return report, bad, cases, rdiffs
