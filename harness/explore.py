"""Exhaustive bounded exploration: every state of a small scenario reachable from reset
under every action of the flat space and both outcomes of the draw, executed on the
implementation (generative_step on its own State objects)."""
import numpy as np

from common import TWO53, fx, run_driver
from impl import ImplRunner, state_wire, result_wire, mat_wire
import scen


def explore(sd, scenario, modes=(0, 1, 0), max_states=300, rng=None, paths=3, depth=6, sample=80, objects=True):
    runner = ImplRunner(scenario, sd, list(modes))
    env, shim, lay = runner.env, runner.shim, runner.lay
    flat = run_driver([[1, scen.sd_wire(sd)]])[0][0]
    # besides the scenario's own actions (by index): every exploit and subnet scan once more as an Action OBJECT
    # that requires ROOT on the pivot / on the scanning host (objects need not be ones the scenario lists)
    acts = [(ai, wa) for ai, wa in enumerate(flat)]
    if objects:
        from impl import make_action
        for wa in flat:
            if wa[0] in (2, 4):
                w2 = list(wa)
                w2[4] = 2
                acts.append((make_action(w2, runner.names, None, None), w2))
    start = env.current_state
    seen = {start.tensor.tobytes(): start}
    queue = [start]
    recs, obs = [], []
    trans = {}
    complete = True
    while queue:
        st = queue.pop()
        stw = state_wire(st.tensor, lay)
        for ai, wa in acts:
            ks = [0] if wa[3] >= TWO53 else ([0, TWO53 - 1] if wa[3] > 0 else [0])
            for k in ks:
                shim.k, shim.calls = k, 0
                shim.install()
                try:
                    ns, o, rew, done, info = env.generative_step(st, ai)
                finally:
                    shim.remove()
                nsw = state_wire(ns.tensor, lay)
                recs.append([stw, wa, k, nsw, result_wire(info, runner.names, runner.addrs),
                             shim.calls if shim.calls <= 1 else -7, fx(rew), int(bool(done))])
                obs.append(mat_wire(o.numpy()))
                key = ns.tensor.tobytes()
                if isinstance(ai, int):
                    trans.setdefault(st.tensor.tobytes(), []).append((ai, k, key))
                if key not in seen:
                    if len(seen) >= max_states:
                        complete = False
                        continue
                    seen[key] = ns
                    queue.append(ns)
    n_graph = len(recs)
    own_hist = []
    # ---- the same transitions again while the environment's OWN episode is somewhere else: along a few real
    # episodes (env.step, resets in between) a sample of the graph's (state, action, draw) triples is given to
    # generative_step again; the records are judged and compared like all others, so anything that depends on
    # the environment's own history (bookkeeping on the Network, the Action objects, caches) shows up
    if rng is not None and trans:
        states = list(seen.values())
        for _path in range(paths):
            env.reset()
            own = []
            for _depth in range(depth):
                key = env.current_state.tensor.tobytes()
                moves = [(ai, k) for ai, k, nk in trans.get(key, []) if nk != key]
                if not moves:
                    break
                ai, k = rng.choice(moves)
                shim.k, shim.calls = k, 0
                shim.install()
                try:
                    env.step(ai)
                finally:
                    shim.remove()
                own = own + [[ai, k]]
                for _ in range(sample):
                    st = rng.choice(states)
                    ai2 = rng.randrange(len(flat))
                    wa = flat[ai2]
                    k2 = 0 if (wa[3] >= TWO53 or wa[3] <= 0 or rng.random() < 0.7) else TWO53 - 1
                    shim.k, shim.calls = k2, 0
                    shim.install()
                    try:
                        ns, o, rew, done, info = env.generative_step(st, ai2)
                    finally:
                        shim.remove()
                    recs.append([state_wire(st.tensor, lay), wa, k2, state_wire(ns.tensor, lay),
                                 result_wire(info, runner.names, runner.addrs),
                                 shim.calls if shim.calls <= 1 else -7, fx(rew), int(bool(done))])
                    obs.append(mat_wire(o.numpy()))
                    own_hist.append(own)
    return dict(own_history=[None] * n_graph + own_hist, records=recs, obs=obs, states=len(seen), transitions=n_graph, revisited=len(recs) - n_graph,
                complete=complete, modes=list(modes))
