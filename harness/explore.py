"""Exhaustive bounded exploration: every state of a small scenario reachable from reset
under every action of the flat space and both outcomes of the draw, executed on the
implementation (generative_step on its own State objects)."""
import numpy as np

from common import TWO53, fx, run_driver
from impl import ImplRunner, state_wire, result_wire, mat_wire
import scen


def explore(sd, scenario, modes=(0, 1, 0), max_states=300):
    runner = ImplRunner(scenario, sd, list(modes))
    env, shim, lay = runner.env, runner.shim, runner.lay
    flat = run_driver([[1, scen.sd_wire(sd)]])[0][0]
    start = env.current_state
    seen = {start.tensor.tobytes(): start}
    queue = [start]
    recs, obs = [], []
    complete = True
    while queue:
        st = queue.pop()
        stw = state_wire(st.tensor, lay)
        for ai, wa in enumerate(flat):
            ks = [0] if wa[3] >= TWO53 else ([0, TWO53 - 1] if wa[3] > 0 else [0])
            for k in ks:
                shim.k, shim.calls = k, 0
                shim.install()
                try:
                    ns, o, rew, done, info = env.generative_step(st, ai)
                finally:
                    shim.remove()
                nsw = state_wire(ns.tensor, lay)
                recs.append([stw, wa, k, nsw, result_wire(info, runner.names, runner.addrs),
                             shim.calls if shim.calls <= 1 else -7, fx(rew), int(bool(done))])
                obs.append(mat_wire(o.numpy()))
                key = ns.tensor.tobytes()
                if key not in seen:
                    if len(seen) >= max_states:
                        complete = False
                        continue
                    seen[key] = ns
                    queue.append(ns)
    return dict(records=recs, obs=obs, states=len(seen), transitions=len(recs), complete=complete, modes=list(modes))
