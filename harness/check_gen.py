"""C14 / C15 / C16: the scenario generator.

Tie: the real generator runs under a recorder of every numpy.random call; the model's
[generate] (Gen.v) is evaluated on the recorded oracle and must return the identical
scenario and consume exactly the recorded draws.
C14: seeded generation / seeded trajectories repeated in the same process and in fresh
     processes under several PYTHONHASHSEED values give identical fingerprints.
C15: the generated scenario is judged against the documented invariants directly
     (independent Python judge) and by the model's wf_scenario; documented-valid parameter
     sets are swept under a watchdog (known findings D7, D8).
C16: every shipped and every sampled generated scenario is solvable in the model
     (Solve.solvable) and the model's plan, replayed on the real environment with forced
     draws, ends with terminated = True."""
import hashlib
import json
import os
import random
import subprocess
import sys
import time

import numpy as np

import genrec
import scen
from common import run_driver, run_driver_parallel, coq_eval_cases, REPO, VERIF, fx, U, Inexact
from impl import Shim

HERE = os.path.dirname(os.path.abspath(__file__))


def benchmark_params():
    from nasim.scenarios.benchmark.generated import AVAIL_GEN_BENCHMARKS
    out = {}
    for name, p in AVAIL_GEN_BENCHMARKS.items():
        p = dict(p)
        for k in ("seed", "max_score", "name"):
            p.pop(k, None)
        out[name] = p
    return out


def random_params(rng, small=False):
    nsrv = rng.randint(1, 4 if small else 6)
    nos = rng.randint(1, 3)
    nproc = rng.randint(1, 3)
    p = dict(num_hosts=rng.randint(3, 12 if small else 30), num_services=nsrv, num_os=nos, num_processes=nproc,
             num_exploits=rng.choice([None, rng.randint(1, nsrv * (nos + 1))]),
             num_privescs=rng.choice([None, None, rng.randint(max(1, nos), max(nos, nproc) + 1)]),
             r_sensitive=rng.choice([10, 100, 7.5]), r_user=rng.choice([10, 100, 3]),
             exploit_cost=rng.choice([1, 2, 1.5]), privesc_cost=rng.choice([1, 3]),
             exploit_probs=rng.choice([1.0, 0.5, "mixed", None]), privesc_probs=rng.choice([1.0, 0.75, None]),
             uniform=rng.random() < 0.4, alpha_H=rng.choice([2.0, 0.5, 5.0, 1.0, 1]), alpha_V=rng.choice([2.0, 0.5, 3.0]),
             lambda_V=rng.choice([1.0, 2.0, 0.5]), restrictiveness=rng.randint(1, 4), random_goal=rng.random() < 0.4,
             base_host_value=rng.choice([1, 0, 0.5]), host_discovery_value=rng.choice([1, 0, 2]),
             step_limit=rng.choice([None, 500]))
    if rng.random() < 0.25:
        p["address_space_bounds"] = (40, 6)
    if rng.random() < 0.25:
        # probabilities given one by one (distinct values: a definition that loses or repeats one shows)
        nexp = nsrv if p["num_exploits"] is None else p["num_exploits"]
        npe = nproc if p["num_privescs"] is None else p["num_privescs"]
        vals = [0.125, 0.25, 0.375, 0.5, 0.625, 0.75, 0.875, 1.0, 0.0625, 0.1875, 0.3125, 0.4375, 0.5625, 0.6875,
                0.8125, 0.9375, 0.03125, 0.09375]
        if nexp <= len(vals) and npe <= len(vals):
            p["exploit_probs"] = rng.sample(vals, nexp)
            p["privesc_probs"] = rng.sample(vals, npe)
    if p["exploit_probs"] is None or p["privesc_probs"] is None:
        pass
    return p


PROB_VALS = [0.125, 0.25, 0.375, 0.5, 0.625, 0.75, 0.875, 1.0, 0.0625, 0.1875, 0.3125, 0.4375, 0.5625, 0.6875,
             0.8125, 0.9375, 0.03125, 0.09375]


def fit_probs(p):
    """probability LISTS must have one entry per definition: re-cut them after a size parameter changed"""
    nexp = p["num_services"] if p.get("num_exploits") is None else p["num_exploits"]
    npe = p.get("num_processes", 2) if p.get("num_privescs") is None else p["num_privescs"]
    for key, n in (("exploit_probs", nexp), ("privesc_probs", npe)):
        v = p.get(key)
        if isinstance(v, (list, tuple)) and len(v) != n:
            p[key] = (list(v) + [x for x in PROB_VALS if x not in v])[:n] if n <= len(PROB_VALS) else 1.0
    return p


def names_risky(p):
    """parameter sets for which the rejection-sampling loops can dead-end (defect D8)"""
    nsrv, nos, nproc = p["num_services"], p.get("num_os", 2), p.get("num_processes", 2)
    nexp = nsrv if p.get("num_exploits") is None else p["num_exploits"]
    npe = nproc if p.get("num_privescs") is None else p["num_privescs"]
    return nexp > nsrv * (nos + 1) or npe > nproc


def fingerprint(sc):
    try:
        w = genrec.canonical_wire(scen.sd_wire(scen.scenario_to_sd(sc)))
    except Inexact:
        raise
    except Exception as e:   # noqa: BLE001 -- malformed scenario object: fingerprint its raw description
        w = ["malformed", repr(e)[:100], repr(sorted((str(k), str(v)) for k, v in sc.scenario_dict.items()))[:5000]]
    return hashlib.sha1(json.dumps(w).encode()).hexdigest()


# ---------------------------------------------------------------------------
def judge_generated(params, sc):
    """independent judge of C15's clauses on the implementation's scenario; returns list of problems"""
    bad = []
    p = dict(num_os=2, num_processes=2, num_exploits=None, num_privescs=None, r_sensitive=10, r_user=10,
             exploit_cost=1, privesc_cost=1, restrictiveness=5, exploit_probs=1.0, privesc_probs=1.0)
    p.update(params)
    nexp = p["num_services"] if p["num_exploits"] is None else p["num_exploits"]
    npe = p["num_processes"] if p["num_privescs"] is None else p["num_privescs"]
    subnets = list(sc.subnets)
    n = len(subnets)
    topo = [[int(x) for x in r] for r in sc.topology]
    if sum(subnets[1:]) != p["num_hosts"] or len(sc.hosts) != p["num_hosts"]:
        bad.append("number of hosts")
    if (len(sc.os), len(sc.services), len(sc.processes)) != (p["num_os"], p["num_services"], p["num_processes"]):
        bad.append("number of OS/services/processes")
    if len(sc.exploits) != nexp or len(sc.privescs) != npe:
        bad.append("number of exploits/escalations")
    for s in range(n):
        if topo[s][s] != 1:
            bad.append("topology not self-connected")
        for t in range(n):
            if topo[s][t] != topo[t][s]:
                bad.append("topology not symmetric")
    if [s for s in range(1, n) if topo[s][0]] != [1]:
        bad.append("public subnets are not exactly the DMZ")
    for a, h in sc.hosts.items():
        if sum(map(bool, h.os.values())) != 1 or not any(h.services.values()) or not any(h.processes.values()):
            bad.append(f"host {a}: not exactly one OS / no service / no process")
    for e in sc.exploits.values():
        ok = e["service"] in sc.services and (e["os"] is None or e["os"] in sc.os) and e["cost"] == p["exploit_cost"] \
            and 0 < e["prob"] <= 1 and e["access"] in (1, 2)
        if not ok:
            bad.append("exploit definition")
    for e in sc.privescs.values():
        ok = e["process"] in sc.processes and (e["os"] is None or e["os"] in sc.os) and e["cost"] == p["privesc_cost"] \
            and 0 < e["prob"] <= 1 and e["access"] == 2
        if not ok:
            bad.append("escalation definition")
    for what, defs, spec_ in (("exploit", sc.exploits, p["exploit_probs"]), ("escalation", sc.privescs, p["privesc_probs"])):
        got = [float(e["prob"]) for e in defs.values()]
        if isinstance(spec_, (int, float)) and not isinstance(spec_, bool):
            if any(x != float(spec_) for x in got):
                bad.append(f"{what} probabilities are not the requested {spec_}")
        elif isinstance(spec_, (list, tuple)) and got != [float(x) for x in spec_]:
            bad.append(f"{what} probabilities {got} are not the requested list {list(spec_)} (in order of definition)")
    sens = dict(sc.sensitive_hosts)
    if sens.get((2, 0)) != p["r_sensitive"] or len(sens) != 2 or \
       not any(a[0] >= 3 and v == p["r_user"] for a, v in sens.items()):
        bad.append("sensitive hosts")
    keys = {(s, t) for s in range(n) for t in range(n) if s != t and topo[s][t]}
    if set(sc.firewall) != keys:
        bad.append("firewall keys are not exactly the connected ordered pairs")
    for (s, t), allowed in sc.firewall.items():
        if not set(allowed) <= set(sc.services):
            bad.append("firewall lists an undefined service")
        if s > 2 and t > 2:
            if set(allowed) != set(sc.services):
                bad.append("user<->user rule blocks a service")
        elif t >= 1 and not (1 <= len(allowed) <= p["restrictiveness"]):
            bad.append(f"zone-crossing rule {(s, t)} allows {len(allowed)} services (restrictiveness {p['restrictiveness']})")
    return bad


def sensitive_not_vulnerable(sd):
    """C16's first clause on a scenario description: sensitive hosts with no exploit (+ escalation) giving root"""
    weak = []
    cfg = dict(sd["hosts"])
    for a, _ in sd["sens"]:
        c = cfg[a]
        def match(d, runs):
            return runs[d["srv"] if "srv" in d else d["proc"]] and (d["os"] is None or c["os"][d["os"]])
        esc = any(match(q, c["proc"]) and q["acc"] == 2 for q in sd["privescs"])
        if not any(match(e, c["srv"]) and (e["acc"] == 2 or esc) for e in sd["exploits"]):
            weak.append(list(a))
    return weak


def py_goal_reachable(sd):
    """quick pre-screen for the failing-input search (NOT the judge): monotone saturation of the set of
    hosts on which root can be obtained, ignoring discovery order"""
    cfg = dict(sd["hosts"])
    n = len(sd["subnets"])
    acc = {a: 0 for a in cfg}
    pub = [bool(sd["topo"][s][0]) for s in range(n)]

    def sub_ok(s, t, srv):
        return s == t or (sd["topo"][s][t] and srv in sd["fw"].get((s, t), []))
    changed = True
    while changed:
        changed = False
        comp = [a for a, v in acc.items() if v > 0]
        for a, c in cfg.items():
            for e in sd["exploits"]:
                if acc[a] >= e["acc"] or not c["srv"][e["srv"]] or not (e["os"] is None or c["os"][e["os"]]):
                    continue
                reach = pub[a[0]] or any(sd["topo"][b[0]][a[0]] for b in comp)
                perm = pub[a[0]] or any(sub_ok(b[0], a[0], e["srv"]) for b in comp)
                traffic = (pub[a[0]] and sub_ok(0, a[0], e["srv"])) or any(
                    sub_ok(b[0], a[0], e["srv"]) and e["srv"] not in c["fw"].get(b, []) for b in comp)
                if reach and perm and traffic:
                    acc[a] = e["acc"]
                    changed = True
            if acc[a] > 0:
                for q in sd["privescs"]:
                    if acc[a] < q["acc"] and c["proc"][q["proc"]] and (q["os"] is None or c["os"][q["os"]]):
                        acc[a] = q["acc"]
                        changed = True
    return all(acc[a] >= 2 for a, _ in sd["sens"])


def search_malformed(rng, psets, budget_s):
    """failing-input search for C15 after a generator tie broke: many seeds of small parameter sets (those of the
    run and fresh random ones, uniform and correlated, probabilities as numbers and as lists), each judged by the
    independent clause judge.  Returns (violations, scenarios tried)."""
    import nasim
    t0, found, tried = time.time(), [], 0
    small = [(n_, p_) for n_, p_ in psets if p_["num_hosts"] <= 12]
    while time.time() - t0 < budget_s and len(found) < 2:
        if small and rng.random() < 0.5:
            name, p = rng.choice(small)
        else:
            name, p = "search", random_params(rng, small=True)
            if names_risky(p):
                continue
        s = rng.randrange(100000)
        np.random.seed(s)
        try:
            sc = nasim.generate_scenario(**{k: v for k, v in p.items() if k != "seed"})
            probs = judge_generated(p, sc)
        except Inexact:
            raise
        except Exception as e:   # noqa: BLE001
            probs = [f"the generator / the judge's reading of its scenario raised {e!r}"[:200]]
        tried += 1
        if probs:
            found.append(dict(kind="generator-params", property="C15", failing_input_found=True, signature=None,
                              params=p, seed=s, name=name,
                              what="generated scenario breaks the documented invariants (found by the search that "
                                   "follows a broken generator correspondence): " + "; ".join(probs[:4])))
    return found, tried


def search_unsolvable(rng, psets, budget_s, reuse):
    """failing-input search for C16 after a generator tie broke: many more seeds of the small parameter sets
    (fresh and re-used generator objects); candidates come from the pre-screen, the verdict from the model's
    closure and the replay of its plan on the real environment.  Returns violation dicts."""
    import nasim
    from nasim.scenarios.generator import ScenarioGenerator
    t0, found, tried = time.time(), [], 0
    small = [(n_, p_) for n_, p_ in psets if p_["num_hosts"] <= 16] or psets[:3]
    gobj = ScenarioGenerator()
    while time.time() - t0 < budget_s and len(found) < 2:
        name, p = rng.choice(small)
        s = rng.randrange(100000)
        np.random.seed(s)
        kw = {k: v for k, v in p.items() if k != "seed"}
        reused = reuse and rng.random() < 0.5
        try:
            sc = gobj.generate(**kw) if reused else nasim.generate_scenario(**kw)
            sd = scen.scenario_to_sd(sc)
        except Inexact:
            raise
        except Exception:   # noqa: BLE001
            continue
        tried += 1
        if py_goal_reachable(sd) and not sensitive_not_vulnerable(sd):
            continue
        so = run_driver([[15, scen.sd_wire(sd)]])[0]
        where = dict(params=p, seed=s, name=name, generator_object_reused=reused)
        if not so[0]:
            found.append(dict(kind="scenario", property="C16", failing_input_found=True, signature=None, scenario=sd,
                              what="no action sequence reaches the goal (closure of the model) -- found by the search "
                                   "that follows a broken generator correspondence", **where))
        elif not replay_plan(sc, so[1], sd):
            found.append(dict(kind="scenario+plan", property="C16", failing_input_found=True, signature=None, scenario=sd,
                              plan=so[1], what="replaying the model's plan on the real environment does not end with the "
                                               "terminal flag", **where))
    return found, tried


def replay_plan(sc, plan_wire, sd):
    """step the model's plan through the real environment with the draw forced to succeed"""
    from nasim.envs.environment import NASimEnv
    from impl import make_action
    env = NASimEnv(sc, fully_obs=True, flat_actions=True, flat_obs=True)
    shim = Shim()
    shim.k = 0
    shim.install()
    done = False
    try:
        names = scen.names(sd)
        for wa in plan_wire:
            _, _, done, _, _ = env.step(make_action(wa, names, None, None))
    finally:
        shim.remove()
    return bool(done)


def shipped_theorem():
    """writes coq/gen/Shipped.v from the nine YAML files as loaded now and lets Coq prove, by
    vm_compute, that each is well formed and solvable"""
    from common import COQ, sx_coq
    os.makedirs(os.path.join(COQ, "gen"), exist_ok=True)
    path = os.path.join(COQ, "gen", "Shipped.v")
    with open(path, "w") as f:
        f.write("(* regenerated on every run from /repo/nasim/scenarios/benchmark/*.yaml *)\n")
        f.write("From NasimV Require Import Dispatch.\nOpen Scope Z_scope.\n")
        f.write("Definition shipped : list sx := [\n")
        f.write(";\n".join(sx_coq(scen.sd_wire(scen.scenario_to_sd(scen.shipped_scenario(n)))) for n in scen.SHIPPED))
        f.write("].\n")
        f.write("Theorem shipped_solvable :\n  forallb (fun s => match d_scenario s with\n"
                "                    | Some sc => wf_scenario sc && solvable sc\n                    | None => false end) shipped = true.\n"
                "Proof. vm_compute. reflexivity. Qed.\nPrint Assumptions shipped_solvable.\n")
    cmd = "timeout 600 coqc -Q theories NasimV -Q gen NasimV.gen gen/Shipped.v"
    p = subprocess.run(cmd, shell=True, cwd=COQ, capture_output=True, text=True, timeout=700)
    for ext in (".vo", ".vok", ".vos", ".glob"):
        try:
            os.remove(os.path.join(COQ, "gen", "Shipped" + ext))
        except OSError:
            pass
    return p.returncode == 0 and "Closed under the global context" in p.stdout, f"cd {COQ} && {cmd}"


# ---------------------------------------------------------------------------
def sub_fingerprints(jobs, hashseed):
    """fresh process: fingerprints of generated scenarios and of seeded trajectories"""
    env = dict(os.environ, PYTHONPATH=REPO, NASIM_REPO=REPO)
    if hashseed == "random":
        env.pop("PYTHONHASHSEED", None)
        env["PYTHONHASHSEED"] = "random"
    else:
        env["PYTHONHASHSEED"] = str(hashseed)
    p = subprocess.run([sys.executable, os.path.join(HERE, "check_gen.py"), "--fingerprints"],
                       input=json.dumps(jobs), capture_output=True, text=True, env=env, timeout=900)
    if p.returncode != 0:
        raise RuntimeError("fingerprint subprocess failed: " + p.stderr[-1500:])
    return json.loads(p.stdout.strip().splitlines()[-1])


def fingerprints_here(jobs):
    import nasim
    out = []
    for job in jobs:
        try:
            out.append(one_fingerprint(job))
        except Inexact:
            raise
        except Exception as e:   # noqa: BLE001 -- the implementation raised: that is this job's outcome
            out.append("raised " + type(e).__name__)
    return out


def one_fingerprint(job):
    import nasim
    out = []
    for job in [job]:
        if job["kind"] == "gen":
            np.random.seed(job["seed"])
            sc = nasim.generate_scenario(**job["params"])
            out.append(fingerprint(sc))
        elif job["kind"] == "bench":
            sc = nasim.make_benchmark_scenario(job["name"], seed=job["seed"])
            out.append(fingerprint(sc))
        elif job["kind"] == "genseed":
            # the seed handed to generate() itself, as a Python int or as the NumPy integer numpy.random.seed also accepts
            sd_ = {"int": int, "np.int64": np.int64, "np.uint32": np.uint32}[job["seed_type"]](job["seed"])
            np.random.seed(12345)
            sc = nasim.generate_scenario(seed=sd_, **job["params"])
            out.append(fingerprint(sc))
        else:   # seeded trajectory on a benchmark, or on a document after other environments were built
            from nasim.envs.environment import NASimEnv
            if job["kind"] == "trajsd":
                import ast
                import scen
                for b in job["before"]:
                    e0 = NASimEnv(scen.sd_to_scenario(ast.literal_eval(b)))
                    e0.reset()
                sc = scen.sd_to_scenario(ast.literal_eval(job["sd"]))
            else:
                sc = nasim.make_benchmark_scenario(job["name"], seed=job["seed"])
            env = NASimEnv(sc, fully_obs=job["modes"][0], flat_actions=bool(job["modes"][1]), flat_obs=job["modes"][2])
            for call in job.get("earlier", []):
                # what the environment object went through before the seeded run (Gymnasium API)
                if call[0] == "reset_seed":
                    env.reset(seed=call[1])
                elif call[0] == "steps":
                    rs0 = np.random.RandomState(call[1])
                    for _ in range(call[2]):
                        env.step(int(rs0.randint(env.action_space.n)))
                elif call[0] == "reset":
                    env.reset()
            np.random.seed(job["seed"] + 1)
            h = hashlib.sha1()
            o, _ = env.reset()
            h.update(o.tobytes())
            rs = np.random.RandomState(job["seed"] + 2)
            for _ in range(job["steps"]):
                if job["modes"][1]:
                    a = int(rs.randint(env.action_space.n))
                else:
                    a = [int(rs.randint(n_)) for n_ in env.action_space.nvec]     # many of them decode to the no-op
                    scratch = np.full(o.shape, float(rs.randint(1000)), dtype=o.dtype)     # ordinary allocations in between
                    del scratch
                o, r, d, t, info = env.step(a)
                h.update(o.tobytes())
                h.update(repr((float(r), bool(d), bool(t), bool(info["success"]))).encode())
                if d or t:
                    o, _ = env.reset()
                    h.update(o.tobytes())
            out.append(h.hexdigest())
    return out[0]


# ---------------------------------------------------------------------------
def run(ctx, spec):
    pid, tier, seed = ctx["pid"], ctx["tier"], ctx["seed"]
    rng = random.Random(seed)
    out = dict(violations=[], evaluations=0, distinct_nontrivial=0, samples=[], correspondence={})
    sizes = spec["sizes"][tier]
    bench = benchmark_params()
    psets = [(name, p) for name, p in bench.items()]
    for i in range(sizes["random_params"]):
        p = random_params(rng, small=(tier == "quick"))
        if not names_risky(p):
            psets.append((f"random{i}", p))
            # neighbouring parameter sets generated right afterwards in the same process: anything
            # remembered from one generation (caches keyed on part of the parameters) shows up
            if p["uniform"]:
                # tables enumerated for one (services, processes) shape must not leak into the next shape
                sq = fit_probs(dict(p, num_processes=p["num_services"], num_privescs=None, num_exploits=None))
                other = fit_probs(dict(sq, num_processes=(1 if p["num_services"] > 1 else 2)))
                psets.append((f"random{i}~square", sq))
                psets.append((f"random{i}~square~procs", other))
            if rng.random() < 0.6:
                for key in rng.sample(["num_processes", "num_services", "num_os"], 2):
                    q = dict(p, num_exploits=None, num_privescs=None)
                    q[key] = max(1, p[key] + rng.choice([-2, -1, 1, 2]))
                    fit_probs(q)
                    if not names_risky(q):
                        psets.append((f"random{i}~{key}", q))
    # several OSs, tight firewalls, few processes: the corner where vulnerability repair and firewall
    # selection interact (OS-specific exploits/escalations, one admitted service per rule)
    for j, (nh, nsrv, nos, npr, restr) in enumerate([(8, 4, 3, 2, 1), (10, 3, 3, 3, 1), (6, 5, 2, 2, 2)]):
        psets.append((f"stress{j}", dict(num_hosts=nh, num_services=nsrv, num_os=nos, num_processes=npr,
                                         restrictiveness=restr, exploit_probs=1.0, privesc_probs=1.0,
                                         r_sensitive=100, r_user=100, step_limit=500)))
    # options nobody combines: a random goal inside an address space larger than the network, uniform hosts with
    # OS-specific definitions, no escalation at all / more escalations than processes is excluded (D8)
    psets.append(("combo0", dict(num_hosts=8, num_services=3, num_os=2, num_processes=2, random_goal=True,
                                 address_space_bounds=(12, 9), restrictiveness=2, step_limit=300)))
    # as many exploits as there are (service, os) names, so that every name is used
    psets.append(("combo2", dict(num_hosts=6, num_services=2, num_os=2, num_processes=2, num_exploits=6, restrictiveness=2,
                                 step_limit=300)))
    psets.append(("combo1", dict(num_hosts=13, num_services=2, num_os=3, num_processes=3, random_goal=True, uniform=True,
                                 address_space_bounds=(20, 5), restrictiveness=1, exploit_probs=None, privesc_probs=None)))
    # host counts around the boundaries of the subnet arithmetic (multiples of 40, 41 and 5)
    edge = [40, 41, 42, 43, 44, 79, 80, 81, 82, 83, 84, 85, 86, 120, 121, 122, 123, 124, 125]
    for nh in (rng.sample(edge[:13], 3) if tier == "quick" else edge):
        psets.append((f"hosts{nh}", dict(num_hosts=nh, num_services=3, num_os=2, num_processes=2, restrictiveness=2,
                                         step_limit=1000)))
    seeds = list(range(sizes["seeds"]))
    if tier == "quick":
        psets = [x for x in psets if x[0] not in ("pocp-1-gen", "pocp-2-gen", "huge-gen")] + \
                [x for x in psets if x[0] == "pocp-2-gen"]
    # ---- tie + per-scenario judgement
    cmds, meta = [], []
    n_starved = 0
    from nasim.scenarios.generator import ScenarioGenerator
    reused = ScenarioGenerator()      # ONE generator object for the extra seeds of all small parameter sets
    for name, p in psets:
        more = list(range(len(seeds), sizes.get("seeds_small", len(seeds)))) if p["num_hosts"] <= 10 else []
        for s in ((seeds + more) if not name.startswith(("pocp", "hosts")) else seeds[:1]):
            try:
                sc, oracle, calls = genrec.generate_recorded(p, s, generator=reused if s in more else None)
            except Inexact:
                raise
            except Exception as e:   # noqa: BLE001
                out["violations"].append(dict(kind="generator-params", property="C15", failing_input_found=True,
                                              signature=None, params=p, seed=s,
                                              what=f"the generator raised for documented-valid parameters: {e!r}"[:400]))
                continue
            try:
                pw = genrec.params_wire(p)
            except Inexact:
                continue
            cmds.append([13, pw, oracle])
            meta.append((name, p, s, sc, len(oracle)))
        # the same parameter set fed by SCRIPTED draws (extremes mixed in): streams no pseudo-random generator shows
        if p["num_hosts"] <= 16 and not name.startswith(("pocp", "hosts")):
            for j in range(sizes.get("scripted", 2)):
                srng = random.Random(f"{seed}/{name}/{j}")
                try:
                    r = genrec.generate_scripted(p, srng)
                except Inexact:
                    raise
                except Exception as e:   # noqa: BLE001
                    out["violations"].append(dict(kind="generator-params", property="C15", failing_input_found=True,
                                                  signature=None, params=p, seed=f"scripted draws {seed}/{name}/{j}",
                                                  what=f"the generator raised for documented-valid parameters on a scripted "
                                                       f"stream of draws: {e!r}"[:400]))
                    continue
                if r is None:
                    n_starved += 1
                    continue
                try:
                    pw = genrec.params_wire(p)
                except Inexact:
                    continue
                cmds.append([13, pw, r[1]])
                meta.append((name, p, f"scripted draws {seed}/{name}/{j}", r[0], len(r[1])))
    mouts = run_driver_parallel(cmds, jobs=12) if cmds else []
    solv_cmds, solv_meta = [], []
    distinct = set()
    stats = dict(generated=len(meta), model_ok=0, draws=0, scripted_streams_starved=n_starved)
    for (name, p, s, sc, nor), m in zip(meta, mouts):
        out["evaluations"] += 1
        stats["draws"] += nor
        try:
            sd = scen.scenario_to_sd(sc)
            iw = genrec.canonical_wire(scen.sd_wire(sd))
        except Inexact:
            raise
        except Exception as e:   # noqa: BLE001 -- the generated object is not even a readable scenario
            out["violations"].append(dict(kind="generator-params", property=pid, failing_input_found=True, signature=None,
                                          params=p, seed=s, name=name,
                                          what=f"the generated scenario is malformed (reading it failed with {e!r})"[:300]))
            continue
        distinct.add(hashlib.sha1(json.dumps(iw).encode()).hexdigest())
        where = dict(params=p, seed=s, name=name,
                     generator_object_reused=bool(isinstance(s, int) and p["num_hosts"] <= 10 and s >= len(seeds)
                                                  and not name.startswith(("pocp", "hosts"))))
        if pid == "C15":
            # the property's clauses are judged on the implementation's scenario, whatever the tie says
            try:
                probs = judge_generated(p, sc)
            except Exception as e:   # noqa: BLE001
                probs = [f"scenario cannot be judged: {e!r}"[:200]]
            if probs:
                out["violations"].append(dict(kind="generator-params", property=pid, failing_input_found=True,
                                              signature=None, what="generated scenario breaks the documented "
                                              "invariants: " + "; ".join(probs[:4]), **where))
        if m[0] != 0:
            out["violations"].append(dict(kind="broken-correspondence", property=pid, failing_input_found=False,
                                          broken="generator correspondence (model does not finish on the recorded oracle)",
                                          what=f"model result {m}", **where))
            if pid == "C16":
                solv_cmds.append([15, scen.sd_wire(sd)])
                solv_meta.append((where, sc, sd))
            continue
        stats["model_ok"] += 1
        mw = genrec.canonical_wire(m[1])
        if mw != iw or m[2] != 0:
            diff = [i for i, (a, b) in enumerate(zip(iw, mw)) if a != b]
            out["violations"].append(dict(kind="broken-correspondence", property=pid, failing_input_found=False,
                                          broken="generator correspondence (scenario / consumed draws differ)",
                                          what=f"components {diff} differ; {m[2]} recorded draws left over",
                                          impl=str([iw[i] for i in diff])[:800], model=str([mw[i] for i in diff])[:800],
                                          **where))
            if pid == "C16":      # the tie is broken: the implementation's own scenario is what gets decided
                solv_cmds.append([15, scen.sd_wire(sd)])
                solv_meta.append((where, sc, sd))
            continue
        if pid == "C15" and not m[3]:
            out["violations"].append(dict(kind="generator-params", property=pid, failing_input_found=True,
                                          signature=None, what="generated scenario is not well formed (wf_scenario "
                                          "of the model is false)", **where))
        if pid == "C16":
            solv_cmds.append([15, m[1]])
            solv_meta.append((where, sc, sd))
    # ---- C16: solvability (model) + plan replay (real environment)
    if pid == "C16":
        for name in scen.SHIPPED:
            sc = scen.shipped_scenario(name)
            sd = scen.scenario_to_sd(sc)
            solv_cmds.append([15, scen.sd_wire(sd)])
            solv_meta.append((dict(name=name, shipped=True), sc, sd))
        souts = run_driver_parallel(solv_cmds, jobs=12)
        replayed, tight_limits = 0, 0
        for (where, sc, sd), so in zip(solv_meta, souts):
            out["evaluations"] += 1
            solvable, plan = so[0], so[1]
            if not where.get("shipped"):
                weak = sensitive_not_vulnerable(sd)
                if weak:
                    out["violations"].append(dict(kind="scenario", property=pid, failing_input_found=True, signature=None,
                                                  what=f"sensitive host(s) {weak} of the generated scenario are not "
                                                       "vulnerable to any available exploit (followed by an available "
                                                       "escalation when it grants only user access)",
                                                  scenario=sd, **where))
            if not solvable:
                out["violations"].append(dict(kind="scenario", property=pid, failing_input_found=True, signature=None,
                                              what="no action sequence reaches the goal (closure of the model)",
                                              scenario=sd, **where))
                continue
            try:
                done = replay_plan(sc, plan, sd)
            except Inexact:
                raise
            except Exception as e_:   # noqa: BLE001
                import traceback as _tb
                tb_ = _tb.format_exc()
                if "/nasim/" not in tb_:
                    raise
                out["violations"].append(dict(kind="scenario+plan", property=pid, failing_input_found=True, signature=None,
                                              what="the real environment cannot be built from / stepped on the scenario "
                                                   f"the generator returned: {e_!r}"[:300], scenario=sd, plan=plan,
                                              traceback=tb_[-1200:], **where))
                continue
            replayed += 1
            if not done:
                out["violations"].append(dict(kind="scenario+plan", property=pid, failing_input_found=True, signature=None,
                                              what="replaying the model's plan on the real environment does not end "
                                                   "with the terminal flag", scenario=sd, plan=plan, **where))
            elif not where.get("shipped") and plan and tight_limits < 8 and len(sd["hosts"]) <= 10:
                # the same generated scenario with the documented parameter step_limit = length of the plan:
                # the last step reaches the goal AND the limit, the terminal flag is still due
                tight_limits += 1
                sd2 = dict(sd, limit=len(plan))
                try:
                    done2 = replay_plan(scen.sd_to_scenario(sd2), plan, sd2)
                except Inexact:
                    raise
                except Exception as e_:   # noqa: BLE001
                    done2 = False
                if not done2:
                    out["violations"].append(dict(kind="scenario+plan", property=pid, failing_input_found=True,
                                                  signature=None, scenario=sd2, plan=plan,
                                                  what=f"with step_limit = {len(plan)} (the length of the plan) the replay on "
                                                       "the real environment does not end with the terminal flag set", **where))
            if len(out["samples"]) < 2:
                out["samples"].append(dict(where=where, plan_length=len(plan), plan=plan[:4]))
        stats["plans_replayed_on_impl"] = replayed
        # ---- a cheap sweep over parameter sets with MANY operating systems / services (names such as os_1 and
        # os_10 ...): only the pre-screens run on every scenario, the model's closure and the replay decide candidates
        import nasim
        many = [dict(num_hosts=8, num_services=3, num_os=15, num_processes=4), dict(num_hosts=16, num_services=5, num_os=20, num_processes=4),
                dict(num_hosts=10, num_services=12, num_os=11, num_processes=3, restrictiveness=2)]
        swept = 0
        for _ in range(240 if tier == "quick" else 3000):
            p_ = rng.choice(many)
            s_ = rng.randrange(100000)
            np.random.seed(s_)
            try:
                sc_ = nasim.generate_scenario(**p_)
                sd_ = scen.scenario_to_sd(sc_)
            except Inexact:
                raise
            except Exception as e_:   # noqa: BLE001
                out["violations"].append(dict(kind="generator-params", property=pid, failing_input_found=True, signature=None,
                                              params=p_, seed=s_, what=f"the generator raised: {e_!r}"[:300]))
                break
            swept += 1
            out["evaluations"] += 1
            if py_goal_reachable(sd_) and not sensitive_not_vulnerable(sd_):
                continue
            so_ = run_driver([[15, scen.sd_wire(sd_)]])[0]
            weak_ = sensitive_not_vulnerable(sd_)
            if not so_[0] or weak_ or not replay_plan(sc_, so_[1], sd_):
                out["violations"].append(dict(kind="scenario", property=pid, failing_input_found=True, signature=None,
                                              params=p_, seed=s_, scenario=sd_,
                                              what=("sensitive host(s) %s are not vulnerable to an available exploit (+ escalation)" % weak_
                                                    if weak_ else "no action sequence reaches the goal / the plan's replay does not end "
                                                                  "with the terminal flag") + " (sweep over parameter sets with many names)"))
                break
        stats["many_names_sweep"] = swept
        if any(v["kind"] == "broken-correspondence" for v in out["violations"]) \
           and not any(v.get("failing_input_found") for v in out["violations"]):
            found, tried = search_unsolvable(rng, psets, 40 if tier == "quick" else 600, reuse=True)
            stats["failing_input_search_scenarios"] = tried
            out["violations"] += found
        # kernel-checked fact about the CURRENT shipped files: gen/Shipped.v is rewritten and re-checked
        ok, cmd = shipped_theorem()
        out["extra_obligations"], out["extra_discharged"] = 1, int(ok)
        out["checker_extra"] = " ; " + cmd
        if not ok:
            out["violations"].append(dict(kind="scenario", property=pid, failing_input_found=False, signature=None,
                                          broken="theorem shipped_solvable (gen/Shipped.v, regenerated from the YAML files)",
                                          what="Coq no longer proves that all nine shipped scenarios are well formed "
                                               "and solvable"))
    # ---- C14: reproducibility in-process and across processes / hash seeds
    if pid == "C14":
        jobs = []
        for name, p in ([x for x in psets if x[0].startswith("random")] + psets)[:sizes["c14_sets"]]:
            for s in (range(sizes.get("seeds_small", 2)) if p["num_hosts"] <= 10 else seeds[:2]):
                jobs.append(dict(kind="gen", params=p, seed=s))
        for name in ("small-gen", "medium-gen", "large-gen"):
            for s in range(8, 8 + sizes.get("seeds_small", 2)):
                jobs.append(dict(kind="bench", name=name, seed=s))
        for name in list(bench)[:6]:
            jobs.append(dict(kind="bench", name=name, seed=3))
            jobs.append(dict(kind="traj", name=name, seed=5, steps=sizes["traj_steps"], modes=[rng.randrange(2), 1, rng.randrange(2)]))
            # parameterised actions, partially observable: random vectors (most decode to the no-op)
            jobs.append(dict(kind="traj", name=name, seed=6, steps=sizes["traj_steps"], modes=[0, 0, rng.randrange(2)]))
        # the same document after environments for OTHER scenarios were built in the process (the same names
        # in another order; another layout): the trajectory must be the one of a process that built only it
        for _ in range(sizes.get("seeds_small", 2) * 2):
            sd0 = scen.random_sd(rng, max_subnets=3, max_size=2)
            if sd0["nos"] + sd0["nsrv"] + sd0["nproc"] < 5:
                continue
            i0 = len(jobs)
            common = dict(kind="trajsd", sd=repr(sd0), seed=5, steps=sizes["traj_steps"], modes=[rng.randrange(2), 1, rng.randrange(2)])
            jobs.append(dict(common, before=[]))
            jobs.append(dict(common, before=[repr(scen.permuted_sibling(sd0))], same_as=i0))
            jobs.append(dict(common, before=[repr(scen.random_sd(rng, max_subnets=3, max_size=2)),
                                             repr(scen.permuted_sibling(sd0))], same_as=i0))
        for name in list(bench)[:3]:
            i0 = len(jobs)
            jobs.append(dict(kind="genseed", params=bench[name], seed=7, seed_type="int"))
            jobs.append(dict(kind="genseed", params=bench[name], seed=7, seed_type="np.int64", same_as=i0))
            jobs.append(dict(kind="genseed", params=bench[name], seed=7, seed_type="np.uint32", same_as=i0))
        # the same seeded run on an environment object with a past (seeded Gymnasium resets, earlier episodes):
        # with the global generator seeded identically the trajectory is the one of a fresh object
        for name in list(bench)[:4]:
            i0 = len(jobs)
            common = dict(kind="traj", name=name, seed=9, steps=sizes["traj_steps"], modes=[rng.randrange(2), 1, rng.randrange(2)])
            jobs.append(dict(common))
            jobs.append(dict(common, earlier=[["reset_seed", 5], ["steps", 3, 40]], same_as=i0))
            jobs.append(dict(common, earlier=[["steps", 4, 25], ["reset_seed", 11], ["steps", 5, 25], ["reset"]], same_as=i0))
        base = fingerprints_here(jobs)
        for j, job in enumerate(jobs):
            if "same_as" in job and base[j] != base[job["same_as"]]:
                out["violations"].append(dict(kind="seeded-run", property=pid, failing_input_found=True, signature=None,
                                              job={k: v for k, v in job.items()}, run="same process, other environments built first",
                                              what="the same scenario and seeded action sequence give a different trajectory "
                                                   "when environments for other scenarios (same names in another order / "
                                                   "another layout) were built in the process first"))
        again = fingerprints_here(jobs)
        out["evaluations"] += 2 * len(jobs)
        runs = {"same-process": again}
        for hs in sizes["hashseeds"]:
            runs[f"PYTHONHASHSEED={hs}"] = sub_fingerprints(jobs, hs)
            out["evaluations"] += len(jobs)
        # a fresh process with the jobs in REVERSE order: results must not depend on what the
        # process generated before
        runs["reverse-order, fresh process"] = list(reversed(sub_fingerprints(list(reversed(jobs)), 0)))
        out["evaluations"] += len(jobs)
        for label, fps in runs.items():
            for job, a, b in zip(jobs, base, fps):
                if a != b:
                    out["violations"].append(dict(kind="seeded-run", property=pid, failing_input_found=True,
                                                  signature=None, job=job, run=label,
                                                  what=f"the same seed gives a different "
                                                       f"{'scenario' if job['kind'] != 'traj' else 'trajectory'} ({label})"))
        stats["c14_jobs"] = len(jobs)
        stats["c14_runs"] = list(runs)
        out["samples"].append(dict(job=jobs[0], fingerprint=base[0]))
    if pid == "C15" and any(v["kind"] == "broken-correspondence" for v in out["violations"]) \
       and not any(v.get("failing_input_found") and v.get("signature") is None for v in out["violations"]):
        found, tried = search_malformed(rng, psets, 40 if tier == "quick" else 600)
        stats["failing_input_search_scenarios"] = tried
        out["violations"] += found
    # ---- C15: the deterministic skeleton (subnet sizes, topology) for EVERY number of hosts in a range
    if pid == "C15":
        from nasim.scenarios.generator import ScenarioGenerator
        nhs = list(range(3, 330 if tier == "quick" else 1300))
        cmd16 = [16, nhs]
        sk = run_driver([cmd16])[0]
        cmds.insert(0, [16, nhs[:25] + nhs[77:84]])
        mouts.insert(0, sk[:25] + sk[77:84])
        g = ScenarioGenerator()
        bad_n = []
        for nh, m in zip(nhs, sk):
            g._generate_subnets(nh)
            g._generate_topology()
            got = [[int(x) for x in g.subnets], [[int(x) for x in row] for row in np.asarray(g.topology)]]
            out["evaluations"] += 1
            if got != m or sum(got[0]) - 1 != nh:
                bad_n.append((nh, got[0], m[0]))
        stats["skeleton_sweep_hosts"] = [nhs[0], nhs[-1]]
        for nh, got, want in bad_n[:3]:
            out["violations"].append(dict(kind="generator-params", property=pid, failing_input_found=True, signature=None,
                                          params=dict(num_hosts=nh), seed=None,
                                          what=f"num_hosts={nh}: the generator's subnet sizes {got} (sum {sum(got) - 1} "
                                               f"hosts) or topology differ from the prescribed skeleton {want}"))
    # ---- C15: documented-valid parameter sets that cannot finish (known findings D7 / D8), under a watchdog
    if pid == "C15":
        probes = [("D7", dict(num_hosts=5, num_services=2, alpha_V=1.0), "alpha_V-equals-one"),
                  ("D8", dict(num_hosts=3, num_services=1, num_os=1, num_processes=1, num_privescs=2), "rejection-dead-end"),
                  ("D8", dict(num_hosts=3, num_services=1, num_os=1, num_exploits=3), "rejection-dead-end")]
        for did, p, sig in probes:
            code = ("import sys; sys.path.insert(0, %r); import nasim, numpy as np; np.random.seed(0); "
                    "nasim.generate_scenario(**%r)" % (REPO, p))
            try:
                r = subprocess.run([sys.executable, "-c", code], capture_output=True, text=True, timeout=sizes["watchdog_s"])
                failed = r.returncode != 0
                why = (r.stderr.strip().splitlines() or ["?"])[-1][:200]
            except subprocess.TimeoutExpired:
                failed, why = True, f"no result after {sizes['watchdog_s']} s (infinite rejection sampling)"
            out["evaluations"] += 1
            if failed:
                out["violations"].append(dict(kind="generator-params", property=pid, failing_input_found=True,
                                              signature=sig, params=p, seed=0,
                                              what=f"documented-valid parameters do not produce a scenario: {why}"))
    if len(out["samples"]) < 2 and meta:
        out["samples"].append(dict(params=meta[0][1], seed=meta[0][2], oracle_length=meta[0][4]))
    small = [(c, o) for c, o in zip(cmds, mouts) if len(json.dumps(c)) < 20000][:spec["coq_sample"][tier]]
    if small and coq_eval_cases(small, f"{pid}_{tier}"):
        raise RuntimeError("extracted driver and vm_compute disagree on generator commands")
    out["distinct_nontrivial"] = len(distinct)
    out["rule"] = ("parameter sets = the nine generated benchmarks + random documented-valid sets (uniform/correlated, "
                   "all probability specifications, random_goal, custom bounds) x seeds; the real generator runs under a "
                   "recorder of every numpy.random call and the model's generate is evaluated on that oracle: identical "
                   "scenario, all draws consumed; distinct = distinct generated scenarios")
    out["correspondence"] = dict(**stats, in_kernel_crosscheck=dict(commands=len(small), differing=0))
    unknown = [v for v in out["violations"] if v.get("signature") is None]
    unknown.sort(key=lambda v: not v.get("failing_input_found"))      # concrete failing inputs first
    known = [v for v in out["violations"] if v.get("signature") is not None]
    seen, k2 = set(), []
    for v in known:
        if v["signature"] not in seen:
            seen.add(v["signature"])
            k2.append(v)
    out["violations"] = unknown[:5] + k2
    return out


def replay(ctx, spec, payload):
    print(json.dumps({k: str(v)[:300] for k, v in payload.items() if k != "scenario"}, indent=1))
    o = run(ctx, spec)
    if any(v.get("what", "")[:40] == payload.get("what", "")[:40] for v in o["violations"]):
        print(f"VIOLATION property={ctx['pid']} replay=<given>")
        return 1
    return 0


if __name__ == "__main__" and len(sys.argv) > 1 and sys.argv[1] == "--fingerprints":
    sys.path.insert(0, HERE)
    jobs_ = json.loads(sys.stdin.read())
    print(json.dumps(fingerprints_here(jobs_)))
