"""Recording of every numpy.random call made by the scenario generator (the 'oracle'),
conversion of generator parameters to the model's gparams, and the comparison of the
generated Scenario with the model's [generate] on the recorded oracle."""
import math
from fractions import Fraction

import numpy as np

import scen
from common import fx, pz_of, TWO53, run_driver

NAMES = ["choice", "randint", "rand", "random_sample", "poisson"]


class Recorder:
    def __init__(self):
        self.oracle = []
        self.calls = []
        self.real = {n: getattr(np.random, n) for n in NAMES}

    def install(self):
        rec = self

        def index_in(seq, item):
            for i, x in enumerate(seq):
                if x is item:
                    return i
            for i, x in enumerate(seq):
                try:
                    if x == item:
                        return i
                except Exception:   # noqa: BLE001
                    pass
            raise ValueError("choice result not found in its sequence")

        def choice(a, size=None, replace=True, p=None):
            if isinstance(a, (int, np.integer)):
                r = rec.real["choice"](a, size, replace, p)
                rec.oracle += [int(r)] if size is None else [int(x) for x in r]
                rec.calls.append(("choice_int", int(a)))
                return r
            seq = list(a)
            idx = rec.real["choice"](len(seq), size, replace, p)
            if size is None:
                rec.oracle.append(int(idx))
                rec.calls.append(("choice", len(seq)))
                # what numpy itself returns for a list argument: an element of np.array(seq)
                return np.array(seq)[idx]
            rec.oracle += [int(i) for i in idx]
            rec.calls.append(("choice_n", len(seq), int(size)))
            return np.array(seq)[idx]

        def randint(low, high=None, size=None):
            r = rec.real["randint"](low, high, size)
            rec.oracle.append(int(r))
            rec.calls.append(("randint", int(low), None if high is None else int(high)))
            return r

        def rand(*args):
            r = rec.real["rand"](*args)
            k = Fraction(float(r)) * TWO53
            assert k.denominator == 1
            rec.oracle.append(int(k))
            rec.calls.append(("rand",))
            return r

        def random_sample(size=None):
            r = rec.real["random_sample"](size)
            for x in np.atleast_1d(r):
                k = Fraction(float(x)) * TWO53
                assert k.denominator == 1
                rec.oracle.append(int(k))
            rec.calls.append(("random_sample", size))
            return r

        def poisson(lam=1.0, size=None):
            r = rec.real["poisson"](lam, size)
            rec.oracle.append(int(r))
            rec.calls.append(("poisson",))
            return r
        np.random.choice, np.random.randint, np.random.rand = choice, randint, rand
        np.random.random_sample, np.random.poisson = random_sample, poisson

    def remove(self):
        for n, f in self.real.items():
            setattr(np.random, n, f)


class Player(Recorder):
    """A scripted source of draws instead of numpy's generator: mostly uniform, but every so often an extreme
    (first / last index, 0, the smallest positive doubles, 1 - 2^-53).  The theorems about the generator hold
    for ALL streams of draws; a pseudo-random generator only ever shows typical ones."""

    def __init__(self, rng, extreme=0.12):
        super().__init__()
        import random as _r
        self.rng = rng if rng is not None else _r.Random(0)
        self.extreme = extreme
        rec = self

        def pick(n):
            if n <= 1:
                return 0
            if rec.rng.random() < rec.extreme:
                return rec.rng.choice([0, n - 1])
            return rec.rng.randrange(n)

        def unit(zero=True):
            x = rec.rng.random()
            if x < rec.extreme:
                k = rec.rng.choice(([0] if zero else []) + [1, 2, 2 ** 20, 2 ** 38 + 1, TWO53 - 1, TWO53 - 2, TWO53 // 2])
            else:
                k = rec.rng.randrange(TWO53)
            return k / TWO53

        def choice(a, size=None, replace=True, p=None):
            if p is not None:
                return rec.numpy_real["choice"](a, size, replace, p)
            n = int(a) if isinstance(a, (int, np.integer)) else len(list(a))
            if size is None:
                return pick(n)
            k = int(size)
            if replace:
                return np.array([pick(n) for _ in range(k)], dtype=np.int64)
            pool, out = list(range(n)), []
            for _ in range(k):
                out.append(pool.pop(pick(len(pool))))
            return np.array(out, dtype=np.int64)

        def randint(low, high=None, size=None):
            lo, hi = (0, int(low)) if high is None else (int(low), int(high))
            if size is not None:
                return np.array([lo + pick(hi - lo) for _ in range(int(size))], dtype=np.int64)
            return lo + pick(hi - lo)

        def rand(*args):
            if args:
                return np.array([unit() for _ in range(int(np.prod(args)))]).reshape(args)
            return unit()

        def random_sample(size=None):
            # the generator turns these draws into action probabilities, documented to lie in (0, 1]: the draw 0.0
            # (one in 2^53 for numpy) is the known hypothesis of the C15 / C16 theorems, not scripted here
            if size is None:
                return unit(zero=False)
            return np.array([unit(zero=False) for _ in range(int(np.prod(size)))]).reshape(size)

        def poisson(lam=1.0, size=None):
            return rec.rng.choice([0, 1, 1, 2, 3]) if rec.rng.random() < rec.extreme else int(np.random.RandomState(rec.rng.randrange(2 ** 31)).poisson(lam))
        self.real = dict(self.real, choice=choice, randint=randint, rand=rand, random_sample=random_sample,
                         poisson=poisson)
        self.numpy_real = {n: getattr(np.random, n) for n in NAMES}

    def remove(self):
        for n, f in self.numpy_real.items():
            setattr(np.random, n, f)


def generate_scripted(params, rng, generator=None, watchdog_s=8):
    """the real generator fed by a scripted stream of draws (Player); returns (Scenario, oracle, calls) or None
    when the generator does not finish within the watchdog (rejection sampling can starve on adversarial draws)"""
    import signal
    import nasim
    rec = Player(rng)

    class _Timeout(Exception):
        pass

    def _alarm(signum, frame):
        raise _Timeout()
    old = signal.signal(signal.SIGALRM, _alarm)
    signal.alarm(watchdog_s)
    rec.install()
    try:
        kw = {k: v for k, v in params.items() if k != "seed"}
        sc = nasim.generate_scenario(**kw) if generator is None else generator.generate(**kw)
    except _Timeout:
        return None
    finally:
        signal.alarm(0)
        signal.signal(signal.SIGALRM, old)
        rec.remove()
    return sc, rec.oracle, rec.calls


def thr(x):
    """ceil(x * 2^53) of a double threshold"""
    f = Fraction(float(x)) * TWO53
    return -((-f.numerator) // f.denominator)


def probspec(spec, n):
    if spec is None:
        return [1]
    if spec == "mixed":
        levels = [0.6, 0.9] if n == 1 else [0.3, 0.6, 0.9]
        return [2, [pz_of(x) for x in levels]]
    if isinstance(spec, list):
        return [0, [pz_of(x) for x in spec]]
    return [0, [pz_of(spec)] * n]


def params_wire(params):
    """generate()'s keyword arguments -> the model's gparams (wire).  The float thresholds of
    the Dirichlet processes are evaluated here with IEEE doubles exactly as the generator does."""
    p = dict(num_os=2, num_processes=2, num_exploits=None, num_privescs=None, r_sensitive=10, r_user=10,
             exploit_cost=1, exploit_probs=1.0, privesc_cost=1, privesc_probs=1.0, service_scan_cost=1,
             os_scan_cost=1, subnet_scan_cost=1, process_scan_cost=1, uniform=False, alpha_H=2.0, alpha_V=2.0,
             lambda_V=1.0, restrictiveness=5, random_goal=False, base_host_value=1, host_discovery_value=1,
             step_limit=None, address_space_bounds=None)
    p.update({k: v for k, v in params.items() if k not in ("seed", "name")})
    nh, nsrv = p["num_hosts"], p["num_services"]
    nexp = nsrv if p["num_exploits"] is None else p["num_exploits"]
    npe = p["num_processes"] if p["num_privescs"] is None else p["num_privescs"]
    aH, aV = p["alpha_H"], p["alpha_V"]
    thH = [0] + [thr(aH / (aH + i - 1)) for i in range(1, nh + 1)]
    maxn = 64
    thP = [0] + [thr(aV / (aV + i - 1)) for i in range(1, maxn)]
    try:
        thS = [thr(aV / (aV - 1))]
    except ZeroDivisionError:
        thS = []
    b = p["address_space_bounds"]
    return [nh, nsrv, p["num_os"], p["num_processes"], nexp, npe, fx(p["r_sensitive"]), fx(p["r_user"]),
            fx(p["exploit_cost"]), probspec(p["exploit_probs"], nexp), fx(p["privesc_cost"]),
            probspec(p["privesc_probs"], npe),
            [fx(p["service_scan_cost"]), fx(p["os_scan_cost"]), fx(p["subnet_scan_cost"]), fx(p["process_scan_cost"])],
            int(bool(p["uniform"])), thH, thP, thS, p["restrictiveness"], int(bool(p["random_goal"])),
            fx(p["base_host_value"]), fx(p["host_discovery_value"]),
            [] if p["step_limit"] is None else [p["step_limit"]], [] if b is None else [[b[0], b[1]]]]


def generate_recorded(params, seed, generator=None):
    """runs the real generator under the recorder; returns (Scenario, oracle).  With `generator` an existing
    ScenarioGenerator instance is used again (the documented class API) instead of a fresh one."""
    import nasim
    rec = Recorder()
    np.random.seed(seed)
    rec.install()
    try:
        kw = {k: v for k, v in params.items() if k != "seed"}
        sc = nasim.generate_scenario(**kw) if generator is None else generator.generate(**kw)
    finally:
        rec.remove()
    return sc, rec.oracle, rec.calls


def canonical_wire(w):
    """order-insensitive parts of a scenario wire (firewall allow-lists are sets)"""
    w = list(w)
    w[8] = [[k, sorted(v)] for k, v in w[8]]
    return w
