"""Runs the implementation (nasim from /repo's working tree) on wire-level cases and
returns its observable behaviour in the wire shape of the Coq model's outputs.
The single random draw of Network.perform_action is scripted by replacing
numpy.random.rand in this process; the number of calls is recorded."""
import numpy as np

from common import fx, draw_of, U, Inexact  # noqa: F401

BAD = -7   # sentinel for entries the documented layout does not allow


class Shim:
    """Replacement for numpy.random.rand while a step runs."""

    def __init__(self):
        self.k = 0
        self.calls = 0
        self.real = np.random.rand

    def __call__(self, *args):
        self.calls += 1
        if args:
            return self.real(*args)
        return draw_of(self.k)

    def install(self):
        np.random.rand = self

    def remove(self):
        np.random.rand = self.real


def flag(x):
    x = float(x)
    return 1 if x == 1.0 else 0 if x == 0.0 else BAD


def onehot_pos(seg):
    ones = [i for i, x in enumerate(seg) if float(x) == 1.0]
    zeros = [i for i, x in enumerate(seg) if float(x) == 0.0]
    if len(ones) == 1 and len(zeros) == len(seg) - 1:
        return ones[0]
    return BAD


def decode_row(vec, lay):
    """Independent decoder following the documented layout:
    subnet one-hot | host one-hot | compromised reachable discovered value
    discovery_value access | OS.. | services.. | processes.."""
    b0, b1, nos, nsrv, nproc = lay
    if len(vec) != b0 + b1 + 6 + nos + nsrv + nproc:
        return [BAD]
    p = b0 + b1
    acc = float(vec[p + 5])
    return [[onehot_pos(vec[:b0]), onehot_pos(vec[b0:p])],
            flag(vec[p]), flag(vec[p + 1]), flag(vec[p + 2]),
            fx(vec[p + 3]), fx(vec[p + 4]),
            int(acc) if acc in (0.0, 1.0, 2.0) else BAD,
            [flag(x) for x in vec[p + 6:p + 6 + nos]],
            [flag(x) for x in vec[p + 6 + nos:p + 6 + nos + nsrv]],
            [flag(x) for x in vec[p + 6 + nos + nsrv:]]]


def state_wire(tensor, lay):
    return [decode_row(r, lay) for r in np.asarray(tensor)]


def mat_wire(arr):
    a = np.asarray(arr, dtype=np.float64)        # float32 -> float64 is exact
    y = a * 64.0
    if not np.all(np.isfinite(y)) or not np.array_equal(y, np.rint(y)):
        bad_ = a[~(np.isfinite(y) & (y == np.rint(y)))]
        raise Inexact(f"{bad_.flat[0]!r} is not a multiple of 1/64")
    w = y.astype(np.int64)
    if w.ndim == 1:
        return [w.tolist()]
    return w.tolist()


def result_wire(info, sd_names, addrs):
    osn, srvn, procn = sd_names

    def d(dct, ns):
        if not dct:
            return []
        return [[1 if bool(dct[n]) else 0 for n in ns]]
    acc = info["access"]
    if isinstance(acc, dict):
        accw = [] if not acc else [BAD]
    else:
        accw = [int(acc)]
    disc = info["discovered"]
    newly = info["newly_discovered"]
    return [int(bool(info["success"])), fx(info["value"]),
            int(bool(info["connection_error"])), int(bool(info["permission_error"])),
            int(bool(info["undefined_error"])),
            d(info["services"], srvn), d(info["os"], osn), d(info["processes"], procn), accw,
            [int(bool(disc[a])) for a in addrs] if disc else [],
            [int(bool(newly[a])) for a in addrs] if newly else []]


def make_action(w, sd_names, enames, pnames):
    """wire action -> nasim Action object"""
    from nasim.envs import action as A
    osn, srvn, procn = sd_names
    kind, tgt, cost, pz, req, srv, proc, os_, acc = w
    t = (tgt[0], tgt[1])
    c = cost / U
    if kind == 6:
        return A.NoOp()
    if kind in (0, 1, 2, 3):
        cls = [A.ServiceScan, A.OSScan, A.SubnetScan, A.ProcessScan][kind]
        from common import TWO53
        return cls(target=t, cost=c, prob=pz / TWO53, req_access=req)
    from common import TWO53
    prob = pz / TWO53
    o = None if not os_ else osn[os_[0]]
    if kind == 4:
        return A.Exploit("e?", t, c, srvn[srv], os=o, access=acc, prob=prob, req_access=req)
    return A.PrivilegeEscalation("pe?", t, c, acc, process=procn[proc], os=o, prob=prob, req_access=req)


class CallerArrayModified(Exception):
    pass


class ImplRunner:
    """One environment driven by wire ops."""

    def __init__(self, scenario, sd, modes, arg_style="plain"):
        from nasim.envs.environment import NASimEnv
        from scen import names
        self.sd = sd
        self.names = names(sd)
        self.addrs = [a for a, _ in sd["hosts"]]
        self.lay = (sd["bounds"][0], sd["bounds"][1], sd["nos"], sd["nsrv"], sd["nproc"])
        self.modes = modes
        self.held = {}
        self.kept = []
        self.arg_style = arg_style
        self.shim = Shim()
        self.env = NASimEnv(scenario, fully_obs=bool(modes[0]), flat_actions=bool(modes[1]),
                            flat_obs=bool(modes[2]))
        self.pool = [self.env.current_state]
        self.init_wire = state_wire(self.env.current_state.tensor, self.lay)

    def arg(self, x):
        tag = x[0]
        if tag == 0:
            if self.arg_style == "numpy":
                return np.int64(x[1])
            return int(x[1])
        if tag == 1:
            if self.arg_style == "numpy":
                # an agent keeps ONE array per distinct action and passes it again and again
                key = tuple(x[1])
                if key not in self.held:
                    self.held[key] = np.array(x[1], dtype=np.int64)
                elif tuple(int(v) for v in self.held[key]) != key:
                    raise CallerArrayModified(f"the action array {list(key)} handed to the environment earlier now reads "
                                              f"{[int(v) for v in self.held[key]]}")
                return self.held[key]
            if self.arg_style == "tuple":
                return tuple(x[1])
            return list(x[1])
        return make_action(x[1], self.names, None, None)

    def stepout(self, next_state, obs_arr, rew, done, info, used):
        # arrays handed out earlier are the caller's: later calls must not write into them
        for arr_, copy_ in self.kept:
            if not np.array_equal(arr_, copy_):
                raise CallerArrayModified("an observation array returned by an earlier call has changed since")
        if isinstance(obs_arr, np.ndarray):
            self.kept = (self.kept + [(obs_arr, obs_arr.copy())])[-3:]
        out = [state_wire(next_state.tensor, self.lay), mat_wire(obs_arr), fx(rew), int(bool(done)),
               result_wire(info, self.names, self.addrs), used]
        # the info dict is the caller's: what the caller does with it afterwards (here: empty every container in
        # it, overwrite the scalars) must not reach the environment
        if isinstance(info, dict):
            for k_, v_ in list(info.items()):
                if isinstance(v_, (dict, list, set)):
                    v_.clear()
                else:
                    info[k_] = None
        return out

    def run_op(self, op):
        env = self.env
        tag = op[0]
        try:
            if tag == 0:
                # Gymnasium's keyword arguments are accepted and change nothing that the properties speak about
                obs, info = env.reset(seed=op[1], options={"verif": 1}) if len(op) > 1 else env.reset()
                self.pool.append(env.current_state)
                return [0, mat_wire(obs), state_wire(env.current_state.tensor, self.lay)]
            if tag == 1:
                self.shim.k, self.shim.calls = op[2], 0
                self.shim.install()
                try:
                    obs, rew, done, lim, info = env.step(self.arg(op[1]))
                finally:
                    self.shim.remove()
                self.pool.append(env.current_state)
                used = self.shim.calls if self.shim.calls <= 1 else BAD
                return [1, self.stepout(env.current_state, obs, rew, done, info, used),
                        int(bool(lim)), int(env.steps)]
            if tag == 2:
                if op[1] >= len(self.pool):
                    return [9]
                st = self.pool[op[1]]
                if len(op) > 4 and op[4]:
                    # the state as restored from a checkpoint (plain numbers -> float64 array -> State.from_numpy)
                    from nasim.envs.state import State
                    st = State.from_numpy(np.array(st.tensor.tolist(), dtype=np.float64), st.tensor.shape, st.host_num_map)
                self.shim.k, self.shim.calls = op[3], 0
                self.shim.install()
                try:
                    ns, o, rew, done, info = env.generative_step(st, self.arg(op[2]))
                finally:
                    self.shim.remove()
                self.pool.append(ns)
                arr = o.numpy_flat() if self.modes[2] else o.numpy()
                used = self.shim.calls if self.shim.calls <= 1 else BAD
                return [2, self.stepout(ns, arr, rew, done, info, used), int(env.steps)]
            if tag == 3:
                if op[1] >= len(self.pool):
                    return [9]
                if len(op) > 2 and op[2]:
                    # the text renderers first (documented as displays): they must not change any answer
                    import contextlib
                    import io
                    with contextlib.redirect_stdout(io.StringIO()):
                        env.render_state(mode="human", state=self.pool[op[1]])
                        env.render_state(mode="human")
                        env.render_obs(mode="human")
                        env.render_action(env.action_space.sample() if not self.modes[1] else 0)
                    # the two documented read-only queries about the scenario, and a shallow copy of the environment
                    # that the caller plays with (its own episode): neither may change any later answer of this one
                    try:
                        env.get_minimum_hops()
                        env.get_score_upper_bound()
                    except Exception:   # noqa: BLE001 -- their results belong to C20
                        pass
                    try:
                        import copy
                        twin = copy.copy(env)
                        twin.reset()
                        twin.step(twin.action_space.sample())
                        twin.reset()
                    except Exception:   # noqa: BLE001
                        pass
                return [3, int(bool(env.goal_reached(self.pool[op[1]])))]
            if tag == 4:
                m = env.get_action_mask()
                return [4, [int(x) for x in m]]
            if tag == 5:
                if len(op) > 1 and op[1]:
                    try:
                        env.generate_random_initial_state()    # another documented read-only constructor of states
                    except Exception:   # noqa: BLE001 -- its own result is nobody's property here
                        pass
                st = env.generate_initial_state()      # documented: does not touch the environment
                self.pool.append(st)
                return [5, state_wire(st.tensor, self.lay)]
        except Inexact as e:
            # the inputs are exact, so a number outside the exact domain was made by the implementation: an output
            # the model cannot produce; reported like an exception of the call (the model answers, the implementation
            # has no answer in the domain)
            self.last_error = "inexact output: " + repr(e)
            return [9]
        except Exception as e:   # noqa: BLE001 -- every exception class maps to the model's RError
            self.last_error = repr(e)
            return [9]
        raise ValueError(f"bad op {op}")
