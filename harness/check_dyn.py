"""Checks for the dynamics properties (C01-C07 and the dynamics part of others):
correspondence stream + in-kernel cross-check; on a disagreement, a search over
implementation steps judged by the Coq monitors (Monitors.v, via the extracted driver)."""
import json
import random
import traceback

import numpy as np

import dyn
import scen
from common import run_driver, coq_eval_cases, TWO53, U, draw_of, Timer
from impl import ImplRunner, state_wire, result_wire, make_action, BAD

MONITOR_IDX = {"C01": 0, "C02": 1, "C03": 2, "C04": 3, "C05": 4, "C06": 5, "C07": 6}


def judge_records(sdw, recs):
    """monitor verdicts (list of 7 bools) for implementation step records of one scenario"""
    good = [r for r in recs if not dyn.has_bad(r)]
    if not good:
        return []
    out = run_driver([[3, sdw, good]])[0]
    if out == [-1]:
        return []
    return list(zip(good, out))


def judge_cases(cases, midx):
    """all implementation steps of the cases on which monitor midx is false"""
    failing, judged = [], 0
    cmds, index = [], []
    for c in cases:
        recs, _, _ = dyn.records_of(c)
        recs = [(i, r) for i, r in recs if not dyn.has_bad(r)]
        if recs:
            cmds.append([3, c["cmd"][1], [r for _, r in recs]])
            index.append((c, recs))
    outs = run_driver(cmds) if cmds else []
    for (c, recs), verdicts in zip(index, outs):
        if verdicts == [-1]:
            continue
        for (i, r), v in zip(recs, verdicts):
            judged += 1
            if not v[midx]:
                failing.append((c, i, r, v))
    return failing, judged


def run(ctx, spec):
    pid, tier, seed = ctx["pid"], ctx["tier"], ctx["seed"]
    t = Timer()
    ncases, nops = spec["sizes"][tier]
    cfg = dict(spec.get("cfg", {}))
    cfg["traj_fields"] = set(spec.get("traj_fields", set())) | {"error"}
    cfg["resync_fields"] = set(spec.get("resync_fields", set()))
    outcome = dict(violations=[], evaluations=0, distinct_nontrivial=0, samples=[])
    try:
        report, bad, cases, rdiffs = dyn.run_stream(pid, seed, ncases, nops, cfg, jobs=12)
    except Exception:   # noqa: BLE001
        tb = traceback.format_exc()
        if "/nasim/" in tb:
            outcome["violations"].append(dict(
                kind="correspondence-not-executable", property=pid, failing_input_found=False,
                what="the implementation raised while the correspondence stream was being generated",
                traceback=tb[-3000:], broken=f"correspondence stream dyn/{pid}"))
            return outcome
        raise
    outcome["evaluations"] = report["ops"]
    outcome["distinct_nontrivial"] = report["distinct_nontrivial"]
    outcome["rule"] = (
        "cases = (scenario, modes, op history, scripted draws) from one PRNG (VERIF_SEED); scenarios: random "
        "structured (2-6 subnets, asymmetric firewalls, empty allow-lists, host deny-lists, several public "
        "subnets, values of any sign, fractional costs), shipped YAML and generated benchmarks; actions "
        "guided by the implementation's current state; draws placed on both sides of each probability. "
        "evaluations = operations executed on both sides; a step is non-trivial when it changed the state "
        "or failed at a gate; distinct = distinct (scenario, op, outcome) keys. Trajectory fields are compared "
        "along the whole history; per-step fields are compared with the model re-started from the "
        "implementation's own pre-state of each step (so one divergence does not cascade).")
    rng = random.Random(seed ^ 0x5EED)
    k = spec.get("coq_sample", {}).get(tier, 20)
    sample = [c for c in rng.sample(cases, min(k, len(cases))) if c["model"] != [-1]]
    coq_fail = coq_eval_cases([(c["cmd"], c["model"]) for c in sample], f"{pid}_{tier}") if sample else []
    outcome["correspondence"] = dict(
        cases=report["cases"], ops=report["ops"],
        trajectory_fields=sorted(cfg["traj_fields"]), trajectory_disagreements=report["disagreements"],
        per_step_fields=sorted(cfg["resync_fields"]), per_step_compared=report["resync_steps"],
        per_step_disagreements=report["resync_disagreements"],
        stats=report["stats"],
        in_kernel_crosscheck=dict(cases=len(sample), differing=len(coq_fail)), wall_s=t.s())
    if coq_fail:
        raise RuntimeError(f"extracted driver and vm_compute disagree on cases {coq_fail}")
    for c in cases[:2]:
        outcome["samples"].append(dict(scenario=c["name"], modes=c["modes"], ops=c["ops"][:6],
                                       impl_first=str(c["impl"][:1])[:400]))
    sanity = report["stats"]
    if report["ops"] > 200 and sanity.get("outcome:success", 0) < 0.05 * max(1, sanity.get("op:step", 1)):
        raise RuntimeError("harness sanity gate: fewer than 5% of steps succeed; generator degenerated")
    # the property's monitor judges EVERY implementation step of the run (not only disagreeing ones)
    midx = MONITOR_IDX.get(pid)
    mon_fails, mon_judged = judge_cases(cases, midx) if midx is not None else ([], 0)
    outcome["correspondence"]["monitor_judged_impl_steps"] = mon_judged
    outcome["correspondence"]["monitor_rejected"] = len(mon_fails)
    outcome["traces_validated_against_impl"] = mon_judged
    if not bad and not rdiffs and not mon_fails:
        return outcome

    # ---- something disagrees: look for a failing input ----
    found, unexplained = [], []
    for (c, i, r, v) in mon_fails[:3]:
        found.append(dict(kind="step-record", property=pid, failing_input_found=True,
                          what=f"monitor ok_{pid} rejects this implementation step",
                          scenario=c["sd"], modes=c["modes"], record=r, op_index=i, history=c["ops"][:i + 1],
                          verdicts=dict(zip(sorted(MONITOR_IDX), v))))
    direct = spec.get("direct_fields", set())
    for c in bad:
        i, f = c["diff"]
        item = dict(scenario=c["sd"], modes=c["modes"], ops=c["ops"][:i + 1], op_index=i, field=f,
                    impl=str(dyn.split_out(c["impl"][i]).get(f))[:1500] if i < len(c["impl"]) else None,
                    model=str(dyn.split_out(c["model"][1][i]).get(f))[:1500]
                    if c["model"] != [-1] and i < len(c["model"][1]) else None,
                    impl_error=c.get("errs"))
        if f in direct or (f == "error" and "error" in direct):
            found.append(dict(item, kind="history", property=pid, failing_input_found=True,
                              what=f"on this history the implementation's '{f}' at operation {i} is not the value "
                                   f"the property prescribes (the model's value is proved to be the prescribed one)"))
        else:
            unexplained.append(dict(item, kind="broken-correspondence", property=pid, failing_input_found=False,
                                    broken=f"trajectory correspondence dyn/{pid}, field '{f}'",
                                    what="implementation and model disagree along this history"))
    by_case = {}
    for (c, i, f, iv, mv, r) in rdiffs:
        by_case.setdefault(id(c), (c, []))[1].append((i, f, iv, mv, r))
    for c, items in by_case.values():
        recs = [r for (_, f, _, _, r) in items if r is not None and len(r) == 8]
        verdicts = dict()
        if midx is not None and recs:
            for r, v in judge_records(c["cmd"][1], recs):
                verdicts[json.dumps(r)] = v
        for (i, f, iv, mv, r) in items:
            v = verdicts.get(json.dumps(r)) if r is not None and len(r) == 8 else None
            item = dict(scenario=c["sd"], modes=c["modes"], history=c["ops"][:i + 1], op_index=i, field=f,
                        record=r, impl=str(iv)[:1500], model=str(mv)[:1500])
            if f in direct:
                found.append(dict(item, kind="step-record", property=pid, failing_input_found=True,
                                  what=f"the implementation's '{f}' for this step/state is not the value the "
                                       f"property prescribes"))
            elif v is not None and not v[midx]:
                found.append(dict(item, kind="step-record", property=pid, failing_input_found=True,
                                  what=f"monitor ok_{pid} rejects this implementation step",
                                  verdicts=dict(zip(sorted(MONITOR_IDX), v))))
            else:
                unexplained.append(dict(item, kind="broken-correspondence", property=pid, failing_input_found=False,
                                        broken=f"per-step correspondence dyn/{pid}, field '{f}'",
                                        what="implementation and model disagree on this step, "
                                             f"but monitor ok_{pid} accepts the implementation's step"))
    if not found and midx is not None:
        # widen the search: every implementation step of this run, then fresh cases
        fails, judged = [], mon_judged
        extra_seed, budget = seed, spec.get("search_rounds", {}).get(tier, 3)
        while not fails and budget > 0:
            extra_seed += 7919
            budget -= 1
            _, _, more, _ = dyn.run_stream(pid, extra_seed, ncases, nops, cfg, jobs=12)
            fails, j2 = judge_cases(more, midx)
            judged += j2
        for (c, i, r, v) in fails[:3]:
            found.append(dict(kind="step-record", property=pid, failing_input_found=True,
                              what=f"monitor ok_{pid} rejects this implementation step",
                              scenario=c["sd"], modes=c["modes"], record=r, op_index=i, history=c["ops"][:i + 1],
                              verdicts=dict(zip(sorted(MONITOR_IDX), v))))
        for u in unexplained:
            u["judged_steps_in_search"] = judged
    outcome["violations"] += found[:5] if found else unexplained[:3]
    return outcome


def replay(ctx, spec, payload):
    """re-run a replay file on the implementation and re-judge it"""
    pid = ctx["pid"]
    sd = payload["scenario"]
    sd = fix_sd(sd)
    scenario = scen.sd_to_scenario(sd)
    if payload["kind"] in ("history", "broken-correspondence"):
        runner = ImplRunner(scenario, sd, payload["modes"])
        outs = [runner.run_op(op) for op in payload["ops"]]
        model = run_driver([[0, scen.sd_wire(sd), payload["modes"], payload["ops"]]])[0]
        d = dyn.diff_outs(outs, model[1], dyn.FIELDS.get(pid, dyn.FIELDS["all"]))
        print(json.dumps(dict(diff=d)))
        if d is not None:
            print(f"VIOLATION property={pid} replay={ctx.get('replay_path', '<given>')}")
            return 1
        return 0
    if payload["kind"] == "step-record":
        runner = ImplRunner(scenario, sd, payload["modes"])
        outs = [runner.run_op(op) for op in payload["history"]]
        case = dict(cmd=[0, scen.sd_wire(sd), payload["modes"], payload["history"]], ops=payload["history"],
                    impl=outs, modes=payload["modes"], impl_init=runner.init_wire)
        fails, judged = judge_cases([case], MONITOR_IDX[pid]) if pid in MONITOR_IDX else ([], 0)
        rd = dyn.resync_compare([case], set(spec.get("resync_fields", set())))
        print(json.dumps(dict(judged=judged, monitor_rejects=len(fails), per_step_disagreements=len(rd))))
        if fails or rd:
            print(f"VIOLATION property={pid} replay={ctx.get('replay_path', '<given>')}")
            return 1
        return 0
    print("unknown replay kind")
    return 2


def fix_sd(sd):
    """JSON round trip turns tuple keys into strings; undo."""
    import ast

    def key(k):
        return ast.literal_eval(k) if isinstance(k, str) else tuple(k)
    sd = dict(sd)
    sd["fw"] = {key(k): v for k, v in sd["fw"].items()}
    sd["hosts"] = [(tuple(a), dict(c, fw={key(k): v for k, v in c["fw"].items()})) for a, c in sd["hosts"]]
    sd["sens"] = [(tuple(a), v) for a, v in sd["sens"]]
    sd["bounds"] = tuple(sd["bounds"])
    sd["costs"] = tuple(sd["costs"])
    if "names" in sd:
        sd["names"] = tuple(list(x) for x in sd["names"])
    return sd
