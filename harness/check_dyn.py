"""Checks for the dynamics properties (C01-C07 and the dynamics part of others):
correspondence stream + in-kernel cross-check; on a disagreement, a search over
implementation steps judged by the Coq monitors (Monitors.v, via the extracted driver)."""
import json
import random
import traceback

import numpy as np

import dyn
import scen
from common import run_driver, coq_eval_cases, TWO53, U, draw_of, Timer
from impl import ImplRunner, state_wire, result_wire, make_action, BAD

MONITOR_IDX = {"C01": 0, "C02": 1, "C03": 2, "C04": 3, "C05": 4, "C06": 5, "C07": 6}


def judge_records(sdw, recs):
    """monitor verdicts (list of 7 bools) for implementation step records of one scenario"""
    good = [r for r in recs if not dyn.has_bad(r)]
    if not good:
        return []
    out = run_driver([[3, sdw, good]])[0]
    if out == [-1]:
        return []
    return list(zip(good, out))


def parallel_by_size(cmds, jobs=14):
    """the commands spread over several driver processes, heaviest first (a few huge scenarios dominate)"""
    from concurrent.futures import ThreadPoolExecutor
    order = sorted(range(len(cmds)), key=lambda i: -len(str(cmds[i])))
    buckets = [[] for _ in range(min(jobs, len(cmds)))]
    load = [0] * len(buckets)
    for i in order:
        b = load.index(min(load))
        buckets[b].append(i)
        load[b] += len(str(cmds[i]))
    with ThreadPoolExecutor(max_workers=len(buckets)) as ex:
        res = list(ex.map(lambda b: run_driver([cmds[i] for i in b]), buckets))
    out = [None] * len(cmds)
    for b, r in zip(buckets, res):
        for i, o in zip(b, r):
            out[i] = o
    return out


def judge_cases(cases, midx):
    """all implementation steps of the cases on which monitor midx is false"""
    failing, judged = [], 0
    cmds, index = [], []
    for c in cases:
        recs, _, _ = dyn.records_of(c)
        recs = [(i, r) for i, r in recs if not dyn.has_bad(r)]
        if recs:
            cmds.append([3, c["cmd"][1], [r for _, r in recs]])
            index.append((c, recs))
    outs = parallel_by_size(cmds) if cmds else []
    for (c, recs), verdicts in zip(index, outs):
        if verdicts == [-1]:
            continue
        for (i, r), v in zip(recs, verdicts):
            judged += 1
            if not v[midx]:
                failing.append((c, i, r, v))
    return failing, judged


def run(ctx, spec):
    pid, tier, seed = ctx["pid"], ctx["tier"], ctx["seed"]
    t = Timer()
    ncases, nops = spec["sizes"][tier]
    cfg = dict(spec.get("cfg", {}))
    cfg["traj_fields"] = set(spec.get("traj_fields", set())) | {"error"}
    cfg["resync_fields"] = set(spec.get("resync_fields", set()))
    outcome = dict(violations=[], evaluations=0, distinct_nontrivial=0, samples=[])
    try:
        report, bad, cases, rdiffs = dyn.run_stream(pid, seed, ncases, nops, cfg, jobs=12)
    except Exception:   # noqa: BLE001
        tb = traceback.format_exc()
        if "/nasim/" in tb:
            outcome["violations"].append(dict(
                kind="correspondence-not-executable", property=pid, failing_input_found=False,
                what="the implementation raised while the correspondence stream was being generated",
                traceback=tb[-3000:], broken=f"correspondence stream dyn/{pid}"))
            return outcome
        raise
    outcome["evaluations"] = report["ops"]
    outcome["distinct_nontrivial"] = report["distinct_nontrivial"]
    outcome["rule"] = (
        "cases = (scenario, modes, op history, scripted draws) from one PRNG (VERIF_SEED); scenarios: random "
        "structured (2-6 subnets, asymmetric firewalls, empty allow-lists, host deny-lists, several public "
        "subnets, values of any sign, fractional costs), shipped YAML and generated benchmarks; actions "
        "guided by the implementation's current state; draws placed on both sides of each probability. "
        "evaluations = operations executed on both sides; a step is non-trivial when it changed the state "
        "or failed at a gate; distinct = distinct (scenario, op, outcome) keys. Trajectory fields are compared "
        "along the whole history; per-step fields are compared with the model re-started from the "
        "implementation's own pre-state of each step (so one divergence does not cascade).")
    rng = random.Random(seed ^ 0x5EED)
    k = spec.get("coq_sample", {}).get(tier, 20)
    smallish = [c for c in cases if c["model"] != [-1] and len(json.dumps(c["cmd"])) + len(json.dumps(c["model"])) < 120000]
    sample = rng.sample(smallish, min(k, len(smallish)))       # (a megabyte-sized literal overflows coqc's stack)
    coq_fail = coq_eval_cases([(c["cmd"], c["model"]) for c in sample], f"{pid}_{tier}") if sample else []
    outcome["correspondence"] = dict(
        cases=report["cases"], ops=report["ops"],
        trajectory_fields=sorted(cfg["traj_fields"]), trajectory_disagreements=report["disagreements"],
        per_step_fields=sorted(cfg["resync_fields"]), per_step_compared=report["resync_steps"],
        per_step_disagreements=report["resync_disagreements"],
        stats=report["stats"],
        in_kernel_crosscheck=dict(cases=len(sample), evaluated_in_kernel=getattr(coq_eval_cases, 'evaluated', 0) if sample else 0,
                                  differing=len(coq_fail)), wall_s=t.s())
    if coq_fail:
        raise RuntimeError(f"extracted driver and vm_compute disagree on cases {coq_fail}")
    for c in cases[:2]:
        outcome["samples"].append(dict(scenario=c["name"], modes=c["modes"], ops=c["ops"][:6],
                                       impl_first=str(c["impl"][:1])[:400]))
    sanity = report["stats"]
    if report["ops"] > 200 and sanity.get("outcome:success", 0) < 0.05 * max(1, sanity.get("op:step", 1)):
        raise RuntimeError("harness sanity gate: fewer than 5% of steps succeed; generator degenerated")
    # the property's monitor judges EVERY implementation step of the run (not only disagreeing ones)
    midx = MONITOR_IDX.get(pid)
    mon_fails, mon_judged = judge_cases(cases, midx) if midx is not None else ([], 0)
    outcome["correspondence"]["monitor_judged_impl_steps"] = mon_judged
    outcome["correspondence"]["monitor_rejected"] = len(mon_fails)
    outcome["traces_validated_against_impl"] = mon_judged
    # ---- the state a fresh environment starts from carries the scenario's host definitions (the per-step
    # comparison reads configuration from the implementation's own states, so this is its premise) ----
    hist_viol = []
    inits = [c for c in cases if not dyn.has_bad(c["impl_init"])]
    if inits:
        res6 = run_driver([[6, c["cmd"][1], [c["impl_init"]]] for c in inits])
        for c, r6 in zip(inits, res6):
            if r6 != [-1] and not r6[0][2]:
                hist_viol_init = dict(kind="history", property=pid, failing_input_found=True, scenario=c["sd"], modes=c["modes"],
                                      ops=[], what="the state a fresh environment starts from does not carry the scenario's host "
                                                   "definitions (resetting it does not give the scenario's initial state)",
                                      impl=str(c["impl_init"])[:1200], prescribed=str(r6[0][1])[:1200])
                hist_viol = [hist_viol_init]
                break
    if pid == "C05":
        hist_viol = hist_viol + history_part(cases, outcome)
    # ---- C06: the step-limit flag for EVERY limit of a range, stepped up to and past the limit ----
    if pid == "C06":
        hist_viol = hist_viol + limit_part(ctx, outcome, rng)
    # ---- exhaustive bounded exploration: complete reachable transition graphs of small scenarios ----
    ex_viol = explore_part(ctx, spec, outcome, rng)
    if not bad and not rdiffs and not mon_fails and not ex_viol and not hist_viol:
        return outcome

    # ---- something disagrees: look for a failing input ----
    found, unexplained = [], []
    for (c, i, r, v) in mon_fails[:3]:
        found.append(dict(kind="step-record", property=pid, failing_input_found=True,
                          what=f"monitor ok_{pid} rejects this implementation step",
                          scenario=c["sd"], modes=c["modes"], record=r, op_index=i, history=c["ops"][:i + 1],
                          verdicts=dict(zip(sorted(MONITOR_IDX), v))))
    direct = spec.get("direct_fields", set())
    for c in bad:
        i, f = c["diff"]
        item = dict(scenario=c["sd"], modes=c["modes"], ops=c["ops"][:i + 1], op_index=i, field=f,
                    impl=str(dyn.split_out(c["impl"][i]).get(f))[:1500] if i < len(c["impl"]) else None,
                    model=str(dyn.split_out(c["model"][1][i]).get(f))[:1500]
                    if c["model"] != [-1] and i < len(c["model"][1]) else None,
                    impl_error=c.get("errs"))
        if f in direct or (f == "error" and "error" in direct):
            found.append(dict(item, kind="history", property=pid, failing_input_found=True,
                              what=f"on this history the implementation's '{f}' at operation {i} is not the value "
                                   f"the property prescribes (the model's value is proved to be the prescribed one)"))
        else:
            unexplained.append(dict(item, kind="broken-correspondence", property=pid, failing_input_found=False,
                                    broken=f"trajectory correspondence dyn/{pid}, field '{f}'",
                                    what="implementation and model disagree along this history"))
    by_case = {}
    for (c, i, f, iv, mv, r) in rdiffs:
        by_case.setdefault(id(c), (c, []))[1].append((i, f, iv, mv, r))
    for c, items in by_case.values():
        recs = [r for (_, f, _, _, r) in items if r is not None and len(r) == 8]
        verdicts = dict()
        if midx is not None and recs:
            for r, v in judge_records(c["cmd"][1], recs):
                verdicts[json.dumps(r)] = v
        for (i, f, iv, mv, r) in items:
            v = verdicts.get(json.dumps(r)) if r is not None and len(r) == 8 else None
            item = dict(scenario=c["sd"], modes=c["modes"], history=c["ops"][:i + 1], op_index=i, field=f,
                        record=r, impl=str(iv)[:1500], model=str(mv)[:1500])
            if f in direct:
                found.append(dict(item, kind="step-record", property=pid, failing_input_found=True,
                                  what=f"the implementation's '{f}' for this step/state is not the value the "
                                       f"property prescribes"))
            elif v is not None and not v[midx]:
                found.append(dict(item, kind="step-record", property=pid, failing_input_found=True,
                                  what=f"monitor ok_{pid} rejects this implementation step",
                                  verdicts=dict(zip(sorted(MONITOR_IDX), v))))
            else:
                unexplained.append(dict(item, kind="broken-correspondence", property=pid, failing_input_found=False,
                                        broken=f"per-step correspondence dyn/{pid}, field '{f}'",
                                        what="implementation and model disagree on this step, "
                                             f"but monitor ok_{pid} accepts the implementation's step"))
    if not found and midx is not None:
        # widen the search: every implementation step of this run, then fresh cases
        fails, judged = [], mon_judged
        extra_seed, budget = seed, spec.get("search_rounds", {}).get(tier, 3)
        while not fails and budget > 0:
            extra_seed += 7919
            budget -= 1
            _, _, more, _ = dyn.run_stream(pid, extra_seed, ncases, nops, cfg, jobs=12)
            fails, j2 = judge_cases(more, midx)
            judged += j2
        for (c, i, r, v) in fails[:3]:
            found.append(dict(kind="step-record", property=pid, failing_input_found=True,
                              what=f"monitor ok_{pid} rejects this implementation step",
                              scenario=c["sd"], modes=c["modes"], record=r, op_index=i, history=c["ops"][:i + 1],
                              verdicts=dict(zip(sorted(MONITOR_IDX), v))))
        for u in unexplained:
            u["judged_steps_in_search"] = judged
    found = hist_viol + ex_viol + found
    outcome["violations"] += found[:5] if found else unexplained[:3]
    return outcome


def limit_part(ctx, outcome, rng):
    """for every step limit 1..N: an environment is stepped limit + 2 times (cheap scans, one reset in between for
    some); the flag must be False before the limit-th call since the reset and True from it on"""
    from nasim.envs.environment import NASimEnv
    top = 130 if ctx["tier"] == "quick" else 1100
    base = scen.random_sd(rng, max_subnets=2, max_size=1, small=True)
    viol, calls = [], 0
    for limit in range(1, top):
        sd = dict(base, limit=limit)
        env = NASimEnv(scen.sd_to_scenario(sd), fully_obs=bool(limit % 2), flat_actions=True, flat_obs=True)
        pre = rng.randrange(3) if limit > 3 else 0
        for _ in range(pre):
            env.step(0)
        if pre:
            env.reset()
        for n in range(1, limit + 3):
            _, _, _, trunc, _ = env.step(0 if n % 3 else 1)
            calls += 1
            if bool(trunc) != (n >= limit):
                viol.append(dict(kind="history", property="C06", failing_input_found=True, scenario=sd, modes=[limit % 2, 1, 1],
                                 what=f"with step_limit = {limit} the step-limit flag after {n} step() calls since the last "
                                      f"reset is {bool(trunc)}", ops=[[1, [0, 0], 0]] * n, steps_before_reset=pre))
                break
        if len(viol) >= 2:
            break
    outcome["correspondence"]["step_limits_swept"] = [1, top - 1]
    outcome["evaluations"] += calls
    return viol


def history_part(cases, outcome):
    """the implementation's own episodes (maximal runs of step() between resets), judged by
    the Coq history monitor ok_C05_history"""
    cmds, index = [], []
    for c in cases:
        segs, cur_states, cur_vals, cur_ops = [], [c["impl_init"]], [], []
        for i, (op, out) in enumerate(zip(c["ops"], c["impl"])):
            if out[0] == 9:
                continue
            if op[0] == 0:
                segs.append((cur_states, cur_vals, cur_ops))
                cur_states, cur_vals, cur_ops = [out[2]], [], []
            elif op[0] == 1:
                cur_states.append(out[1][0])
                cur_vals.append(out[1][4][1])
                cur_ops.append(i)
        segs.append((cur_states, cur_vals, cur_ops))
        segs = [g for g in segs if len(g[0]) > 1 and not dyn.has_bad(g[0])]
        if segs:
            cmds.append([14, c["cmd"][1], [[g[0], g[1]] for g in segs]])
            index.append((c, segs))
    outs = run_driver(cmds) if cmds else []
    viol, judged = [], 0
    for (c, segs), verdicts in zip(index, outs):
        if verdicts == [-1]:
            continue
        for g, v in zip(segs, verdicts):
            judged += 1
            if not v:
                last = g[2][-1]
                first = g[2][0]
                viol.append(dict(kind="history", property="C05", failing_input_found=True,
                                 what="along this episode of the implementation a host value or discovery value is "
                                      "paid more than once (or the values paid do not add up to what was gained)",
                                 scenario=c["sd"], modes=c["modes"], ops=c["ops"][:last + 1], episode_starts_at=first,
                                 values=g[1]))
    outcome["correspondence"]["history_monitor_episodes"] = judged
    return viol[:3]


def explore_part(ctx, spec, outcome, rng):
    """every reachable state x every flat action x both draw outcomes, on small scenarios"""
    import explore as ex
    pid, tier = ctx["pid"], ctx["tier"]
    nscen, max_states = spec.get("explore", {}).get(tier, (0, 0))
    midx = MONITOR_IDX.get(pid)
    fields = set(spec.get("resync_fields", set())) | {f for f in spec.get("traj_fields", set()) if f in dyn.STEP_FIELDS}
    viol, tot_states, tot_trans, complete, revisits = [], 0, 0, 0, 0
    for n in range(nscen):
        if n == 0:
            sc_ = scen.shipped_scenario("tiny")
            sd = scen.scenario_to_sd(sc_)
        elif n in (1, 2, 3):
            sd = scen.open_sd(rng, *[("ring", 5), ("diamond", 5), ("star", 4)][n - 1])
            sc_ = scen.sd_to_scenario(sd)
        else:
            sd = scen.explore_sd(rng)
            sc_ = scen.sd_to_scenario(sd)
        modes = (0, 1, 0)
        e = ex.explore(sd, sc_, modes, max_states, rng=rng)
        tot_states += e["states"]
        tot_trans += e["transitions"]
        complete += int(e["complete"])
        recs = [r for r in e["records"] if not dyn.has_bad(r)]
        revisits += e.get("revisited", 0)
        if len(recs) != len(e["records"]):
            viol.append(dict(kind="step-record", property=pid, failing_input_found=True, scenario=sd,
                             what="a state row of the implementation is not decodable with the documented layout",
                             record=[r for r in e["records"] if dyn.has_bad(r)][0]))
            continue
        sdw = scen.sd_wire(sd)
        half = len(recs) // 2
        parts = parallel_by_size([[5, sdw, list(modes), [[r[0], r[1], r[2]] for r in recs[:half]]],
                                  [5, sdw, list(modes), [[r[0], r[1], r[2]] for r in recs[half:]]],
                                  [3, sdw, recs[:half]], [3, sdw, recs[half:]]])
        mo, verdicts = parts[0] + parts[1], parts[2] + parts[3]
        for ri, (r, m, v) in enumerate(zip(recs, mo, verdicts)):
            da = dyn.split_out([2, [r[3], None, r[6], r[7], r[4], r[5]], 0])
            db = dyn.split_out([2, m, 0])
            f = next((f for f in dyn.STEP_FIELDS if f in fields and f != "obs" and da.get(f) != db.get(f)), None)
            rejected = midx is not None and not v[midx]
            if rejected or f is not None:
                viol.append(dict(
                    kind="step-record", property=pid, failing_input_found=bool(rejected or f in spec.get("direct_fields", set())),
                    scenario=sd, modes=list(modes), record=r, field=f,
                    own_history_flat_action_and_draw=e["own_history"][ri],
                    what=(f"monitor ok_{pid} rejects this implementation step (found by exhaustive exploration)"
                          if rejected else
                          f"implementation and model disagree on '{f}' for this step (exhaustive exploration)")
                         + ("" if e["own_history"][ri] is None else
                            "; the generative step was made after the environment's own episode (reset, then the real "
                            "steps listed under own_history) -- from a fresh environment the same step is judged fine"),
                    broken=None if rejected else f"exhaustive per-step correspondence dyn/{pid}, field '{f}'",
                    impl=str(da.get(f))[:800] if f else None, model=str(db.get(f))[:800] if f else None,
                    verdicts=dict(zip(sorted(MONITOR_IDX), v))))
                break
    outcome["correspondence"]["exhaustive_exploration"] = dict(
        scenarios=nscen, complete_graphs=complete, states=tot_states, transitions=tot_trans, max_states=max_states,
        transitions_repeated_during_own_episodes=revisits)
    outcome["states"], outcome["transitions"] = tot_states, tot_trans
    outcome["exhaustive"] = bool(nscen) and complete == nscen
    outcome["evaluations"] += tot_trans + revisits
    rej = [v for v in viol if v["failing_input_found"]]
    return (rej or viol)[:3]


def replay(ctx, spec, payload):
    """re-run a replay file on the implementation and re-judge it"""
    pid = ctx["pid"]
    sd = payload["scenario"]
    sd = fix_sd(sd)
    scenario = scen.sd_to_scenario(sd)
    if payload["kind"] in ("history", "broken-correspondence"):
        runner = ImplRunner(scenario, sd, payload["modes"])
        outs = [runner.run_op(op) for op in payload["ops"]]
        model = run_driver([[0, scen.sd_wire(sd), payload["modes"], dyn.model_ops(payload["ops"])]])[0]
        d = dyn.diff_outs(outs, model[1], dyn.FIELDS.get(pid, dyn.FIELDS["all"]))
        print(json.dumps(dict(diff=d)))
        if d is not None:
            print(f"VIOLATION property={pid} replay={ctx.get('replay_path', '<given>')}")
            return 1
        return 0
    if payload["kind"] == "step-record":
        runner = ImplRunner(scenario, sd, payload["modes"])
        outs = [runner.run_op(op) for op in payload["history"]]
        case = dict(cmd=[0, scen.sd_wire(sd), payload["modes"], dyn.model_ops(payload["history"])], ops=payload["history"],
                    impl=outs, modes=payload["modes"], impl_init=runner.init_wire)
        fails, judged = judge_cases([case], MONITOR_IDX[pid]) if pid in MONITOR_IDX else ([], 0)
        rd = dyn.resync_compare([case], set(spec.get("resync_fields", set())))
        print(json.dumps(dict(judged=judged, monitor_rejects=len(fails), per_step_disagreements=len(rd))))
        if fails or rd:
            print(f"VIOLATION property={pid} replay={ctx.get('replay_path', '<given>')}")
            return 1
        return 0
    print("unknown replay kind")
    return 2


def fix_sd(sd):
    """JSON round trip turns tuple keys into strings; undo."""
    import ast

    def key(k):
        return ast.literal_eval(k) if isinstance(k, str) else tuple(k)
    sd = dict(sd)
    sd["fw"] = {key(k): v for k, v in sd["fw"].items()}
    sd["hosts"] = [(tuple(a), dict(c, fw={key(k): v for k, v in c["fw"].items()})) for a, c in sd["hosts"]]
    sd["sens"] = [(tuple(a), v) for a, v in sd["sens"]]
    sd["bounds"] = tuple(sd["bounds"])
    sd["costs"] = tuple(sd["costs"])
    if "names" in sd:
        sd["names"] = tuple(list(x) for x in sd["names"])
    return sd
