"""C17 / C18: the scenario loader against the Coq model of it (Loader.v / Format.v).

Every document (the Python object PyYAML produces, which is exactly what the loader is
handed) is transcribed into the model's yv datatype; the implementation's accept/reject
decision and, when it accepts, the loaded Scenario field by field are compared with
[load] evaluated by the extracted model.  Base documents: the nine shipped files and
random documents in the documented format; C18 applies every mutation operator of the
property's catalogue to every base document."""
import copy
import json
import os
import random
import re
import traceback

import yaml

import dyn
import scen
from common import run_driver, run_driver_parallel, coq_eval_cases, REPO, WORK, Inexact, Timer
from fractions import Fraction
from impl import ImplRunner

KNOWN = {"subnets": 0, "topology": 1, "sensitive_hosts": 2, "os": 3, "services": 4, "processes": 5,
         "exploits": 6, "privilege_escalation": 7, "service_scan_cost": 8, "subnet_scan_cost": 9,
         "os_scan_cost": 10, "process_scan_cost": 11, "host_configurations": 12, "firewall": 13,
         "step_limit": 14, "service": 20, "prob": 21, "cost": 22, "access": 23, "process": 24, "value": 25,
         "user": 30, "root": 31}
ADDR_RE = re.compile(r"^\s*\(\s*(-?\d+)\s*,\s*(-?\d+)\s*\)\s*$")
SCALE = 2 ** 59


class OutOfDomain(Exception):
    pass


class Transcriber:
    """Python object (as PyYAML returns it) -> wire form of the model's yv"""

    def __init__(self):
        self.ids = {}
        self.spell = {}

    def s(self, text):
        m = ADDR_RE.match(text)
        if m:
            a, b = int(m.group(1)), int(m.group(2))
            if text == str((a, b)):
                return [4, 0, a, b]
            sp = self.spell.setdefault(text, len(self.spell) + 1)
            return [4, sp, a, b]
        if text in KNOWN:
            return [3, KNOWN[text]]
        if text.lower() == "none":
            return [3, 32]
        if "(" in text or "[" in text or text.strip().lstrip("-").replace(".", "", 1).isdigit():
            raise OutOfDomain(f"string {text!r} might eval() to a Python value")
        return [3, self.ids.setdefault(text, 100 + len(self.ids))]

    def v(self, x):
        if x is None:
            return [0]
        if isinstance(x, bool):
            raise OutOfDomain("YAML boolean")
        if isinstance(x, int):
            return [1, x]
        if isinstance(x, float):
            f = Fraction(x) * SCALE
            if f.denominator != 1:
                raise Inexact(f"float {x!r} is not a multiple of 2^-59")
            return [2, int(f)]
        if isinstance(x, str):
            return self.s(x)
        if isinstance(x, list):
            return [5, [self.v(y) for y in x]]
        if isinstance(x, dict):
            return [6, [[self.v(k), self.v(val)] for k, val in x.items()]]
        raise OutOfDomain(f"type {type(x).__name__}")


def scenario_wire_from_impl(sc):
    sd = scen.scenario_to_sd(sc, strict_keys=True)
    return sd, scen.sd_wire(sd)


# ---------------------------------------------------------------------------
# base documents
def sd_to_doc(rng, sd, substring_os=False):
    """a document in the documented format that says what SD says (with optional parts and
    alternative spellings chosen at random)"""
    osn = [f"os_{rng.choice('abcdef')}{i}" for i in range(sd["nos"])]
    srvn = [f"srv_{rng.choice('abcdef')}{i}" for i in range(sd["nsrv"])]
    procn = [f"proc_{rng.choice('abcdef')}{i}" for i in range(sd["nproc"])]
    if (substring_os or rng.random() < 0.15) and sd["nos"] >= 2:
        # an OS name contained in another one (win / darwin / win10)
        osn = (["win", "darwin", "win10"] if rng.random() < 0.5 else ["os1", "os10", "xos1"])[:sd["nos"]]
    if rng.random() < 0.25:
        # names "can be anything": words that mean something elsewhere (an OS is never called none: that spelling IS
        # the documented "any OS" of exploits)
        odd = ["none", "None", "true", "off", "null", "yes", "NONE", "~"]
        srvn[rng.randrange(len(srvn))] = rng.choice(odd)
        procn[rng.randrange(len(procn))] = rng.choice([x for x in odd if x not in srvn] or ["nope"])
    elif rng.random() < 0.3:
        # names "can be anything": the same name may appear in several of the three lists
        pool = [f"name{i}" for i in range(max(sd["nos"], sd["nsrv"], sd["nproc"]) + 1)]
        osn, srvn, procn = rng.sample(pool, sd["nos"]), rng.sample(pool, sd["nsrv"]), rng.sample(pool, sd["nproc"])

    def num(x):
        if float(x) == int(x) and rng.random() < 0.6:
            return int(x)
        return float(x)

    def acc(a):
        return rng.choice([a, "user" if a == 1 else "root"])
    doc = {}
    doc["subnets"] = list(sd["subnets"][1:])
    doc["topology"] = [list(r) for r in sd["topo"]]
    sens = {}
    hostmap = dict(sd["hosts"])
    for a, v in sd["sens"]:
        val = v if v > 0 else 7
        hostmap[a]["val"] = val
        key = str(a) if rng.random() < 0.7 else f"({a[0]},{a[1]})"
        sens[key] = num(val)
    sens_addrs = {a for a, _ in sd["sens"]}
    doc["sensitive_hosts"] = sens
    doc["os"], doc["services"], doc["processes"] = osn, srvn, procn
    doc["exploits"] = {
        f"e_{i}": {"service": srvn[e["srv"]], "os": rng.choice(["none", "None"]) if e["os"] is None else osn[e["os"]],
                   "prob": (1 if rng.random() < 0.3 else 1.0) if e["prob"] == 1.0 else e["prob"],
                   "cost": num(e["cost"]), "access": acc(e["acc"])} for i, e in enumerate(sd["exploits"])}
    doc["privilege_escalation"] = {
        f"pe_{i}": {"process": procn[p["proc"]], "os": "none" if p["os"] is None else osn[p["os"]],
                    "prob": p["prob"], "cost": num(p["cost"]), "access": acc(p["acc"])}
        for i, p in enumerate(sd["privescs"])}
    c = sd["costs"]
    doc["service_scan_cost"], doc["os_scan_cost"] = num(c[0]), num(c[1])
    doc["subnet_scan_cost"], doc["process_scan_cost"] = num(c[2]), num(c[3])
    hc = {}
    for a, cfg in sd["hosts"]:
        h = {"os": osn[cfg["os"].index(True)],
             "services": [srvn[i] for i, b in enumerate(cfg["srv"]) if b],
             "processes": [procn[i] for i, b in enumerate(cfg["proc"]) if b]}
        if cfg["fw"] or rng.random() < 0.2:
            h["firewall"] = {(str(k) if rng.random() < 0.7 else f"({k[0]},{k[1]})"): [srvn[s] for s in v]
                             for k, v in cfg["fw"].items()}
        if a in sens_addrs:
            if rng.random() < 0.4:
                h["value"] = num(hostmap[a]["val"])
        elif cfg["val"] != 0 or rng.random() < 0.3:
            h["value"] = num(cfg["val"])
        hc[str(a)] = h
    doc["host_configurations"] = hc
    doc["firewall"] = {str(k): [srvn[s] for s in v] for k, v in sd["fw"].items()}
    if sd["limit"] is not None:
        doc["step_limit"] = sd["limit"]
    if rng.random() < 0.3:
        items = list(doc.items())
        rng.shuffle(items)
        doc = dict(items)
    return doc


def random_doc(rng):
    while True:
        sd = scen.random_sd(rng)
        if rng.random() < 0.15:
            sd = scen.widen_subnet(rng, sd)
        # the documented format wants every cost positive for exploits/escalations, costs >= 0 for scans,
        # one OS per host; discovery values are not part of the format
        ok = all(e["cost"] > 0 for e in sd["exploits"]) and all(p["cost"] > 0 for p in sd["privescs"])
        if ok:
            doc = sd_to_doc(rng, sd)
            if rng.random() < 0.35:
                doc = add_spare_rules(rng, doc) or doc      # the mutation operators then hit spare rules as well
            return doc


def shipped_docs():
    docs = []
    for name in scen.SHIPPED:
        with open(f"{REPO}/nasim/scenarios/benchmark/{name}.yaml") as f:
            docs.append((name, yaml.load(f, Loader=yaml.FullLoader)))
    return docs


# ---------------------------------------------------------------------------
# mutation operators: name -> function(rng, doc) -> mutated doc or None when not applicable
def _pick(rng, d):
    return rng.choice(list(d.keys()))


def _sizes(doc):
    return [1] + list(doc["subnets"])


def m_drop_section(rng, d):
    k = rng.choice([k for k in d if k != "step_limit"])
    del d[k]
    return d


def m_unknown_section(rng, d):
    d["bogus_section"] = [1, 2]
    return d


def m_mistype_section(rng, d):
    ones = [k for k in ("os", "services", "processes") if isinstance(d.get(k), list) and len(d[k]) == 1
            and isinstance(d[k][0], str)]
    if ones and rng.random() < 0.5:
        k = rng.choice(ones)
        d[k] = d[k][0]          # `os: linux` instead of `os: [linux]`: a string is not a list of names
        return d
    k = rng.choice(list(d))
    v = d[k]
    d[k] = rng.choice([x for x in ("abc", 3, [1], {"a": 1}, None, 2.5)
                       if type(x) is not type(v) and not (isinstance(v, (int, float)) and isinstance(x, (int, float)))])
    return d


def m_subnets_empty(rng, d):
    d["subnets"] = []
    return d


def m_subnets_nonpositive(rng, d):
    i = rng.randrange(len(d["subnets"]))
    d["subnets"][i] = rng.choice([0, -1, "2", 1.5])
    return d


def m_topology_shape(rng, d):
    t = d["topology"]
    r = rng.random()
    if r < 0.35:
        t.pop(rng.randrange(len(t)))
    elif r < 0.7:
        t[rng.randrange(len(t))].pop()
    else:
        t[rng.randrange(len(t))] = "row"
    return d


def m_topology_entry(rng, d):
    t = d["topology"]
    i, j = rng.randrange(len(t)), rng.randrange(len(t))
    t[i][j] = rng.choice([2, -1, "x", 0.5])
    return d


def m_names_empty(rng, d):
    d[rng.choice(["os", "services", "processes"])] = []
    return d


def m_names_duplicate(rng, d):
    k = rng.choice(["os", "services", "processes"])
    d[k] = d[k] + [d[k][0]]
    return d


def m_sensitive_invalid_address(rng, d):
    s = d["sensitive_hosts"]
    k = _pick(rng, s)
    v = s.pop(k)
    n = len(d["subnets"]) + 1
    s[rng.choice([f"(0, 0)", f"({n}, 0)", f"({n + 3}, 0)", f"(1, {d['subnets'][0]})", "(1, -1)", "nowhere",
                  "(-1, 0)", f"(-{n - 1}, 0)", "(-2, 0)"])] = v
    return d


def m_sensitive_duplicate(rng, d):
    s = d["sensitive_hosts"]
    k = _pick(rng, s)
    m = ADDR_RE.match(k)
    alt = f"({m.group(1)},  {m.group(2)})"
    if alt in s:
        return None
    s[alt] = s[k]
    return d


def m_sensitive_value(rng, d):
    s = d["sensitive_hosts"]
    s[_pick(rng, s)] = rng.choice([0, -5, "high", 0.0])
    return d


def m_sensitive_empty(rng, d):
    d["sensitive_hosts"] = {}
    return d


def _m_action(section, target):
    def drop(rng, d):
        if not d[section]:
            return None
        e = d[section][_pick(rng, d[section])]
        del e[rng.choice([target, "os", "prob", "cost", "access"])]
        return d

    def unknown_target(rng, d):
        if not d[section]:
            return None
        d[section][_pick(rng, d[section])][target] = "no_such_name"
        return d

    def unknown_os(rng, d):
        if not d[section]:
            return None
        d[section][_pick(rng, d[section])]["os"] = "no_such_os"
        return d

    def prob(rng, d):
        if not d[section]:
            return None
        d[section][_pick(rng, d[section])]["prob"] = rng.choice([-0.5, 1.5, 2, -1, "likely"])
        return d

    def cost(rng, d):
        if not d[section]:
            return None
        d[section][_pick(rng, d[section])]["cost"] = rng.choice([0, -1, -0.5, 0.0, "cheap"])
        return d

    def access(rng, d):
        if not d[section]:
            return None
        d[section][_pick(rng, d[section])]["access"] = rng.choice([0, 3, "admin", 1.0, None])
        return d

    def notdict(rng, d):
        if not d[section]:
            return None
        d[section][_pick(rng, d[section])] = rng.choice([[1], "x", 3])
        return d
    return dict(missing_field=drop, unknown_target=unknown_target, unknown_os=unknown_os, prob=prob,
                cost=cost, access=access, not_a_dict=notdict)


def m_scan_cost_negative(rng, d):
    d[rng.choice(["service_scan_cost", "os_scan_cost", "subnet_scan_cost", "process_scan_cost"])] = rng.choice([-1, -0.5])
    return d


def m_host_missing(rng, d):
    h = d["host_configurations"]
    del h[_pick(rng, h)]
    return d


def m_host_superfluous(rng, d):
    h = d["host_configurations"]
    h[f"(1, {d['subnets'][0] + 5})"] = copy.deepcopy(h[_pick(rng, h)])
    return d


def m_host_unknown_name(rng, d):
    h = d["host_configurations"][_pick(rng, d["host_configurations"])]
    k = rng.choice(["services", "processes", "os"])
    if k == "os":
        h["os"] = rng.choice(["no_such_os", None, "none"])
    else:
        h[k] = list(h[k]) + ["no_such_name"]
    return d


def m_host_duplicate_name(rng, d):
    cands = [(a, k) for a, h in d["host_configurations"].items() for k in ("services", "processes") if h[k]]
    if not cands:
        return None
    a, k = rng.choice(cands)
    h = d["host_configurations"][a]
    h[k] = list(h[k]) + [h[k][0]]
    return d


def m_host_missing_key(rng, d):
    h = d["host_configurations"][_pick(rng, d["host_configurations"])]
    del h[rng.choice(["os", "services", "processes"])]
    return d


def m_host_firewall_malformed(rng, d):
    h = d["host_configurations"][_pick(rng, d["host_configurations"])]
    srv = d["services"][0]
    n = len(d["subnets"]) + 1
    h["firewall"] = rng.choice([
        [srv], "deny", {"(1, 0)": srv}, {"(1, 0)": ["no_such_service"]}, {"(1, 0)": [srv, srv]},
        {f"({n}, 0)": [srv]}, {"(0, 0)": [srv]}, {f"(1, {d['subnets'][0]})": [srv]}, {"somewhere": [srv]},
        {"(1, 0)": [srv], "(1,0)": []}])
    return d


def m_host_value_type(rng, d):
    d["host_configurations"][_pick(rng, d["host_configurations"])]["value"] = rng.choice(["much", [1], None])
    return d


def m_host_value_contradicts(rng, d):
    k = _pick(rng, d["sensitive_hosts"])
    m = ADDR_RE.match(k)
    a = f"({int(m.group(1))}, {int(m.group(2))})"
    v = d["sensitive_hosts"][k]
    # relative offsets and absolute values (the default host value 0 is a contradiction too)
    # ... and values that differ only a little (far more than the 1e-9 of math.isclose, though)
    # -- but never closer than the model's resolution of host values (1/64): below it the model reads "equal"
    near = [float(v) + 2.0 ** -6, float(v) - 2.0 ** -6, float(v) + 2.0 ** -5]
    d["host_configurations"][a]["value"] = rng.choice([v + 1, v - 1, v + 0.5, v + 100, 0, 0.0, -v, 0, v * 2] + near)
    return d


def m_fw_missing(rng, d):
    del d["firewall"][_pick(rng, d["firewall"])]
    return d


def m_fw_nonlist(rng, d):
    d["firewall"][_pick(rng, d["firewall"])] = rng.choice([d["services"][0], {d["services"][0]: 1}, None, 1])
    return d


def m_fw_duplicate(rng, d):
    k = _pick(rng, d["firewall"])
    m = ADDR_RE.match(k)
    d["firewall"][f"({m.group(1)},{m.group(2)})"] = list(d["firewall"][k])
    return d


def m_fw_unknown_service(rng, d):
    k = _pick(rng, d["firewall"])
    d["firewall"][k] = list(d["firewall"][k]) + ["no_such_service"]
    return d


def m_fw_duplicate_service(rng, d):
    k = _pick(rng, d["firewall"])
    d["firewall"][k] = list(d["firewall"][k]) + [d["services"][0], d["services"][0]]
    return d


def m_fw_bad_key(rng, d):
    d["firewall"]["between"] = []
    return d


def m_step_limit(rng, d):
    d["step_limit"] = rng.choice([0, -5, 1.5, "many"])
    return d


MUTATIONS = {
    "section.missing": m_drop_section, "section.unknown": m_unknown_section, "section.mistyped": m_mistype_section,
    "subnets.empty": m_subnets_empty, "subnets.nonpositive": m_subnets_nonpositive,
    "topology.shape": m_topology_shape, "topology.entry": m_topology_entry,
    "names.empty": m_names_empty, "names.duplicate": m_names_duplicate,
    "sensitive.invalid_address": m_sensitive_invalid_address, "sensitive.duplicate": m_sensitive_duplicate,
    "sensitive.value": m_sensitive_value, "sensitive.empty": m_sensitive_empty,
    "scan_cost.negative": m_scan_cost_negative,
    "host.missing": m_host_missing, "host.superfluous": m_host_superfluous, "host.unknown_name": m_host_unknown_name,
    "host.duplicate_name": m_host_duplicate_name, "host.missing_key": m_host_missing_key,
    "host.firewall_malformed": m_host_firewall_malformed, "host.value_type": m_host_value_type,
    "host.value_contradicts_sensitive": m_host_value_contradicts,
    "firewall.missing": m_fw_missing, "firewall.nonlist": m_fw_nonlist, "firewall.duplicate": m_fw_duplicate,
    "firewall.unknown_service": m_fw_unknown_service, "firewall.duplicate_service": m_fw_duplicate_service,
    "firewall.bad_key": m_fw_bad_key, "step_limit.nonpositive": m_step_limit,
}
for _sec, _tgt, _nm in (("exploits", "service", "exploit"), ("privilege_escalation", "process", "privesc")):
    for _k, _f in _m_action(_sec, _tgt).items():
        MUTATIONS[f"{_nm}.{_k}"] = _f


# ---------------------------------------------------------------------------
def add_spare_rules(rng, d):
    n = len(d["subnets"]) + 1
    topo = d["topology"]
    have = {str(eval(k)) if isinstance(k, str) else str(k) for k in d["firewall"]}
    spare = [(s, t) for s in range(n) for t in range(n) if (s == t or not topo[s][t]) and str((s, t)) not in have]
    if not spare:
        return None
    for s, t in rng.sample(spare, min(2, len(spare))):
        d["firewall"][str((s, t))] = rng.sample(d["services"], rng.randint(0, len(d["services"])))
    return d


def impl_load(doc, tag):
    """dump the object, let the implementation load the file; returns (accepted, Scenario|error)"""
    os.makedirs(WORK, exist_ok=True)
    path = os.path.join(WORK, f"doc_{os.getpid()}_{tag}.yaml")
    with open(path, "w") as f:
        yaml.safe_dump(doc, f, sort_keys=False)
    try:
        with open(path) as f:
            seen = yaml.load(f, Loader=yaml.FullLoader)
        import nasim
        try:
            sc = nasim.load_scenario(path, name="doc")
            return seen, True, sc
        except Exception as e:   # noqa: BLE001  (the property: "raises an error")
            return seen, False, f"{type(e).__name__}: {e}"[:300]
    finally:
        try:
            os.remove(path)
        except OSError:
            pass


def compare_docs(items, pid, out, seed, tier, spec, dyn_steps=0):
    """items: list of (label, doc).  Compares implementation and model on each."""
    rng = random.Random(seed ^ 0xD0C)
    cmds, meta = [], []
    for n, (label, doc) in enumerate(items):
        seen, ok, res = impl_load(doc, n)
        try:
            w = Transcriber().v(seen)
        except OutOfDomain as e:
            out["skipped"] = out.get("skipped", 0) + 1
            out.setdefault("skipped_why", []).append(f"{label}: {e}"[:120])
            continue
        meta.append((label, seen, ok, res, w))
    ws = [m[4] for m in meta]
    outs = []
    for i in range(0, len(ws), 40):
        outs += run_driver([[10, ws[i:i + 40]]])[0]
    out["_cmds"] = [([10, ws[i:i + 8]], None) for i in range(0, min(len(ws), 24), 8)]
    stats = out.setdefault("stats", {})
    for (label, seen, ok, res, w), mo in zip(meta, outs):
        out["evaluations"] += 1
        key = label.split("@")[0]
        st = stats.setdefault(key, dict(n=0, impl_accepts=0, model_accepts=0))
        st["n"] += 1
        st["impl_accepts"] += int(ok)
        if mo == [-1]:
            raise RuntimeError(f"model cannot decode transcribed document {label}")
        m_sc, m_valid, m_wf = mo
        st["model_accepts"] += int(bool(m_sc))
        if bool(m_sc) != bool(m_valid):
            raise RuntimeError(f"model inconsistency: load and valid disagree on {label}")
        if ok and not m_sc:
            out["violations"].append(dict(
                kind="document", property="C18", failing_input_found=True, label=label, document=seen,
                what=f"the loader accepts a document that breaks a documented rule (mutation '{key}'); "
                     "the model's load/valid reject it"))
        elif not ok and m_sc:
            out["violations"].append(dict(
                kind="document", property="C17", failing_input_found=True, label=label, document=seen,
                what=f"the loader rejects a document in the documented format: {res}"))
        elif ok and m_sc:
            sd, iw = scenario_wire_from_impl(res)
            if iw != m_sc[0]:
                diff = [i for i, (a, b) in enumerate(zip(iw, m_sc[0])) if a != b]
                names_ = ["subnets", "topology", "n_os", "n_services", "n_processes", "exploits", "privilege_escalation",
                          "scan costs", "firewall", "hosts", "sensitive_hosts", "step_limit", "address_space_bounds"]
                out["violations"].append(dict(
                    kind="document", property="C17", failing_input_found=True, label=label, document=seen,
                    what="the loaded scenario does not say what the file says; differing components: "
                         + ", ".join(names_[i] for i in diff),
                    impl=str([iw[i] for i in diff])[:1500], prescribed=str([m_sc[0][i] for i in diff])[:1500]))
            elif dyn_steps and rng.random() < 0.5:
                # the environment built from the file enforces the rules written in it
                bad = env_enforces(rng, res, sd, m_sc[0], dyn_steps)
                out["evaluations"] += dyn_steps
                if bad:
                    out["violations"].append(dict(
                        kind="document+history", property="C17", failing_input_found=True, label=label, document=seen,
                        what="the environment built from the loaded file does not behave as the file's rules "
                             f"prescribe (field '{bad[1]}' at operation {bad[0]})", ops=bad[2]))
    return meta, outs


def env_enforces(rng, scenario, sd, model_wire, nops):
    gen = dyn.CaseGen(rng, {})
    runner = ImplRunner(scenario, sd, [1, 1, 0])
    flat = run_driver([[1, model_wire]])[0][0]
    by_target = {}
    for i, a in enumerate(flat):
        by_target.setdefault(tuple(a[1]), []).append(i)
    ops, outs = [], []
    for _ in range(nops):
        ai = gen.pick_action(runner, flat, by_target)
        op = [1, [0, ai], gen.pick_draw(flat[ai][3]) if rng.random() < 0.3 else 0]
        ops.append(op)
        outs.append(runner.run_op(op))
    m = run_driver([[0, model_wire, [1, 1, 0], ops]])[0]
    d = dyn.diff_outs(outs, m[1], dyn.FIELDS["all"] - {"mask", "goal"})
    return (d[0], d[1], ops[:d[0] + 1]) if d else None


def explore_loaded(rng, out, n):
    """'the environment built from the file enforces every rule written in it': for small
    pattern-rich documents the COMPLETE reachable transition graph of the environment built by
    nasim.load is compared with the model stepping on the model's reading (load d) of the file"""
    import explore as ex
    states = trans = 0
    for _ in range(n):
        doc = sd_to_doc(rng, scen.explore_sd(rng))
        seen, ok, sc = impl_load(doc, "x")
        if not ok:
            continue          # reported by the document comparison
        mo = run_driver([[10, [Transcriber().v(seen)]]])[0][0]
        if mo == [-1] or not mo[0]:
            continue
        try:
            sd = scen.scenario_to_sd(sc, strict_keys=True)
        except Inexact:
            raise
        except Exception as e_:   # noqa: BLE001 -- the loaded object does not even say what the file says
            out["violations"].append(dict(kind="document", property="C17", failing_input_found=True, label="explore@random", document=seen,
                                          what="the scenario loaded from this valid document cannot be read back against "
                                               f"its own name lists ({e_!r}): a definition names something the file does "
                                               "not"[:400]))
            continue
        e = ex.explore(sd, sc, (0, 1, 0), 400, rng=rng, paths=2, depth=5, sample=80)
        states += e["states"]
        trans += e["transitions"]
        recs = [r for r in e["records"] if not dyn.has_bad(r)]
        model = run_driver([[5, mo[0][0], [0, 1, 0], [[r[0], r[1], r[2]] for r in recs]]])[0]
        for r, m in zip(recs, model):
            if [r[3], r[4][0], r[6]] != [m[0], m[4][0], m[2]]:
                out["violations"].append(dict(
                    kind="document+step", property="C17", failing_input_found=True, label="explore@random", document=seen,
                    what="the environment built from this file does not enforce what the file says: for this state, "
                         "action and draw the real environment and the model of the file's reading disagree on next "
                         "state / success / reward", record=r, prescribed=[m[0], m[4][0], m[2]]))
                break
    out["evaluations"] += trans
    out["explore_loaded"] = dict(documents=n, states=states, transitions=trans)


def run(ctx, spec):
    pid, tier, seed = ctx["pid"], ctx["tier"], ctx["seed"]
    rng = random.Random(seed)
    nrandom, per_op = spec["sizes"][tier]
    out = dict(violations=[], evaluations=0, distinct_nontrivial=0, samples=[], correspondence={})
    bases = shipped_docs() + [(f"random{i}", random_doc(rng)) for i in range(nrandom)]
    for i in range(2 if tier == "quick" else 10):
        # always some documents with a subnet of more than ten hosts (two-digit host ids in every address position)
        while True:
            sd_ = scen.random_sd(rng, max_subnets=3, max_size=2)
            if all(e["cost"] > 0 for e in sd_["exploits"]) and all(p["cost"] > 0 for p in sd_["privescs"]):
                break
        bases.append((f"wide{i}", sd_to_doc(rng, scen.widen_subnet(rng, sd_))))
    for i in range(2 if tier == "quick" else 8):
        # always some documents in which one OS name is contained in another
        while True:
            sd_ = scen.random_sd(rng, max_subnets=3, max_size=2)
            if sd_["nos"] >= 2 and all(e["cost"] > 0 for e in sd_["exploits"]) and all(p["cost"] > 0 for p in sd_["privescs"]):
                break
        bases.append((f"wide-osnames{i}", sd_to_doc(rng, sd_, substring_os=True)))
    items = [(f"valid@{name}", doc) for name, doc in bases]
    bases = [b for b in bases if not b[0].startswith("wide")]      # the wide documents are compared as they are
    # documented-valid variations (C17's list)
    for name, doc in bases:
        d = copy.deepcopy(doc)
        e = d["exploits"][next(iter(d["exploits"]))]
        e["prob"] = 1.0
        items.append((f"valid.prob_one@{name}", d))
        d = copy.deepcopy(doc)
        d["privilege_escalation"] = {}
        items.append((f"valid.no_escalations@{name}", d))
        d = copy.deepcopy(doc)
        d.pop("step_limit", None)
        items.append((f"valid.no_step_limit@{name}", d))
        # rules for pairs of subnets the topology does not connect (and for a subnet with itself): allowed, ignored
        d = add_spare_rules(rng, copy.deepcopy(doc)) if rng.random() < 0.25 else None
        if d is not None:
            items.append((f"valid.spare_firewall_rules@{name}", d))
        # YAML anchors / aliases: a sensitive and a non-sensitive host share ONE configuration mapping (the dumper
        # writes &id / *id for the shared Python object, the loader gets one dict for both hosts)
        d = copy.deepcopy(doc)
        sens_k = {str(eval(k)) for k in d["sensitive_hosts"]}
        hk = list(d["host_configurations"])
        ka = next((k for k in hk if str(eval(k)) in sens_k), None)
        kb = next((k for k in hk if str(eval(k)) not in sens_k), None)
        if ka is not None and kb is not None:
            d["host_configurations"][ka].pop("value", None)
            d["host_configurations"][kb] = d["host_configurations"][ka]
            items.append((f"valid.aliased_host_configs@{name}", d))
        d = copy.deepcopy(doc)
        sens = {str(eval(k)) for k in d["sensitive_hosts"]}
        for a, h in d["host_configurations"].items():
            if a not in sens:
                h["value"] = rng.choice([-3, 0, -0.5, 2])
        items.append((f"valid.any_sign_values@{name}", d))
    if pid == "C18" or tier == "thorough":
        for name, doc in bases:
            for opname, f in MUTATIONS.items():
                for rep in range(per_op):
                    d = f(rng, copy.deepcopy(doc))
                    if d is not None:
                        items.append((f"{opname}@{name}#{rep}", d))
    meta, outs = compare_docs(items, pid, out, seed, tier, spec, dyn_steps=12 if pid == "C17" else 0)
    if pid == "C17":
        explore_loaded(rng, out, 18 if tier == "quick" else 80)
    mine = [v for v in out["violations"] if v["property"] == pid]
    others = [v for v in out["violations"] if v["property"] != pid]
    # keep one witness per mutation kind
    seen, uniq = set(), []
    for v in mine:
        k = v["label"].split("@")[0]
        if k not in seen:
            seen.add(k)
            uniq.append(v)
    out["violations"] = uniq[:6]
    out["other_property_findings"] = len(others)
    out["distinct_nontrivial"] = len({json.dumps(m[4]) for m in meta})
    out["rule"] = ("documents = the Python objects PyYAML produces for: the nine shipped files, random documents in the "
                   "documented format (optional sections present/absent, none/None, user/root/1/2, int and float "
                   "numbers, values of any sign, alternative key spellings), documented-valid variations, and "
                   + ("every mutation operator of the catalogue applied to every base document; " if pid == "C18" else "")
                   + "each is loaded by the implementation from a file and by the model; accept/reject and the loaded "
                     "scenario are compared; distinct = distinct transcribed documents")
    cmds = [c for c, _ in out.pop("_cmds", [])]
    cc = run_driver(cmds) if cmds else []
    fails = coq_eval_cases(list(zip(cmds, cc)), f"{pid}_{tier}") if cmds else []
    if fails:
        raise RuntimeError("extracted driver and vm_compute disagree on loader commands")
    out["correspondence"] = dict(documents=len(meta), base_documents=len(bases), per_operator=out.pop("stats", {}),
                                 exhaustive_exploration_of_loaded_documents=out.pop("explore_loaded", None),
                                 skipped_out_of_domain=out.pop("skipped", 0),
                                 skipped_examples=out.pop("skipped_why", [])[:5],
                                 in_kernel_crosscheck=dict(commands=len(cmds), differing=0))
    out["samples"] = [dict(label=m[0], impl_accepts=m[2], document=str(m[1])[:600]) for m in meta[:1] + meta[-1:]]
    return out


def replay(ctx, spec, payload):
    out = dict(violations=[], evaluations=0)
    compare_docs([(payload["label"], payload["document"])], ctx["pid"], out, ctx["seed"], ctx["tier"], spec, dyn_steps=12)
    print(json.dumps([v["what"] for v in out["violations"]]))
    if out["violations"]:
        print(f"VIOLATION property={ctx['pid']} replay=<given>")
        return 1
    return 0
