(* StmtDyn.v -- the statements of the property theorems for the dynamics
   (C01-C07, C12, C13), as closed propositions.  props/Cxx.v proves exactly these. *)
From NasimV Require Export Spec.

(* ================= C01 ================= *)
Definition C01_frame_stmt : Prop :=
  forall sc st a k x,
    wf_scenario sc = true -> wf_state sc st = true -> In x (addresses sc) ->
    (h_comp (row sc (next sc st a k) x) <> h_comp (row sc st x)
     \/ h_acc (row sc (next sc st a k) x) <> h_acc (row sc st x)) ->
    a_tgt a = x /\ r_success (res sc st a k) = true
    /\ ((is_exploit a = true /\ pre_exploit (row sc st x) a = true)
        \/ (is_privesc a = true /\ pre_privesc (row sc st x) a = true)).

Definition C01_exploit_must_succeed_stmt : Prop :=
  forall sc st a k,
    wf_scenario sc = true -> wf_state sc st = true -> act_ok sc a ->
    is_exploit a = true ->
    h_reach (trow sc st a) = true -> h_disc (trow sc st a) = true ->
    pivot sc st a -> admits sc st a ->
    pre_exploit (trow sc st a) a = true ->
    (h_comp (trow sc st a) = true \/ k < a_pz a) ->
    r_success (res sc st a k) = true
    /\ h_comp (trow sc (next sc st a k) a) = true
    /\ h_acc (trow sc (next sc st a k) a) = Nat.max (h_acc (trow sc st a)) (a_acc a).

Definition C01_privesc_must_succeed_stmt : Prop :=
  forall sc st a k,
    wf_scenario sc = true -> wf_state sc st = true -> act_ok sc a ->
    is_privesc a = true ->
    h_reach (trow sc st a) = true -> h_disc (trow sc st a) = true ->
    pre_privesc (trow sc st a) a = true ->
    k < a_pz a ->
    r_success (res sc st a k) = true
    /\ h_comp (trow sc (next sc st a k) a) = true
    /\ h_acc (trow sc (next sc st a k) a) = Nat.max (h_acc (trow sc st a)) (a_acc a).

Definition C01_scans_inert_stmt : Prop :=
  forall sc st a k x,
    is_exploit a = false -> is_privesc a = false ->
    h_comp (row sc (next sc st a k) x) = h_comp (row sc st x)
    /\ h_acc (row sc (next sc st a k) x) = h_acc (row sc st x).

(* ================= C02 ================= *)
Definition C02_unreached_fails_stmt : Prop :=
  forall sc st a k,
    is_noop a = false ->
    h_reach (trow sc st a) && h_disc (trow sc st a) = false ->
    next sc st a k = st /\ r_success (res sc st a k) = false /\ r_conn (res sc st a k) = true.

Definition C02_remote_needs_pivot_stmt : Prop :=
  forall sc st a k,
    wf_scenario sc = true -> wf_state sc st = true ->
    is_remote a = true -> r_success (res sc st a k) = true -> pivot sc st a.

Definition C02_exploit_needs_admission_stmt : Prop :=
  forall sc st a k,
    wf_scenario sc = true -> wf_state sc st = true -> In (a_tgt a) (addresses sc) ->
    is_exploit a = true -> r_success (res sc st a k) = true -> admits sc st a.

Definition C02_onhost_needs_access_stmt : Prop :=
  forall sc st a k,
    (a_kind a = KSubScan \/ a_kind a = KProcScan \/ a_kind a = KPrivesc) ->
    r_success (res sc st a k) = true ->
    h_comp (trow sc st a) = true /\ (a_req a <= h_acc (trow sc st a))%nat.

Definition C02_failure_changes_nothing_stmt : Prop :=
  forall sc st a k,
    wf_scenario sc = true -> wf_state sc st = true ->
    r_success (res sc st a k) = false -> next sc st a k = st.

(* ================= C03 ================= *)
Definition C03_reset_stmt : Prop :=
  forall sc st,
    wf_scenario sc = true -> wf_state sc st = true ->
    Inv3 sc (net_reset sc st)
    /\ forall x, In x (addresses sc) ->
         h_disc (row sc (net_reset sc st) x) = subnet_public sc (fst x)
         /\ h_reach (row sc (net_reset sc st) x) = subnet_public sc (fst x).

Definition C03_step_stmt : Prop :=
  forall sc st a k,
    wf_scenario sc = true -> wf_state sc st = true -> act_ok sc a ->
    Inv3 sc st -> Inv3 sc (next sc st a k).

Definition C03_discovery_only_by_scan_stmt : Prop :=
  forall sc st a k x,
    wf_scenario sc = true -> wf_state sc st = true -> In x (addresses sc) ->
    h_disc (row sc (next sc st a k) x) <> h_disc (row sc st x) ->
    is_subnet_scan a = true /\ r_success (res sc st a k) = true
    /\ h_comp (trow sc st a) = true /\ connected sc (fst (a_tgt a)) (fst x) = true.

Definition C03_scan_discovers_exactly_stmt : Prop :=
  forall sc st a k x,
    wf_scenario sc = true -> wf_state sc st = true -> In x (addresses sc) ->
    is_subnet_scan a = true -> r_success (res sc st a k) = true ->
    h_disc (row sc (next sc st a k) x) = h_disc (row sc st x) || connected sc (fst (a_tgt a)) (fst x).

(* every environment state of every history (resets and generative steps anywhere) *)
Definition C03_run_stmt : Prop :=
  forall sc m ops,
    wf_scenario sc = true -> Forall op_in_space ops ->
    Inv3 sc (e_state (final_env sc m ops))
    /\ Forall (Inv3 sc) (final_pool sc m ops).

(* ================= C04 ================= *)
Definition C04_monotone_stmt : Prop :=
  forall sc st a k x,
    wf_scenario sc = true -> wf_state sc st = true -> act_ok sc a -> In x (addresses sc) ->
    row_le (row sc st x) (row sc (next sc st a k) x).

Definition C04_config_frame_stmt : Prop :=
  forall sc st a k x,
    wf_scenario sc = true -> wf_state sc st = true -> In x (addresses sc) ->
    same_config (row sc st x) (row sc (next sc st a k) x)
    /\ same_config (row sc st x) (row sc (net_reset sc st) x).

Definition C04_wf_preserved_stmt : Prop :=
  forall sc st a k,
    wf_scenario sc = true -> wf_state sc st = true -> act_ok sc a ->
    wf_state sc (next sc st a k) = true /\ wf_state sc (net_reset sc st) = true
    /\ wf_state sc (initial_state sc) = true.

Definition C04_reset_is_init_stmt : Prop :=
  forall sc st,
    wf_scenario sc = true -> wf_state sc st = true -> net_reset sc st = initial_state sc.

Definition C04_reset_after_any_history_stmt : Prop :=
  forall sc m ops,
    wf_scenario sc = true -> Forall op_in_space ops ->
    e_state (final_env sc m (ops ++ [OReset])) = initial_state sc
    /\ e_steps (final_env sc m (ops ++ [OReset])) = O
    /\ wf_state sc (e_state (final_env sc m ops)) = true.

(* ================= C05 ================= *)
Definition C05_reward_stmt : Prop :=
  forall sc m st a k,
    o_reward (generative_step sc m st a k) = r_value (res sc st a k) - a_cost a
    /\ (r_success (res sc st a k) = false -> r_value (res sc st a k) = 0)
    /\ a_cost noop = 0 /\ r_value (res sc st noop k) = 0.

Definition C05_value_source_stmt : Prop :=
  forall sc st a k,
    wf_scenario sc = true -> wf_state sc st = true -> act_ok sc a ->
    r_value (res sc st a k) = gained sc st (next sc st a k).

Definition C05_episode_telescopes_stmt : Prop :=
  forall sc st l,
    wf_scenario sc = true -> wf_state sc st = true ->
    Forall (fun p => act_ok sc (fst p)) l ->
    snd (run_steps sc st l) = gained sc st (fst (run_steps sc st l)).

Definition C05_paid_at_most_once_stmt : Prop :=
  forall sc st l x,
    wf_scenario sc = true -> wf_state sc st = true ->
    Forall (fun p => act_ok sc (fst p)) l -> In x (addresses sc) ->
    (count_pairs (fun s s' => newly_rooted sc s s' x) (trace sc st l) <= 1)%nat
    /\ (count_pairs (fun s s' => newly_disc sc s s' x) (trace sc st l) <= 1)%nat.

(* ================= C06 ================= *)
Definition C06_done_iff_goal_stmt : Prop :=
  forall sc m st a k,
    o_done (generative_step sc m st a k) = goal sc (o_next (generative_step sc m st a k))
    /\ (goal sc st = true <->
        forall s, In s (map fst (s_sens sc)) -> (ROOT <= h_acc (row sc st s))%nat).

Definition C06_steps_stmt : Prop :=
  forall sc m ops,
    e_steps (final_env sc m ops) = steps_since_reset sc m O ops.

Definition C06_limit_stmt : Prop :=
  forall sc m e a k,
    let '(e', _, lim) := env_step sc m e a k in
    e_steps e' = S (e_steps e)
    /\ (lim = true <-> exists l, s_limit sc = Some l /\ (l <= e_steps e')%nat).

(* ================= C07 ================= *)
Definition C07_chance_decides_stmt : Prop :=
  forall sc st a k,
    is_noop a = false -> gates_ok sc st a = true -> reexploit sc st a = false ->
    used sc st a k = true
    /\ (chance_fails a k = true ->
          next sc st a k = st /\ res sc st a k = res_undef)
    /\ (forall k', chance_fails a k = false -> chance_fails a k' = false ->
          perform_action sc st a k = perform_action sc st a k').

Definition C07_p1_never_fails_stmt : Prop :=
  forall sc st a k,
    a_pz a = TWO53 -> 0 <= k < TWO53 -> r_undef (res sc st a k) = false.

Definition C07_p0_never_succeeds_stmt : Prop :=
  forall sc st a k,
    a_pz a = 0 -> 0 <= k -> is_noop a = false -> reexploit sc st a = false ->
    r_success (res sc st a k) = false.

Definition C07_gates_ignore_chance_stmt : Prop :=
  forall sc st a k k',
    (is_noop a = true \/ gates_ok sc st a = false \/ reexploit sc st a = true) ->
    perform_action sc st a k = perform_action sc st a k'
    /\ used sc st a k = false /\ r_undef (res sc st a k) = false.

Definition C07_flags_exclusive_stmt : Prop :=
  forall sc st a k,
    let r := res sc st a k in
    (r_success r = true -> r_conn r = false /\ r_perm r = false /\ r_undef r = false)
    /\ (r_conn r && r_perm r = false) /\ (r_conn r && r_undef r = false) /\ (r_perm r && r_undef r = false)
    /\ (r_success r = false -> r_value r = 0).

(* counting form of "exactly the stated probability": the draws that succeed are
   exactly the a_pz = prob * 2^53 smallest of the 2^53 equally likely ones *)
Definition C07_exact_probability_stmt : Prop :=
  forall sc st a k0,
    is_noop a = false -> reexploit sc st a = false ->
    r_success (res sc st a k0) = true ->
    forall k, r_success (res sc st a k) = true <-> k < a_pz a.

(* ================= C12 / C13 (value level) ================= *)
Definition C12_step_mode_independent_stmt : Prop :=
  forall sc m1 m2 st a k,
    let o1 := generative_step sc m1 st a k in
    let o2 := generative_step sc m2 st a k in
    o_next o1 = o_next o2 /\ o_reward o1 = o_reward o2 /\ o_done o1 = o_done o2
    /\ o_res o1 = o_res o2 /\ o_used o1 = o_used o2
    /\ (fully_obs m1 = fully_obs m2 -> o_obs o1 = o_obs o2).

Definition C13_genstep_pure_stmt : Prop :=
  forall sc m e pool i x k,
    fst (fst (run_op sc m (e, pool) (OGen i x k))) = e
    /\ fst (fst (run_op sc m (e, pool) (OGoal i))) = e
    /\ fst (fst (run_op sc m (e, pool) OMask)) = e
    /\ fst (fst (run_op sc m (e, pool) OInit)) = e.

Definition C13_step_is_genstep_stmt : Prop :=
  forall sc m e a k,
    let o := generative_step sc m (e_state e) a k in
    env_step sc m e a k
    = (mkEnv (o_next o) (o_obs o) (S (e_steps e)), o, limit_reached sc (S (e_steps e))).
