(* Spec.v -- property-side vocabulary: the predicates in which the theorems are
   stated (written from the property texts, not from the code).  Definitions only. *)
From NasimV Require Export Env.

Definition row (sc : scenario) (st : state) (x : addr) : hrow := get_row sc st x.
Definition trow (sc : scenario) (st : state) (a : action) : hrow := get_row sc st (a_tgt a).

Definition next (sc : scenario) (st : state) (a : action) (k : Z) : state :=
  fst (fst (perform_action sc st a k)).
Definition res (sc : scenario) (st : state) (a : action) (k : Z) : result :=
  snd (fst (perform_action sc st a k)).
Definition used (sc : scenario) (st : state) (a : action) (k : Z) : bool :=
  snd (perform_action sc st a k).

(* an action of the action space: the no-op or a member of the flat list *)
Definition in_space (sc : scenario) (a : action) : Prop := a = noop \/ In a (flat sc).

(* what the proofs need from an action of the space *)
Definition act_ok (sc : scenario) (a : action) : Prop :=
  In (a_tgt a) (addresses sc)
  /\ (is_exploit a = true \/ is_privesc a = true -> a_acc a = 1%nat \/ a_acc a = 2%nat)
  /\ (is_noop a = false -> a_req a = USER).

(* ---------- host-level preconditions (C01) ---------- *)
Definition pre_exploit (h : hrow) (a : action) : bool :=
  nthb (h_srv h) (a_srv a) && os_match h (a_os a).
Definition pre_privesc (h : hrow) (a : action) : bool :=
  h_comp h && Nat.leb (a_req a) (h_acc h) && nthb (h_proc h) (a_proc a) && os_match h (a_os a).

(* ---------- network-level preconditions (C02) ---------- *)
Definition compromised_at (sc : scenario) (st : state) (y : addr) : Prop :=
  In y (addresses sc) /\ h_comp (row sc st y) = true.

(* a compromised host holding the required access, placed so that it can talk to the target *)
Definition pivot (sc : scenario) (st : state) (a : action) : Prop :=
  subnet_public sc (fst (a_tgt a)) = true
  \/ exists y, compromised_at sc st y
       /\ (a_req a <= h_acc (row sc st y))%nat
       /\ (is_scan a = true -> connected sc (fst y) (fst (a_tgt a)) = true)
       /\ (is_exploit a = true ->
             fst y = fst (a_tgt a)
             \/ (connected sc (fst y) (fst (a_tgt a)) = true
                 /\ fw_allows sc (fst y) (fst (a_tgt a)) (a_srv a) = true)).

(* some attacker-controlled position from which both firewall layers admit the service *)
Definition admits (sc : scenario) (st : state) (a : action) : Prop :=
  (subnet_public sc (fst (a_tgt a)) = true /\ fw_allows sc O (fst (a_tgt a)) (a_srv a) = true)
  \/ exists y, compromised_at sc st y
       /\ (fst y = fst (a_tgt a)
           \/ (connected sc (fst y) (fst (a_tgt a)) = true
               /\ fw_allows sc (fst y) (fst (a_tgt a)) (a_srv a) = true))
       /\ host_denies sc y (a_tgt a) (a_srv a) = false.

(* all gates in front of the random draw *)
Definition gates_ok (sc : scenario) (st : state) (a : action) : bool :=
  let t := trow sc st a in
  h_reach t && h_disc t
  && (negb (is_remote a) || has_remote_perm sc st a)
  && (negb (is_exploit a) || traffic_permitted sc st (a_tgt a) (a_srv a))
  && (negb (is_privesc a) || h_comp t).

Definition reexploit (sc : scenario) (st : state) (a : action) : bool :=
  is_exploit a && h_comp (trow sc st a).

(* ---------- C03 ---------- *)
Definition Inv3 (sc : scenario) (st : state) : Prop :=
  forall x, In x (addresses sc) ->
    (h_reach (row sc st x) = true <->
       (subnet_public sc (fst x) = true
        \/ exists y, compromised_at sc st y /\ connected sc (fst y) (fst x) = true))
    /\ (h_comp (row sc st x) = true -> h_disc (row sc st x) = true)
    /\ (h_disc (row sc st x) = true -> h_reach (row sc st x) = true).

(* ---------- C04 ---------- *)
Definition same_config (h h' : hrow) : Prop :=
  h_addr h' = h_addr h /\ h_os h' = h_os h /\ h_srv h' = h_srv h /\ h_proc h' = h_proc h
  /\ h_val h' = h_val h /\ h_dval h' = h_dval h.

Definition row_le (h h' : hrow) : Prop :=
  (h_comp h = true -> h_comp h' = true) /\ (h_reach h = true -> h_reach h' = true)
  /\ (h_disc h = true -> h_disc h' = true) /\ (h_acc h <= h_acc h')%nat.

(* ---------- histories of plain steps (C05) ---------- *)
Fixpoint run_steps (sc : scenario) (st : state) (l : list (action * Z)) : state * Z :=
  match l with
  | [] => (st, 0)
  | (a, k) :: r =>
      let st' := next sc st a k in
      let (stf, v) := run_steps sc st' r in
      (stf, r_value (res sc st a k) + v)
  end.

(* the sequence of states visited by a history: st0, st1, ..., stn *)
Fixpoint trace (sc : scenario) (st : state) (l : list (action * Z)) : list state :=
  match l with
  | [] => [st]
  | (a, k) :: r => st :: trace sc (next sc st a k) r
  end.

Definition newly_rooted (sc : scenario) (st st' : state) (x : addr) : bool :=
  negb (Nat.eqb (h_acc (row sc st x)) ROOT) && Nat.eqb (h_acc (row sc st' x)) ROOT.
Definition newly_disc (sc : scenario) (st st' : state) (x : addr) : bool :=
  negb (h_disc (row sc st x)) && h_disc (row sc st' x).

Definition gained (sc : scenario) (st st' : state) : Z :=
  sumZ (map (fun x => (if newly_rooted sc st st' x then h_val (row sc st x) else 0)
                      + (if newly_disc sc st st' x then h_dval (row sc st x) else 0))
            (addresses sc)).

(* number of consecutive pairs (s_i, s_i+1) of a trace on which [f] holds *)
Fixpoint count_pairs (f : state -> state -> bool) (l : list state) : nat :=
  match l with
  | s :: ((s' :: _) as r) => ((if f s s' then 1 else 0) + count_pairs f r)%nat
  | _ => O
  end.

(* ---------- C06 ---------- *)
Definition decodes (sc : scenario) (m : modes) (x : aarg) : bool :=
  match decode_arg sc m x with Some _ => true | None => false end.

(* step() calls since the last reset (calls that raise while decoding do not count) *)
Fixpoint steps_since_reset (sc : scenario) (m : modes) (acc : nat) (ops : list op) : nat :=
  match ops with
  | [] => acc
  | OReset :: r => steps_since_reset sc m O r
  | OStep x _ :: r => steps_since_reset sc m (if decodes sc m x then S acc else acc) r
  | _ :: r => steps_since_reset sc m acc r
  end.

Definition arg_in_space (x : aarg) : Prop := match x with AObj _ => False | _ => True end.
Definition op_in_space (o : op) : Prop :=
  match o with OStep x _ => arg_in_space x | OGen _ x _ => arg_in_space x | _ => True end.

Definition final_env (sc : scenario) (m : modes) (ops : list op) : env :=
  fst (fst (run_ops sc m (env_init sc m, [e_state (env_init sc m)]) ops)).
Definition final_pool (sc : scenario) (m : modes) (ops : list op) : list state :=
  snd (fst (run_ops sc m (env_init sc m, [e_state (env_init sc m)]) ops)).
