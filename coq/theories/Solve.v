(* Solve.v -- solvability of a scenario as a monotone closure (C16): apply every action of
   the flat space with the succeeding draw until nothing changes; the actions that changed
   the state form the plan.  Definitions only. *)
From NasimV Require Export Monitors.

Fixpoint sweep (sc : scenario) (acts : list action) (st : state) (plan : list action)
  : state * list action :=
  match acts with
  | [] => (st, plan)
  | a :: r =>
      let st' := next sc st a 0 in
      if state_eqb st' st then sweep sc r st plan else sweep sc r st' (plan ++ [a])
  end.

Fixpoint closure_loop (sc : scenario) (fuel : nat) (st : state) (plan : list action)
  : state * list action :=
  match fuel with
  | O => (st, plan)
  | S f =>
      let (st', plan') := sweep sc (flat sc) st plan in
      if state_eqb st' st then (st, plan) else closure_loop sc f st' plan'
  end.

Definition solve (sc : scenario) : state * list action :=
  closure_loop sc (5 * length (s_hosts sc) + 1) (initial_state sc) [].

Definition solvable (sc : scenario) : bool := goal sc (fst (solve sc)).
Definition plan (sc : scenario) : list action := snd (solve sc).

(* replaying a plan with succeeding draws *)
Definition replay (sc : scenario) (st : state) (l : list action) : state :=
  fst (run_steps sc st (map (fun a => (a, 0)) l)).

(* ================= C16 statements ================= *)
Definition C16_plan_sound_stmt : Prop :=
  forall sc,
    replay sc (initial_state sc) (plan sc) = fst (solve sc)
    /\ Forall (fun a => In a (flat sc)) (plan sc)
    /\ (solvable sc = true -> goal sc (replay sc (initial_state sc) (plan sc)) = true).
