(* Wire.v -- one generic wire format (nested lists of integers) shared by the
   in-Coq evaluation path (gen/Cases_*.v) and the extracted OCaml driver, with
   decoders for the model's inputs and encoders for its outputs.  Definitions only. *)
From NasimV Require Export Monitors Format Hops Multi Gen.

Inductive sx := I (z : Z) | L (l : list sx).

Fixpoint sx_eqb (a b : sx) : bool :=
  match a, b with
  | I x, I y => x =? y
  | L l1, L l2 =>
      (fix go (l1 l2 : list sx) : bool :=
         match l1, l2 with
         | [], [] => true
         | x :: r1, y :: r2 => sx_eqb x y && go r1 r2
         | _, _ => false
         end) l1 l2
  | _, _ => false
  end.

Definition bind {A B : Type} (o : option A) (f : A -> option B) : option B :=
  match o with Some x => f x | None => None end.
Notation "'do' x <- o ; f" := (bind o (fun x => f)) (at level 200, x pattern, o at level 100, f at level 200).

Fixpoint mapM {A B : Type} (f : A -> option B) (l : list A) : option (list B) :=
  match l with
  | [] => Some []
  | x :: r => do y <- f x; do ys <- mapM f r; Some (y :: ys)
  end.

(* ---------- decoders ---------- *)
Definition d_Z (s : sx) : option Z := match s with I z => Some z | _ => None end.
Definition d_nat (s : sx) : option nat :=
  match s with I z => if z <? 0 then None else Some (Z.to_nat z) | _ => None end.
Definition d_bool (s : sx) : option bool :=
  match s with I 0 => Some false | I 1 => Some true | _ => None end.
Definition d_list {A : Type} (f : sx -> option A) (s : sx) : option (list A) :=
  match s with L l => mapM f l | _ => None end.
Definition d_opt {A : Type} (f : sx -> option A) (s : sx) : option (option A) :=
  match s with L [] => Some None | L [x] => do y <- f x; Some (Some y) | _ => None end.
Definition d_pair {A B : Type} (f : sx -> option A) (g : sx -> option B) (s : sx) : option (A * B) :=
  match s with L [a; b] => do x <- f a; do y <- g b; Some (x, y) | _ => None end.
Definition d_addr : sx -> option addr := d_pair d_nat d_nat.

Definition d_edef (s : sx) : option edef :=
  match s with
  | L [a; b; c; d; e] =>
      do srv <- d_nat a; do os <- d_opt d_nat b; do pz <- d_Z c; do cost <- d_Z d; do acc <- d_nat e;
      Some (mkE srv os pz cost acc)
  | _ => None end.
Definition d_pdef (s : sx) : option pdef :=
  match s with
  | L [a; b; c; d; e] =>
      do pr <- d_nat a; do os <- d_opt d_nat b; do pz <- d_Z c; do cost <- d_Z d; do acc <- d_nat e;
      Some (mkP pr os pz cost acc)
  | _ => None end.
Definition d_fw : sx -> option (list (addr * list nat)) := d_list (d_pair d_addr (d_list d_nat)).
Definition d_cfg (s : sx) : option hostcfg :=
  match s with
  | L [a; b; c; d; e; f] =>
      do os <- d_list d_bool a; do srv <- d_list d_bool b; do pr <- d_list d_bool c;
      do v <- d_Z d; do dv <- d_Z e; do fw <- d_fw f;
      Some (mkCfg os srv pr v dv fw)
  | _ => None end.
Definition d_scenario (s : sx) : option scenario :=
  match s with
  | L [sub; topo; nos; nsrv; nproc; ex; pe; L [c1; c2; c3; c4]; fw; hosts; sens; lim; bnd] =>
      do sub' <- d_list d_nat sub; do topo' <- d_list (d_list d_bool) topo;
      do nos' <- d_nat nos; do nsrv' <- d_nat nsrv; do nproc' <- d_nat nproc;
      do ex' <- d_list d_edef ex; do pe' <- d_list d_pdef pe;
      do c1' <- d_Z c1; do c2' <- d_Z c2; do c3' <- d_Z c3; do c4' <- d_Z c4;
      do fw' <- d_fw fw; do hosts' <- d_list (d_pair d_addr d_cfg) hosts;
      do sens' <- d_list (d_pair d_addr d_Z) sens; do lim' <- d_opt d_nat lim;
      do bnd' <- d_pair d_nat d_nat bnd;
      Some (mkSc sub' topo' nos' nsrv' nproc' ex' pe' c1' c2' c3' c4' fw' hosts' sens' lim' bnd')
  | _ => None end.

Definition d_kind (s : sx) : option akind :=
  match s with
  | I 0 => Some KSrvScan | I 1 => Some KOsScan | I 2 => Some KSubScan | I 3 => Some KProcScan
  | I 4 => Some KExploit | I 5 => Some KPrivesc | I 6 => Some KNoop | _ => None end.
Definition d_action (s : sx) : option action :=
  match s with
  | L [k; t; c; pz; rq; sv; pr; os; ac] =>
      do k' <- d_kind k; do t' <- d_addr t; do c' <- d_Z c; do pz' <- d_Z pz; do rq' <- d_nat rq;
      do sv' <- d_nat sv; do pr' <- d_nat pr; do os' <- d_opt d_nat os; do ac' <- d_nat ac;
      Some (mkAct k' t' c' pz' rq' sv' pr' os' ac')
  | _ => None end.
Definition d_aarg (s : sx) : option aarg :=
  match s with
  | L [I 0; n] => do n' <- d_nat n; Some (AIdx n')
  | L [I 1; v] => do v' <- d_list d_nat v; Some (AVec v')
  | L [I 2; a] => do a' <- d_action a; Some (AObj a')
  | _ => None end.
Definition d_op (s : sx) : option op :=
  match s with
  | L [I 0] => Some OReset
  | L [I 1; x; k] => do x' <- d_aarg x; do k' <- d_Z k; Some (OStep x' k')
  | L [I 2; i; x; k] => do i' <- d_nat i; do x' <- d_aarg x; do k' <- d_Z k; Some (OGen i' x' k')
  | L [I 3; i] => do i' <- d_nat i; Some (OGoal i')
  | L [I 4] => Some OMask
  | L [I 5] => Some OInit
  | _ => None end.
Definition d_modes (s : sx) : option modes :=
  match s with
  | L [a; b; c] => do a' <- d_bool a; do b' <- d_bool b; do c' <- d_bool c; Some (mkModes a' b' c')
  | _ => None end.
Definition d_hrow (s : sx) : option hrow :=
  match s with
  | L [ad; c; r; d; v; dv; ac; os; sv; pr] =>
      do ad' <- d_addr ad; do c' <- d_bool c; do r' <- d_bool r; do d' <- d_bool d;
      do v' <- d_Z v; do dv' <- d_Z dv; do ac' <- d_nat ac;
      do os' <- d_list d_bool os; do sv' <- d_list d_bool sv; do pr' <- d_list d_bool pr;
      Some (mkRow ad' c' r' d' v' dv' ac' os' sv' pr')
  | _ => None end.
Definition d_state : sx -> option state := d_list d_hrow.

Definition d_result (s : sx) : option result :=
  match s with
  | L [su; v; c; p; u; sv; os; pr; ac; di; nw] =>
      do su' <- d_bool su; do v' <- d_Z v; do c' <- d_bool c; do p' <- d_bool p; do u' <- d_bool u;
      do sv' <- d_opt (d_list d_bool) sv; do os' <- d_opt (d_list d_bool) os;
      do pr' <- d_opt (d_list d_bool) pr; do ac' <- d_opt d_nat ac;
      do di' <- d_list d_bool di; do nw' <- d_list d_bool nw;
      Some (mkRes su' v' c' p' u' sv' os' pr' ac' di' nw')
  | _ => None end.
Definition d_rec (s : sx) : option rec :=
  match s with
  | L [st; a; k; st'; r; u; rw; dn] =>
      do st1 <- d_state st; do a' <- d_action a; do k' <- d_Z k; do st2 <- d_state st';
      do r' <- d_result r; do u' <- d_bool u; do rw' <- d_Z rw; do dn' <- d_bool dn;
      Some (mkRec st1 a' k' st2 r' u' rw' dn')
  | _ => None end.

(* ---------- encoders ---------- *)
Definition x_nat (n : nat) : sx := I (Z.of_nat n).
Definition x_bool (b : bool) : sx := I (if b then 1 else 0).
Definition x_list {A : Type} (f : A -> sx) (l : list A) : sx := L (map f l).
Definition x_opt {A : Type} (f : A -> sx) (o : option A) : sx :=
  match o with None => L [] | Some x => L [f x] end.
Definition x_addr (a : addr) : sx := L [x_nat (fst a); x_nat (snd a)].
Definition x_hrow (h : hrow) : sx :=
  L [x_addr (h_addr h); x_bool (h_comp h); x_bool (h_reach h); x_bool (h_disc h);
     I (h_val h); I (h_dval h); x_nat (h_acc h);
     x_list x_bool (h_os h); x_list x_bool (h_srv h); x_list x_bool (h_proc h)].
Definition x_state (st : state) : sx := x_list x_hrow st.
Definition x_mat (m : obsmat) : sx := x_list (x_list I) m.
Definition x_result (r : result) : sx :=
  L [x_bool (r_success r); I (r_value r); x_bool (r_conn r); x_bool (r_perm r); x_bool (r_undef r);
     x_opt (x_list x_bool) (r_srv r); x_opt (x_list x_bool) (r_os r); x_opt (x_list x_bool) (r_proc r);
     x_opt x_nat (r_acc r); x_list x_bool (r_disc r); x_list x_bool (r_newly r)].
Definition x_out (m : modes) (o : stepout) : sx :=
  L [x_state (o_next o); x_mat (present m (o_obs o)); I (o_reward o); x_bool (o_done o);
     x_result (o_res o); x_bool (o_used o)].
Definition x_opout (m : modes) (o : opout) : sx :=
  match o with
  | RReset obs st => L [I 0; x_mat obs; x_state st]
  | RStep out lim steps => L [I 1; x_out m out; x_bool lim; x_nat steps]
  | RGen out steps => L [I 2; x_out m out; x_nat steps]
  | RGoal b => L [I 3; x_bool b]
  | RMask mk => L [I 4; x_list x_bool mk]
  | RInit st => L [I 5; x_state st]
  | RError => L [I 9]
  end.
Definition x_action (a : action) : sx :=
  L [I (match a_kind a with KSrvScan => 0 | KOsScan => 1 | KSubScan => 2 | KProcScan => 3
                          | KExploit => 4 | KPrivesc => 5 | KNoop => 6 end);
     x_addr (a_tgt a); I (a_cost a); I (a_pz a); x_nat (a_req a); x_nat (a_srv a); x_nat (a_proc a);
     x_opt x_nat (a_os a); x_nat (a_acc a)].

(* ---------- scenario files ---------- *)
Fixpoint d_yv (s : sx) : option yv :=
  match s with
  | L [I 0] => Some YNull
  | L [I 1; I z] => Some (YInt z)
  | L [I 2; I f] => Some (YFloat f)
  | L [I 3; I n] => if n <? 0 then None else Some (YStr (Z.to_nat n))
  | L [I 4; I sp; I a; I b] => if sp <? 0 then None else Some (YAddr (Z.to_nat sp) a b)
  | L [I 5; L items] =>
      option_map YList
        ((fix go (l : list sx) : option (list yv) :=
            match l with
            | [] => Some []
            | x :: r => match d_yv x, go r with Some y, Some ys => Some (y :: ys) | _, _ => None end
            end) items)
  | L [I 6; L items] =>
      option_map YMap
        ((fix go (l : list sx) : option (list (yv * yv)) :=
            match l with
            | [] => Some []
            | L [k; v] :: r =>
                match d_yv k, d_yv v, go r with
                | Some k', Some v', Some ys => Some ((k', v') :: ys)
                | _, _, _ => None
                end
            | _ => None
            end) items)
  | _ => None
  end.

Definition x_edef (e : edef) : sx :=
  L [x_nat (e_srv e); x_opt x_nat (e_os e); I (e_pz e); I (e_cost e); x_nat (e_acc e)].
Definition x_pdef (p : pdef) : sx :=
  L [x_nat (p_proc p); x_opt x_nat (p_os p); I (p_pz p); I (p_cost p); x_nat (p_acc p)].
Definition x_fw (l : list (addr * list nat)) : sx :=
  x_list (fun e => L [x_addr (fst e); x_list x_nat (snd e)]) l.
Definition x_cfg (c : hostcfg) : sx :=
  L [x_list x_bool (c_os c); x_list x_bool (c_srv c); x_list x_bool (c_proc c);
     I (c_val c); I (c_dval c); x_fw (c_fw c)].
Definition x_scenario (sc : scenario) : sx :=
  L [x_list x_nat (s_subnets sc); x_list (x_list x_bool) (s_topo sc);
     x_nat (s_nos sc); x_nat (s_nsrv sc); x_nat (s_nproc sc);
     x_list x_edef (s_exploits sc); x_list x_pdef (s_privescs sc);
     L [I (s_ssc sc); I (s_osc sc); I (s_subc sc); I (s_psc sc)];
     x_fw (s_fw sc);
     x_list (fun e => L [x_addr (fst e); x_cfg (snd e)]) (s_hosts sc);
     x_list (fun e => L [x_addr (fst e); I (snd e)]) (s_sens sc);
     x_opt x_nat (s_limit sc);
     L [x_nat (fst (s_bounds sc)); x_nat (snd (s_bounds sc))]].

Definition d_mop (s : sx) : option mop :=
  match s with
  | L [I 0; i; sc; m; nm] =>
      do i' <- d_nat i; do sc' <- d_scenario sc; do m' <- d_modes m; do nm' <- d_nat nm;
      Some (MNew i' sc' m' nm')
  | L [I 1; i] => do i' <- d_nat i; Some (MReinit i')
  | L [I 2; i; o] => do i' <- d_nat i; do o' <- d_op o; Some (MOp i' o')
  | _ => None end.

Definition d_probspec (s : sx) : option probspec :=
  match s with
  | L [I 0; l] => do l' <- d_list d_Z l; Some (PFixed l')
  | L [I 1] => Some PRandom
  | L [I 2; l] => do l' <- d_list d_Z l; Some (PMixed l')
  | _ => None end.

Definition d_gparams (s : sx) : option gparams :=
  match s with
  | L [nh; nsrv; nos; nproc; nexp; npe; rs; ru; ec; ep; pc; pp; L [c1; c2; c3; c4]; uni;
       thH; thP; thS; restr; rg; bv; dv; lim; bnd] =>
      do nh' <- d_nat nh; do nsrv' <- d_nat nsrv; do nos' <- d_nat nos; do nproc' <- d_nat nproc;
      do nexp' <- d_nat nexp; do npe' <- d_nat npe; do rs' <- d_Z rs; do ru' <- d_Z ru;
      do ec' <- d_Z ec; do ep' <- d_probspec ep; do pc' <- d_Z pc; do pp' <- d_probspec pp;
      do c1' <- d_Z c1; do c2' <- d_Z c2; do c3' <- d_Z c3; do c4' <- d_Z c4;
      do uni' <- d_bool uni; do thH' <- d_list d_Z thH; do thP' <- d_list d_Z thP; do thS' <- d_opt d_Z thS;
      do restr' <- d_nat restr; do rg' <- d_bool rg; do bv' <- d_Z bv; do dv' <- d_Z dv;
      do lim' <- d_opt d_nat lim; do bnd' <- d_opt (d_pair d_nat d_nat) bnd;
      Some (mkGP nh' nsrv' nos' nproc' nexp' npe' rs' ru' ec' ep' pc' pp' c1' c2' c3' c4' uni'
                 thH' thP' thS' restr' rg' bv' dv' lim' bnd')
  | _ => None end.

Definition bad : sx := L [I (-1)].
