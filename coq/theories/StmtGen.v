(* StmtGen.v -- statements about the scenario generator (C14, C15). *)
From NasimV Require Export Gen.

Definition gen_ok (p : gparams) (o : list Z) (sc : scenario) : Prop :=
  exists rest, generate p o = Ok sc rest.

Definition sum_nat (l : list nat) : nat := fold_right Nat.add O l.
Definition count_true (l : list bool) : nat := length (filter (fun b => b) l).

(* requested sizes *)
Definition C15_shape_stmt : Prop :=
  forall p o sc, gen_ok p o sc ->
    sum_nat (tl (s_subnets sc)) = g_hosts p /\ nth 0 (s_subnets sc) O = 1%nat
    /\ Forall (fun x => (0 < x)%nat) (s_subnets sc) /\ (4 <= length (s_subnets sc))%nat
    /\ s_nos sc = g_nos p /\ s_nsrv sc = g_nsrv p /\ s_nproc sc = g_nproc p
    /\ length (s_exploits sc) = g_nexp p /\ length (s_privescs sc) = g_npe p
    /\ s_limit sc = g_limit p
    /\ s_ssc sc = g_ssc p /\ s_osc sc = g_osc p /\ s_subc sc = g_subc p /\ s_psc sc = g_psc p.

(* symmetric, self-connected topology in which only the DMZ subnet (1) is public *)
Definition C15_topology_stmt : Prop :=
  forall p o sc, gen_ok p o sc ->
    let n := nsubnets sc in
    length (s_topo sc) = n /\ Forall (fun r => length r = n) (s_topo sc)
    /\ (forall s t, (s < n)%nat -> (t < n)%nat -> connected sc s t = connected sc t s)
    /\ (forall s, (s < n)%nat -> connected sc s s = true)
    /\ (forall s, (0 < s < n)%nat -> (subnet_public sc s = true <-> s = 1%nat)).

(* every host: exactly one OS, at least one service and one process, one host per address *)
Definition C15_hosts_stmt : Prop :=
  forall p o sc, gen_ok p o sc ->
    map fst (s_hosts sc) = gen_addrs (s_subnets sc)
    /\ Forall (fun e => let c := snd e in
                 length (c_os c) = g_nos p /\ length (c_srv c) = g_nsrv p /\ length (c_proc c) = g_nproc p
                 /\ count_true (c_os c) = 1%nat /\ (1 <= count_true (c_srv c))%nat
                 /\ (1 <= count_true (c_proc c))%nat
                 /\ c_dval c = g_dvalue p /\ c_fw c = []
                 /\ c_val c = match assoc (fst e) (s_sens sc) with Some v => v | None => g_base_value p end)
              (s_hosts sc).

(* exploit / escalation definitions *)
Definition C15_actions_stmt : Prop :=
  forall p o sc, gen_ok p o sc ->
    Forall (fun e => (e_srv e < g_nsrv p)%nat /\ opt_lt (e_os e) (g_nos p) = true
                     /\ e_cost e = g_ecost p /\ (e_acc e = 1%nat \/ e_acc e = 2%nat)) (s_exploits sc)
    /\ Forall (fun q => (p_proc q < g_nproc p)%nat /\ opt_lt (p_os q) (g_nos p) = true
                        /\ p_cost q = g_pcost p /\ p_acc q = 2%nat) (s_privescs sc)
    /\ (existsb (fun q => match p_os q with None => true | Some _ => false end) (s_privescs sc)
        || forallb (fun os => existsb (fun q => opt_nat_eqb (p_os q) (Some os)) (s_privescs sc))
                   (seq 0 (g_nos p))) = true
    /\ (forall l, g_eprobs p = PFixed l -> length l = g_nexp p -> map e_pz (s_exploits sc) = l)
    /\ (forall l, g_pprobs p = PFixed l -> length l = g_npe p -> map p_pz (s_privescs sc) = l)
    /\ (forall levels, g_eprobs p = PMixed levels -> Forall (fun e => In (e_pz e) (0 :: levels)) (s_exploits sc)).

(* the sensitive-subnet host and one user host *)
Definition C15_sensitive_stmt : Prop :=
  forall p o sc, gen_ok p o sc ->
    exists a, s_sens sc = [((2%nat, O), g_rsens p); (a, g_ruser p)]
      /\ (3 <= fst a)%nat /\ In a (map fst (s_hosts sc)) /\ In (2%nat, O) (map fst (s_hosts sc))
      /\ (g_random_goal p = false ->
          a = ((length (s_subnets sc) - 1)%nat, (last (s_subnets sc) O - 1)%nat)).

(* firewall *)
Definition C15_firewall_stmt : Prop :=
  forall p o sc, gen_ok p o sc ->
    let n := nsubnets sc in
    (forall s t, (s < n)%nat -> (t < n)%nat ->
       (assoc (s, t) (s_fw sc) <> None <-> (s <> t /\ connected sc s t = true)))
    /\ Forall (fun e => Forall (fun sv => (sv < g_nsrv p)%nat) (snd e)) (s_fw sc)
    /\ (forall s t l, assoc (s, t) (s_fw sc) = Some l -> (2 < s)%nat -> (2 < t)%nat -> l = seq 0 (g_nsrv p))
    /\ (forall s t l, assoc (s, t) (s_fw sc) = Some l -> ~ ((2 < s)%nat /\ (2 < t)%nat) -> (1 <= t)%nat ->
          (1 <= length l <= g_restrict p)%nat).

Definition C15_wf_stmt : Prop :=
  forall p o sc, gen_ok p o sc -> wf_scenario sc = true.

(* the generator cannot give up: the retry loop of _update_host_to_vulnerable never runs out,
   and (when alpha_V <> 1) no exception is raised for valid parameters and in-range draws *)
Definition C15_no_crash_stmt : Prop :=
  forall p o, params_ok p = true -> generate p o <> Crash 5 /\ generate p o <> Crash 1
              /\ (g_thrS p <> None -> generate p o <> Crash 7).

(* defect D8: documented-valid parameters for which NO stream of draws lets the generator finish *)
Definition C15_dead_end_refuted_stmt : Prop :=
  exists p, params_ok p = true /\ g_thrS p <> None /\ g_bounds p = None
            /\ forall o sc rest, generate p o <> Ok sc rest.

(* defect D7: alpha_V = 1.0 raises as soon as a second fresh configuration is sampled *)
Definition C15_alphaV_one_refuted_stmt : Prop :=
  exists p o, params_ok p = true /\ g_thrS p = None /\ generate p o = Crash 7.

(* C14: the result is a function of the parameters and of the draws actually consumed *)
Definition C14_prefix_stmt : Prop :=
  forall p o sc rest extra, generate p o = Ok sc rest -> generate p (o ++ extra) = Ok sc (rest ++ extra).
