(* Yaml.v -- the Python object PyYAML hands to the loader, as a datatype; key lookup;
   numeric conversions; the strings the loader knows.  Definitions only.

   Modelled domain: a document is a tree of null / int / float / string / list / mapping.
   Strings are identifiers (nat) except strings that spell a pair of integers such as
   "(1, 0)", which the loader eval()s: [YAddr sp a b] is the string number [sp] among the
   spellings of the pair (a, b); spelling 0 is Python's own str((a, b)).  Every other string
   makes eval() raise.  YAML booleans, strings that eval() to other Python values and
   mapping keys that are equal as Python objects but spelled differently are outside the
   modelled domain (the harness never produces them). *)
From NasimV Require Export Scenario.

Inductive yv :=
| YNull
| YInt (z : Z)
| YFloat (f : Z)                       (* the double f * 2^-59 *)
| YStr (s : nat)
| YAddr (sp : nat) (a b : Z)
| YList (l : list yv)
| YMap (m : list (yv * yv)).

Definition SCALE : Z := 576460752303423488.   (* 2^59 *)

(* Python equality / hashing of scalars (containers are unhashable) *)
Definition hashable (v : yv) : bool :=
  match v with YList _ | YMap _ => false | _ => true end.

Definition key_eqb (x y : yv) : bool :=
  match x, y with
  | YNull, YNull => true
  | YInt a, YInt b => a =? b
  | YFloat a, YFloat b => a =? b
  | YInt a, YFloat b => a * SCALE =? b
  | YFloat a, YInt b => a =? b * SCALE
  | YStr a, YStr b => Nat.eqb a b
  | YAddr s a b, YAddr s' a' b' => Nat.eqb s s' && (a =? a') && (b =? b')
  | _, _ => false
  end.

Fixpoint lookup (k : yv) (m : list (yv * yv)) : option yv :=
  match m with
  | [] => None
  | (k', v) :: r => if key_eqb k' k then Some v else lookup k r
  end.

Definition has_key (k : yv) (m : list (yv * yv)) : bool :=
  match lookup k m with Some _ => true | None => false end.

Definition mem_yv (x : yv) (l : list yv) : bool := existsb (key_eqb x) l.

Fixpoint nodup_yv (l : list yv) : bool :=
  match l with [] => true | x :: r => negb (mem_yv x r) && nodup_yv r end.

Fixpoint index_yv (x : yv) (l : list yv) : option nat :=
  match l with
  | [] => None
  | y :: r => if key_eqb y x then Some O else option_map S (index_yv x r)
  end.

(* numbers *)
Definition is_num (v : yv) : bool := match v with YInt _ | YFloat _ => true | _ => false end.
(* sign tests and comparisons with 1, exact on both representations *)
Definition num_scaled (v : yv) : Z := match v with YInt z => z * SCALE | YFloat f => f | _ => 0 end.
(* value in units of 1/64 (exact for multiples of 1/64; the harness asserts that) *)
Definition num_fx (v : yv) : Z := num_scaled v / 9007199254740992.
(* ceil (p * 2^53) *)
Definition num_pz (v : yv) : Z := - ((- num_scaled v) / 64).

(* ---------- the strings the loader knows (identifier numbers fixed by the harness) ---------- *)
Definition k_subnets := YStr 0.     Definition k_topology := YStr 1.
Definition k_sensitive := YStr 2.   Definition k_os := YStr 3.
Definition k_services := YStr 4.    Definition k_processes := YStr 5.
Definition k_exploits := YStr 6.    Definition k_privescs := YStr 7.
Definition k_ssc := YStr 8.         Definition k_subc := YStr 9.
Definition k_osc := YStr 10.        Definition k_psc := YStr 11.
Definition k_hostcfgs := YStr 12.   Definition k_firewall := YStr 13.
Definition k_steplimit := YStr 14.
Definition f_service := YStr 20.    Definition f_prob := YStr 21.
Definition f_cost := YStr 22.       Definition f_access := YStr 23.
Definition f_process := YStr 24.    Definition f_value := YStr 25.
Definition s_user := YStr 30.       Definition s_root := YStr 31.
(* every string whose lower() is "none" *)
Definition s_none := YStr 32.

Definition required_keys : list yv :=
  [k_subnets; k_topology; k_sensitive; k_os; k_services; k_processes; k_exploits; k_privescs;
   k_ssc; k_subc; k_osc; k_psc; k_hostcfgs; k_firewall].

Definition canon (a b : nat) : yv := YAddr 0 (Z.of_nat a) (Z.of_nat b).

(* eval() of an address-like key *)
Definition eval_pair (k : yv) : option (Z * Z) :=
  match k with YAddr _ a b => Some (a, b) | _ => None end.

Definition z_addr (p : Z * Z) : addr := (Z.to_nat (fst p), Z.to_nat (snd p)).
