(* Loader.v -- nasim/scenarios/loader.py (ScenarioLoader.load) over the Yaml.v datatype,
   after the repairs of defects D2, D9, D10, D11.  [load] follows the order of the code
   ([None] = the implementation raises); [build] is the direct reading of the file.
   Definitions only. *)
From NasimV Require Export Yaml.

Definition is_str (v : yv) : bool := match v with YStr _ | YAddr _ _ _ => true | _ => false end.

Definition sec (d : list (yv * yv)) (k : yv) : option yv := lookup k d.
Definition sec_list (d : list (yv * yv)) (k : yv) : option (list yv) :=
  match lookup k d with Some (YList l) => Some l | _ => None end.
Definition sec_map (d : list (yv * yv)) (k : yv) : option (list (yv * yv)) :=
  match lookup k d with Some (YMap m) => Some m | _ => None end.

(* ---------- _check_scenario_sections_valid ---------- *)
Inductive sty := TList | TMap | TNum | TInt.

Definition key_type (k : yv) : option sty :=
  match k with
  | YStr 0 | YStr 1 | YStr 3 | YStr 4 | YStr 5 => Some TList
  | YStr 2 | YStr 6 | YStr 7 | YStr 12 | YStr 13 => Some TMap
  | YStr 8 | YStr 9 | YStr 10 | YStr 11 => Some TNum
  | YStr 14 => Some TInt
  | _ => None
  end.

Definition has_type (t : sty) (v : yv) : bool :=
  match t, v with
  | TList, YList _ => true
  | TMap, YMap _ => true
  | TNum, (YInt _ | YFloat _) => true
  | TInt, YInt _ => true
  | _, _ => false
  end.

Definition entry_ok (kv : yv * yv) : bool :=
  match key_type (fst kv) with Some t => has_type t (snd kv) | None => false end.

Definition check_sections (d : list (yv * yv)) : bool :=
  Nat.leb 14 (length d) && forallb entry_ok d.

(* ---------- element-level rules shared by code and specification ---------- *)
Definition subnet_entry_ok (v : yv) : bool := match v with YInt z => 0 <? z | _ => false end.
Definition topo_entry_ok (v : yv) : bool := match v with YInt 0 | YInt 1 => true | _ => false end.
Definition topo_row_ok (n : nat) (v : yv) : bool :=
  match v with YList r => Nat.eqb (length r) n && forallb topo_entry_ok r | _ => false end.
Definition names_ok (l : list yv) : bool :=
  negb (Nat.eqb (length l) 0) && forallb hashable l && nodup_yv l.

Definition nat_of (v : yv) : nat := match v with YInt z => Z.to_nat z | _ => O end.
Definition sizes_of (l : list yv) : list nat := 1%nat :: map nat_of l.

(* a (subnet, host) pair of integers that names a host of the network *)
Definition host_pair_ok (sizes : list nat) (p : Z * Z) : bool :=
  (0 <? fst p) && (fst p <? Z.of_nat (length sizes)) && (0 <=? snd p)
  && (snd p <? Z.of_nat (nth (Z.to_nat (fst p)) sizes O)).

Definition fw_setting_ok (services : list yv) (v : yv) : bool :=
  match v with
  | YList l => forallb (fun s => mem_yv s services) l && nodup_yv l
  | _ => false
  end.

Definition access_of (v : yv) : option nat :=
  match v with
  | YStr 30 | YInt 1 => Some 1%nat
  | YStr 31 | YInt 2 => Some 2%nat
  | _ => None
  end.

Definition os_field (oss : list yv) (v : yv) : option (option nat) :=
  if negb (is_str v) then None
  else if key_eqb v s_none then Some None
  else match index_yv v oss with Some i => Some (Some i) | None => None end.

Definition prob_ok (v : yv) : bool := is_num v && (0 <=? num_scaled v) && (num_scaled v <=? SCALE).
Definition cost_ok (v : yv) : bool := is_num v && (0 <? num_scaled v).

Definition parse_exploit (oss services : list yv) (e : yv) : option edef :=
  match e with
  | YMap m =>
    match lookup f_service m, lookup k_os m, lookup f_prob m, lookup f_cost m, lookup f_access m with
    | Some sv, Some os, Some pr, Some co, Some ac =>
      if negb (is_str sv) then None else
      match index_yv sv services, os_field oss os, access_of ac with
      | Some si, Some oo, Some al =>
          if prob_ok pr && cost_ok co then Some (mkE si oo (num_pz pr) (num_fx co) al) else None
      | _, _, _ => None
      end
    | _, _, _, _, _ => None
    end
  | _ => None
  end.

Definition parse_privesc (oss processes : list yv) (e : yv) : option pdef :=
  match e with
  | YMap m =>
    match lookup f_process m, lookup k_os m, lookup f_prob m, lookup f_cost m, lookup f_access m with
    | Some pc, Some os, Some pr, Some co, Some ac =>
      if negb (is_str pc) then None else
      match index_yv pc processes, os_field oss os, access_of ac with
      | Some pi, Some oo, Some al =>
          if prob_ok pr && cost_ok co then Some (mkP pi oo (num_pz pr) (num_fx co) al) else None
      | _, _, _ => None
      end
    | _, _, _, _, _ => None
    end
  | _ => None
  end.

Fixpoint mapM_opt {A B : Type} (f : A -> option B) (l : list A) : option (list B) :=
  match l with
  | [] => Some []
  | x :: r => match f x, mapM_opt f r with Some y, Some ys => Some (y :: ys) | _, _ => None end
  end.

(* sensitive hosts: (address, value) list, [None] when a rule is broken *)
Definition parse_sens_entry (sizes : list nat) (kv : yv * yv) : option (addr * Z) :=
  match eval_pair (fst kv) with
  | Some p =>
      if host_pair_ok sizes p && is_num (snd kv) && (0 <? num_scaled (snd kv))
      then Some (z_addr p, num_fx (snd kv)) else None
  | None => None
  end.

Definition num_hosts (sizes : list nat) : nat := (fold_right Nat.add O sizes - 1)%nat.

Definition parse_sens (sizes : list nat) (m : list (yv * yv)) : option (list (addr * Z)) :=
  if Nat.eqb (length m) 0 then None
  else if negb (Nat.leb (length m) (num_hosts sizes)) then None
  else match mapM_opt (parse_sens_entry sizes) m with
       | Some l => if nodupb_addr (map fst l) then Some l else None
       | None => None
       end.

(* all canonical host addresses, subnet-major *)
Definition canon_hosts (sizes : list nat) : list yv :=
  flat_map (fun s => map (fun h => canon s h) (seq 0 (nth s sizes O))) (seq 1 (length sizes - 1)).

(* one host configuration *)
Definition idx_list (names : list yv) (l : list yv) : list nat :=
  flat_map (fun s => match index_yv s names with Some i => [i] | None => [] end) l.

(* _validate_host_config's value rule and _get_host_value, as named functions of the optional `value:` entry
   and of the value sensitive_hosts declares for the address (Level-2 group T13 ties them to the source) *)
Definition host_value_ok (v : option yv) (sv : option Z) : bool :=
  match v with
  | None => true
  | Some v => is_num v && match sv with Some sv' => num_fx v =? sv' | None => true end
  end.
Definition host_value (v : option yv) (sv : option Z) : Z :=
  match sv with
  | Some sv' => sv'
  | None => match v with Some v => num_fx v | None => 0 end
  end.

Definition parse_hostfw (sizes : list nat) (services : list yv) (v : option yv)
  : option (list (addr * list nat)) :=
  match v with
  | None => Some []
  | Some (YMap m) =>
      match mapM_opt (fun kv => match eval_pair (fst kv), snd kv with
                                | Some p, YList l =>
                                    if host_pair_ok sizes p && fw_setting_ok services (snd kv)
                                    then Some (z_addr p, idx_list services l) else None
                                | _, _ => None end) m with
      | Some l => if nodupb_addr (map fst l) then Some l else None
      | None => None
      end
  | Some _ => None
  end.

Definition parse_host (sizes : list nat) (oss services processes : list yv)
           (sens : list (addr * Z)) (kv : yv * yv) : option (addr * hostcfg) :=
  match eval_pair (fst kv), snd kv with
  | Some p, YMap c =>
    if negb (Nat.leb 3 (length c)) then None else
    match lookup k_os c, lookup k_services c, lookup k_processes c with
    | Some os, Some (YList sv), Some (YList pc) =>
      if negb (forallb (fun s => mem_yv s services) sv && nodup_yv sv) then None else
      if negb (forallb (fun s => mem_yv s processes) pc && nodup_yv pc) then None else
      if negb (mem_yv os oss) then None else
      match parse_hostfw sizes services (lookup k_firewall c) with
      | None => None
      | Some hfw =>
        let a := z_addr p in
        let value_ok := host_value_ok (lookup f_value c) (assoc a sens) in
        if negb value_ok then None else
        let value := host_value (lookup f_value c) (assoc a sens) in
        Some (a, mkCfg (map (fun o => key_eqb o os) oss)
                       (map (fun s => mem_yv s sv) services)
                       (map (fun s => mem_yv s pc) processes)
                       value 0 hfw)
      end
    | _, _, _ => None
    end
  | _, _ => None
  end.

Definition parse_hosts (sizes : list nat) (oss services processes : list yv)
           (sens : list (addr * Z)) (m : list (yv * yv)) : option (list (addr * hostcfg)) :=
  if negb (Nat.eqb (length m) (num_hosts sizes)) then None
  else if negb (forallb (fun k => has_key k m) (canon_hosts sizes)) then None
  else mapM_opt (parse_host sizes oss services processes sens) m.

(* subnet firewall *)
Definition topo_bit (topo : list yv) (s t : nat) : bool :=
  match nth s topo YNull with
  | YList r => match nth t r YNull with YInt 1 => true | _ => false end
  | _ => false
  end.

Definition required_fw (topo : list yv) (n : nat) (m : list (yv * yv)) : bool :=
  forallb (fun s => forallb (fun t =>
     Nat.eqb s t || negb (topo_bit topo s t) || (has_key (canon s t) m && has_key (canon t s) m))
     (seq 0 n)) (seq 0 n).

Definition parse_fw (topo : list yv) (n : nat) (services : list yv) (m : list (yv * yv))
  : option (list (addr * list nat)) :=
  if negb (required_fw topo n m) then None
  else if negb (forallb (fun kv => fw_setting_ok services (snd kv)) m) then None
  else match mapM_opt (fun kv => match eval_pair (fst kv), snd kv with
                                 | Some p, YList l => Some (z_addr p, idx_list services l)
                                 | _, _ => None end) m with
       | Some l => if nodupb_addr (map fst l) then Some l else None
       | None => None
       end.

Definition parse_limit (d : list (yv * yv)) : option (option nat) :=
  match lookup k_steplimit d with
  | None => Some None
  | Some (YInt z) => if 0 <? z then Some (Some (Z.to_nat z)) else None
  | Some _ => None
  end.

Definition scan_cost (d : list (yv * yv)) (k : yv) : option Z :=
  match lookup k d with
  | Some v => if is_num v && (0 <=? num_scaled v) then Some (num_fx v) else None
  | None => None
  end.

(* ---------- ScenarioLoader.load ---------- *)
Definition load (doc : yv) : option scenario :=
  match doc with
  | YMap d =>
    if negb (check_sections d) then None else
    match sec_list d k_subnets with None => None | Some sub =>
    if Nat.eqb (length sub) 0 || negb (forallb subnet_entry_ok sub) then None else
    let sizes := sizes_of sub in
    let n := length sizes in
    match sec_list d k_topology with None => None | Some topo =>
    if negb (Nat.eqb (length topo) n && forallb (topo_row_ok n) topo) then None else
    match sec_list d k_os, sec_list d k_services, sec_list d k_processes with
    | Some oss, Some services, Some processes =>
    if negb (names_ok oss && names_ok services && names_ok processes) then None else
    match sec_map d k_sensitive with None => None | Some sm =>
    match parse_sens sizes sm with None => None | Some sens =>
    match sec_map d k_exploits, sec_map d k_privescs with
    | Some em, Some pm =>
    match mapM_opt (fun kv => parse_exploit oss services (snd kv)) em,
          mapM_opt (fun kv => parse_privesc oss processes (snd kv)) pm with
    | Some ex, Some pe =>
    match scan_cost d k_osc, scan_cost d k_ssc, scan_cost d k_subc, scan_cost d k_psc with
    | Some osc, Some ssc, Some subc, Some psc =>
    match sec_map d k_hostcfgs with None => None | Some hm =>
    match parse_hosts sizes oss services processes sens hm with None => None | Some hosts =>
    match sec_map d k_firewall with None => None | Some fm =>
    match parse_fw topo n services fm with None => None | Some fw =>
    match parse_limit d with None => None | Some lim =>
      Some (mkSc sizes
                 (map (fun s => map (fun t => topo_bit topo s t) (seq 0 n)) (seq 0 n))
                 (length oss) (length services) (length processes)
                 ex pe ssc osc subc psc fw hosts sens lim (n, maxl sizes))
    end end end end end
    | _, _, _, _ => None end
    | _, _ => None end
    | _, _ => None end
    end end
    | _, _, _ => None end
    end end
  | _ => None
  end.
