(* Gates.v -- the gate cascade of Network.perform_action as a decision function over named
   boolean atoms, in the shape the Level-2 translator regenerates from the source on every
   run (gen/Tr.v), and the hand model's classification in the same terms.  Definitions only. *)
From NasimV Require Export Spec.

Inductive outcome := ONoop | OConn | OPerm | OUndef | OScan | OHost.

Record atoms := mkAtoms {
  at_noop : bool; at_reach : bool; at_disc : bool; at_remote : bool; at_perm : bool;
  at_exploit : bool; at_traffic : bool; at_privesc : bool; at_comp : bool;
  at_chance_ge : bool;      (* np.random.rand() >= action.prob *)
  at_subscan : bool
}.

(* the cascade as the hand model has it (Network.perform_action) *)
Definition gate_outcome (x : atoms) : outcome :=
  if at_noop x then ONoop
  else if negb (at_reach x) || negb (at_disc x) then OConn
  else if at_remote x && negb (at_perm x) then OPerm
  else if at_exploit x && negb (at_traffic x) then OConn
  else if at_privesc x && negb (at_comp x) then OConn
  else if negb (at_exploit x && at_comp x) && at_chance_ge x then OUndef
  else if at_subscan x then OScan
  else OHost.

(* the atoms of a concrete step of the model *)
Definition atoms_of (sc : scenario) (st : state) (a : action) (k : Z) : atoms :=
  let t := trow sc st a in
  mkAtoms (is_noop a) (h_reach t) (h_disc t) (is_remote a) (has_remote_perm sc st a)
          (is_exploit a) (traffic_permitted sc st (a_tgt a) (a_srv a)) (is_privesc a) (h_comp t)
          (chance_fails a k) (is_subnet_scan a).

(* what each outcome means for the model's step *)
Definition outcome_matches (sc : scenario) (st : state) (a : action) (k : Z) (o : outcome) : Prop :=
  match o with
  | ONoop => perform_action sc st a k = (st, res_plain true, false)
  | OConn => perform_action sc st a k = (st, res_conn, false)
  | OPerm => perform_action sc st a k = (st, res_perm, false)
  | OUndef => perform_action sc st a k = (st, res_undef, true)
  | OScan => fst (perform_action sc st a k) = subnet_scan sc st a
  | OHost =>
      let t := trow sc st a in
      let hp := host_perform t a in
      fst (fst (perform_action sc st a k))
      = (if is_exploit a && r_success (snd hp)
         then update_reachable sc (set_row sc st (a_tgt a) (fst hp)) (fst (a_tgt a))
         else set_row sc st (a_tgt a) (fst hp))
      /\ snd (fst (perform_action sc st a k)) = snd hp
  end.

Definition gates_classify_stmt : Prop :=
  forall sc st a k, outcome_matches sc st a k (gate_outcome (atoms_of sc st a k)).
