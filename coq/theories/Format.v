(* Format.v -- the documented scenario-file format as a predicate [valid] (a conjunction
   of named clauses, one per rule of the property's catalogue), the direct reading
   [build] of a document, and the statements of C17 / C18.  Definitions only. *)
From NasimV Require Export Loader.

Definition dflt {A : Type} (d : A) (o : option A) : A := match o with Some x => x | None => d end.

Definition d_sub (d : list (yv * yv)) : list yv := dflt [] (sec_list d k_subnets).
Definition d_sizes (d : list (yv * yv)) : list nat := sizes_of (d_sub d).
Definition d_n (d : list (yv * yv)) : nat := length (d_sizes d).
Definition d_topo (d : list (yv * yv)) : list yv := dflt [] (sec_list d k_topology).
Definition d_os (d : list (yv * yv)) : list yv := dflt [] (sec_list d k_os).
Definition d_srv (d : list (yv * yv)) : list yv := dflt [] (sec_list d k_services).
Definition d_proc (d : list (yv * yv)) : list yv := dflt [] (sec_list d k_processes).
Definition d_sensm (d : list (yv * yv)) : list (yv * yv) := dflt [] (sec_map d k_sensitive).
Definition d_expm (d : list (yv * yv)) : list (yv * yv) := dflt [] (sec_map d k_exploits).
Definition d_pem (d : list (yv * yv)) : list (yv * yv) := dflt [] (sec_map d k_privescs).
Definition d_hostm (d : list (yv * yv)) : list (yv * yv) := dflt [] (sec_map d k_hostcfgs).
Definition d_fwm (d : list (yv * yv)) : list (yv * yv) := dflt [] (sec_map d k_firewall).

Definition is_some {A : Type} (o : option A) : bool := match o with Some _ => true | None => false end.

(* ---------- the clauses ---------- *)
(* every required section present, no unknown section, every section of its documented type *)
Definition v_sections (d : list (yv * yv)) : bool :=
  forallb (fun k => has_key k d) required_keys && forallb entry_ok d.
(* a non-empty list of positive integers *)
Definition v_subnets (d : list (yv * yv)) : bool :=
  negb (Nat.eqb (length (d_sub d)) 0) && forallb subnet_entry_ok (d_sub d).
(* a square 0/1 matrix with one row and column per subnet plus the internet *)
Definition v_topology (d : list (yv * yv)) : bool :=
  Nat.eqb (length (d_topo d)) (d_n d) && forallb (topo_row_ok (d_n d)) (d_topo d).
(* non-empty, duplicate-free name lists *)
Definition v_names (d : list (yv * yv)) : bool :=
  names_ok (d_os d) && names_ok (d_srv d) && names_ok (d_proc d).
(* sensitive hosts: at least one, valid addresses, positive values, no duplicates *)
Definition v_sensitive (d : list (yv * yv)) : bool :=
  negb (Nat.eqb (length (d_sensm d)) 0)
  && Nat.leb (length (d_sensm d)) (num_hosts (d_sizes d))
  && forallb (fun kv => is_some (parse_sens_entry (d_sizes d) kv)) (d_sensm d)
  && nodupb_addr (map (fun kv => z_addr (dflt (0, 0) (eval_pair (fst kv)))) (d_sensm d)).
(* exploits / escalations: all fields present, known service/process and OS, probability in
   [0,1], positive cost, valid access level *)
Definition v_exploits (d : list (yv * yv)) : bool :=
  forallb (fun kv => is_some (parse_exploit (d_os d) (d_srv d) (snd kv))) (d_expm d).
Definition v_privescs (d : list (yv * yv)) : bool :=
  forallb (fun kv => is_some (parse_privesc (d_os d) (d_proc d) (snd kv))) (d_pem d).
(* non-negative scan costs *)
Definition v_scan_costs (d : list (yv * yv)) : bool :=
  forallb (fun k => is_some (scan_cost d k)) [k_osc; k_ssc; k_subc; k_psc].

Definition d_sens (d : list (yv * yv)) : list (addr * Z) :=
  flat_map (fun kv => match parse_sens_entry (d_sizes d) kv with Some e => [e] | None => [] end) (d_sensm d).

(* host configurations: exactly one per host, each well formed, consistent with the
   value declared for a sensitive host *)
Definition v_host_cfgs (d : list (yv * yv)) : bool :=
  Nat.eqb (length (d_hostm d)) (num_hosts (d_sizes d))
  && forallb (fun k => has_key k (d_hostm d)) (canon_hosts (d_sizes d))
  && forallb (fun kv => is_some (parse_host (d_sizes d) (d_os d) (d_srv d) (d_proc d) (d_sens d) kv))
             (d_hostm d).
(* subnet firewall: a rule in each direction for every connected pair, every rule a
   duplicate-free list of known services, no rule given twice *)
Definition v_firewall (d : list (yv * yv)) : bool :=
  required_fw (d_topo d) (d_n d) (d_fwm d)
  && forallb (fun kv => fw_setting_ok (d_srv d) (snd kv) && is_some (eval_pair (fst kv))) (d_fwm d)
  && nodupb_addr (map (fun kv => z_addr (dflt (0, 0) (eval_pair (fst kv)))) (d_fwm d)).
(* optional positive integer step limit *)
Definition v_step_limit (d : list (yv * yv)) : bool := is_some (parse_limit d).

Definition valid (d : list (yv * yv)) : bool :=
  v_sections d && v_subnets d && v_topology d && v_names d && v_sensitive d
  && v_exploits d && v_privescs d && v_scan_costs d && v_host_cfgs d && v_firewall d
  && v_step_limit d.

(* ---------- the direct reading of a document ---------- *)
Definition b_fw_entry (services : list yv) (kv : yv * yv) : addr * list nat :=
  (z_addr (dflt (0, 0) (eval_pair (fst kv))),
   match snd kv with YList l => idx_list services l | _ => [] end).

Definition b_host (d : list (yv * yv)) (kv : yv * yv) : addr * hostcfg :=
  let a := z_addr (dflt (0, 0) (eval_pair (fst kv))) in
  match snd kv with
  | YMap c =>
    let os := dflt YNull (lookup k_os c) in
    let sv := match lookup k_services c with Some (YList l) => l | _ => [] end in
    let pc := match lookup k_processes c with Some (YList l) => l | _ => [] end in
    let hfw := match lookup k_firewall c with Some (YMap m) => map (b_fw_entry (d_srv d)) m | _ => [] end in
    let value := match assoc a (d_sens d) with
                 | Some v => v
                 | None => match lookup f_value c with Some v => num_fx v | None => 0 end
                 end in
    (a, mkCfg (map (fun o => key_eqb o os) (d_os d)) (map (fun s => mem_yv s sv) (d_srv d))
              (map (fun s => mem_yv s pc) (d_proc d)) value 0 hfw)
  | _ => (a, mkCfg [] [] [] 0 0 [])
  end.

Definition b_exploit (d : list (yv * yv)) (kv : yv * yv) : edef :=
  dflt (mkE 0 None 0 0 0) (parse_exploit (d_os d) (d_srv d) (snd kv)).
Definition b_privesc (d : list (yv * yv)) (kv : yv * yv) : pdef :=
  dflt (mkP 0 None 0 0 0) (parse_privesc (d_os d) (d_proc d) (snd kv)).

Definition build (d : list (yv * yv)) : scenario :=
  let n := d_n d in
  mkSc (d_sizes d)
       (map (fun s => map (fun t => topo_bit (d_topo d) s t) (seq 0 n)) (seq 0 n))
       (length (d_os d)) (length (d_srv d)) (length (d_proc d))
       (map (b_exploit d) (d_expm d)) (map (b_privesc d) (d_pem d))
       (dflt 0 (scan_cost d k_ssc)) (dflt 0 (scan_cost d k_osc))
       (dflt 0 (scan_cost d k_subc)) (dflt 0 (scan_cost d k_psc))
       (map (b_fw_entry (d_srv d)) (d_fwm d))
       (map (b_host d) (d_hostm d))
       (d_sens d)
       (dflt None (parse_limit d))
       (n, maxl (d_sizes d)).

(* ================= C17 ================= *)
Definition C17_accepts_and_means_stmt : Prop :=
  forall d, valid d = true -> load (YMap d) = Some (build d).

(* the loaded scenario reproduces the file, component by component *)
Definition C17_components_stmt : Prop :=
  forall d sc, load (YMap d) = Some sc ->
    s_subnets sc = 1%nat :: map nat_of (d_sub d)
    /\ (forall s t, (s < d_n d)%nat -> (t < d_n d)%nat -> connected sc s t = topo_bit (d_topo d) s t)
    /\ s_nos sc = length (d_os d) /\ s_nsrv sc = length (d_srv d) /\ s_nproc sc = length (d_proc d)
    /\ map fst (s_hosts sc) = map (fun kv => z_addr (dflt (0, 0) (eval_pair (fst kv)))) (d_hostm d)
    /\ s_fw sc = map (b_fw_entry (d_srv d)) (d_fwm d)
    /\ s_sens sc = d_sens d
    /\ length (s_exploits sc) = length (d_expm d) /\ length (s_privescs sc) = length (d_pem d)
    /\ s_limit sc = dflt None (parse_limit d)
    /\ s_bounds sc = (d_n d, maxl (d_sizes d)).

(* host deny-lists are keyed by address in the loaded scenario (defect D2) *)
Definition C17_host_firewall_stmt : Prop :=
  forall d sc kv c m k v l,
    load (YMap d) = Some sc -> In kv (d_hostm d) -> snd kv = YMap c ->
    lookup k_firewall c = Some (YMap m) -> In (k, v) m -> v = YList l ->
    exists p cfg, eval_pair (fst kv) = Some p /\ In (z_addr p, cfg) (s_hosts sc)
      /\ exists q, eval_pair k = Some q /\ In (z_addr q, idx_list (d_srv d) l) (c_fw cfg).

(* an exploit with probability 1.0 is accepted (defect D9) *)
Definition C17_prob_one_ok_stmt : Prop :=
  prob_ok (YFloat SCALE) = true /\ prob_ok (YInt 1) = true /\ prob_ok (YInt 0) = true.

(* ================= C18 ================= *)
Definition C18_rejects_stmt : Prop :=
  forall doc sc, load doc = Some sc -> exists d, doc = YMap d /\ valid d = true.

(* one corollary per rule of the catalogue: breaking the rule makes load raise *)
Definition C18_rules_stmt : Prop :=
  forall d,
    (* missing / unknown / mistyped section *)
    ((exists k, In k required_keys /\ has_key k d = false) -> load (YMap d) = None)
    /\ ((exists kv, In kv d /\ key_type (fst kv) = None) -> load (YMap d) = None)
    /\ ((exists kv t, In kv d /\ key_type (fst kv) = Some t /\ has_type t (snd kv) = false) -> load (YMap d) = None)
    (* subnets *)
    /\ (d_sub d = [] -> load (YMap d) = None)
    /\ ((exists x, In x (d_sub d) /\ subnet_entry_ok x = false) -> load (YMap d) = None)
    (* topology *)
    /\ (length (d_topo d) <> d_n d -> load (YMap d) = None)
    /\ ((exists r, In r (d_topo d) /\ topo_row_ok (d_n d) r = false) -> load (YMap d) = None)
    (* names *)
    /\ (names_ok (d_os d) = false \/ names_ok (d_srv d) = false \/ names_ok (d_proc d) = false -> load (YMap d) = None)
    (* sensitive hosts *)
    /\ (d_sensm d = [] -> load (YMap d) = None)
    /\ ((exists kv, In kv (d_sensm d) /\ parse_sens_entry (d_sizes d) kv = None) -> load (YMap d) = None)
    /\ (nodupb_addr (map (fun kv => z_addr (dflt (0, 0) (eval_pair (fst kv)))) (d_sensm d)) = false -> load (YMap d) = None)
    (* exploits and escalations *)
    /\ ((exists kv, In kv (d_expm d) /\ parse_exploit (d_os d) (d_srv d) (snd kv) = None) -> load (YMap d) = None)
    /\ ((exists kv, In kv (d_pem d) /\ parse_privesc (d_os d) (d_proc d) (snd kv) = None) -> load (YMap d) = None)
    (* scan costs *)
    /\ ((exists k, In k [k_osc; k_ssc; k_subc; k_psc] /\ scan_cost d k = None) -> load (YMap d) = None)
    (* host configurations *)
    /\ (length (d_hostm d) <> num_hosts (d_sizes d) -> load (YMap d) = None)
    /\ ((exists k, In k (canon_hosts (d_sizes d)) /\ has_key k (d_hostm d) = false) -> load (YMap d) = None)
    /\ ((exists kv, In kv (d_hostm d)
           /\ parse_host (d_sizes d) (d_os d) (d_srv d) (d_proc d) (d_sens d) kv = None) -> load (YMap d) = None)
    (* subnet firewall *)
    /\ (required_fw (d_topo d) (d_n d) (d_fwm d) = false -> load (YMap d) = None)
    /\ ((exists kv, In kv (d_fwm d) /\ fw_setting_ok (d_srv d) (snd kv) = false) -> load (YMap d) = None)
    /\ (nodupb_addr (map (fun kv => z_addr (dflt (0, 0) (eval_pair (fst kv)))) (d_fwm d)) = false -> load (YMap d) = None)
    (* step limit *)
    /\ (parse_limit d = None -> load (YMap d) = None).

(* what makes a single exploit / host configuration ill-formed, spelled out *)
Definition C18_exploit_rule_stmt : Prop :=
  forall oss services m,
    (lookup f_service m = None \/ lookup k_os m = None \/ lookup f_prob m = None
     \/ lookup f_cost m = None \/ lookup f_access m = None
     \/ (exists sv, lookup f_service m = Some sv /\ index_yv sv services = None)
     \/ (exists os, lookup k_os m = Some os /\ os_field oss os = None)
     \/ (exists pr, lookup f_prob m = Some pr /\ prob_ok pr = false)
     \/ (exists co, lookup f_cost m = Some co /\ cost_ok co = false)
     \/ (exists ac, lookup f_access m = Some ac /\ access_of ac = None)) ->
    parse_exploit oss services (YMap m) = None.

Definition C18_host_rule_stmt : Prop :=
  forall sizes oss services processes sens k c,
    (lookup k_os c = None \/ lookup k_services c = None \/ lookup k_processes c = None
     \/ (exists os, lookup k_os c = Some os /\ mem_yv os oss = false)
     \/ (exists sv s, lookup k_services c = Some (YList sv) /\ In s sv /\ mem_yv s services = false)
     \/ (exists sv, lookup k_services c = Some (YList sv) /\ nodup_yv sv = false)
     \/ (exists pc s, lookup k_processes c = Some (YList pc) /\ In s pc /\ mem_yv s processes = false)
     \/ (exists pc, lookup k_processes c = Some (YList pc) /\ nodup_yv pc = false)
     \/ (exists fwv, lookup k_firewall c = Some fwv /\ parse_hostfw sizes services (Some fwv) = None)
     \/ (exists v, lookup f_value c = Some v /\ is_num v = false)
     \/ (exists v p sv', lookup f_value c = Some v /\ eval_pair k = Some p
           /\ assoc (z_addr p) sens = Some sv' /\ num_fx v <> sv')) ->
    parse_host sizes oss services processes sens (k, YMap c) = None.
