(* StmtSolve.v -- completeness of the closure used to decide solvability (C16):
   if the closure is a fixpoint of every action (checked by evaluation: [closed]), every state
   reachable by ANY history of actions of the space stays below it, so an unsolvable verdict
   means that no history at all reaches the goal. *)
From NasimV Require Export Solve.

Definition closed (sc : scenario) (st : state) : bool :=
  forallb (fun a => state_eqb (next sc st a 0) st) (flat sc).

Definition state_le (sc : scenario) (st st' : state) : Prop :=
  forall x, In x (addresses sc) -> row_le (row sc st x) (row sc st' x).

Definition C16_closure_complete_stmt : Prop :=
  forall sc l,
    wf_scenario sc = true -> closed sc (fst (solve sc)) = true ->
    Forall (fun p => In (fst p) (flat sc)) l ->
    state_le sc (fst (run_steps sc (initial_state sc) l)) (fst (solve sc)).

Definition C16_unsolvable_means_unreachable_stmt : Prop :=
  forall sc l,
    wf_scenario sc = true -> closed sc (fst (solve sc)) = true -> solvable sc = false ->
    Forall (fun p => In (fst p) (flat sc)) l ->
    goal sc (fst (run_steps sc (initial_state sc) l)) = false.
