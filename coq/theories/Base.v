(* Base.v -- shared helpers for the NASim model.  Definitions only. *)
From Coq Require Export List ZArith Bool Arith Lia.
Export ListNotations.
Open Scope Z_scope.

(* All numeric quantities of the implementation that are floats (costs, host
   values, discovery values, rewards, vector entries) are modelled as [Z]
   counting units of 1/64; [U] is the model's 1.0. *)
Definition U : Z := 64.

(* rand() = k * 2^-53 with 0 <= k < 2^53 *)
Definition TWO53 : Z := 9007199254740992.

Definition addr := (nat * nat)%type.

Definition addr_eqb (a b : addr) : bool :=
  Nat.eqb (fst a) (fst b) && Nat.eqb (snd a) (snd b).

Definition b2z (b : bool) : Z := if b then U else 0.

Definition nthb (l : list bool) (n : nat) : bool := nth n l false.

Fixpoint assoc {B : Type} (k : addr) (l : list (addr * B)) : option B :=
  match l with
  | [] => None
  | (k', v) :: r => if addr_eqb k' k then Some v else assoc k r
  end.

Definition mem_nat (x : nat) (l : list nat) : bool := existsb (Nat.eqb x) l.

Definition mem_addr (x : addr) (l : list addr) : bool := existsb (addr_eqb x) l.

Definition opt_nat_eqb (a b : option nat) : bool :=
  match a, b with
  | None, None => true
  | Some x, Some y => Nat.eqb x y
  | _, _ => false
  end.

Fixpoint sumZ (l : list Z) : Z :=
  match l with [] => 0 | x :: r => x + sumZ r end.

Fixpoint replicate {A : Type} (n : nat) (x : A) : list A :=
  match n with O => [] | S m => x :: replicate m x end.

Definition onehot (n i : nat) : list Z :=
  map (fun j => b2z (Nat.eqb j i)) (seq 0 n).

Fixpoint list_eqb {A : Type} (eqb : A -> A -> bool) (l1 l2 : list A) : bool :=
  match l1, l2 with
  | [], [] => true
  | x :: r1, y :: r2 => eqb x y && list_eqb eqb r1 r2
  | _, _ => false
  end.

Fixpoint find_index {A : Type} (p : A -> bool) (l : list A) : option nat :=
  match l with
  | [] => None
  | x :: r => if p x then Some O else option_map S (find_index p r)
  end.

Fixpoint nodupb_addr (l : list addr) : bool :=
  match l with
  | [] => true
  | x :: r => negb (mem_addr x r) && nodupb_addr r
  end.

Fixpoint nodupb_nat (l : list nat) : bool :=
  match l with
  | [] => true
  | x :: r => negb (mem_nat x r) && nodupb_nat r
  end.

Definition maxl (l : list nat) : nat := fold_right Nat.max O l.
