(* Layout.v -- the vector layout of a host row (nasim/envs/host_vector.py:
   _update_vector_idxs, vectorize, observe, get_readable; scenario.get_state_dims).
   Level L0: a row is a [list Z] in units of 1/64.  Definitions only. *)
From NasimV Require Export Network.

Record layout := mkL { L_b0 : nat; L_b1 : nat; L_nos : nat; L_nsrv : nat; L_nproc : nat }.

Definition layout_of (sc : scenario) : layout :=
  mkL (fst (s_bounds sc)) (snd (s_bounds sc)) (s_nos sc) (s_nsrv sc) (s_nproc sc).

(* index arithmetic exactly as HostVector._update_vector_idxs *)
Definition subnet_idx (L : layout) : nat := 0.
Definition hostaddr_idx (L : layout) : nat := L_b0 L.
Definition comp_idx (L : layout) : nat := (hostaddr_idx L + L_b1 L)%nat.
Definition reach_idx (L : layout) : nat := (comp_idx L + 1)%nat.
Definition disc_idx (L : layout) : nat := (reach_idx L + 1)%nat.
Definition val_idx (L : layout) : nat := (disc_idx L + 1)%nat.
Definition dval_idx (L : layout) : nat := (val_idx L + 1)%nat.
Definition acc_idx (L : layout) : nat := (dval_idx L + 1)%nat.
Definition os_start (L : layout) : nat := (acc_idx L + 1)%nat.
Definition srv_start (L : layout) : nat := (os_start L + L_nos L)%nat.
Definition proc_start (L : layout) : nat := (srv_start L + L_nsrv L)%nat.
Definition width (L : layout) : nat := (proc_start L + L_nproc L)%nat.

(* Scenario.get_state_dims / get_observation_dims *)
Definition state_dims (sc : scenario) : nat * nat :=
  (length (s_hosts sc),
   (fst (s_bounds sc) + snd (s_bounds sc) + 6 + s_nos sc + s_nsrv sc + s_nproc sc)%nat).
Definition obs_dims (sc : scenario) : nat * nat :=
  (S (fst (state_dims sc)), snd (state_dims sc)).

(* the documented layout: a row is the concatenation of its feature groups *)
Definition encode_row (L : layout) (h : hrow) : list Z :=
  onehot (L_b0 L) (fst (h_addr h)) ++ onehot (L_b1 L) (snd (h_addr h))
  ++ [b2z (h_comp h); b2z (h_reach h); b2z (h_disc h); h_val h; h_dval h; U * Z.of_nat (h_acc h)]
  ++ map b2z (h_os h) ++ map b2z (h_srv h) ++ map b2z (h_proc h).

Definition encode_state (L : layout) (st : state) : list (list Z) := map (encode_row L) st.

(* decoding, as get_readable / the address property do it *)
Definition z2b (z : Z) : bool := negb (z =? 0).

(* numpy argmax: position of the first maximal element (0 for the empty list) *)
Fixpoint argmax_from (l : list Z) (i : nat) (best : Z) (besti : nat) : nat :=
  match l with
  | [] => besti
  | x :: r => if best <? x then argmax_from r (S i) x i else argmax_from r (S i) best besti
  end.
Definition argmax (l : list Z) : nat :=
  match l with [] => O | x :: r => argmax_from r 1 x O end.

Definition slice {A : Type} (l : list A) (from to : nat) : list A := firstn (to - from) (skipn from l).
Definition zat (v : list Z) (i : nat) : Z := nth i v 0.

Definition decode_row (L : layout) (v : list Z) : option hrow :=
  if negb (Nat.eqb (length v) (width L)) then None else
  Some (mkRow (argmax (slice v (subnet_idx L) (hostaddr_idx L)),
               argmax (slice v (hostaddr_idx L) (comp_idx L)))
              (z2b (zat v (comp_idx L))) (z2b (zat v (reach_idx L))) (z2b (zat v (disc_idx L)))
              (zat v (val_idx L)) (zat v (dval_idx L)) (Z.to_nat (zat v (acc_idx L) / U))
              (map z2b (slice v (os_start L) (srv_start L)))
              (map z2b (slice v (srv_start L) (proc_start L)))
              (map z2b (slice v (proc_start L) (width L)))).

(* ---------- feature groups and masking (HostVector.observe) ---------- *)
Inductive group := GAddr | GComp | GReach | GDisc | GVal | GDval | GAcc | GOs | GSrv | GProc.

Definition col_group (L : layout) (j : nat) : group :=
  if Nat.ltb j (comp_idx L) then GAddr
  else if Nat.eqb j (comp_idx L) then GComp
  else if Nat.eqb j (reach_idx L) then GReach
  else if Nat.eqb j (disc_idx L) then GDisc
  else if Nat.eqb j (val_idx L) then GVal
  else if Nat.eqb j (dval_idx L) then GDval
  else if Nat.eqb j (acc_idx L) then GAcc
  else if Nat.ltb j (srv_start L) then GOs
  else if Nat.ltb j (proc_start L) then GSrv
  else GProc.

Record omask := mkM {
  m_addr : bool; m_comp : bool; m_reach : bool; m_disc : bool; m_acc : bool;
  m_val : bool; m_dval : bool; m_srv : bool; m_proc : bool; m_os : bool
}.

Definition mask_has (m : omask) (g : group) : bool :=
  match g with
  | GAddr => m_addr m | GComp => m_comp m | GReach => m_reach m | GDisc => m_disc m
  | GVal => m_val m | GDval => m_dval m | GAcc => m_acc m
  | GOs => m_os m | GSrv => m_srv m | GProc => m_proc m
  end.

Definition observe (L : layout) (m : omask) (v : list Z) : list Z :=
  map (fun p => if mask_has m (col_group L (fst p)) then snd p else 0)
      (combine (seq 0 (length v)) v).

Definition flatten (rows : list (list Z)) : list Z := concat rows.

Fixpoint unflatten (fuel : nat) (w : nat) (v : list Z) : list (list Z) :=
  match fuel with
  | O => []
  | S f => match v with [] => [] | _ => firstn w v :: unflatten f w (skipn w v) end
  end.
