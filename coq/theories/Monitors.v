(* Monitors.v -- boolean judges of ONE recorded step (state, action, draw, next state,
   result, draw-consumed flag, reward, done) against the dynamics properties.  They are
   run on steps recorded from the implementation when a proof obligation or the
   correspondence breaks (the search for a failing input).  The boolean network
   predicates has_remote_perm / traffic_permitted are the ones proved equivalent to
   the property-side pivot / admits.  Definitions only. *)
From NasimV Require Export Spec.

Definition hrow_eqb (h g : hrow) : bool :=
  addr_eqb (h_addr h) (h_addr g) && Bool.eqb (h_comp h) (h_comp g)
  && Bool.eqb (h_reach h) (h_reach g) && Bool.eqb (h_disc h) (h_disc g)
  && (h_val h =? h_val g) && (h_dval h =? h_dval g) && Nat.eqb (h_acc h) (h_acc g)
  && list_eqb Bool.eqb (h_os h) (h_os g) && list_eqb Bool.eqb (h_srv h) (h_srv g)
  && list_eqb Bool.eqb (h_proc h) (h_proc g).
Definition state_eqb (s t : state) : bool := list_eqb hrow_eqb s t.

Definition implb (a b : bool) : bool := negb a || b.

Record rec := mkRec {
  q_st : state; q_a : action; q_k : Z; q_st' : state; q_r : result; q_used : bool;
  q_reward : Z; q_done : bool
}.

Definition all_addr (sc : scenario) (f : addr -> bool) : bool := forallb f (addresses sc).

Definition ok_C01 (sc : scenario) (q : rec) : bool :=
  let st := q_st q in let st' := q_st' q in let a := q_a q in let r := q_r q in
  let t := trow sc st a in let t' := trow sc st' a in
  all_addr sc (fun x =>
    implb (negb (Bool.eqb (h_comp (row sc st' x)) (h_comp (row sc st x)))
           || negb (Nat.eqb (h_acc (row sc st' x)) (h_acc (row sc st x))))
          (addr_eqb (a_tgt a) x && r_success r
           && ((is_exploit a && pre_exploit (row sc st x) a)
               || (is_privesc a && pre_privesc (row sc st x) a))))
  && implb (is_exploit a && h_reach t && h_disc t && has_remote_perm sc st a
            && traffic_permitted sc st (a_tgt a) (a_srv a) && pre_exploit t a
            && (h_comp t || (q_k q <? a_pz a)))
           (r_success r && h_comp t' && Nat.eqb (h_acc t') (Nat.max (h_acc t) (a_acc a)))
  && implb (is_privesc a && h_reach t && h_disc t && pre_privesc t a && (q_k q <? a_pz a))
           (r_success r && h_comp t' && Nat.eqb (h_acc t') (Nat.max (h_acc t) (a_acc a))).

Definition ok_C02 (sc : scenario) (q : rec) : bool :=
  let st := q_st q in let st' := q_st' q in let a := q_a q in let r := q_r q in
  let t := trow sc st a in
  implb (negb (is_noop a) && negb (h_reach t && h_disc t))
        (negb (r_success r) && state_eqb st' st)
  && implb (is_remote a && r_success r) (has_remote_perm sc st a)
  && implb (is_exploit a && r_success r) (traffic_permitted sc st (a_tgt a) (a_srv a))
  && implb (match a_kind a with KSubScan | KProcScan | KPrivesc => r_success r | _ => false end)
           (h_comp t && Nat.leb (a_req a) (h_acc t))
  && implb (negb (r_success r)) (state_eqb st' st).

Definition inv3b (sc : scenario) (st : state) : bool :=
  all_addr sc (fun x =>
    Bool.eqb (h_reach (row sc st x))
             (subnet_public sc (fst x)
              || existsb (fun y => h_comp (row sc st y) && connected sc (fst y) (fst x)) (addresses sc))
    && implb (h_comp (row sc st x)) (h_disc (row sc st x))
    && implb (h_disc (row sc st x)) (h_reach (row sc st x))).

(* the part of C03 that constrains the STATE (what the property is about) *)
Definition ok_C03_state (sc : scenario) (q : rec) : bool :=
  let st := q_st q in let st' := q_st' q in let a := q_a q in let r := q_r q in
  implb (inv3b sc st) (inv3b sc st')
  && all_addr sc (fun x =>
       implb (negb (Bool.eqb (h_disc (row sc st' x)) (h_disc (row sc st x))))
             (is_subnet_scan a && r_success r && h_comp (trow sc st a)
              && connected sc (fst (a_tgt a)) (fst x))
       && implb (is_subnet_scan a && r_success r)
                (Bool.eqb (h_disc (row sc st' x))
                          (h_disc (row sc st x) || connected sc (fst (a_tgt a)) (fst x)))).

(* the result's discovered / newly-discovered lists of a successful subnet scan (they drive the
   observation, C08; not demanded by C03 itself, so not part of the judge) *)
Definition ok_C03_info (sc : scenario) (q : rec) : bool :=
  let st := q_st q in let a := q_a q in let r := q_r q in
  implb (is_subnet_scan a && r_success r)
       (list_eqb Bool.eqb (r_disc r) (map (fun x => connected sc (fst (a_tgt a)) (fst x)) (addresses sc))
        && list_eqb Bool.eqb (r_newly r)
             (map (fun x => connected sc (fst (a_tgt a)) (fst x) && negb (h_disc (row sc st x)))
                  (addresses sc))).

Definition ok_C03 (sc : scenario) (q : rec) : bool := ok_C03_state sc q && ok_C03_info sc q.

Definition same_configb (h h' : hrow) : bool :=
  addr_eqb (h_addr h') (h_addr h) && list_eqb Bool.eqb (h_os h') (h_os h)
  && list_eqb Bool.eqb (h_srv h') (h_srv h) && list_eqb Bool.eqb (h_proc h') (h_proc h)
  && (h_val h' =? h_val h) && (h_dval h' =? h_dval h).
Definition row_leb (h h' : hrow) : bool :=
  implb (h_comp h) (h_comp h') && implb (h_reach h) (h_reach h')
  && implb (h_disc h) (h_disc h') && Nat.leb (h_acc h) (h_acc h').

Definition ok_C04 (sc : scenario) (q : rec) : bool :=
  Nat.eqb (length (q_st' q)) (length (q_st q))
  && all_addr sc (fun x => row_leb (row sc (q_st q) x) (row sc (q_st' q) x)
                           && same_configb (row sc (q_st q) x) (row sc (q_st' q) x))
  && wf_state sc (q_st' q).

Definition ok_C05 (sc : scenario) (q : rec) : bool :=
  (q_reward q =? r_value (q_r q) - a_cost (q_a q))
  && (r_value (q_r q) =? gained sc (q_st q) (q_st' q))
  && implb (negb (r_success (q_r q))) (r_value (q_r q) =? 0).

Definition ok_C06 (sc : scenario) (q : rec) : bool :=
  Bool.eqb (q_done q) (goal sc (q_st' q)).

Definition ok_C07 (sc : scenario) (q : rec) : bool :=
  let st := q_st q in let st' := q_st' q in let a := q_a q in let r := q_r q in
  implb (r_success r) (negb (r_conn r) && negb (r_perm r) && negb (r_undef r))
  && negb (r_conn r && r_perm r) && negb (r_conn r && r_undef r) && negb (r_perm r && r_undef r)
  && (if negb (is_noop a) && gates_ok sc st a && negb (reexploit sc st a)
      then q_used q
           && (if chance_fails a (q_k q)
               then negb (r_success r) && r_undef r && state_eqb st' st && (r_value r =? 0)
               else negb (r_undef r))
      else negb (q_used q) && negb (r_undef r)).

(* history-level judge for C05: along a sequence of states of one episode (no reset) every
   host's value is paid at most once, every discovery value at most once, and the values
   reported by the steps add up to what was gained between the first and the last state *)
Definition ok_C05_history (sc : scenario) (sts : list state) (values : list Z) : bool :=
  all_addr sc (fun x => Nat.leb (count_pairs (fun s s' => newly_rooted sc s s' x) sts) 1
                        && Nat.leb (count_pairs (fun s s' => newly_disc sc s s' x) sts) 1)
  && match sts with
     | [] => true
     | s0 :: _ => sumZ values =? gained sc s0 (last sts s0)
     end.

Definition judge_all (sc : scenario) (q : rec) : list bool :=
  [ok_C01 sc q; ok_C02 sc q; ok_C03_state sc q; ok_C04 sc q; ok_C05 sc q; ok_C06 sc q; ok_C07 sc q].
