(* Scenario.v -- scenario data, actions, well-formedness (nasim/scenarios/scenario.py,
   host.py, and the Action classes of nasim/envs/action.py).  Definitions only. *)
From NasimV Require Export Base.

(* Access levels: 0 = NONE, 1 = USER, 2 = ROOT (nasim.envs.utils.AccessLevel) *)
Definition ROOT : nat := 2.
Definition USER : nat := 1.

(* An exploit definition. Names (OS, services, processes) are positions in the
   scenario's ordered name lists; [None] OS = works on every OS.
   [e_pz] = ceil(prob * 2^53) -- see Network.chance_fails. *)
Record edef := mkE { e_srv : nat; e_os : option nat; e_pz : Z; e_cost : Z; e_acc : nat }.
Record pdef := mkP { p_proc : nat; p_os : option nat; p_pz : Z; p_cost : Z; p_acc : nat }.

(* Static host definition (nasim.scenarios.host.Host) *)
Record hostcfg := mkCfg {
  c_os : list bool; c_srv : list bool; c_proc : list bool;
  c_val : Z; c_dval : Z;
  c_fw : list (addr * list nat)        (* deny-list: source address -> services *)
}.

Record scenario := mkSc {
  s_subnets : list nat;                (* index 0 = internet *)
  s_topo : list (list bool);
  s_nos : nat; s_nsrv : nat; s_nproc : nat;
  s_exploits : list edef;
  s_privescs : list pdef;
  s_ssc : Z; s_osc : Z; s_subc : Z; s_psc : Z;   (* service/os/subnet/process scan cost *)
  s_fw : list (addr * list nat);       (* (src subnet, dst subnet) -> allowed services *)
  s_hosts : list (addr * hostcfg);     (* in address_space order *)
  s_sens : list (addr * Z);
  s_limit : option nat;
  s_bounds : nat * nat
}.

Definition addresses (sc : scenario) : list addr := map fst (s_hosts sc).
Definition nsubnets (sc : scenario) : nat := length (s_subnets sc).
Definition subnet_size (sc : scenario) (s : nat) : nat := nth s (s_subnets sc) O.

Definition connected (sc : scenario) (s t : nat) : bool :=
  nth t (nth s (s_topo sc) []) false.

Definition subnet_public (sc : scenario) (s : nat) : bool := connected sc s O.

Definition host_cfg (sc : scenario) (a : addr) : option hostcfg := assoc a (s_hosts sc).

(* ---------- actions ---------- *)
Inductive akind := KSrvScan | KOsScan | KSubScan | KProcScan | KExploit | KPrivesc | KNoop.

Definition akind_eqb (a b : akind) : bool :=
  match a, b with
  | KSrvScan, KSrvScan | KOsScan, KOsScan | KSubScan, KSubScan | KProcScan, KProcScan
  | KExploit, KExploit | KPrivesc, KPrivesc | KNoop, KNoop => true
  | _, _ => false
  end.

Record action := mkAct {
  a_kind : akind; a_tgt : addr; a_cost : Z; a_pz : Z; a_req : nat;
  a_srv : nat; a_proc : nat; a_os : option nat; a_acc : nat
}.

Definition is_exploit (a : action) := akind_eqb (a_kind a) KExploit.
Definition is_privesc (a : action) := akind_eqb (a_kind a) KPrivesc.
Definition is_noop (a : action) := akind_eqb (a_kind a) KNoop.
Definition is_subnet_scan (a : action) := akind_eqb (a_kind a) KSubScan.
Definition is_scan (a : action) :=
  match a_kind a with KSrvScan | KOsScan | KSubScan | KProcScan => true | _ => false end.
Definition is_remote (a : action) :=
  match a_kind a with KSrvScan | KOsScan | KExploit => true | _ => false end.

Definition mk_scan (k : akind) (t : addr) (c : Z) : action :=
  mkAct k t c TWO53 USER O O None O.
Definition mk_exploit (t : addr) (e : edef) : action :=
  mkAct KExploit t (e_cost e) (e_pz e) USER (e_srv e) O (e_os e) (e_acc e).
Definition mk_privesc (t : addr) (p : pdef) : action :=
  mkAct KPrivesc t (p_cost p) (p_pz p) USER O (p_proc p) (p_os p) (p_acc p).
Definition noop : action := mkAct KNoop (1%nat, O) 0 TWO53 O O O None O.

(* ---------- well-formed scenarios ---------- *)
Definition valid_addr (sc : scenario) (a : addr) : bool :=
  Nat.ltb 0 (fst a) && Nat.ltb (fst a) (nsubnets sc) && Nat.ltb (snd a) (subnet_size sc (fst a)).

Definition all_addrs (sc : scenario) : list addr :=
  flat_map (fun s => map (fun h => (s, h)) (seq 0 (subnet_size sc s))) (seq 1 (nsubnets sc - 1)).

Definition opt_lt (o : option nat) (n : nat) : bool :=
  match o with None => true | Some x => Nat.ltb x n end.

Definition wf_edef (sc : scenario) (e : edef) : bool :=
  Nat.ltb (e_srv e) (s_nsrv sc) && opt_lt (e_os e) (s_nos sc)
  && (Nat.eqb (e_acc e) 1 || Nat.eqb (e_acc e) 2)
  && (0 <=? e_pz e) && (e_pz e <=? TWO53).

Definition wf_pdef (sc : scenario) (p : pdef) : bool :=
  Nat.ltb (p_proc p) (s_nproc sc) && opt_lt (p_os p) (s_nos sc)
  && (Nat.eqb (p_acc p) 1 || Nat.eqb (p_acc p) 2)
  && (0 <=? p_pz p) && (p_pz p <=? TWO53).

Definition wf_cfg (sc : scenario) (c : hostcfg) : bool :=
  Nat.eqb (length (c_os c)) (s_nos sc) && Nat.eqb (length (c_srv c)) (s_nsrv sc)
  && Nat.eqb (length (c_proc c)) (s_nproc sc)
  && forallb (fun e => valid_addr sc (fst e) && forallb (fun s => Nat.ltb s (s_nsrv sc)) (snd e)) (c_fw c).

Definition topo_ok (sc : scenario) : bool :=
  let n := nsubnets sc in
  Nat.eqb (length (s_topo sc)) n
  && forallb (fun r => Nat.eqb (length r) n) (s_topo sc)
  && forallb (fun s => connected sc s s
        && forallb (fun t => Bool.eqb (connected sc s t) (connected sc t s)) (seq 0 n)) (seq 0 n).

Definition fw_ok (sc : scenario) : bool :=
  let n := nsubnets sc in
  forallb (fun s => forallb (fun t =>
      Nat.eqb s t || negb (connected sc s t) ||
      match assoc (s, t) (s_fw sc) with Some _ => true | None => false end) (seq 0 n)) (seq 0 n)
  && forallb (fun e => forallb (fun x => Nat.ltb x (s_nsrv sc)) (snd e)) (s_fw sc).

Definition sens_ok (sc : scenario) : bool :=
  negb (Nat.eqb (length (s_sens sc)) 0)
  && nodupb_addr (map fst (s_sens sc))
  && forallb (fun e => valid_addr sc (fst e)
        && match host_cfg sc (fst e) with Some c => c_val c =? snd e | None => false end) (s_sens sc).

Definition wf_scenario (sc : scenario) : bool :=
  Nat.leb 2 (nsubnets sc)
  && Nat.eqb (subnet_size sc 0) 1
  && forallb (fun x => Nat.ltb 0 x) (s_subnets sc)
  && topo_ok sc
  && forallb (valid_addr sc) (addresses sc)
  && nodupb_addr (addresses sc)
  && forallb (fun a => mem_addr a (addresses sc)) (all_addrs sc)
  && forallb (fun e => wf_cfg sc (snd e)) (s_hosts sc)
  && forallb (wf_edef sc) (s_exploits sc)
  && forallb (wf_pdef sc) (s_privescs sc)
  && fw_ok sc && sens_ok sc
  && Nat.leb (nsubnets sc) (fst (s_bounds sc))
  && Nat.leb (maxl (s_subnets sc)) (snd (s_bounds sc))
  && match s_limit sc with Some l => Nat.ltb 0 l | None => true end
  && Nat.ltb 0 (s_nos sc) && Nat.ltb 0 (s_nsrv sc) && Nat.ltb 0 (s_nproc sc).
