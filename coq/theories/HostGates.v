(* HostGates.v -- the host-level transition (HostVector.perform_action) and the entitlement
   table of State.get_observation in the shape regenerated from the source by the Level-2
   translator, with the hand model's classification in the same terms.  Definitions only. *)
From NasimV Require Export Obs Spec.

Inductive htag := HSrvScan | HOsScan | HExploitOk | HPermErr | HProcScan | HPrivescOk | HFail.

(* (result kind, compromised set, access overwritten with the action's, host value paid) *)
Definition houtcome := (htag * bool * bool * bool)%type.

Record hatoms := mkHAtoms {
  ha_srvscan : bool; ha_osscan : bool; ha_exploit : bool; ha_runs_srv : bool; ha_os_none : bool;
  ha_runs_os : bool; ha_is_root : bool; ha_grant_root : bool; ha_comp : bool; ha_req_le : bool;
  ha_procscan : bool; ha_privesc : bool; ha_proc_none : bool; ha_runs_proc : bool
}.

Definition host_outcome (x : hatoms) : houtcome :=
  if ha_srvscan x then (HSrvScan, false, false, false)
  else if ha_osscan x then (HOsScan, false, false, false)
  else if ha_exploit x && (ha_runs_srv x && (ha_os_none x || ha_runs_os x)) then
    (HExploitOk, true, negb (ha_is_root x), negb (ha_is_root x) && ha_grant_root x)
  else if negb (ha_comp x && ha_req_le x) then (HPermErr, false, false, false)
  else if ha_procscan x then (HProcScan, false, false, false)
  else if ha_privesc x && ((ha_proc_none x || ha_runs_proc x) && (ha_os_none x || ha_runs_os x)) then
    (HPrivescOk, false, negb (ha_is_root x), negb (ha_is_root x) && ha_grant_root x)
  else (HFail, false, false, false).

Definition hatoms_of (h : hrow) (a : action) : hatoms :=
  mkHAtoms (akind_eqb (a_kind a) KSrvScan) (akind_eqb (a_kind a) KOsScan) (is_exploit a)
           (nthb (h_srv h) (a_srv a))
           (match a_os a with None => true | Some _ => false end)
           (match a_os a with None => false | Some o => nthb (h_os h) o end)
           (Nat.eqb (h_acc h) ROOT) (Nat.eqb (a_acc a) ROOT) (h_comp h) (Nat.leb (a_req a) (h_acc h))
           (akind_eqb (a_kind a) KProcScan) (is_privesc a) false (nthb (h_proc h) (a_proc a)).

(* what an outcome means for the model's host_perform *)
Definition apply_houtcome (h : hrow) (a : action) (o : houtcome) : hrow * bool * Z :=
  let '(tag, setc, seta, pay) := o in
  let h1 := if setc then set_comp h true else h in
  let h2 := if seta then set_acc h1 (a_acc a) else h1 in
  (h2,
   match tag with HSrvScan | HOsScan | HExploitOk | HProcScan | HPrivescOk => true | _ => false end,
   if pay then h_val h else 0).

Definition hostgates_classify_stmt : Prop :=
  forall h a,
    let o := host_outcome (hatoms_of h a) in
    let '(h', r) := host_perform h a in
    apply_houtcome h a o = (h', r_success r, r_value r)
    /\ r_perm r = match fst (fst (fst o)) with HPermErr => true | _ => false end
    /\ r_conn r = false /\ r_undef r = false.

(* entitlement table read from State.get_observation *)
Definition entitle_stmt (tr_target : akind -> omask) (tr_disc : bool -> omask) : Prop :=
  (forall k, k <> KNoop -> tr_target k = target_mask k) /\ (forall b, tr_disc b = disc_mask b).
