(* Multi.v -- several environments in one process and the process-global vector layout
   (the HostVector class attributes of nasim/envs/host_vector.py).  Definitions only.

   The implementation keeps the layout (address bounds, the three name->index maps, all
   column offsets) in CLASS attributes that are re-initialised by every environment
   construction and by every call of generate_initial_state(); every later row access of
   every environment goes through the CURRENT attributes.  [run_shared] models exactly
   that: an operation on an environment whose own layout key differs from the current
   cell has no defined meaning (the implementation raises or mis-decodes; which of the
   two depends on NumPy slicing details that are not modelled) -- the environment is then
   marked tainted and its outputs are [MUndef].  [run_spec] is the property: every
   environment evolves alone. *)
From NasimV Require Export Env.

(* layout key of an environment: vector layout + an identifier of its three name lists *)
Definition lkey := (layout * nat)%type.

Definition lkey_eqb (a b : lkey) : bool :=
  let la := fst a in let lb := fst b in
  Nat.eqb (L_b0 la) (L_b0 lb) && Nat.eqb (L_b1 la) (L_b1 lb) && Nat.eqb (L_nos la) (L_nos lb)
  && Nat.eqb (L_nsrv la) (L_nsrv lb) && Nat.eqb (L_nproc la) (L_nproc lb) && Nat.eqb (snd a) (snd b).

Inductive mop :=
| MNew (i : nat) (sc : scenario) (m : modes) (names : nat)   (* NASimEnv(scenario, ...) *)
| MReinit (i : nat)                                          (* env.generate_initial_state() *)
| MOp (i : nat) (o : op).                                    (* reset / step / generative step / goal / mask *)

Inductive mout := MDone | MOut (o : opout) | MUndef | MNoEnv.

Record menv := mkMenv {
  me_sc : scenario; me_modes : modes; me_names : nat;
  me_env : env; me_pool : list state; me_tainted : bool
}.

Definition key_of (e : menv) : lkey := (layout_of (me_sc e), me_names e).

Fixpoint find_env (i : nat) (l : list (nat * menv)) : option menv :=
  match l with
  | [] => None
  | (j, e) :: r => if Nat.eqb i j then Some e else find_env i r
  end.

Fixpoint set_env (i : nat) (e : menv) (l : list (nat * menv)) : list (nat * menv) :=
  match l with
  | [] => [(i, e)]
  | (j, e') :: r => if Nat.eqb i j then (i, e) :: r else (j, e') :: set_env i e r
  end.

Definition new_env (sc : scenario) (m : modes) (names : nat) : menv :=
  let e := env_init sc m in mkMenv sc m names e [e_state e] false.

Definition apply_op (e : menv) (o : op) : menv * opout :=
  let '((e', pool'), out) := run_op (me_sc e) (me_modes e) (me_env e, me_pool e) o in
  (mkMenv (me_sc e) (me_modes e) (me_names e) e' pool' (me_tainted e), out).

(* the property: environments do not interact *)
Definition step_spec (envs : list (nat * menv)) (o : mop) : list (nat * menv) * mout :=
  match o with
  | MNew i sc m names => (set_env i (new_env sc m names) envs, MDone)
  | MReinit i => match find_env i envs with Some _ => (envs, MDone) | None => (envs, MNoEnv) end
  | MOp i op =>
      match find_env i envs with
      | Some e => let (e', out) := apply_op e op in (set_env i e' envs, MOut out)
      | None => (envs, MNoEnv)
      end
  end.

(* the implementation: one shared layout cell *)
Definition step_shared (st : option lkey * list (nat * menv)) (o : mop)
  : (option lkey * list (nat * menv)) * mout :=
  let (cell, envs) := st in
  match o with
  | MNew i sc m names =>
      let e := new_env sc m names in ((Some (key_of e), set_env i e envs), MDone)
  | MReinit i =>
      match find_env i envs with
      | Some e => ((Some (key_of e), envs), MDone)
      | None => (st, MNoEnv)
      end
  | MOp i op =>
      match find_env i envs with
      | Some e =>
          let fits := match cell with Some c => lkey_eqb c (key_of e) | None => false end in
          if fits && negb (me_tainted e) then
            let (e', out) := apply_op e op in ((cell, set_env i e' envs), MOut out)
          else
            ((cell, set_env i (mkMenv (me_sc e) (me_modes e) (me_names e) (me_env e) (me_pool e) true) envs),
             MUndef)
      | None => (st, MNoEnv)
      end
  end.

Fixpoint run_spec (envs : list (nat * menv)) (ops : list mop) : list mout :=
  match ops with
  | [] => []
  | o :: r => let (envs', out) := step_spec envs o in out :: run_spec envs' r
  end.

Fixpoint run_shared (st : option lkey * list (nat * menv)) (ops : list mop) : list mout :=
  match ops with
  | [] => []
  | o :: r => let (st', out) := step_shared st o in out :: run_shared st' r
  end.

(* the outputs concerning environment i only *)
Definition about (i : nat) (o : mop) : bool :=
  match o with MNew j _ _ _ | MReinit j | MOp j _ => Nat.eqb i j end.

Fixpoint outputs_of (i : nat) (ops : list mop) (outs : list mout) : list mout :=
  match ops, outs with
  | o :: r, x :: s => if about i o then x :: outputs_of i r s else outputs_of i r s
  | _, _ => []
  end.

Definition same_key_ops (k : lkey) (ops : list mop) : Prop :=
  Forall (fun o => match o with
                   | MNew _ sc _ names => lkey_eqb (layout_of sc, names) k = true
                   | _ => True end) ops.

(* ================= C19 statements ================= *)
(* in the specification an environment sees only its own operations *)
Definition C19_spec_independent_stmt : Prop :=
  forall i ops,
    outputs_of i ops (run_spec [] ops)
    = run_spec [] (filter (about i) ops).

(* the implementation's semantics coincides with the specification whenever all
   environments constructed so far share one layout *)
Definition C19_same_layout_safe_stmt : Prop :=
  forall k ops, same_key_ops k ops -> run_shared (None, []) ops = run_spec [] ops.

(* ... and therefore, under that condition, each environment behaves as if alone *)
Definition C19_same_layout_independent_stmt : Prop :=
  forall k i ops, same_key_ops k ops ->
    outputs_of i ops (run_shared (None, []) ops) = run_spec [] (filter (about i) ops).

(* the unrestricted property fails for the shared cell (defect D12) *)
Definition C19_independent_refuted_stmt : Prop :=
  exists i ops, outputs_of i ops (run_shared (None, []) ops) <> run_spec [] (filter (about i) ops).
