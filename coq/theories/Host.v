(* Host.v -- one host row and the host-level transition
   (nasim/envs/host_vector.py: HostVector.perform_action).  Definitions only. *)
From NasimV Require Export Scenario.

(* One row of the state tensor, decoded (level L1).  Configuration (address, OS,
   services, processes, value, discovery value) lives in the same mutable row as
   the status flags in the implementation, so it does here as well. *)
Record hrow := mkRow {
  h_addr : addr;
  h_comp : bool; h_reach : bool; h_disc : bool;
  h_val : Z; h_dval : Z; h_acc : nat;
  h_os : list bool; h_srv : list bool; h_proc : list bool
}.

Definition set_comp (h : hrow) (b : bool) : hrow :=
  mkRow (h_addr h) b (h_reach h) (h_disc h) (h_val h) (h_dval h) (h_acc h) (h_os h) (h_srv h) (h_proc h).
Definition set_reach (h : hrow) (b : bool) : hrow :=
  mkRow (h_addr h) (h_comp h) b (h_disc h) (h_val h) (h_dval h) (h_acc h) (h_os h) (h_srv h) (h_proc h).
Definition set_disc (h : hrow) (b : bool) : hrow :=
  mkRow (h_addr h) (h_comp h) (h_reach h) b (h_val h) (h_dval h) (h_acc h) (h_os h) (h_srv h) (h_proc h).
Definition set_acc (h : hrow) (n : nat) : hrow :=
  mkRow (h_addr h) (h_comp h) (h_reach h) (h_disc h) (h_val h) (h_dval h) n (h_os h) (h_srv h) (h_proc h).

(* ActionResult (nasim/envs/action.py).  [r_srv/r_os/r_proc/r_acc] are the info
   dictionaries ({} = None); [r_disc]/[r_newly] are per host in address order
   ([] = the empty dictionaries of every action except a successful subnet scan). *)
Record result := mkRes {
  r_success : bool; r_value : Z;
  r_conn : bool; r_perm : bool; r_undef : bool;
  r_srv : option (list bool); r_os : option (list bool); r_proc : option (list bool);
  r_acc : option nat;
  r_disc : list bool; r_newly : list bool
}.

Definition res_plain (ok : bool) : result :=
  mkRes ok 0 false false false None None None None [] [].
Definition res_conn : result := mkRes false 0 true false false None None None None [] [].
Definition res_perm : result := mkRes false 0 false true false None None None None [] [].
Definition res_undef : result := mkRes false 0 false false true None None None None [] [].

Definition os_match (h : hrow) (o : option nat) : bool :=
  match o with None => true | Some i => nthb (h_os h) i end.

(* value paid and access after a successful exploit / escalation *)
Definition gain_value (h : hrow) (a : action) : Z :=
  if Nat.eqb (h_acc h) ROOT then 0 else if Nat.eqb (a_acc a) ROOT then h_val h else 0.
Definition gain_access (h : hrow) (a : action) : nat :=
  if Nat.eqb (h_acc h) ROOT then h_acc h else a_acc a.

Definition host_perform (h : hrow) (a : action) : hrow * result :=
  match a_kind a with
  | KSrvScan => (h, mkRes true 0 false false false (Some (h_srv h)) None None None [] [])
  | KOsScan => (h, mkRes true 0 false false false None (Some (h_os h)) None None [] [])
  | _ =>
    if is_exploit a && nthb (h_srv h) (a_srv a) && os_match h (a_os a) then
      (set_acc (set_comp h true) (gain_access h a),
       mkRes true (gain_value h a) false false false
             (Some (h_srv h)) (Some (h_os h)) None (Some (a_acc a)) [] [])
    else if negb (h_comp h && Nat.leb (a_req a) (h_acc h)) then (h, res_perm)
    else
      match a_kind a with
      | KProcScan =>
          (h, mkRes true 0 false false false None None (Some (h_proc h)) (Some (h_acc h)) [] [])
      | KPrivesc =>
          if nthb (h_proc h) (a_proc a) && os_match h (a_os a) then
            (set_acc h (gain_access h a),
             mkRes true (gain_value h a) false false false
                   None (Some (h_os h)) (Some (h_proc h)) (Some (a_acc a)) [] [])
          else (h, res_plain false)
      | _ => (h, res_plain false)
      end
  end.
