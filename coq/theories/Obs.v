(* Obs.v -- observation construction (nasim/envs/state.py: get_observation,
   get_initial_observation; nasim/envs/observation.py).  Definitions only. *)
From NasimV Require Export Layout.

Definition obsmat := list (list Z).

Definition zero_row (L : layout) : list Z := replicate (width L) 0.

(* Observation.from_action_result: the auxiliary (last) row *)
Definition aux_row (L : layout) (r : result) : list Z :=
  [b2z (r_success r); b2z (r_conn r); b2z (r_perm r); b2z (r_undef r)]
  ++ replicate (width L - 4) 0.

Definition base_mask : omask := mkM true false true true false false false false false false.

(* the entitlement table of State.get_observation, for the target's row *)
Definition target_mask (k : akind) : omask :=
  match k with
  | KExploit => mkM true true true true true true false true false true
  | KPrivesc => mkM true true true true true false false false false false
  | KSrvScan => mkM true false true true false false false true false false
  | KOsScan => mkM true false true true false false false false false true
  | KProcScan => mkM true false true true true false false false true false
  | KSubScan => mkM true true true true false false false false false false
  | KNoop => base_mask
  end.

(* rows of hosts found by a subnet scan *)
Definition disc_mask (newly : bool) : omask :=
  mkM true false true true false false newly false false false.

Definition host_obs_row (sc : scenario) (L : layout) (a : action) (r : result)
           (i : nat) (x : addr) (h : hrow) : list Z :=
  if addr_eqb x (a_tgt a) then observe L (target_mask (a_kind a)) (encode_row L h)
  else if is_subnet_scan a && nthb (r_disc r) i
       then observe L (disc_mask (nthb (r_newly r) i)) (encode_row L h)
       else zero_row L.

Definition get_observation (sc : scenario) (st' : state) (a : action) (r : result) (fully : bool)
  : obsmat :=
  let L := layout_of sc in
  if fully then encode_state L st' ++ [aux_row L r]
  else if is_noop a || negb (r_success r) then map (fun _ => zero_row L) st' ++ [aux_row L r]
  else map (fun q => host_obs_row sc L a r (fst q) (fst (snd q)) (snd (snd q)))
           (combine (seq 0 (length st')) (rows sc st'))
       ++ [aux_row L r].

Definition initial_observation (sc : scenario) (st : state) (fully : bool) : obsmat :=
  let L := layout_of sc in
  (if fully then encode_state L st
   else map (fun h => if h_reach h then observe L base_mask (encode_row L h) else zero_row L) st)
  ++ [zero_row L].

(* Observation.get_space_bounds *)
Definition minl (d : Z) (l : list Z) : Z := fold_right Z.min d l.
Definition maxlZ (d : Z) (l : list Z) : Z := fold_right Z.max d l.

Definition obs_low (sc : scenario) : Z :=
  minl 0 (map (fun e => c_val (snd e)) (s_hosts sc) ++ map (fun e => c_dval (snd e)) (s_hosts sc)).
Definition obs_high (sc : scenario) : Z :=
  maxlZ U (map (fun e => c_val (snd e)) (s_hosts sc) ++ map (fun e => c_dval (snd e)) (s_hosts sc)
           ++ [2 * U; U * Z.of_nat (fst (s_bounds sc)); U * Z.of_nat (snd (s_bounds sc))]).
