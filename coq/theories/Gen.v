(* Gen.v -- nasim/scenarios/generator.py (ScenarioGenerator.generate) over an explicit
   oracle: the list of results of every numpy.random call, in call order.  Definitions only.

   Encoding of oracle entries (one Z per scalar result): choice(seq) -> index of the chosen
   element; choice(seq, n) / choice(levels, n, p) -> n indices; randint -> the value;
   rand() / random_sample(n) -> the 53-bit integer k with result = k * 2^-53; poisson -> the
   value.  Float thresholds that depend only on the parameters (alpha_H/(alpha_H+i-1), ...)
   are handed in pre-computed as ceil(t * 2^53) (trusted glue, computed by the harness with
   IEEE doubles exactly as the implementation does): rand() < t  <=>  k < ceil(t * 2^53). *)
From NasimV Require Export Scenario.

Inductive res (A : Type) := Ok (a : A) (rest : list Z) | More | Crash (why : nat).
Arguments Ok {A} a rest. Arguments More {A}. Arguments Crash {A} why.

Definition M (A : Type) := list Z -> res A.
Definition ret {A} (a : A) : M A := fun o => Ok a o.
Definition bindM {A B} (m : M A) (f : A -> M B) : M B :=
  fun o => match m o with Ok a r => f a r | More => More | Crash w => Crash w end.
Notation "'let!' x ':=' m 'in' f" := (bindM m (fun x => f)) (at level 200, x pattern, right associativity).

Definition draw : M Z := fun o => match o with [] => More | x :: r => Ok x r end.
Definition drawn (bound : nat) : M nat :=      (* an index / value below bound; out of range = crash 9 *)
  fun o => match o with
           | [] => More
           | x :: r => if (0 <=? x) && (x <? Z.of_nat bound) then Ok (Z.to_nat x) r else Crash 9
           end.
Fixpoint draws (n : nat) : M (list Z) :=
  match n with O => ret [] | S m => let! x := draw in let! xs := draws m in ret (x :: xs) end.
Fixpoint drawns (n bound : nat) : M (list nat) :=
  match n with O => ret [] | S m => let! x := drawn bound in let! xs := drawns m bound in ret (x :: xs) end.
Definition crash {A} (w : nat) : M A := fun _ => Crash w.

(* ---------- parameters ---------- *)
Inductive probspec :=
| PFixed (pzs : list Z)            (* a float or a list of floats: ceil(p*2^53) per action *)
| PRandom                          (* None: random_sample(n) *)
| PMixed (levels : list Z).        (* 'mixed': choice(levels, n, p); pz of each level *)

Record gparams := mkGP {
  g_hosts : nat; g_nsrv : nat; g_nos : nat; g_nproc : nat; g_nexp : nat; g_npe : nat;
  g_rsens : Z; g_ruser : Z;
  g_ecost : Z; g_eprobs : probspec; g_pcost : Z; g_pprobs : probspec;
  g_ssc : Z; g_osc : Z; g_subc : Z; g_psc : Z;
  g_uniform : bool;
  g_thrH : list Z;                 (* i -> ceil (alpha_H/(alpha_H+i-1) * 2^53), i = host number >= 1 *)
  g_thrP : list Z;                 (* i -> ceil (alpha_V/(alpha_V+i-1) * 2^53), i >= 1 *)
  g_thrS : option Z;               (* ceil (alpha_V/(alpha_V-1) * 2^53); None = the division raises *)
  g_restrict : nat; g_random_goal : bool;
  g_base_value : Z; g_dvalue : Z;
  g_limit : option nat; g_bounds : option (nat * nat)
}.

(* ---------- subnets and topology (deterministic) ---------- *)
Definition ceil_div (a b : nat) : nat := ((a + b - 1) / b)%nat.

Definition gen_subnets (nh : nat) : list nat :=
  let dmz := ceil_div nh 40 in
  let sens := ceil_div nh 41 in
  let user := (nh - dmz - sens)%nat in
  [1%nat; dmz; sens] ++ replicate (user / 5) 5%nat
  ++ (if Nat.eqb (user mod 5) 0 then [] else [(user mod 5)%nat]).

Definition gen_connected (n s t : nat) : bool :=
  if Nat.ltb s 4 && Nat.ltb t 4 then
    negb ((Nat.eqb s 0 && Nat.ltb 1 t) || (Nat.ltb 1 s && Nat.eqb t 0))
  else if Nat.eqb n 4 then false
  else if Nat.ltb s 3 then false
  else
    (* row s >= 3 of the user tree: itself, its parent, its two children *)
    let pos := (s - 3)%nat in
    Nat.eqb t s
    || (Nat.ltb 0 pos && Nat.eqb t ((pos - 1) / 2 + 3))
    || (Nat.eqb t (2 * pos + 1 + 3) && Nat.ltb t n)
    || (Nat.eqb t (2 * pos + 2 + 3) && Nat.ltb t n).

Definition gen_topology (n : nat) : list (list bool) :=
  map (fun s => map (fun t => gen_connected n s t) (seq 0 n)) (seq 0 n).

(* ---------- action probabilities ---------- *)
Definition gen_probs (n : nat) (p : probspec) : M (list Z) :=
  match p with
  | PFixed l => ret l
  | PRandom => draws n
  | PMixed levels => let! idx := drawns n (length levels) in ret (map (fun i => nth i levels 0) idx)
  end.

(* ---------- exploits: rejection sampling on (service, os) ---------- *)
Definition os_of_idx (nos i : nat) : option nat := if Nat.ltb i nos then Some i else None.

Definition same_exploit_key (srv : nat) (os : option nat) (e : edef) : bool :=
  Nat.eqb (e_srv e) srv && opt_nat_eqb (e_os e) os.

Fixpoint gen_exploits_loop (p : gparams) (probs : list Z) (acc : list edef) (o : list Z) {struct o}
  : res (list edef) :=
  if Nat.leb (g_nexp p) (length acc) then Ok acc o else
  match o with
  | s :: os :: al :: r =>
      if negb ((0 <=? s) && (s <? Z.of_nat (g_nsrv p)) && (0 <=? os) && (os <=? Z.of_nat (g_nos p))
               && (1 <=? al) && (al <=? 2)) then Crash 9 else
      let srv := Z.to_nat s in
      let osi := os_of_idx (g_nos p) (Z.to_nat os) in
      if existsb (same_exploit_key srv osi) acc then gen_exploits_loop p probs acc r
      else gen_exploits_loop p probs
             (acc ++ [mkE srv osi (nth (length acc) probs 0) (g_ecost p) (Z.to_nat al)]) r
  | _ => More
  end.

Definition gen_exploits (p : gparams) : M (list edef) :=
  let! probs := gen_probs (g_nexp p) (g_eprobs p) in
  fun o => gen_exploits_loop p probs [] o.

(* ---------- escalations ---------- *)
Definition os_choices_ok (nos : nat) (l : list nat) : bool :=
  existsb (fun i => negb (Nat.ltb i nos)) l || forallb (fun os => mem_nat os l) (seq 0 nos).

Fixpoint gen_os_choices_loop (nos n : nat) (o : list Z) (fuel : nat) {struct fuel} : res (list nat) :=
  match fuel with
  | O => More
  | S f =>
      match drawns n (S nos) o with
      | Ok l r => if os_choices_ok nos l then Ok l r else gen_os_choices_loop nos n r f
      | More => More
      | Crash w => Crash w
      end
  end.

Definition gen_os_choices (p : gparams) : M (list nat) :=
  if Nat.ltb (g_npe p) (g_nos p) then
    let! l := drawns (g_npe p - 1) (S (g_nos p)) in ret (g_nos p :: l)
  else fun o => gen_os_choices_loop (g_nos p) (g_npe p) o (S (length o)).

Definition same_privesc_key (proc : nat) (os : option nat) (e : pdef) : bool :=
  Nat.eqb (p_proc e) proc && opt_nat_eqb (p_os e) os.

Fixpoint gen_privescs_loop (p : gparams) (probs : list Z) (choices : list nat) (acc : list pdef)
         (o : list Z) {struct o} : res (list pdef) :=
  if Nat.leb (g_npe p) (length acc) then Ok acc o else
  match o with
  | pr :: r =>
      if negb ((0 <=? pr) && (pr <? Z.of_nat (g_nproc p))) then Crash 9 else
      let proc := Z.to_nat pr in
      let osi := os_of_idx (g_nos p) (nth (length acc) choices O) in
      if existsb (same_privesc_key proc osi) acc then gen_privescs_loop p probs choices acc r
      else gen_privescs_loop p probs choices
             (acc ++ [mkP proc osi (nth (length acc) probs 0) (g_pcost p) 2]) r
  | [] => More
  end.

Definition gen_privescs (p : gparams) : M (list pdef) :=
  let! probs := gen_probs (g_npe p) (g_pprobs p) in
  let! choices := gen_os_choices p in
  fun o => gen_privescs_loop p probs choices [] o.

(* ---------- sensitive hosts ---------- *)
Definition gen_sensitive (p : gparams) (subnets : list nat) : M (list (addr * Z)) :=
  let n := length subnets in
  if g_random_goal p && Nat.ltb 2 n then
    fun o => match o with
             | s :: h :: r =>
                 if negb ((3 <=? s) && (s <? Z.of_nat n)) then Crash 9 else
                 let sub := Z.to_nat s in
                 if negb ((0 <=? h) && (h <? Z.of_nat (nth sub subnets O))) then Crash 9 else
                 let a := (sub, Z.to_nat h) in
                 (* a dict: the second assignment to an existing key keeps its position *)
                 Ok (if addr_eqb a (2%nat, O) then [((2%nat, O), g_ruser p)]
                     else [((2%nat, O), g_rsens p); (a, g_ruser p)]) r
             | _ => More
             end
  else
    let a := ((n - 1)%nat, (nth (n - 1) subnets O - 1)%nat) in
    ret (if addr_eqb a (2%nat, O) then [((2%nat, O), g_ruser p)]
         else [((2%nat, O), g_rsens p); (a, g_ruser p)]).

(* ---------- host configurations ---------- *)
Record hcfg := mkH { hc_os : nat; hc_srv : list bool; hc_proc : list bool }.

(* ScenarioGenerator._permutations *)
Fixpoint bool_perms (n : nat) : list (list bool) :=
  match n with
  | O => []
  | S O => [[true]; [false]]
  | S m => flat_map (fun q => [true :: q; false :: q]) (bool_perms m)
  end.

Definition gen_uniform_host (p : gparams) : M hcfg :=
  let sc := removelast (bool_perms (g_nsrv p)) in
  let pc := removelast (bool_perms (g_nproc p)) in
  let! si := drawn (length sc) in
  let! pi := drawn (length pc) in
  let! os := drawn (g_nos p) in
  ret (mkH os (nth si sc []) (nth pi pc [])).

Definition set_true (l : list bool) (i : nat) : list bool :=
  map (fun q => if Nat.eqb (fst q) i then true else snd q) (combine (seq 0 (length l)) l).

(* _dirichlet_process: returns the configuration and the extended list of previous values *)
Fixpoint dp_loop (p : gparams) (nopt : nat) (i n : nat) (cfg : list bool) (prev : list nat) {struct n}
  : M (list bool * list nat) :=
  match n with
  | O => ret (cfg, prev)
  | S m =>
      let pick : M nat :=
        if Nat.eqb i 0 then drawn nopt
        else let! k := draw in
             if k <? nth i (g_thrP p) 0 then drawn nopt
             else let! j := drawn (length prev) in ret (nth j prev O) in
      let! x := pick in
      dp_loop p nopt (S i) m (set_true cfg x) (prev ++ [x])
  end.

Definition dirichlet_process (p : gparams) (nopt : nat) (prev : list nat) : M (list bool * list nat) :=
  let! k := draw in
  if k <? 0 then crash 9 else
  dp_loop p nopt 0 (Nat.max (Z.to_nat k) 1) (replicate nopt false) prev.

Definition dirichlet_sample (p : gparams) (prev_os : list nat) : M nat :=
  match prev_os with
  | [] => drawn (g_nos p)
  | _ =>
      match g_thrS p with
      | None => crash 7                       (* alpha_V / (alpha_V - 1): ZeroDivisionError *)
      | Some t =>
          let! k := draw in
          if k <? t then drawn (g_nos p)
          else let! j := drawn (length prev_os) in ret (nth j prev_os O)
      end
  end.

Record cstate := mkCS { cs_cfgs : list hcfg; cs_os : list nat; cs_srv : list nat; cs_proc : list nat }.

Definition gen_correlated_host (p : gparams) (hn : nat) (cs : cstate) : M (hcfg * cstate) :=
  let fresh : M (hcfg * cstate) :=
    let! os := dirichlet_sample p (cs_os cs) in
    let! sv := dirichlet_process p (g_nsrv p) (cs_srv cs) in
    let! pc := dirichlet_process p (g_nproc p) (cs_proc cs) in
    let c := mkH os (fst sv) (fst pc) in
    ret (c, mkCS (cs_cfgs cs ++ [c]) (cs_os cs ++ [os]) (snd sv) (snd pc)) in
  if Nat.eqb hn 0 then fresh
  else
    let! k := draw in
    if k <? nth hn (g_thrH p) 0 then fresh
    else let! j := drawn (length (cs_cfgs cs)) in
         let c := nth j (cs_cfgs cs) (mkH 0 [] []) in
         ret (c, mkCS (cs_cfgs cs ++ [c]) (cs_os cs) (cs_srv cs) (cs_proc cs)).

Fixpoint gen_hosts_loop (p : gparams) (addrs : list addr) (hn : nat) (cs : cstate) : M (list (addr * hcfg)) :=
  match addrs with
  | [] => ret []
  | a :: r =>
      if g_uniform p then
        let! c := gen_uniform_host p in
        let! rest := gen_hosts_loop p r (S hn) cs in ret ((a, c) :: rest)
      else
        let! cc := gen_correlated_host p hn cs in
        let! rest := gen_hosts_loop p r (S hn) (snd cc) in ret ((a, fst cc) :: rest)
  end.

Definition gen_addrs (subnets : list nat) : list addr :=
  flat_map (fun s => map (fun h => (s, h)) (seq 0 (nth s subnets O))) (seq 1 (length subnets - 1)).

(* ---------- _ensure_host_vulnerability ---------- *)
Definition vuln_e (c : hcfg) (e : edef) : bool :=
  nthb (hc_srv c) (e_srv e) && match e_os e with None => true | Some o => Nat.eqb (hc_os c) o end.
Definition vuln_pe (c : hcfg) (e : pdef) : bool :=
  nthb (hc_proc c) (p_proc e) && match p_os e with None => true | Some o => Nat.eqb (hc_os c) o end.

Definition host_vulnerable (ex : list edef) (pe : list pdef) (c : hcfg) (lvl : nat) : bool :=
  existsb (fun e => vuln_e c e && (Nat.leb lvl (e_acc e) || existsb (vuln_pe c) pe)) ex.

(* _update_host_to_vulnerable: up to VUL_RETRIES = 5 attempts *)
Fixpoint make_vulnerable (ex : list edef) (pe : list pdef) (lvl : nat) (c : hcfg) (tries : nat)
  : M hcfg :=
  match tries with
  | O => crash 5
  | S t =>
      let! ei := drawn (length ex) in
      let e := nth ei ex (mkE 0 None 0 0 0) in
      let c1 := mkH (match e_os e with Some o => o | None => hc_os c end)
                    (set_true (hc_srv c) (e_srv e)) (hc_proc c) in
      if Nat.leb lvl (e_acc e) then ret c1
      else
        let valid := filter (fun q => match p_os q with None => true | Some o => Nat.eqb (hc_os c1) o end) pe in
        match valid with
        | [] => make_vulnerable ex pe lvl c1 t
        | _ =>
            let! pi := drawn (length valid) in
            let q := nth pi valid (mkP 0 None 0 0 0) in
            ret (mkH (hc_os c1) (hc_srv c1) (set_true (hc_proc c1) (p_proc q)))
        end
  end.

(* first pass over the hosts in order *)
Fixpoint ensure_pass1 (ex : list edef) (pe : list pdef) (sens : list addr)
         (hosts : list (addr * hcfg)) (vs : list nat) : M (list (addr * hcfg) * list nat) :=
  match hosts with
  | [] => ret ([], vs)
  | (a, c) :: r =>
      if negb (mem_addr a sens) && mem_nat (fst a) vs then
        let! rest := ensure_pass1 ex pe sens r vs in ret ((a, c) :: fst rest, snd rest)
      else if mem_addr a sens then
        let! c' := (if host_vulnerable ex pe c 2 then ret c else make_vulnerable ex pe 2 c 5) in
        let! rest := ensure_pass1 ex pe sens r (fst a :: vs) in ret ((a, c') :: fst rest, snd rest)
      else
        let vs' := if host_vulnerable ex pe c 1 then fst a :: vs else vs in
        let! rest := ensure_pass1 ex pe sens r vs' in ret ((a, c) :: fst rest, snd rest)
  end.

Definition update_host (hosts : list (addr * hcfg)) (a : addr) (c : hcfg) : list (addr * hcfg) :=
  map (fun q => if addr_eqb (fst q) a then (a, c) else q) hosts.

Fixpoint ensure_pass2 (ex : list edef) (pe : list pdef) (subnets : list nat) (ss : list nat)
         (hosts : list (addr * hcfg)) (vs : list nat) : M (list (addr * hcfg)) :=
  match ss with
  | [] => ret hosts
  | s :: r =>
      if mem_nat s vs || Nat.eqb s 0 then ensure_pass2 ex pe subnets r hosts vs
      else
        let! h := drawn (nth s subnets O) in
        let c := match assoc (s, h) hosts with Some c => c | None => mkH 0 [] [] end in
        let! c' := make_vulnerable ex pe 1 c 5 in
        ensure_pass2 ex pe subnets r (update_host hosts (s, h) c') (s :: vs)
  end.

(* ---------- firewall (after the repair of defect D6: services are picked from a list in
   scenario order, not from a listified set) ---------- *)
Definition subnet_services (ex : list edef) (hosts : list (addr * hcfg)) (nsrv s : nat) : list nat :=
  filter (fun sv => existsb (fun q => Nat.eqb (fst (fst q)) s
                                      && existsb (fun e => vuln_e (snd q) e && Nat.eqb (e_srv e) sv) ex) hosts)
         (seq 0 nsrv).

Fixpoint remove_nth {A : Type} (l : list A) (i : nat) : list A :=
  match l, i with
  | [], _ => []
  | _ :: r, O => r
  | x :: r, S j => x :: remove_nth r j
  end.

Fixpoint pick_services (avail : list nat) (k : nat) : M (list nat) :=
  match k with
  | O => ret []
  | S m =>
      let! i := drawn (length avail) in
      let! rest := pick_services (remove_nth avail i) m in
      ret (nth i avail O :: rest)
  end.

Definition sort_nat (l : list nat) (bound : nat) : list nat := filter (fun x => mem_nat x l) (seq 0 bound).

Fixpoint gen_fw_pairs (p : gparams) (ex : list edef) (hosts : list (addr * hcfg)) (n : nat)
         (pairs : list (nat * nat)) : M (list (addr * list nat)) :=
  match pairs with
  | [] => ret []
  | (s, t) :: r =>
      if Nat.eqb s t || negb (gen_connected n s t) then gen_fw_pairs p ex hosts n r
      else if Nat.ltb 2 s && Nat.ltb 2 t then
        let! rest := gen_fw_pairs p ex hosts n r in ret (((s, t), seq 0 (g_nsrv p)) :: rest)
      else
        let avail := subnet_services ex hosts (g_nsrv p) t in
        if Nat.ltb (length avail) (g_restrict p) then
          let! rest := gen_fw_pairs p ex hosts n r in ret (((s, t), avail) :: rest)
        else
          let! chosen := pick_services avail (g_restrict p) in
          let! rest := gen_fw_pairs p ex hosts n r in
          ret (((s, t), sort_nat chosen (g_nsrv p)) :: rest)
  end.

(* ---------- generate ---------- *)
Definition onehot_b (n i : nat) : list bool := map (fun j => Nat.eqb j i) (seq 0 n).

Definition params_ok (p : gparams) : bool :=
  Nat.ltb 0 (g_nsrv p) && Nat.ltb 2 (g_hosts p) && Nat.ltb 0 (g_nproc p) && Nat.ltb 0 (g_nexp p)
  && Nat.ltb 0 (g_npe p) && Nat.ltb 0 (g_nos p) && (0 <? g_rsens p) && (0 <? g_ruser p)
  && Nat.ltb 0 (g_restrict p).

Definition generate (p : gparams) : M scenario :=
  if negb (params_ok p) then crash 1 else
  let subnets := gen_subnets (g_hosts p) in
  let n := length subnets in
  let bounds := match g_bounds p with Some b => b | None => (n, maxl subnets) end in
  if negb (Nat.leb n (fst bounds) && Nat.leb (maxl subnets) (snd bounds)) then crash 2 else
  let! ex := gen_exploits p in
  let! pe := gen_privescs p in
  let! sens := gen_sensitive p subnets in
  let! hosts0 := gen_hosts_loop p (gen_addrs subnets) 0 (mkCS [] [] [] []) in
  let! pass1 := ensure_pass1 ex pe (map fst sens) hosts0 [] in
  let! hosts := ensure_pass2 ex pe subnets (seq 0 n) (fst pass1) (snd pass1) in
  let! fw := gen_fw_pairs p ex hosts n (flat_map (fun s => map (fun t => (s, t)) (seq 0 n)) (seq 0 n)) in
  ret (mkSc subnets (gen_topology n) (g_nos p) (g_nsrv p) (g_nproc p) ex pe
            (g_ssc p) (g_osc p) (g_subc p) (g_psc p) fw
            (map (fun q => (fst q,
                            mkCfg (onehot_b (g_nos p) (hc_os (snd q))) (hc_srv (snd q)) (hc_proc (snd q))
                                  (match assoc (fst q) sens with Some v => v | None => g_base_value p end)
                                  (g_dvalue p) [])) hosts)
            sens (g_limit p) bounds).
