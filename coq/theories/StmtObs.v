(* StmtObs.v -- statements of the property theorems about vectors, observations and
   action spaces (C08-C12).  props/Cxx.v proves exactly these. *)
From NasimV Require Export Spec.

Definition fits (L : layout) (h : hrow) : Prop :=
  (fst (h_addr h) < L_b0 L)%nat /\ (snd (h_addr h) < L_b1 L)%nat
  /\ length (h_os h) = L_nos L /\ length (h_srv h) = L_nsrv L /\ length (h_proc h) = L_nproc L.

(* ================= C09 ================= *)
Definition C09_layout_order_stmt : Prop :=
  forall L,
    subnet_idx L = O /\ hostaddr_idx L = L_b0 L /\ comp_idx L = (L_b0 L + L_b1 L)%nat
    /\ reach_idx L = (L_b0 L + L_b1 L + 1)%nat /\ disc_idx L = (L_b0 L + L_b1 L + 2)%nat
    /\ val_idx L = (L_b0 L + L_b1 L + 3)%nat /\ dval_idx L = (L_b0 L + L_b1 L + 4)%nat
    /\ acc_idx L = (L_b0 L + L_b1 L + 5)%nat /\ os_start L = (L_b0 L + L_b1 L + 6)%nat
    /\ srv_start L = (L_b0 L + L_b1 L + 6 + L_nos L)%nat
    /\ proc_start L = (L_b0 L + L_b1 L + 6 + L_nos L + L_nsrv L)%nat
    /\ width L = (L_b0 L + L_b1 L + 6 + L_nos L + L_nsrv L + L_nproc L)%nat.

Definition C09_dims_stmt : Prop :=
  forall sc,
    width (layout_of sc) = snd (state_dims sc)
    /\ fst (state_dims sc) = length (s_hosts sc)
    /\ obs_dims sc = (S (length (s_hosts sc)), width (layout_of sc)).

(* every entry of an encoded row, by feature group, at the documented position *)
Definition C09_encode_entries_stmt : Prop :=
  forall L h, fits L h ->
    let v := encode_row L h in
    length v = width L
    /\ (forall i, (i < L_b0 L)%nat -> zat v (subnet_idx L + i) = b2z (Nat.eqb i (fst (h_addr h))))
    /\ (forall i, (i < L_b1 L)%nat -> zat v (hostaddr_idx L + i) = b2z (Nat.eqb i (snd (h_addr h))))
    /\ zat v (comp_idx L) = b2z (h_comp h) /\ zat v (reach_idx L) = b2z (h_reach h)
    /\ zat v (disc_idx L) = b2z (h_disc h) /\ zat v (val_idx L) = h_val h
    /\ zat v (dval_idx L) = h_dval h /\ zat v (acc_idx L) = U * Z.of_nat (h_acc h)
    /\ (forall i, (i < L_nos L)%nat -> zat v (os_start L + i) = b2z (nthb (h_os h) i))
    /\ (forall i, (i < L_nsrv L)%nat -> zat v (srv_start L + i) = b2z (nthb (h_srv h) i))
    /\ (forall i, (i < L_nproc L)%nat -> zat v (proc_start L + i) = b2z (nthb (h_proc h) i)).

Definition C09_roundtrip_stmt : Prop :=
  forall L h, fits L h -> decode_row L (encode_row L h) = Some h.

Definition C09_initial_decodes_to_scenario_stmt : Prop :=
  forall sc, wf_scenario sc = true ->
    map (decode_row (layout_of sc)) (encode_state (layout_of sc) (initial_state sc))
    = map (fun e => Some (init_row sc (fst e) (snd e))) (s_hosts sc)
    /\ Forall (fits (layout_of sc)) (initial_state sc).

Definition C09_wf_state_fits_stmt : Prop :=
  forall sc st, wf_scenario sc = true -> wf_state sc st = true -> Forall (fits (layout_of sc)) st.

Definition C09_obs_shape_stmt : Prop :=
  forall sc st a r fully,
    wf_scenario sc = true -> wf_state sc st = true ->
    let o := get_observation sc st a r fully in
    let L := layout_of sc in
    length o = S (length st)
    /\ Forall (fun row => length row = width L) o
    /\ nth (length st) o [] = aux_row L r
    /\ firstn 4 (aux_row L r) = [b2z (r_success r); b2z (r_conn r); b2z (r_perm r); b2z (r_undef r)]
    /\ Forall (fun z => z = 0) (skipn 4 (aux_row L r))
    /\ length (flatten o) = (S (length st) * width L)%nat.

Definition C09_flatten_unflatten_stmt : Prop :=
  forall w rows, (0 < w)%nat -> Forall (fun r : list Z => length r = w) rows ->
    unflatten (length rows) w (flatten rows) = rows.

(* ================= C08 ================= *)
(* what the action entitles the agent to see in the row of host x *)
Definition entitlement (sc : scenario) (st : state) (a : action) (x : addr) : omask :=
  if addr_eqb x (a_tgt a) then target_mask (a_kind a)
  else disc_mask (negb (h_disc (row sc st x))).

(* whether the row of host x shows anything at all *)
Definition visible (sc : scenario) (st : state) (a : action) (k : Z) (x : addr) : bool :=
  r_success (res sc st a k) && negb (is_noop a)
  && (addr_eqb x (a_tgt a) || (is_subnet_scan a && connected sc (fst (a_tgt a)) (fst x))).

Definition obs_of (sc : scenario) (st : state) (a : action) (k : Z) (fully : bool) : obsmat :=
  get_observation sc (next sc st a k) a (res sc st a k) fully.

(* partially observable mode, every host entry, exactly *)
Definition C08_exact_stmt : Prop :=
  forall sc st a k i x j,
    wf_scenario sc = true -> wf_state sc st = true -> act_ok sc a ->
    nth_error (addresses sc) i = Some x ->
    zat (nth i (obs_of sc st a k false) []) j
    = if visible sc st a k x && mask_has (entitlement sc st a x) (col_group (layout_of sc) j)
      then zat (encode_row (layout_of sc) (row sc (next sc st a k) x)) j
      else 0.

Definition C08_truthful_stmt : Prop :=
  forall sc st a k i x j,
    wf_scenario sc = true -> wf_state sc st = true -> act_ok sc a ->
    nth_error (addresses sc) i = Some x ->
    zat (nth i (obs_of sc st a k false) []) j <> 0 ->
    zat (nth i (obs_of sc st a k false) []) j
    = zat (encode_row (layout_of sc) (row sc (next sc st a k) x)) j.

Definition C08_failure_blind_stmt : Prop :=
  forall sc st a k i,
    wf_scenario sc = true -> wf_state sc st = true -> act_ok sc a ->
    (r_success (res sc st a k) = false \/ is_noop a = true) ->
    (i < length st)%nat ->
    nth i (obs_of sc st a k false) [] = zero_row (layout_of sc).

Definition C08_full_stmt : Prop :=
  forall sc st a k,
    obs_of sc st a k true
    = encode_state (layout_of sc) (next sc st a k) ++ [aux_row (layout_of sc) (res sc st a k)].

Definition C08_aux_stmt : Prop :=
  forall sc st a k fully,
    wf_scenario sc = true -> wf_state sc st = true -> act_ok sc a ->
    nth (length st) (obs_of sc st a k fully) [] = aux_row (layout_of sc) (res sc st a k)
    /\ length (obs_of sc st a k fully) = S (length st).

Definition C08_initial_stmt : Prop :=
  forall sc st,
    let L := layout_of sc in
    initial_observation sc st true = encode_state L st ++ [zero_row L]
    /\ (forall i h j, nth_error st i = Some h ->
          zat (nth i (initial_observation sc st false) []) j
          = if h_reach h && mask_has base_mask (col_group L j) then zat (encode_row L h) j else 0)
    /\ nth (length st) (initial_observation sc st false) [] = zero_row L.

(* ================= C10 ================= *)
Definition in_box (sc : scenario) (o : obsmat) : Prop :=
  Forall (Forall (fun z => obs_low sc <= z <= obs_high sc)) o.

Definition C10_in_bounds_stmt : Prop :=
  forall sc st a r fully,
    wf_scenario sc = true -> wf_state sc st = true ->
    in_box sc (get_observation sc st a r fully) /\ in_box sc (initial_observation sc st fully).

Definition C10_shape_stmt : Prop :=
  forall sc st a r fully,
    wf_scenario sc = true -> wf_state sc st = true ->
    let o := get_observation sc st a r fully in
    let o0 := initial_observation sc st fully in
    length o = fst (obs_dims sc) /\ Forall (fun row => length row = snd (obs_dims sc)) o
    /\ length (flatten o) = (fst (obs_dims sc) * snd (obs_dims sc))%nat
    /\ length o0 = fst (obs_dims sc) /\ Forall (fun row => length row = snd (obs_dims sc)) o0
    /\ length (flatten o0) = (fst (obs_dims sc) * snd (obs_dims sc))%nat.

Definition below (v bound : list nat) : Prop := Forall2 lt v bound.

Definition C10_actions_total_stmt : Prop :=
  forall sc, wf_scenario sc = true ->
    (forall n, (n < action_space_size sc)%nat -> exists a, nth_error (flat sc) n = Some a)
    /\ (forall v, below v (nvec sc) -> exists a, decode_param sc v = Some a).

(* ================= C11 ================= *)
Definition per_host (sc : scenario) : nat :=
  (4 + length (s_exploits sc) + length (s_privescs sc))%nat.

Definition C11_flat_length_stmt : Prop :=
  forall sc, length (flat sc) = action_space_size sc
             /\ action_space_size sc = (length (addresses sc) * per_host sc)%nat.

(* position i*per_host + slot holds exactly the action (host i, slot): nothing missing,
   duplicated or extra *)
Definition C11_flat_index_stmt : Prop :=
  forall sc i x,
    nth_error (addresses sc) i = Some x ->
    let base := (i * per_host sc)%nat in
    nth_error (flat sc) base = Some (mk_scan KSrvScan x (s_ssc sc))
    /\ nth_error (flat sc) (base + 1) = Some (mk_scan KOsScan x (s_osc sc))
    /\ nth_error (flat sc) (base + 2) = Some (mk_scan KSubScan x (s_subc sc))
    /\ nth_error (flat sc) (base + 3) = Some (mk_scan KProcScan x (s_psc sc))
    /\ (forall j e, nth_error (s_exploits sc) j = Some e ->
          nth_error (flat sc) (base + 4 + j) = Some (mk_exploit x e))
    /\ (forall j p, nth_error (s_privescs sc) j = Some p ->
          nth_error (flat sc) (base + 4 + length (s_exploits sc) + j) = Some (mk_privesc x p)).

Definition C11_param_stmt : Prop :=
  forall sc v a,
    wf_scenario sc = true -> below v (nvec sc) -> decode_param sc v = Some a ->
    in_space sc a
    /\ (a <> noop ->
        exists ty s h o sv pr, v = [ty; s; h; o; sv; pr]
          /\ a_tgt a = (S s, Nat.modulo h (subnet_size sc (S s)))
          /\ a_kind a = match ty with 0 => KExploit | 1 => KPrivesc | 2 => KSrvScan
                                    | 3 => KOsScan | 4 => KSubScan | _ => KProcScan end%nat)
    /\ (forall ty s h o sv pr, v = [ty; s; h; o; sv; pr] ->
          let os := match o with O => None | S o' => Some o' end in
          let t := (S s, Nat.modulo h (subnet_size sc (S s))) in
          (ty = 0%nat -> a = match find_exploit sc sv os with Some e => mk_exploit t e | None => noop end)
          /\ (ty = 1%nat -> a = match find_privesc sc pr os with Some p => mk_privesc t p | None => noop end)).

Definition C11_mask_stmt : Prop :=
  forall sc st,
    length (action_mask sc st) = length (flat sc)
    /\ forall i a, nth_error (flat sc) i = Some a ->
         nth i (action_mask sc st) false = h_disc (row sc st (a_tgt a)).

(* ================= C12 (histories) ================= *)
Inductive sop :=
| SReset | SStep (a : action) (k : Z) | SGen (i : nat) (a : action) (k : Z) | SGoal (i : nat) | SInit.

Definition sem_op (sc : scenario) (m : modes) (o : op) : option sop :=
  match o with
  | OReset => Some SReset
  | OStep x k => option_map (fun a => SStep a k) (decode_arg sc m x)
  | OGen i x k => option_map (fun a => SGen i a k) (decode_arg sc m x)
  | OGoal i => Some (SGoal i)
  | OMask => None
  | OInit => Some SInit
  end.

(* an op output without the observation arrays *)
Inductive pout :=
| PReset (st : state)
| PStep (nx : state) (rw : Z) (dn : bool) (r : result) (u : bool) (lim : bool) (steps : nat)
| PGen (nx : state) (rw : Z) (dn : bool) (r : result) (u : bool) (steps : nat)
| PGoal (b : bool) | PMask (m : list bool) | PInit (st : state) | PErr.

Definition proj_out (o : opout) : pout :=
  match o with
  | RReset _ st => PReset st
  | RStep out lim steps => PStep (o_next out) (o_reward out) (o_done out) (o_res out) (o_used out) lim steps
  | RGen out steps => PGen (o_next out) (o_reward out) (o_done out) (o_res out) (o_used out) steps
  | RGoal b => PGoal b
  | RMask m => PMask m
  | RInit st => PInit st
  | RError => PErr
  end.

Definition C12_run_mode_independent_stmt : Prop :=
  forall sc m1 m2 ops1 ops2,
    map (sem_op sc m1) ops1 = map (sem_op sc m2) ops2 ->
    Forall (fun o => sem_op sc m1 o <> None) ops1 ->
    map proj_out (run sc m1 ops1) = map proj_out (run sc m2 ops2).

(* the flattened observation is the row-major flattening, and the partially observable
   observation is a mask of the fully observable one *)
Definition C12_obs_relation_stmt : Prop :=
  forall sc st a r i j,
    wf_scenario sc = true -> wf_state sc st = true -> (i < length st)%nat ->
    zat (nth i (get_observation sc st a r false) []) j <> 0 ->
    zat (nth i (get_observation sc st a r false) []) j
    = zat (nth i (get_observation sc st a r true) []) j.
