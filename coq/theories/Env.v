(* Env.v -- the environment as a state machine (nasim/envs/environment.py).
   Definitions only. *)
From NasimV Require Export Actions.

Record modes := mkModes { fully_obs : bool; flat_actions : bool; flat_obs : bool }.

(* what the caller hands to step(): a flat index, a parameter vector or an Action *)
Inductive aarg := AIdx (n : nat) | AVec (v : list nat) | AObj (a : action).

Definition decode_arg (sc : scenario) (m : modes) (x : aarg) : option action :=
  match x with
  | AObj a => Some a
  | AIdx n => if flat_actions m then nth_error (flat sc) n else None
  | AVec v => if flat_actions m then None else decode_param sc v
  end.

Record env := mkEnv { e_state : state; e_obs : obsmat; e_steps : nat }.

Record stepout := mkOut {
  o_next : state; o_obs : obsmat; o_reward : Z; o_done : bool; o_res : result; o_used : bool
}.

(* NASimEnv.generative_step: a function of its arguments only *)
Definition generative_step (sc : scenario) (m : modes) (st : state) (a : action) (k : Z) : stepout :=
  let '(st', r, used) := perform_action sc st a k in
  mkOut st' (get_observation sc st' a r (fully_obs m)) (r_value r - a_cost a) (goal sc st') r used.

Definition env_reset (sc : scenario) (m : modes) (e : env) : env :=
  let st := net_reset sc (e_state e) in
  mkEnv st (initial_observation sc st (fully_obs m)) O.

(* NASimEnv.__init__: generate_initial_state then reset() *)
Definition env_init (sc : scenario) (m : modes) : env :=
  env_reset sc m (mkEnv (net_reset sc (initial_state sc)) [] O).

Definition limit_reached (sc : scenario) (steps : nat) : bool :=
  match s_limit sc with Some l => Nat.leb l steps | None => false end.

(* NASimEnv.step: returns the new environment, the step output and the step-limit flag *)
Definition env_step (sc : scenario) (m : modes) (e : env) (a : action) (k : Z)
  : env * stepout * bool :=
  let o := generative_step sc m (e_state e) a k in
  let e' := mkEnv (o_next o) (o_obs o) (S (e_steps e)) in
  (e', o, limit_reached sc (e_steps e')).

(* the array handed back to the caller *)
Definition present (m : modes) (o : obsmat) : obsmat := if flat_obs m then [flatten o] else o.

(* ---------- operation histories ---------- *)
Inductive op :=
| OReset
| OStep (x : aarg) (k : Z)
| OGen (i : nat) (x : aarg) (k : Z)    (* generative step on the i-th state of the pool *)
| OGoal (i : nat)
| OMask
| OInit.                             (* generate_initial_state(): a fresh initial state; the environment is untouched *)

Inductive opout :=
| RReset (obs : obsmat) (st : state)
| RStep (o : stepout) (limit : bool) (steps : nat)
| RGen (o : stepout) (steps : nat)
| RGoal (b : bool)
| RMask (m : list bool)
| RInit (st : state)
| RError.

(* [pool]: every state handed out so far (initial, after resets, steps, generative steps),
   oldest first; OGen/OGoal pick their argument from it. *)
Definition run_op (sc : scenario) (m : modes) (ep : env * list state) (o : op)
  : (env * list state) * opout :=
  let (e, pool) := ep in
  match o with
  | OReset =>
      let e' := env_reset sc m e in
      ((e', pool ++ [e_state e']), RReset (present m (e_obs e')) (e_state e'))
  | OStep x k =>
      match decode_arg sc m x with
      | None => (ep, RError)
      | Some a =>
          let '(e', out, lim) := env_step sc m e a k in
          ((e', pool ++ [e_state e']), RStep out lim (e_steps e'))
      end
  | OGen i x k =>
      match decode_arg sc m x, nth_error pool i with
      | Some a, Some st =>
          let out := generative_step sc m st a k in
          ((e, pool ++ [o_next out]), RGen out (e_steps e))
      | _, _ => (ep, RError)
      end
  | OGoal i =>
      match nth_error pool i with
      | Some st => (ep, RGoal (goal sc st))
      | None => (ep, RError)
      end
  | OMask => if flat_actions m then (ep, RMask (action_mask sc (e_state e))) else (ep, RError)
  | OInit => ((e, pool ++ [initial_state sc]), RInit (initial_state sc))
  end.

Fixpoint run_ops (sc : scenario) (m : modes) (ep : env * list state) (ops : list op)
  : (env * list state) * list opout :=
  match ops with
  | [] => (ep, [])
  | o :: r =>
      let (ep', out) := run_op sc m ep o in
      let (ep'', outs) := run_ops sc m ep' r in
      (ep'', out :: outs)
  end.

Definition run (sc : scenario) (m : modes) (ops : list op) : list opout :=
  let e := env_init sc m in
  snd (run_ops sc m (e, [e_state e]) ops).
