(* Dispatch.v -- the single entry point evaluated by both execution paths
   (vm_compute inside Coq, and the extracted OCaml driver).  Definitions only. *)
From NasimV Require Export Wire Solve.

Definition do_run (sc : scenario) (m : modes) (ops : list op) : sx :=
  L [x_bool (wf_scenario sc); x_list (x_opout m) (run sc m ops)].

Definition do_spaces (sc : scenario) : sx :=
  L [x_list x_action (flat sc); x_list x_nat (nvec sc); x_nat (action_space_size sc);
     L [x_nat (fst (state_dims sc)); x_nat (snd (state_dims sc))];
     L [x_nat (fst (obs_dims sc)); x_nat (snd (obs_dims sc))];
     I (obs_low sc); I (obs_high sc); x_bool (wf_scenario sc)].

Definition do_decode (sc : scenario) (vs : list (list nat)) : sx :=
  x_list (fun v => x_opt x_action (decode_param sc v)) vs.

Definition dispatch (cmd : sx) : sx :=
  match cmd with
  | L [I 0; sc; m; ops] =>
      match d_scenario sc, d_modes m, d_list d_op ops with
      | Some sc', Some m', Some ops' => do_run sc' m' ops'
      | _, _, _ => bad
      end
  | L [I 1; sc] =>
      match d_scenario sc with Some sc' => do_spaces sc' | None => bad end
  | L [I 2; sc; vs] =>
      match d_scenario sc, d_list (d_list d_nat) vs with
      | Some sc', Some vs' => do_decode sc' vs'
      | _, _ => bad
      end
  | L [I 3; sc; recs] =>
      match d_scenario sc, d_list d_rec recs with
      | Some sc', Some qs => x_list (fun q => x_list x_bool (judge_all sc' q)) qs
      | _, _ => bad
      end
  | L [I 5; sc; m; qs] =>
      match d_scenario sc, d_modes m,
            d_list (fun q => match q with
                             | L [st; a; k] => do st' <- d_state st; do a' <- d_action a; do k' <- d_Z k;
                                               Some (st', a', k')
                             | _ => None end) qs with
      | Some sc', Some m', Some qs' =>
          x_list (fun q => x_out m' (generative_step sc' m' (fst (fst q)) (snd (fst q)) (snd q))) qs'
      | _, _, _ => bad
      end
  | L [I 6; sc; sts] =>
      match d_scenario sc, d_list d_state sts with
      | Some sc', Some sts' =>
          x_list (fun st => L [x_bool (goal sc' st); x_state (net_reset sc' st);
                               x_bool (state_eqb (net_reset sc' st) (initial_state sc'))]) sts'
      | _, _ => bad
      end
  | L [I 7; sc; items] =>
      match d_scenario sc with
      | Some sc' =>
          match d_list (fun it => match it with
                        | L [f; st; a; r] =>
                            do f' <- d_bool f; do st' <- d_state st; do a' <- d_action a; do r' <- d_result r;
                            Some (x_mat (get_observation sc' st' a' r' f'))
                        | L [f; st] =>
                            do f' <- d_bool f; do st' <- d_state st;
                            Some (x_mat (initial_observation sc' st' f'))
                        | _ => None end) items with
          | Some outs => L outs
          | None => bad
          end
      | None => bad
      end
  | L [I 8; sc; sts] =>
      match d_scenario sc, d_list d_state sts with
      | Some sc', Some sts' =>
          x_list (fun st => L [x_mat (encode_state (layout_of sc') st); x_list x_bool (action_mask sc' st);
                               x_bool (wf_state sc' st)]) sts'
      | _, _ => bad
      end
  | L [I 10; docs] =>
      match docs with
      | L ds =>
          L (map (fun dx => match d_yv dx with
                            | Some doc =>
                                L [x_opt x_scenario (load doc);
                                   x_bool (match doc with YMap d => valid d | _ => false end);
                                   x_bool (match load doc with Some sc => wf_scenario sc | None => false end)]
                            | None => bad end) ds)
      | _ => bad
      end
  | L [I 11; scs] =>
      match d_list d_scenario scs with
      | Some l => x_list (fun sc => L [I (min_hops sc); I (score_upper_bound sc); x_nat (steiner sc);
                                       x_bool (cost_value_domain sc); x_bool (wf_scenario sc)]) l
      | None => bad
      end
  | L [I 12; mops] =>
      match d_list d_mop mops with
      | Some ops =>
          (* the modes needed to print an output are those of the environment the op is about *)
          let modes_of := fix go (ops : list mop) (i : nat) : modes :=
                            match ops with
                            | [] => mkModes false true true
                            | MNew j _ m _ :: r => if Nat.eqb i j then
                                                     (* the LAST construction before use wins; good enough for printing
                                                        because the harness never re-uses an id *)
                                                     m else go r i
                            | _ :: r => go r i
                            end in
          L (map (fun p => match snd p with
                           | MDone => L [I 7]
                           | MUndef => L [I 8]
                           | MNoEnv => L [I 6]
                           | MOut o => x_opout (modes_of ops (match fst p with
                                                              | MNew j _ _ _ | MReinit j | MOp j _ => j end)) o
                           end) (combine ops (run_shared (None, []) ops)))
      | None => bad
      end
  | L [I 13; gp; orc] =>
      match d_gparams gp, d_list d_Z orc with
      | Some p, Some o =>
          match generate p o with
          | Ok sc rest => L [I 0; x_scenario sc; x_nat (length rest); x_bool (wf_scenario sc)]
          | More => L [I 1]
          | Crash w => L [I 2; x_nat w]
          end
      | _, _ => bad
      end
  | L [I 14; sc; segs] =>
      match d_scenario sc,
            d_list (fun g => match g with
                             | L [sts; vals] => do a <- d_list d_state sts; do b <- d_list d_Z vals; Some (a, b)
                             | _ => None end) segs with
      | Some sc', Some gs => x_list (fun g => x_bool (ok_C05_history sc' (fst g) (snd g))) gs
      | _, _ => bad
      end
  | L [I 15; sc] =>
      match d_scenario sc with
      | Some sc' => L [x_bool (solvable sc'); x_list x_action (plan sc'); x_bool (wf_scenario sc')]
      | None => bad
      end
  | L [I 16; nhs] =>
      (* the deterministic skeleton of a generated scenario for each number of hosts *)
      match d_list d_nat nhs with
      | Some l => x_list (fun nh => let sn := gen_subnets nh in
                                    L [x_list x_nat sn; x_list (x_list x_bool) (gen_topology (length sn))]) l
      | None => bad
      end
  | _ => bad
  end.
