(* Dispatch.v -- the single entry point evaluated by both execution paths
   (vm_compute inside Coq, and the extracted OCaml driver).  Definitions only. *)
From NasimV Require Export Wire.

Definition do_run (sc : scenario) (m : modes) (ops : list op) : sx :=
  L [x_bool (wf_scenario sc); x_list (x_opout m) (run sc m ops)].

Definition do_spaces (sc : scenario) : sx :=
  L [x_list x_action (flat sc); x_list x_nat (nvec sc); x_nat (action_space_size sc);
     L [x_nat (fst (state_dims sc)); x_nat (snd (state_dims sc))];
     L [x_nat (fst (obs_dims sc)); x_nat (snd (obs_dims sc))];
     I (obs_low sc); I (obs_high sc); x_bool (wf_scenario sc)].

Definition do_decode (sc : scenario) (vs : list (list nat)) : sx :=
  x_list (fun v => x_opt x_action (decode_param sc v)) vs.

Definition dispatch (cmd : sx) : sx :=
  match cmd with
  | L [I 0; sc; m; ops] =>
      match d_scenario sc, d_modes m, d_list d_op ops with
      | Some sc', Some m', Some ops' => do_run sc' m' ops'
      | _, _, _ => bad
      end
  | L [I 1; sc] =>
      match d_scenario sc with Some sc' => do_spaces sc' | None => bad end
  | L [I 2; sc; vs] =>
      match d_scenario sc, d_list (d_list d_nat) vs with
      | Some sc', Some vs' => do_decode sc' vs'
      | _, _ => bad
      end
  | _ => bad
  end.
