(* Hops.v -- nasim/envs/utils.py get_minimal_hops_to_goal and
   NASimEnv.get_score_upper_bound, plus the specification-side quantity they are
   meant to bound: the least number of hosts that must be compromised.  Definitions only. *)
From NasimV Require Export Env.

Definition INF : Z := 32767.          (* np.iinfo(np.int16).max *)

Definition dist0 (sc : scenario) : list (list Z) :=
  let n := nsubnets sc in
  map (fun s => map (fun t => if Nat.eqb s t then 0 else if connected sc s t then 1 else INF) (seq 0 n)) (seq 0 n).

Definition dget (d : list (list Z)) (i j : nat) : Z := nth j (nth i d []) INF.

(* one pass of the Floyd-Warshall triple loop for a fixed k; the implementation updates
   the matrix in place, row by row and column by column, so later cells of the same pass
   see earlier updates: row k and column k are not changed by pass k (d[k][k] = 0), so
   reading them from the matrix at the start of the pass is the same thing *)
Definition fw_pass (n : nat) (d : list (list Z)) (k : nat) : list (list Z) :=
  map (fun i => map (fun j =>
        let ik := dget d i k in let kj := dget d k j in
        let dis := if (ik =? INF) || (kj =? INF) then INF else ik + kj in
        if dis <? dget d i j then ik + kj else dget d i j) (seq 0 n)) (seq 0 n).

Definition distances (sc : scenario) : list (list Z) :=
  fold_left (fw_pass (nsubnets sc)) (seq 0 (nsubnets sc)) (dist0 sc).

Fixpoint insert_all (x : nat) (l : list nat) : list (list nat) :=
  match l with
  | [] => [[x]]
  | y :: r => (x :: y :: r) :: map (fun t => y :: t) (insert_all x r)
  end.
Fixpoint perms (l : list nat) : list (list nat) :=
  match l with
  | [] => [[]]
  | x :: r => flat_map (insert_all x) (perms r)
  end.

Fixpoint path_sum (d : list (list Z)) (p : list nat) : Z :=
  match p with
  | a :: ((b :: _) as r) => dget d a b + path_sum d r
  | _ => 0
  end.

Fixpoint dedup_nat (l : list nat) (seen : list nat) : list nat :=
  match l with
  | [] => []
  | x :: r => if mem_nat x seen then dedup_nat r seen else x :: dedup_nat r (x :: seen)
  end.

Definition to_visit (sc : scenario) : list nat :=
  O :: dedup_nat (map (fun e => fst (fst e)) (s_sens sc)) [O].

Definition min_hops (sc : scenario) : Z :=
  fold_left Z.min (map (path_sum (distances sc)) (perms (to_visit sc))) INF.

Definition total_sens_value (sc : scenario) : Z := sumZ (map snd (s_sens sc)).
(* after the repair of defect D14 only non-negative discovery values are summed *)
Definition total_disc_value (sc : scenario) : Z := sumZ (map (fun e => Z.max 0 (c_dval (snd e))) (s_hosts sc)).

(* NASimEnv.get_score_upper_bound, in 1/64 units *)
Definition score_upper_bound (sc : scenario) : Z :=
  total_sens_value sc + total_disc_value sc - U * min_hops sc.

(* ---------- specification side ---------- *)
(* a set S of non-internet subnets (as a list) through which all sensitive subnets can be
   reached from the internet: every member is adjacent to the internet or to an earlier
   member of the list (so S with the internet is connected), and all sensitive subnets are in S *)
Fixpoint grows_from_internet (sc : scenario) (seen : list nat) (l : list nat) : bool :=
  match l with
  | [] => true
  | s :: r => existsb (fun t => connected sc t s) seen && grows_from_internet sc (s :: seen) r
  end.

Definition covers (sc : scenario) (S : list nat) : bool :=
  nodupb_nat S && forallb (fun s => Nat.ltb 0 s && Nat.ltb s (nsubnets sc)) S
  && grows_from_internet sc [O] S
  && forallb (fun e => mem_nat (fst (fst e)) S) (s_sens sc).

(* least size of such a set, by enumeration of all subsets (meant for small scenarios) *)
Definition subsets (l : list nat) : list (list nat) :=
  fold_right (fun x acc => acc ++ map (cons x) acc) [[]] l.

Fixpoint grow (sc : scenario) (S : list nat) (seen : list nat) (fuel : nat) : list nat :=
  match fuel with
  | O => seen
  | S f => grow sc S (seen ++ filter (fun s => negb (mem_nat s seen)
                                           && existsb (fun t => connected sc t s) seen) S) f
  end.

Definition subset_ok (sc : scenario) (S : list nat) : bool :=
  forallb (fun s => mem_nat s (grow sc S [O] (length S))) S
  && forallb (fun e => mem_nat (fst (fst e)) S) (s_sens sc).

Definition steiner (sc : scenario) : nat :=
  fold_left Nat.min (map (fun S => length S) (filter (subset_ok sc) (subsets (seq 1 (nsubnets sc - 1)))))
            (nsubnets sc).

(* total reward of a history of environment steps from the initial state, and its final state *)
Fixpoint episode (sc : scenario) (st : state) (l : list (action * Z)) : state * Z :=
  match l with
  | [] => (st, 0)
  | (a, k) :: r =>
      let o := generative_step sc (mkModes true true true) st a k in
      let (stf, tot) := episode sc (o_next o) r in
      (stf, o_reward o + tot)
  end.

Definition cost_value_domain (sc : scenario) : bool :=
  forallb (fun a => U <=? a_cost a) (flat sc)
  && forallb (fun e => mem_addr (fst e) (map fst (s_sens sc)) || (c_val (snd e) <=? U)) (s_hosts sc).

Definition n_compromised (st : state) : nat := length (filter h_comp st).

(* ================= C20 statements ================= *)
(* the advertised hop count exceeds the number of hosts that must be compromised (defect D13):
   a scenario, a goal-reaching history and its final state with fewer compromised hosts
   than the advertised minimum hops *)
Definition C20_hops_le_hosts_refuted_stmt : Prop :=
  exists sc l,
    wf_scenario sc = true /\ Forall (fun p => In (fst p) (flat sc)) l
    /\ goal sc (fst (episode sc (initial_state sc) l)) = true
    /\ Z.of_nat (n_compromised (fst (episode sc (initial_state sc) l))) < min_hops sc.

(* ... and the advertised score upper bound is exceeded by a goal-reaching episode in the
   property's cost/value domain *)
Definition C20_bound_refuted_stmt : Prop :=
  exists sc l,
    wf_scenario sc = true /\ cost_value_domain sc = true
    /\ Forall (fun p => In (fst p) (flat sc)) l
    /\ goal sc (fst (episode sc (initial_state sc) l)) = true
    /\ score_upper_bound sc < snd (episode sc (initial_state sc) l).

(* the advertised bound is what the documentation says it is *)
Definition C20_bound_formula_stmt : Prop :=
  forall sc, score_upper_bound sc = total_sens_value sc + total_disc_value sc - U * min_hops sc.

(* ---------- the witness family: a public hub with k private leaves, all sensitive ---------- *)
Definition star_connected (s t : nat) : bool :=
  Nat.eqb s t || (Nat.leb s 1 && Nat.leb t 1) || (Nat.eqb s 1 && Nat.leb 2 t) || (Nat.eqb t 1 && Nat.leb 2 s).

Definition star (k : nat) : scenario :=
  let n := S (S k) in
  mkSc (replicate n 1%nat)
       (map (fun s => map (fun t => star_connected s t) (seq 0 n)) (seq 0 n))
       1 1 1
       [mkE 0 None TWO53 U 2] []
       U U U U
       (flat_map (fun s => flat_map (fun t => if negb (Nat.eqb s t) && star_connected s t
                                               then [((s, t), [O])] else []) (seq 0 n)) (seq 0 n))
       (map (fun s => ((s, O), mkCfg [true] [true] [true] (if Nat.leb 2 s then 100 * U else 0) 0 []))
            (seq 1 (S k)))
       (map (fun s => ((s, O), 100 * U)) (seq 2 k))
       None (n, 1%nat).

Definition star_exploit (s : nat) : action * Z := (mk_exploit (s, O) (mkE 0 None TWO53 U 2), 0).
Definition star_scan : action * Z := (mk_scan KSubScan (1%nat, O) U, 0).
