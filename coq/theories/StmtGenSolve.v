(* StmtGenSolve.v -- C16 for generated scenarios, the dynamic half: for EVERY parameter set and
   EVERY stream of draws, the scenario the generator returns admits a sequence of actions of the
   flat space that, with succeeding draws, gains root on all sensitive hosts from the initial
   state.  (Hypotheses: the scenario is well formed -- which C15_wf_partial derives from in-range
   probabilities and a positive step limit -- and no exploit / escalation has probability 0.) *)
From NasimV Require Export StmtGen Solve.

Definition C16_generated_stmt : Prop :=
  forall p o sc,
    gen_ok p o sc -> wf_scenario sc = true ->
    Forall (fun e => 0 < e_pz e) (s_exploits sc) -> Forall (fun q => 0 < p_pz q) (s_privescs sc) ->
    exists l, Forall (fun a => In a (flat sc)) l /\ goal sc (replay sc (initial_state sc) l) = true.
