(* Actions.v -- the two action spaces and the action mask (nasim/envs/action.py:
   load_action_list, FlatActionSpace, ParameterisedActionSpace; scenario.exploit_map /
   privesc_map; environment.get_action_mask).  Definitions only. *)
From NasimV Require Export Obs.

Definition host_actions (sc : scenario) (t : addr) : list action :=
  [mk_scan KSrvScan t (s_ssc sc); mk_scan KOsScan t (s_osc sc);
   mk_scan KSubScan t (s_subc sc); mk_scan KProcScan t (s_psc sc)]
  ++ map (mk_exploit t) (s_exploits sc) ++ map (mk_privesc t) (s_privescs sc).

Definition flat (sc : scenario) : list action := flat_map (host_actions sc) (addresses sc).

(* Scenario.get_action_space_size *)
Definition action_space_size (sc : scenario) : nat :=
  (length (s_hosts sc) * (length (s_exploits sc) + length (s_privescs sc) + 4))%nat.

(* ParameterisedActionSpace.nvec *)
Definition nvec (sc : scenario) : list nat :=
  [6%nat; (nsubnets sc - 1)%nat; maxl (s_subnets sc); S (s_nos sc); s_nsrv sc; s_nproc sc].

(* exploit_map[srv][os]: the first definition for that (service, os) pair *)
Definition find_exploit (sc : scenario) (srv : nat) (o : option nat) : option edef :=
  find (fun e => Nat.eqb (e_srv e) srv && opt_nat_eqb (e_os e) o) (s_exploits sc).
Definition find_privesc (sc : scenario) (proc : nat) (o : option nat) : option pdef :=
  find (fun p => Nat.eqb (p_proc p) proc && opt_nat_eqb (p_os p) o) (s_privescs sc).

(* ParameterisedActionSpace.get_action; [None] = the implementation raises *)
Definition decode_param (sc : scenario) (v : list nat) : option action :=
  match v with
  | [ty; s; h; o; sv; pr] =>
    let subnet := S s in
    if negb (Nat.ltb subnet (nsubnets sc)) then None else
    let size := subnet_size sc subnet in
    if Nat.eqb size 0 then None else
    let t := (subnet, Nat.modulo h size) in
    match ty with
    | 2%nat => Some (mk_scan KSrvScan t (s_ssc sc))
    | 3%nat => Some (mk_scan KOsScan t (s_osc sc))
    | 4%nat => Some (mk_scan KSubScan t (s_subc sc))
    | 5%nat => Some (mk_scan KProcScan t (s_psc sc))
    | 0%nat =>
        if negb (Nat.leb o (s_nos sc)) then None else
        if negb (Nat.ltb sv (s_nsrv sc)) then None else
        let os := match o with O => None | S o' => Some o' end in
        Some (match find_exploit sc sv os with Some e => mk_exploit t e | None => noop end)
    | 1%nat =>
        if negb (Nat.leb o (s_nos sc)) then None else
        if negb (Nat.ltb pr (s_nproc sc)) then None else
        let os := match o with O => None | S o' => Some o' end in
        Some (match find_privesc sc pr os with Some p => mk_privesc t p | None => noop end)
    | _ => None
    end
  | _ => None
  end.

(* NASimEnv.get_action_mask (after the repair of defect D5) *)
Definition action_mask (sc : scenario) (st : state) : list bool :=
  map (fun a => h_disc (get_row sc st (a_tgt a))) (flat sc).
