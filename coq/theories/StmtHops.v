(* StmtHops.v -- the part of C20 that DOES hold of the model, for every scenario of the
   cost/value domain and every goal-reaching history: the total reward never exceeds
   (total sensitive value) + (total non-negative discovery value) - (number of sensitive hosts),
   because every host that is rooted needs a step of its own costing at least 1 and a
   non-sensitive host returns at most 1.  Hence the advertised bound S + D - hops is valid
   exactly as far as hops <= number of sensitive hosts; beyond that it is refuted (C20_bound_refuted). *)
From NasimV Require Export Hops.

Definition C20_sound_bound_stmt : Prop :=
  forall sc l,
    wf_scenario sc = true -> cost_value_domain sc = true ->
    Forall (fun p => In (fst p) (flat sc)) l ->
    goal sc (fst (episode sc (initial_state sc) l)) = true ->
    snd (episode sc (initial_state sc) l)
    <= total_sens_value sc + total_disc_value sc - U * Z.of_nat (length (s_sens sc)).

Definition C20_advertised_bound_valid_when_stmt : Prop :=
  forall sc l,
    wf_scenario sc = true -> cost_value_domain sc = true ->
    Forall (fun p => In (fst p) (flat sc)) l ->
    goal sc (fst (episode sc (initial_state sc) l)) = true ->
    min_hops sc <= Z.of_nat (length (s_sens sc)) ->
    snd (episode sc (initial_state sc) l) <= score_upper_bound sc.
