(* Network.v -- network-level dynamics (nasim/envs/network.py).  Definitions only.
   The state is positional: row i belongs to the i-th address of the scenario's
   address space (host_num_map); the address columns stored in a row are never
   consulted by the dynamics, exactly as in the implementation. *)
From NasimV Require Export Host.

Definition state := list hrow.

Definition dummy_row : hrow := mkRow (O, O) false false false 0 0 O [] [] [].

Definition rows (sc : scenario) (st : state) : list (addr * hrow) := combine (addresses sc) st.

Definition get_row (sc : scenario) (st : state) (a : addr) : hrow :=
  match find (fun p => addr_eqb (fst p) a) (rows sc st) with
  | Some p => snd p
  | None => dummy_row
  end.

Definition map_rows (sc : scenario) (f : addr -> hrow -> hrow) (st : state) : state :=
  map (fun p => f (fst p) (snd p)) (rows sc st).

Definition set_row (sc : scenario) (st : state) (a : addr) (h' : hrow) : state :=
  map_rows sc (fun x h => if addr_eqb x a then h' else h) st.

(* ---------- initial state and reset ---------- *)
Definition init_row (sc : scenario) (a : addr) (c : hostcfg) : hrow :=
  let p := subnet_public sc (fst a) in
  mkRow a false p p (c_val c) (c_dval c) O (c_os c) (c_srv c) (c_proc c).

Definition initial_state (sc : scenario) : state :=
  map (fun e => init_row sc (fst e) (snd e)) (s_hosts sc).

Definition reset_row (sc : scenario) (a : addr) (h : hrow) : hrow :=
  let p := subnet_public sc (fst a) in
  mkRow (h_addr h) false p p (h_val h) (h_dval h) O (h_os h) (h_srv h) (h_proc h).

Definition net_reset (sc : scenario) (st : state) : state := map_rows sc (reset_row sc) st.

(* ---------- firewall predicates ---------- *)
Definition fw_allows (sc : scenario) (s t srv : nat) : bool :=
  match assoc (s, t) (s_fw sc) with Some l => mem_nat srv l | None => false end.

Definition subnet_traffic_permitted (sc : scenario) (s t srv : nat) : bool :=
  if Nat.eqb s t then true
  else if negb (connected sc s t) then false
  else fw_allows sc s t srv.

Definition host_denies (sc : scenario) (src dst : addr) (srv : nat) : bool :=
  match host_cfg sc dst with
  | Some c => match assoc src (c_fw c) with Some l => mem_nat srv l | None => false end
  | None => false
  end.

Definition has_access (h : hrow) (lvl : nat) : bool := Nat.leb lvl (h_acc h).

Definition has_remote_perm (sc : scenario) (st : state) (a : action) : bool :=
  if subnet_public sc (fst (a_tgt a)) then true
  else existsb (fun p =>
         h_comp (snd p)
         && (negb (is_scan a) || connected sc (fst (fst p)) (fst (a_tgt a)))
         && (negb (is_exploit a) || subnet_traffic_permitted sc (fst (fst p)) (fst (a_tgt a)) (a_srv a))
         && has_access (snd p) (a_req a)) (rows sc st).

(* After the repair of defect D1: the internet is an explicit source for public
   targets, and otherwise only compromised hosts are sources. *)
Definition traffic_permitted (sc : scenario) (st : state) (t : addr) (srv : nat) : bool :=
  (subnet_public sc (fst t) && subnet_traffic_permitted sc O (fst t) srv)
  || existsb (fun p =>
       h_comp (snd p)
       && subnet_traffic_permitted sc (fst (fst p)) (fst t) srv
       && negb (host_denies sc (fst p) t srv)) (rows sc st).

(* ---------- subnet scan ---------- *)
Definition scan_hits (sc : scenario) (tsub : nat) (x : addr) : bool := connected sc tsub (fst x).

Definition subnet_scan (sc : scenario) (st : state) (a : action) : state * result :=
  let t := get_row sc st (a_tgt a) in
  if negb (h_comp t) then (st, res_conn)
  else if negb (has_access t (a_req a)) then (st, res_perm)
  else
    let tsub := fst (a_tgt a) in
    let disc := map (fun p => scan_hits sc tsub (fst p)) (rows sc st) in
    let newly := map (fun p => scan_hits sc tsub (fst p) && negb (h_disc (snd p))) (rows sc st) in
    let value := sumZ (map (fun p => if scan_hits sc tsub (fst p) && negb (h_disc (snd p))
                                     then h_dval (snd p) else 0) (rows sc st)) in
    let st' := map_rows sc (fun x h => if scan_hits sc tsub x then set_disc h true else h) st in
    (st', mkRes true value false false false None None None None disc newly).

Definition update_reachable (sc : scenario) (st : state) (csub : nat) : state :=
  map_rows sc (fun x h => if h_reach h then h
                          else if connected sc csub (fst x) then set_reach h true else h) st.

(* ---------- the chance gate ---------- *)
(* rand() = k * 2^-53; after the repair of defect D3 the action fails by chance
   iff rand() >= prob, i.e. iff k >= ceil(prob * 2^53) = a_pz. *)
Definition chance_fails (a : action) (k : Z) : bool := a_pz a <=? k.

(* ---------- Network.perform_action ---------- *)
(* third component: whether np.random.rand() was called *)
Definition perform_action (sc : scenario) (st : state) (a : action) (k : Z)
  : state * result * bool :=
  if is_noop a then (st, res_plain true, false) else
  let t := get_row sc st (a_tgt a) in
  if negb (h_reach t) || negb (h_disc t) then (st, res_conn, false) else
  if is_remote a && negb (has_remote_perm sc st a) then (st, res_perm, false) else
  if is_exploit a && negb (traffic_permitted sc st (a_tgt a) (a_srv a)) then (st, res_conn, false) else
  if is_privesc a && negb (h_comp t) then (st, res_conn, false) else
  let skip := is_exploit a && h_comp t in
  if negb skip && chance_fails a k then (st, res_undef, true) else
  if is_subnet_scan a then
    let (st', r) := subnet_scan sc st a in (st', r, negb skip)
  else
    let (t', r) := host_perform t a in
    let st1 := set_row sc st (a_tgt a) t' in
    let st2 := if is_exploit a && r_success r then update_reachable sc st1 (fst (a_tgt a)) else st1 in
    (st2, r, negb skip).

Definition goal (sc : scenario) (st : state) : bool :=
  forallb (fun e => has_access (get_row sc st (fst e)) ROOT) (s_sens sc).

(* ---------- well-formed states ---------- *)
Definition cfg_matches (a : addr) (c : hostcfg) (h : hrow) : bool :=
  addr_eqb (h_addr h) a && (h_val h =? c_val c) && (h_dval h =? c_dval c)
  && list_eqb Bool.eqb (h_os h) (c_os c) && list_eqb Bool.eqb (h_srv h) (c_srv c)
  && list_eqb Bool.eqb (h_proc h) (c_proc c).

Definition wf_state (sc : scenario) (st : state) : bool :=
  Nat.eqb (length st) (length (s_hosts sc))
  && forallb (fun p => cfg_matches (fst (fst p)) (snd (fst p)) (snd p) && Nat.leb (h_acc (snd p)) 2)
             (combine (s_hosts sc) st).
