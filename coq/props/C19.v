(* C19: property theorems only; statements in theories/Multi.v *)
From NasimV Require Import Multi.
From NasimV.proofs Require Import PC19.

Theorem C19_spec_independent : C19_spec_independent_stmt.
Proof. exact C19_spec_independent_proof. Qed.
Print Assumptions C19_spec_independent.

Theorem C19_same_layout_safe : C19_same_layout_safe_stmt.
Proof. exact C19_same_layout_safe_proof. Qed.
Print Assumptions C19_same_layout_safe.

Theorem C19_same_layout_independent : C19_same_layout_independent_stmt.
Proof. exact C19_same_layout_independent_proof. Qed.
Print Assumptions C19_same_layout_independent.

Theorem C19_independent_refuted : C19_independent_refuted_stmt.
Proof. exact C19_independent_refuted_proof. Qed.
Print Assumptions C19_independent_refuted.

