(* C16: property theorems only; statements in theories/Solve.v; the kernel-checked fact about the shipped files is gen/Shipped.v, regenerated every run *)
From NasimV Require Import Solve.
From NasimV.proofs Require Import PC16.

Theorem C16_plan_sound : C16_plan_sound_stmt.
Proof. exact C16_plan_sound_proof. Qed.
Print Assumptions C16_plan_sound.

(* ---- completeness of the closure (proofs/PC16b.v) ----
   The statements in theories/StmtSolve.v quantify over arbitrary integer draws and are FALSE
   (a draw of -1 lets a probability-0 action succeed): kept visible, refuted below; the repaired
   statements restrict histories to the model's range of rand(), 0 <= k. *)
From NasimV Require Import StmtSolve.
From NasimV.proofs Require Import PC16b.

Theorem C16_closure_complete :
  forall sc l,
    wf_scenario sc = true -> closed sc (fst (solve sc)) = true ->
    Forall (fun p => In (fst p) (flat sc) /\ 0 <= snd p)%Z l ->
    state_le sc (fst (run_steps sc (initial_state sc) l)) (fst (solve sc)).
Proof. exact C16_closure_complete_nonneg_proof. Qed.
Print Assumptions C16_closure_complete.

Theorem C16_unsolvable_means_unreachable :
  forall sc l,
    wf_scenario sc = true -> closed sc (fst (solve sc)) = true -> solvable sc = false ->
    Forall (fun p => In (fst p) (flat sc) /\ 0 <= snd p)%Z l ->
    goal sc (fst (run_steps sc (initial_state sc) l)) = false.
Proof. exact C16_unsolvable_means_unreachable_nonneg_proof. Qed.
Print Assumptions C16_unsolvable_means_unreachable.

Theorem C16_closure_complete_unrestricted_refuted : ~ C16_closure_complete_stmt.
Proof. exact C16_closure_complete_stmt_refuted. Qed.
Print Assumptions C16_closure_complete_unrestricted_refuted.

(* ---- the structural half of "generated scenarios are solvable" (proofs/PGen4.v), for all
   parameter sets and all streams of draws ---- *)
From NasimV Require Import StmtGen.
From NasimV.proofs Require Import PGen4.

Theorem C16_gen_sensitive_root_vulnerable :
  forall p o sc, gen_ok p o sc ->
    forall a v, In (a, v) (s_sens sc) -> exists c, In (a, c) (s_hosts sc) /\ cfg_root_vulnerable sc c = true.
Proof. exact PGen4.C16_gen_sensitive_root_vulnerable. Qed.
Print Assumptions C16_gen_sensitive_root_vulnerable.

Theorem C16_gen_every_subnet_vulnerable :
  forall p o sc, gen_ok p o sc ->
    forall t, (1 <= t < nsubnets sc)%nat ->
      exists a c e, In (a, c) (s_hosts sc) /\ fst a = t /\ In e (s_exploits sc) /\ cfg_vuln_e c e = true.
Proof. exact PGen4.C16_gen_every_subnet_vulnerable. Qed.
Print Assumptions C16_gen_every_subnet_vulnerable.

Theorem C16_gen_firewall_admits_usable_service :
  forall p o sc, gen_ok p o sc ->
    forall s t l, assoc (s, t) (s_fw sc) = Some l -> (1 <= t)%nat ->
      exists srv a c e, In srv l /\ In (a, c) (s_hosts sc) /\ fst a = t /\ In e (s_exploits sc)
                        /\ e_srv e = srv /\ cfg_vuln_e c e = true.
Proof. exact PGen4.C16_gen_firewall_admits_usable_service. Qed.
Print Assumptions C16_gen_firewall_admits_usable_service.

(* ---- the dynamic half for generated scenarios (proofs/PGen5.v): for EVERY parameter set and EVERY
   stream of draws the returned scenario admits a sequence of actions of the flat space that, with
   succeeding draws, gains root on all sensitive hosts from the initial state ---- *)
From NasimV Require Import StmtGenSolve.
From NasimV.proofs Require Import PGen5.

Theorem C16_generated : C16_generated_stmt.
Proof. exact C16_generated_proof. Qed.
Print Assumptions C16_generated.
