(* C16: property theorems only; statements in theories/Solve.v; the kernel-checked fact about the shipped files is gen/Shipped.v, regenerated every run *)
From NasimV Require Import Solve.
From NasimV.proofs Require Import PC16.

Theorem C16_plan_sound : C16_plan_sound_stmt.
Proof. exact C16_plan_sound_proof. Qed.
Print Assumptions C16_plan_sound.

