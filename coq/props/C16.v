(* C16: property theorems only; statements in theories/Solve.v; the kernel-checked fact about the shipped files is gen/Shipped.v, regenerated every run *)
From NasimV Require Import Solve.
From NasimV.proofs Require Import PC16.

Theorem C16_plan_sound : C16_plan_sound_stmt.
Proof. exact C16_plan_sound_proof. Qed.
Print Assumptions C16_plan_sound.

(* ---- completeness of the closure (proofs/PC16b.v) ----
   The statements in theories/StmtSolve.v quantify over arbitrary integer draws and are FALSE
   (a draw of -1 lets a probability-0 action succeed): kept visible, refuted below; the repaired
   statements restrict histories to the model's range of rand(), 0 <= k. *)
From NasimV Require Import StmtSolve.
From NasimV.proofs Require Import PC16b.

Theorem C16_closure_complete :
  forall sc l,
    wf_scenario sc = true -> closed sc (fst (solve sc)) = true ->
    Forall (fun p => In (fst p) (flat sc) /\ 0 <= snd p)%Z l ->
    state_le sc (fst (run_steps sc (initial_state sc) l)) (fst (solve sc)).
Proof. exact C16_closure_complete_nonneg_proof. Qed.
Print Assumptions C16_closure_complete.

Theorem C16_unsolvable_means_unreachable :
  forall sc l,
    wf_scenario sc = true -> closed sc (fst (solve sc)) = true -> solvable sc = false ->
    Forall (fun p => In (fst p) (flat sc) /\ 0 <= snd p)%Z l ->
    goal sc (fst (run_steps sc (initial_state sc) l)) = false.
Proof. exact C16_unsolvable_means_unreachable_nonneg_proof. Qed.
Print Assumptions C16_unsolvable_means_unreachable.

Theorem C16_closure_complete_unrestricted_refuted : ~ C16_closure_complete_stmt.
Proof. exact C16_closure_complete_stmt_refuted. Qed.
Print Assumptions C16_closure_complete_unrestricted_refuted.
