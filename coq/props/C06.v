(* C06: property theorems only; statements in theories/StmtDyn.v, proofs in proofs/PC06C07.v *)
From NasimV Require Import StmtDyn.
From NasimV.proofs Require Import PC06C07.

Theorem C06_done_iff_goal : C06_done_iff_goal_stmt.
Proof. exact C06_done_iff_goal_proof. Qed.
Print Assumptions C06_done_iff_goal.

Theorem C06_steps : C06_steps_stmt.
Proof. exact C06_steps_proof. Qed.
Print Assumptions C06_steps.

Theorem C06_limit : C06_limit_stmt.
Proof. exact C06_limit_proof. Qed.
Print Assumptions C06_limit.

(* the boolean monitor that judges implementation steps for this property is passed by every
   step of the model *)
From NasimV Require Import Monitors.
From NasimV.proofs Require Import PMonitors.
Theorem monitor_C06_sound : forall sc st a k, ok_C06 sc (model_rec sc st a k) = true.
Proof. exact model_passes_C06. Qed.
Print Assumptions monitor_C06_sound.
