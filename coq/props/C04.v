(* C04: property theorems only; statements in theories/StmtDyn.v, proofs in proofs/PC04.v *)
From NasimV Require Import StmtDyn.
From NasimV.proofs Require Import PC04.

Theorem C04_monotone : C04_monotone_stmt.
Proof. exact C04_monotone_proof. Qed.
Print Assumptions C04_monotone.

Theorem C04_config_frame : C04_config_frame_stmt.
Proof. exact C04_config_frame_proof. Qed.
Print Assumptions C04_config_frame.

Theorem C04_wf_preserved : C04_wf_preserved_stmt.
Proof. exact C04_wf_preserved_proof. Qed.
Print Assumptions C04_wf_preserved.

Theorem C04_reset_is_init : C04_reset_is_init_stmt.
Proof. exact C04_reset_is_init_proof. Qed.
Print Assumptions C04_reset_is_init.

Theorem C04_reset_after_any_history : C04_reset_after_any_history_stmt.
Proof. exact C04_reset_after_any_history_proof. Qed.
Print Assumptions C04_reset_after_any_history.

(* the boolean monitor that judges implementation steps for this property is passed by every
   step of the model (so the monitor demands nothing the theorems do not) *)
From NasimV Require Import Monitors.
From NasimV.proofs Require Import PMonitors.
Theorem monitor_C04_sound :
  forall sc st a k, wf_scenario sc = true -> wf_state sc st = true -> act_ok sc a ->
    ok_C04 sc (model_rec sc st a k) = true.
Proof. intros sc st a k WF WS A. exact (model_passes_C04 sc st a k WF WS A). Qed.
Print Assumptions monitor_C04_sound.
