(* C13: property theorems only; statements in theories/StmtDyn.v, proofs in proofs/PC06C07.v *)
From NasimV Require Import StmtDyn.
From NasimV.proofs Require Import PC06C07.

Theorem C13_genstep_pure : C13_genstep_pure_stmt.
Proof. exact C13_genstep_pure_proof. Qed.
Print Assumptions C13_genstep_pure.

Theorem C13_step_is_genstep : C13_step_is_genstep_stmt.
Proof. exact C13_step_is_genstep_proof. Qed.
Print Assumptions C13_step_is_genstep.

