(* C01: property theorems only; statements in theories/StmtDyn.v, proofs in proofs/PC01C02.v *)
From NasimV Require Import StmtDyn.
From NasimV.proofs Require Import PC01C02.

Theorem C01_frame : C01_frame_stmt.
Proof. exact C01_frame_proof. Qed.
Print Assumptions C01_frame.

Theorem C01_exploit_must_succeed : C01_exploit_must_succeed_stmt.
Proof. exact C01_exploit_must_succeed_proof. Qed.
Print Assumptions C01_exploit_must_succeed.

Theorem C01_privesc_must_succeed : C01_privesc_must_succeed_stmt.
Proof. exact C01_privesc_must_succeed_proof. Qed.
Print Assumptions C01_privesc_must_succeed.

Theorem C01_scans_inert : C01_scans_inert_stmt.
Proof. exact C01_scans_inert_proof. Qed.
Print Assumptions C01_scans_inert.

(* the boolean monitor that judges implementation steps for this property is passed by every
   step of the model (so the monitor demands nothing the theorems do not) *)
From NasimV Require Import Monitors.
From NasimV.proofs Require Import PMonitors.
Theorem monitor_C01_sound :
  forall sc st a k, wf_scenario sc = true -> wf_state sc st = true -> act_ok sc a ->
    ok_C01 sc (model_rec sc st a k) = true.
Proof. intros sc st a k WF WS A. exact (model_passes_C01 sc st a k WF WS A). Qed.
Print Assumptions monitor_C01_sound.
