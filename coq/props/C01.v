(* C01: property theorems only; statements in theories/StmtDyn.v, proofs in proofs/PC01C02.v *)
From NasimV Require Import StmtDyn.
From NasimV.proofs Require Import PC01C02.

Theorem C01_frame : C01_frame_stmt.
Proof. exact C01_frame_proof. Qed.
Print Assumptions C01_frame.

Theorem C01_exploit_must_succeed : C01_exploit_must_succeed_stmt.
Proof. exact C01_exploit_must_succeed_proof. Qed.
Print Assumptions C01_exploit_must_succeed.

Theorem C01_privesc_must_succeed : C01_privesc_must_succeed_stmt.
Proof. exact C01_privesc_must_succeed_proof. Qed.
Print Assumptions C01_privesc_must_succeed.

Theorem C01_scans_inert : C01_scans_inert_stmt.
Proof. exact C01_scans_inert_proof. Qed.
Print Assumptions C01_scans_inert.

