(* C03: property theorems only; statements in theories/StmtDyn.v, proofs in proofs/PC03, PC03run.v *)
From NasimV Require Import StmtDyn.
From NasimV.proofs Require Import PC03 PC03run.

Theorem C03_reset : C03_reset_stmt.
Proof. exact C03_reset_proof. Qed.
Print Assumptions C03_reset.

Theorem C03_step : C03_step_stmt.
Proof. exact C03_step_proof. Qed.
Print Assumptions C03_step.

Theorem C03_discovery_only_by_scan : C03_discovery_only_by_scan_stmt.
Proof. exact C03_discovery_only_by_scan_proof. Qed.
Print Assumptions C03_discovery_only_by_scan.

Theorem C03_scan_discovers_exactly : C03_scan_discovers_exactly_stmt.
Proof. exact C03_scan_discovers_exactly_proof. Qed.
Print Assumptions C03_scan_discovers_exactly.

Theorem C03_run : C03_run_stmt.
Proof. exact C03_run_proof. Qed.
Print Assumptions C03_run.

(* the boolean monitor that judges implementation steps for this property is passed by every
   step of the model (so the monitor demands nothing the theorems do not) *)
From NasimV Require Import Monitors.
From NasimV.proofs Require Import PMonitors.
Theorem monitor_C03_sound :
  forall sc st a k, wf_scenario sc = true -> wf_state sc st = true -> act_ok sc a ->
    ok_C03 sc (model_rec sc st a k) = true.
Proof. intros sc st a k WF WS A. exact (model_passes_C03 sc st a k WF WS A). Qed.
Print Assumptions monitor_C03_sound.

Theorem monitor_C03_state_sound :
  forall sc st a k, wf_scenario sc = true -> wf_state sc st = true -> act_ok sc a ->
    ok_C03_state sc (model_rec sc st a k) = true.
Proof. exact model_passes_C03_state. Qed.
Print Assumptions monitor_C03_state_sound.
