(* C08: property theorems only; statements in theories/StmtObs.v, proofs in proofs/PC08.v *)
From NasimV Require Import StmtObs.
From NasimV.proofs Require Import PC08.

Theorem C08_exact : C08_exact_stmt.
Proof. exact C08_exact_proof. Qed.
Print Assumptions C08_exact.

Theorem C08_truthful : C08_truthful_stmt.
Proof. exact C08_truthful_proof. Qed.
Print Assumptions C08_truthful.

Theorem C08_failure_blind : C08_failure_blind_stmt.
Proof. exact C08_failure_blind_proof. Qed.
Print Assumptions C08_failure_blind.

Theorem C08_full : C08_full_stmt.
Proof. exact C08_full_proof. Qed.
Print Assumptions C08_full.

Theorem C08_aux : C08_aux_stmt.
Proof. exact C08_aux_proof. Qed.
Print Assumptions C08_aux.

Theorem C08_initial : C08_initial_stmt.
Proof. exact C08_initial_proof. Qed.
Print Assumptions C08_initial.

