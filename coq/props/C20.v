(* C20: property theorems only; statements in theories/Hops.v, proofs in proofs/PC20.v.
   The property's full statement is REFUTED for the faithful model (defect D13): the two
   *_refuted theorems exhibit kernel-checked witnesses. *)
From NasimV Require Import Hops.
From NasimV.proofs Require Import PC20.

Theorem C20_hops_le_hosts_refuted : C20_hops_le_hosts_refuted_stmt.
Proof. exact C20_hops_le_hosts_refuted_proof. Qed.
Print Assumptions C20_hops_le_hosts_refuted.

Theorem C20_bound_refuted : C20_bound_refuted_stmt.
Proof. exact C20_bound_refuted_proof. Qed.
Print Assumptions C20_bound_refuted.

Theorem C20_bound_formula : C20_bound_formula_stmt.
Proof. exact C20_bound_formula_proof. Qed.
Print Assumptions C20_bound_formula.

(* What DOES hold, for every scenario of the cost/value domain and every goal-reaching history
   (statements in theories/StmtHops.v, proofs in proofs/PC20b.v). *)
From NasimV Require Import StmtHops.
From NasimV.proofs Require Import PC20b.

Theorem C20_sound_bound : C20_sound_bound_stmt.
Proof. exact C20_sound_bound_proof. Qed.
Print Assumptions C20_sound_bound.

Theorem C20_advertised_bound_valid_when : C20_advertised_bound_valid_when_stmt.
Proof. exact C20_advertised_bound_valid_when_proof. Qed.
Print Assumptions C20_advertised_bound_valid_when.
