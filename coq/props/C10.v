(* C10: property theorems only; statements in theories/StmtObs.v, proofs in proofs/PC09C10, PC11C12.v *)
From NasimV Require Import StmtObs.
From NasimV.proofs Require Import PC09C10 PC11C12.

Theorem C10_in_bounds : C10_in_bounds_stmt.
Proof. exact C10_in_bounds_proof. Qed.
Print Assumptions C10_in_bounds.

Theorem C10_shape : C10_shape_stmt.
Proof. exact C10_shape_proof. Qed.
Print Assumptions C10_shape.

Theorem C10_actions_total : C10_actions_total_stmt.
Proof. exact C10_actions_total_proof. Qed.
Print Assumptions C10_actions_total.

