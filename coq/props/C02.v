(* C02: property theorems only; statements in theories/StmtDyn.v, proofs in proofs/PC01C02.v *)
From NasimV Require Import StmtDyn.
From NasimV.proofs Require Import PC01C02.

Theorem C02_unreached_fails : C02_unreached_fails_stmt.
Proof. exact C02_unreached_fails_proof. Qed.
Print Assumptions C02_unreached_fails.

Theorem C02_remote_needs_pivot : C02_remote_needs_pivot_stmt.
Proof. exact C02_remote_needs_pivot_proof. Qed.
Print Assumptions C02_remote_needs_pivot.

Theorem C02_exploit_needs_admission : C02_exploit_needs_admission_stmt.
Proof. exact C02_exploit_needs_admission_proof. Qed.
Print Assumptions C02_exploit_needs_admission.

Theorem C02_onhost_needs_access : C02_onhost_needs_access_stmt.
Proof. exact C02_onhost_needs_access_proof. Qed.
Print Assumptions C02_onhost_needs_access.

Theorem C02_failure_changes_nothing : C02_failure_changes_nothing_stmt.
Proof. exact C02_failure_changes_nothing_proof. Qed.
Print Assumptions C02_failure_changes_nothing.

(* the boolean monitor that judges implementation steps for this property is passed by every
   step of the model (so the monitor demands nothing the theorems do not) *)
From NasimV Require Import Monitors.
From NasimV.proofs Require Import PMonitors.
Theorem monitor_C02_sound :
  forall sc st a k, wf_scenario sc = true -> wf_state sc st = true -> act_ok sc a ->
    ok_C02 sc (model_rec sc st a k) = true.
Proof. intros sc st a k WF WS A. exact (model_passes_C02 sc st a k WF WS). Qed.
Print Assumptions monitor_C02_sound.
