(* C17: property theorems only; statements in theories/Format.v, proofs in proofs/PC17C18.v *)
From NasimV Require Import Format.
From NasimV.proofs Require Import PC17C18.

Theorem C17_accepts_and_means : C17_accepts_and_means_stmt.
Proof. exact C17_accepts_and_means_proof. Qed.
Print Assumptions C17_accepts_and_means.

Theorem C17_components : C17_components_stmt.
Proof. exact C17_components_proof. Qed.
Print Assumptions C17_components.

Theorem C17_host_firewall : C17_host_firewall_stmt.
Proof. exact C17_host_firewall_proof. Qed.
Print Assumptions C17_host_firewall.

Theorem C17_prob_one_ok : C17_prob_one_ok_stmt.
Proof. exact C17_prob_one_ok_proof. Qed.
Print Assumptions C17_prob_one_ok.

