(* C11: property theorems only; statements in theories/StmtObs.v, proofs in proofs/PC11C12.v *)
From NasimV Require Import StmtObs.
From NasimV.proofs Require Import PC11C12.

Theorem C11_flat_length : C11_flat_length_stmt.
Proof. exact C11_flat_length_proof. Qed.
Print Assumptions C11_flat_length.

Theorem C11_flat_index : C11_flat_index_stmt.
Proof. exact C11_flat_index_proof. Qed.
Print Assumptions C11_flat_index.

Theorem C11_param : C11_param_stmt.
Proof. exact C11_param_proof. Qed.
Print Assumptions C11_param.

Theorem C11_mask : C11_mask_stmt.
Proof. exact C11_mask_proof. Qed.
Print Assumptions C11_mask.

