(* C14: property theorems only; statements in theories/StmtGen.v and proofs/PC14.v *)
From NasimV Require Import StmtDyn StmtGen.
From NasimV.proofs Require Import PGen2 PC14.

Theorem C14_prefix : C14_prefix_stmt.
Proof. exact C14_prefix_proof. Qed.
Print Assumptions C14_prefix.

Theorem C14_draw_consumption : C14_draw_consumption_stmt.
Proof. exact C14_draw_consumption_proof. Qed.
Print Assumptions C14_draw_consumption.

