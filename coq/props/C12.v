(* C12: property theorems only; statements in theories/StmtDyn, StmtObs.v, proofs in proofs/PC06C07, PC11C12, PC08.v *)
From NasimV Require Import StmtDyn StmtObs.
From NasimV.proofs Require Import PC06C07 PC11C12 PC08.

Theorem C12_step_mode_independent : C12_step_mode_independent_stmt.
Proof. exact C12_step_mode_independent_proof. Qed.
Print Assumptions C12_step_mode_independent.

Theorem C12_run_mode_independent : C12_run_mode_independent_stmt.
Proof. exact C12_run_mode_independent_proof. Qed.
Print Assumptions C12_run_mode_independent.

Theorem C12_obs_relation : C12_obs_relation_stmt.
Proof. exact C12_obs_relation_proof. Qed.
Print Assumptions C12_obs_relation.

