(* C18: property theorems only; statements in theories/Format.v, proofs in proofs/PC17C18.v *)
From NasimV Require Import Format.
From NasimV.proofs Require Import PC17C18.

Theorem C18_rejects : C18_rejects_stmt.
Proof. exact C18_rejects_proof. Qed.
Print Assumptions C18_rejects.

Theorem C18_rules : C18_rules_stmt.
Proof. exact C18_rules_proof. Qed.
Print Assumptions C18_rules.

Theorem C18_exploit_rule : C18_exploit_rule_stmt.
Proof. exact C18_exploit_rule_proof. Qed.
Print Assumptions C18_exploit_rule.

Theorem C18_host_rule : C18_host_rule_stmt.
Proof. exact C18_host_rule_proof. Qed.
Print Assumptions C18_host_rule.

