(* C15: property theorems only; statements in theories/StmtGen.v *)
From NasimV Require Import StmtGen.
From NasimV.proofs Require Import PGen1 PGen2.

Theorem C15_shape : C15_shape_stmt.
Proof. exact C15_shape_proof. Qed.
Print Assumptions C15_shape.

Theorem C15_topology : C15_topology_stmt.
Proof. exact C15_topology_proof. Qed.
Print Assumptions C15_topology.

Theorem C15_hosts : C15_hosts_stmt.
Proof. exact C15_hosts_proof. Qed.
Print Assumptions C15_hosts.

Theorem C15_sensitive : C15_sensitive_stmt.
Proof. exact C15_sensitive_proof. Qed.
Print Assumptions C15_sensitive.

Theorem C15_no_crash : C15_no_crash_stmt.
Proof. exact C15_no_crash_proof. Qed.
Print Assumptions C15_no_crash.

Theorem C15_dead_end_refuted : C15_dead_end_refuted_stmt.
Proof. exact C15_dead_end_refuted_proof. Qed.
Print Assumptions C15_dead_end_refuted.

Theorem C15_alphaV_one_refuted : C15_alphaV_one_refuted_stmt.
Proof. exact C15_alphaV_one_refuted_proof. Qed.
Print Assumptions C15_alphaV_one_refuted.

(* ---- added after proofs/PGen3.v ---- *)
From NasimV.proofs Require Import PGen3.

Theorem C15_actions : C15_actions_stmt.
Proof. exact C15_actions_proof. Qed.
Print Assumptions C15_actions.

Theorem C15_firewall : C15_firewall_stmt.
Proof. exact C15_firewall_proof. Qed.
Print Assumptions C15_firewall.

(* The unconditional statement C15_wf_stmt (StmtGen.v) is FALSE of the model: the generator accepts
   a step limit of 0 and the model's parameter record does not restrict fixed probabilities; the two
   theorems below are the partial forms that hold, and C15_wf_refuted records the counterexample. *)
Theorem C15_wf_partial :
  forall p o sc, gen_ok p o sc ->
    Forall (fun e => (0 <= e_pz e <= TWO53)%Z) (s_exploits sc) ->
    Forall (fun q => (0 <= p_pz q <= TWO53)%Z) (s_privescs sc) ->
    match g_limit p with Some l => (0 < l)%nat | None => True end ->
    wf_scenario sc = true.
Proof. exact C15_wf_partial_proof. Qed.
Print Assumptions C15_wf_partial.

Theorem C15_wf_conditional :
  forall p o sc, gen_ok p o sc ->
    probspec_in_range (g_eprobs p) -> probspec_in_range (g_pprobs p) ->
    match g_limit p with Some l => (0 < l)%nat | None => True end ->
    wf_scenario sc = true.
Proof. exact C15_wf_conditional_proof. Qed.
Print Assumptions C15_wf_conditional.

Theorem C15_wf_refuted : ~ C15_wf_stmt.
Proof. exact PGen3.C15_wf_refuted. Qed.
Print Assumptions C15_wf_refuted.
