(* C09: property theorems only; statements in theories/StmtObs.v, proofs in proofs/PC09C10.v *)
From NasimV Require Import StmtObs.
From NasimV.proofs Require Import PC09C10.

Theorem C09_layout_order : C09_layout_order_stmt.
Proof. exact C09_layout_order_proof. Qed.
Print Assumptions C09_layout_order.

Theorem C09_dims : C09_dims_stmt.
Proof. exact C09_dims_proof. Qed.
Print Assumptions C09_dims.

Theorem C09_encode_entries : C09_encode_entries_stmt.
Proof. exact C09_encode_entries_proof. Qed.
Print Assumptions C09_encode_entries.

Theorem C09_roundtrip : C09_roundtrip_stmt.
Proof. exact C09_roundtrip_proof. Qed.
Print Assumptions C09_roundtrip.

Theorem C09_initial_decodes_to_scenario : C09_initial_decodes_to_scenario_stmt.
Proof. exact C09_initial_decodes_to_scenario_proof. Qed.
Print Assumptions C09_initial_decodes_to_scenario.

Theorem C09_wf_state_fits : C09_wf_state_fits_stmt.
Proof. exact C09_wf_state_fits_proof. Qed.
Print Assumptions C09_wf_state_fits.

Theorem C09_obs_shape : C09_obs_shape_stmt.
Proof. exact C09_obs_shape_proof. Qed.
Print Assumptions C09_obs_shape.

Theorem C09_flatten_unflatten : C09_flatten_unflatten_stmt.
Proof. exact C09_flatten_unflatten_proof. Qed.
Print Assumptions C09_flatten_unflatten.

