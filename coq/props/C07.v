(* C07: property theorems only; statements in theories/StmtDyn.v, proofs in proofs/PC06C07.v *)
From NasimV Require Import StmtDyn.
From NasimV.proofs Require Import PC06C07.

Theorem C07_chance_decides : C07_chance_decides_stmt.
Proof. exact C07_chance_decides_proof. Qed.
Print Assumptions C07_chance_decides.

Theorem C07_p1_never_fails : C07_p1_never_fails_stmt.
Proof. exact C07_p1_never_fails_proof. Qed.
Print Assumptions C07_p1_never_fails.

Theorem C07_p0_never_succeeds : C07_p0_never_succeeds_stmt.
Proof. exact C07_p0_never_succeeds_proof. Qed.
Print Assumptions C07_p0_never_succeeds.

Theorem C07_gates_ignore_chance : C07_gates_ignore_chance_stmt.
Proof. exact C07_gates_ignore_chance_proof. Qed.
Print Assumptions C07_gates_ignore_chance.

Theorem C07_flags_exclusive : C07_flags_exclusive_stmt.
Proof. exact C07_flags_exclusive_proof. Qed.
Print Assumptions C07_flags_exclusive.

Theorem C07_exact_probability : C07_exact_probability_stmt.
Proof. exact C07_exact_probability_proof. Qed.
Print Assumptions C07_exact_probability.

(* the boolean monitor that judges implementation steps for this property is passed by every
   step of the model *)
From NasimV Require Import Monitors.
From NasimV.proofs Require Import PMonitors.
Theorem monitor_C07_sound : forall sc st a k, ok_C07 sc (model_rec sc st a k) = true.
Proof. exact model_passes_C07. Qed.
Print Assumptions monitor_C07_sound.
