(* C05: property theorems only; statements in theories/StmtDyn.v, proofs in proofs/PC06C07, PC05.v *)
From NasimV Require Import StmtDyn.
From NasimV.proofs Require Import PC06C07 PC05.

Theorem C05_reward : C05_reward_stmt.
Proof. exact C05_reward_proof. Qed.
Print Assumptions C05_reward.

Theorem C05_value_source : C05_value_source_stmt.
Proof. exact C05_value_source_proof. Qed.
Print Assumptions C05_value_source.

Theorem C05_episode_telescopes : C05_episode_telescopes_stmt.
Proof. exact C05_episode_telescopes_proof. Qed.
Print Assumptions C05_episode_telescopes.

Theorem C05_paid_at_most_once : C05_paid_at_most_once_stmt.
Proof. exact C05_paid_at_most_once_proof. Qed.
Print Assumptions C05_paid_at_most_once.

(* the boolean monitor that judges implementation steps for this property is passed by every
   step of the model (so the monitor demands nothing the theorems do not) *)
From NasimV Require Import Monitors.
From NasimV.proofs Require Import PMonitors.
Theorem monitor_C05_sound :
  forall sc st a k, wf_scenario sc = true -> wf_state sc st = true -> act_ok sc a ->
    ok_C05 sc (model_rec sc st a k) = true.
Proof. intros sc st a k WF WS A. exact (model_passes_C05 sc st a k WF WS A). Qed.
Print Assumptions monitor_C05_sound.
