(* regenerated from /repo's source by translator/translate.py on every run *)
From NasimV Require Import Gates.
Open Scope Z_scope.

(* T1 vector indices *)
Definition tr_vector_idxs (b0 b1 nos nsrv nproc : Z) : list Z :=
  let v_subnet_address_idx := 0 in
  let v_host_address_idx := b0 in
  let v_compromised_idx := (v_host_address_idx + b1) in
  let v_reachable_idx := (v_compromised_idx + 1) in
  let v_discovered_idx := (v_reachable_idx + 1) in
  let v_value_idx := (v_discovered_idx + 1) in
  let v_discovery_value_idx := (v_value_idx + 1) in
  let v_access_idx := (v_discovery_value_idx + 1) in
  let v_os_start_idx := (v_access_idx + 1) in
  let v_service_start_idx := (v_os_start_idx + nos) in
  let v_process_start_idx := (v_service_start_idx + nsrv) in
  let vstate_size := (v_process_start_idx + nproc) in
  [v_subnet_address_idx; v_host_address_idx; v_compromised_idx; v_reachable_idx; v_discovered_idx; v_value_idx; v_discovery_value_idx; v_access_idx; v_os_start_idx; v_service_start_idx; v_process_start_idx; vstate_size].

(* T1 scenario dims *)
Definition tr_state_dims (b0 b1 nos nsrv nproc nhosts : Z) : Z * Z :=
  let host_aux_features := 6 in
  let host_state_size := (((((b0 + b1) + host_aux_features) + nos) + nsrv) + nproc) in
  (nhosts, host_state_size).
Definition tr_obs_dims (sd : Z * Z) : Z * Z := (((fst sd) + 1), (snd sd)).
Definition tr_action_space_size (nexp npe nhosts : Z) : Z :=
  let num_exploits := nexp in
  let num_privescs := npe in
  let num_scans := 4 in
  let actions_per_host := ((num_exploits + num_privescs) + num_scans) in
  (nhosts * actions_per_host).
Definition tr_nvec (nsub maxsub nos nsrv nproc : Z) : list Z :=
  [6; (nsub - 1); maxsub; (nos + 1); nsrv; nproc].

(* T2 perform_action *)
Definition tr_perform_action (x : atoms) : outcome :=
  (if (at_noop x) then ONoop else (if (negb (at_reach x) || negb (at_disc x)) then OConn else (if ((at_remote x) && negb (at_perm x)) then OPerm else (if ((at_exploit x) && negb (at_traffic x)) then OConn else (if ((at_privesc x) && negb (at_comp x)) then OConn else (if ((at_exploit x) && (at_comp x)) then (if (at_subscan x) then OScan else OHost) else (if (at_chance_ge x) then OUndef else (if (at_subscan x) then OScan else OHost)))))))).

(* T3 environment *)
Definition tr_limit_reached (limit : option nat) (steps_after_increment : nat) : bool :=
  match limit with Some l => Nat.leb l steps_after_increment | None => false end.
Definition tr_reward (value cost : Z) : Z := value - cost.
