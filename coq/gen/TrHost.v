(* regenerated from /repo's source by translator/translate_host.py on every run *)
From NasimV Require Import HostGates.

(* T4 HostVector.perform_action *)
Definition tr_host_perform (x : hatoms) : houtcome :=
  (if (ha_srvscan x) then (HSrvScan, false, false, false) else (if (ha_osscan x) then (HOsScan, false, false, false) else (if (ha_exploit x) then (if ((ha_runs_srv x) && ((ha_os_none x) || (ha_runs_os x))) then (if negb (ha_is_root x) then (if (ha_grant_root x) then (HExploitOk, true, true, true) else (HExploitOk, true, true, false)) else (HExploitOk, true, false, false)) else (if negb ((ha_comp x) && (ha_req_le x)) then (HPermErr, false, false, false) else (if (ha_procscan x) then (HProcScan, false, false, false) else (if (ha_privesc x) then (if (((ha_proc_none x) || (ha_runs_proc x)) && ((ha_os_none x) || (ha_runs_os x))) then (if negb (ha_is_root x) then (if (ha_grant_root x) then (HPrivescOk, false, true, true) else (HPrivescOk, false, true, false)) else (HPrivescOk, false, false, false)) else (HFail, false, false, false)) else (HFail, false, false, false))))) else (if negb ((ha_comp x) && (ha_req_le x)) then (HPermErr, false, false, false) else (if (ha_procscan x) then (HProcScan, false, false, false) else (if (ha_privesc x) then (if (((ha_proc_none x) || (ha_runs_proc x)) && ((ha_os_none x) || (ha_runs_os x))) then (if negb (ha_is_root x) then (if (ha_grant_root x) then (HPrivescOk, false, true, true) else (HPrivescOk, false, true, false)) else (HPrivescOk, false, false, false)) else (HFail, false, false, false)) else (HFail, false, false, false))))))).

(* T5 entitlement table *)
Definition tr_target_mask (k : akind) : omask :=
  match k with
  | KSrvScan => mkM true false true true false false false true false false
  | KOsScan => mkM true false true true false false false false false true
  | KSubScan => mkM true true true true false false false false false false
  | KProcScan => mkM true false true true true false false false true false
  | KExploit => mkM true true true true true true false true false true
  | KPrivesc => mkM true true true true true false false false false false
  | KNoop => mkM true false true true false false false false false false
  end.
Definition tr_disc_mask (newly : bool) : omask := mkM true false true true false false newly false false false.
