(* PMonitors.v -- the model's own steps pass every monitor of Monitors.v: a recorded
   step (st, a, k, next, res, used, reward, done) taken from perform_action is judged
   ok by ok_C01 ... ok_C07. *)
From NasimV Require Import StmtDyn Monitors.
From NasimV.proofs Require Import RowLemmas PC01C02 PC03 PC04 PC05 PC06C07.

Definition model_rec (sc : scenario) (st : state) (a : action) (k : Z) : rec :=
  mkRec st a k (next sc st a k) (res sc st a k) (used sc st a k)
        (r_value (res sc st a k) - a_cost a) (goal sc (next sc st a k)).

(* ====================================================================== *)
(* Boolean plumbing                                                        *)
(* ====================================================================== *)
Ltac split_and :=
  repeat match goal with
         | |- _ && _ = true => apply andb_true_iff; split
         end.

Lemma implb_intro (a b : bool) : (a = true -> b = true) -> implb a b = true.
Proof.
  unfold implb. destruct a; cbn [negb orb]; intros H; [apply H|]; reflexivity.
Qed.

Lemma implb_elim (a b : bool) : implb a b = true -> a = true -> b = true.
Proof.
  unfold implb. intros H Ha. rewrite Ha in H. cbn [negb orb] in H. exact H.
Qed.

Lemma hrow_eqb_refl (h : hrow) : hrow_eqb h h = true.
Proof.
  unfold hrow_eqb.
  rewrite addr_eqb_refl, !eqb_reflx, !Z.eqb_refl, Nat.eqb_refl, !list_eqb_bool_refl.
  reflexivity.
Qed.

Lemma state_eqb_refl (s : state) : state_eqb s s = true.
Proof.
  unfold state_eqb. induction s as [|h s IH]; cbn [list_eqb]; [reflexivity|].
  rewrite hrow_eqb_refl, IH. reflexivity.
Qed.

(* ====================================================================== *)
(* C06                                                                     *)
(* ====================================================================== *)
Lemma model_passes_C06 : forall sc st a k, ok_C06 sc (model_rec sc st a k) = true.
Proof.
  intros sc st a k. unfold ok_C06, model_rec. cbn [q_done q_st']. apply eqb_reflx.
Qed.

(* ====================================================================== *)
(* C07                                                                     *)
(* ====================================================================== *)
Lemma model_passes_C07 : forall sc st a k, ok_C07 sc (model_rec sc st a k) = true.
Proof.
  intros sc st a k. unfold ok_C07, model_rec. cbv zeta.
  cbn [q_st q_st' q_a q_r q_k q_used].
  pose proof (C07_flags_exclusive_proof sc st a k) as F. cbv zeta in F.
  destruct F as (F1 & F2 & F3 & F4 & F5).
  split_and.
  - apply implb_intro. intros S. destruct (F1 S) as (E1 & E2 & E3).
    rewrite E1, E2, E3. reflexivity.
  - rewrite F2. reflexivity.
  - rewrite F3. reflexivity.
  - rewrite F4. reflexivity.
  - destruct (is_noop a) eqn:N; cbn [negb andb].
    { destruct (C07_gates_ignore_chance_proof sc st a k k (or_introl N)) as (_ & U & UD).
      rewrite U, UD. reflexivity. }
    destruct (gates_ok sc st a) eqn:G; cbn [andb].
    2:{ destruct (C07_gates_ignore_chance_proof sc st a k k (or_intror (or_introl G)))
          as (_ & U & UD).
        rewrite U, UD. reflexivity. }
    destruct (reexploit sc st a) eqn:RX; cbn [negb].
    { destruct (C07_gates_ignore_chance_proof sc st a k k (or_intror (or_intror RX)))
        as (_ & U & UD).
      rewrite U, UD. reflexivity. }
    destruct (C07_chance_decides_proof sc st a k N G RX) as (U & CF & _).
    rewrite U. cbn [andb].
    destruct (chance_fails a k) eqn:CH.
    + destruct (CF eq_refl) as [E1 E2]. rewrite E1, E2.
      cbn [res_undef r_success r_undef r_value negb andb].
      rewrite state_eqb_refl. reflexivity.
    + unfold res. rewrite perform_action_nf, N, G, RX, CH. cbn [negb andb fst snd].
      pose proof (tail_flags sc st a) as T. cbv zeta in T. destruct T as (T1 & _).
      rewrite T1. reflexivity.
Qed.

(* ====================================================================== *)
(* C04                                                                     *)
(* ====================================================================== *)
Lemma model_passes_C04 : forall sc st a k,
  wf_scenario sc = true -> wf_state sc st = true -> act_ok sc a ->
  ok_C04 sc (model_rec sc st a k) = true.
Proof.
  intros sc st a k WS WF AOK. unfold ok_C04, model_rec. cbn [q_st q_st'].
  split_and.
  - apply Nat.eqb_eq. apply next_length. apply wf_state_length. exact WF.
  - unfold all_addr. apply forallb_forall. intros x Hx.
    destruct (C04_monotone_proof sc st a k x WS WF AOK Hx) as (M1 & M2 & M3 & M4).
    destruct (C04_config_frame_proof sc st a k x WS WF Hx)
      as [(S1 & S2 & S3 & S4 & S5 & S6) _].
    apply andb_true_iff. split.
    + unfold row_leb. split_and.
      * apply implb_intro. exact M1.
      * apply implb_intro. exact M2.
      * apply implb_intro. exact M3.
      * apply Nat.leb_le. exact M4.
    + unfold same_configb. rewrite S1, S2, S3, S4, S5, S6.
      rewrite addr_eqb_refl, !list_eqb_bool_refl, !Z.eqb_refl. reflexivity.
  - apply next_wf; assumption.
Qed.

(* ====================================================================== *)
(* C05                                                                     *)
(* ====================================================================== *)
Lemma model_passes_C05 : forall sc st a k,
  wf_scenario sc = true -> wf_state sc st = true -> act_ok sc a ->
  ok_C05 sc (model_rec sc st a k) = true.
Proof.
  intros sc st a k WS WF AOK. unfold ok_C05, model_rec.
  cbn [q_reward q_r q_a q_st q_st'].
  split_and.
  - apply Z.eqb_refl.
  - apply Z.eqb_eq. apply C05_value_source_proof; assumption.
  - apply implb_intro. intros S. apply negb_true_iff in S. apply Z.eqb_eq.
    pose proof (C07_flags_exclusive_proof sc st a k) as F. cbv zeta in F.
    destruct F as (_ & _ & _ & _ & F5). apply F5. exact S.
Qed.

(* ====================================================================== *)
(* C02                                                                     *)
(* ====================================================================== *)
Lemma model_passes_C02 : forall sc st a k,
  wf_scenario sc = true -> wf_state sc st = true ->
  ok_C02 sc (model_rec sc st a k) = true.
Proof.
  intros sc st a k WS WF. unfold ok_C02, model_rec. cbv zeta.
  cbn [q_st q_st' q_a q_r].
  split_and.
  - apply implb_intro. intros H. apply andb_true_iff in H. destruct H as [N RD].
    apply negb_true_iff in N. apply negb_true_iff in RD.
    destruct (C02_unreached_fails_proof sc st a k N RD) as (E1 & E2 & E3).
    rewrite E1, E2, state_eqb_refl. reflexivity.
  - apply implb_intro. intros H. apply andb_true_iff in H. destruct H as [RM S].
    pose proof (success_gates sc st a k (remote_not_noop a RM) S) as G.
    unfold gates_ok in G. cbv zeta in G.
    apply andb_true_iff in G. destruct G as [G _].
    apply andb_true_iff in G. destruct G as [G _].
    apply andb_true_iff in G. destruct G as [_ G3].
    rewrite RM in G3. cbn [negb orb] in G3. exact G3.
  - apply implb_intro. intros H. apply andb_true_iff in H. destruct H as [EX S].
    destruct (exploit_not_others a EX) as [N _].
    pose proof (success_gates sc st a k N S) as G.
    unfold gates_ok in G. cbv zeta in G.
    apply andb_true_iff in G. destruct G as [G _].
    apply andb_true_iff in G. destruct G as [_ G4].
    rewrite EX in G4. cbn [negb orb] in G4. exact G4.
  - apply implb_intro. intros H.
    assert (HK : a_kind a = KSubScan \/ a_kind a = KProcScan \/ a_kind a = KPrivesc).
    { destruct (a_kind a); try discriminate; auto. }
    assert (S : r_success (res sc st a k) = true).
    { destruct (a_kind a); try discriminate; exact H. }
    destruct (C02_onhost_needs_access_proof sc st a k HK S) as [C L].
    rewrite C. cbn [andb]. apply Nat.leb_le. exact L.
  - apply implb_intro. intros S. apply negb_true_iff in S.
    rewrite (C02_failure_changes_nothing_proof sc st a k WS WF S).
    apply state_eqb_refl.
Qed.

(* ====================================================================== *)
(* C01                                                                     *)
(* ====================================================================== *)
Lemma model_passes_C01 : forall sc st a k,
  wf_scenario sc = true -> wf_state sc st = true -> act_ok sc a ->
  ok_C01 sc (model_rec sc st a k) = true.
Proof.
  intros sc st a k WS WF AOK. unfold ok_C01, model_rec. cbv zeta.
  cbn [q_st q_st' q_a q_r q_k].
  pose proof AOK as (Htgt & _ & _).
  split_and.
  - unfold all_addr. apply forallb_forall. intros x Hx.
    apply implb_intro. intros H.
    assert (CH : h_comp (row sc (next sc st a k) x) <> h_comp (row sc st x)
                 \/ h_acc (row sc (next sc st a k) x) <> h_acc (row sc st x)).
    { apply orb_true_iff in H. destruct H as [H|H]; apply negb_true_iff in H.
      - left. apply eqb_false_iff. exact H.
      - right. apply Nat.eqb_neq. exact H. }
    destruct (C01_frame_proof sc st a k x WS WF Hx CH) as (T & S & P).
    subst x. rewrite addr_eqb_refl, S. cbn [andb].
    destruct P as [[P1 P2]|[P1 P2]]; rewrite P1, P2; cbn [andb orb].
    + reflexivity.
    + apply orb_true_r.
  - apply implb_intro. intros H.
    apply andb_true_iff in H. destruct H as [H Hk].
    apply andb_true_iff in H. destruct H as [H Hpre].
    apply andb_true_iff in H. destruct H as [H Htp].
    apply andb_true_iff in H. destruct H as [H Hrp].
    apply andb_true_iff in H. destruct H as [H Hd].
    apply andb_true_iff in H. destruct H as [He Hr].
    assert (Hk' : h_comp (trow sc st a) = true \/ k < a_pz a).
    { apply orb_true_iff in Hk. destruct Hk as [Hk|Hk]; [left; exact Hk|].
      right. apply Z.ltb_lt. exact Hk. }
    destruct (C01_exploit_must_succeed_proof sc st a k WS WF AOK He Hr Hd
                (has_remote_perm_pivot sc st a WS WF Hrp)
                (traffic_permitted_admits sc st a WS WF Htgt Htp) Hpre Hk')
      as (S & C & A).
    rewrite S, C, A, Nat.eqb_refl. reflexivity.
  - apply implb_intro. intros H.
    apply andb_true_iff in H. destruct H as [H Hk].
    apply andb_true_iff in H. destruct H as [H Hpre].
    apply andb_true_iff in H. destruct H as [H Hd].
    apply andb_true_iff in H. destruct H as [Hp Hr].
    apply Z.ltb_lt in Hk.
    destruct (C01_privesc_must_succeed_proof sc st a k WS WF AOK Hp Hr Hd Hpre Hk)
      as (S & C & A).
    rewrite S, C, A, Nat.eqb_refl. reflexivity.
Qed.

(* ====================================================================== *)
(* C03                                                                     *)
(* ====================================================================== *)
Lemma exb_spec sc st (x : addr) :
  existsb (fun y : addr => h_comp (row sc st y) && connected sc (fst y) (fst x)) (addresses sc) = true
  <-> exists y, compromised_at sc st y /\ connected sc (fst y) (fst x) = true.
Proof.
  rewrite existsb_exists. unfold compromised_at. split.
  - intros [y [Hy B]]. apply andb_true_iff in B. destruct B as [B1 B2].
    exists y. split; [split; assumption | exact B2].
  - intros [y [[Hy B1] B2]]. exists y. split; [exact Hy|]. rewrite B1, B2. reflexivity.
Qed.

Lemma inv3b_spec sc st : inv3b sc st = true <-> Inv3 sc st.
Proof.
  unfold inv3b, all_addr, Inv3. rewrite forallb_forall. split.
  - intros H x Hx. specialize (H x Hx).
    apply andb_true_iff in H. destruct H as [H H3].
    apply andb_true_iff in H. destruct H as [H1 H2].
    apply eqb_prop in H1.
    split; [|split].
    + rewrite H1, orb_true_iff, exb_spec. reflexivity.
    + apply implb_elim. exact H2.
    + apply implb_elim. exact H3.
  - intros H x Hx. destruct (H x Hx) as (IR & ICD & IDR).
    split_and.
    + apply eqb_true_iff. apply eq_true_iff_eq.
      rewrite IR, orb_true_iff, exb_spec. reflexivity.
    + apply implb_intro. exact ICD.
    + apply implb_intro. exact IDR.
Qed.

(* the result of a successful subnet scan (as in PC08.v) *)
Lemma res_subscan' sc st a k :
  is_subnet_scan a = true -> r_success (res sc st a k) = true ->
  r_disc (res sc st a k) = map (fun p => scan_hits sc (fst (a_tgt a)) (fst p)) (rows sc st)
  /\ r_newly (res sc st a k)
     = map (fun p => scan_hits sc (fst (a_tgt a)) (fst p) && negb (h_disc (snd p))) (rows sc st).
Proof.
  intros SS. unfold res. rewrite perform_action_nf.
  assert (N : is_noop a = false) by (kinds a).
  rewrite N.
  destruct (negb (gates_ok sc st a)); cbn [fst snd].
  { intros S. exfalso.
    repeat match goal with H : context [if ?c then _ else _] |- _ => destruct c end;
      simpl in S; discriminate. }
  destruct (negb (reexploit sc st a) && chance_fails a k); cbn [fst snd].
  { intros S. simpl in S. discriminate. }
  unfold tail. rewrite SS. unfold subnet_scan.
  destruct (negb (h_comp (get_row sc st (a_tgt a)))); cbn [fst snd].
  { intros S. simpl in S. discriminate. }
  destruct (negb (has_access (get_row sc st (a_tgt a)) (a_req a))); cbn [fst snd].
  { intros S. simpl in S. discriminate. }
  intros _. cbn [r_disc r_newly]. split; reflexivity.
Qed.

Lemma model_passes_C03 : forall sc st a k,
  wf_scenario sc = true -> wf_state sc st = true -> act_ok sc a ->
  ok_C03 sc (model_rec sc st a k) = true.
Proof.
  intros sc st a k WS WF AOK. unfold ok_C03, ok_C03_state, ok_C03_info, model_rec. cbv zeta.
  cbn [q_st q_st' q_a q_r].
  split_and.
  - apply implb_intro. intros H. apply inv3b_spec.
    apply C03_step_proof; try assumption. apply inv3b_spec. exact H.
  - unfold all_addr. apply forallb_forall. intros x Hx.
    apply andb_true_iff. split.
    + apply implb_intro. intros H. apply negb_true_iff in H. apply eqb_false_iff in H.
      destruct (C03_discovery_only_by_scan_proof sc st a k x WS WF Hx H) as (E1 & E2 & E3 & E4).
      rewrite E1, E2, E3, E4. reflexivity.
    + apply implb_intro. intros H. apply andb_true_iff in H. destruct H as [SS S].
      apply eqb_true_iff.
      apply C03_scan_discovers_exactly_proof; assumption.
  - apply implb_intro. intros H. apply andb_true_iff in H. destruct H as [SS S].
    destruct (res_subscan' sc st a k SS S) as [ED EN]. rewrite ED, EN.
    pose proof (wf_state_length sc st WF) as HL.
    pose proof (wf_nodup sc WS) as ND.
    apply andb_true_iff. split.
    + rewrite <- (map_fst_rows sc st HL). rewrite map_map. unfold scan_hits.
      apply list_eqb_bool_refl.
    + rewrite <- (map_fst_rows sc st HL). rewrite map_map. unfold scan_hits.
      assert (E : map (fun p : addr * hrow =>
                         connected sc (fst (a_tgt a)) (fst (fst p)) && negb (h_disc (snd p)))
                      (rows sc st)
                  = map (fun p : addr * hrow =>
                           connected sc (fst (a_tgt a)) (fst (fst p))
                           && negb (h_disc (row sc st (fst p))))
                        (rows sc st)).
      { apply map_ext_in. intros p Hp. unfold row.
        rewrite (get_row_of_member sc st p ND HL Hp). reflexivity. }
      rewrite E. apply list_eqb_bool_refl.
Qed.

Print Assumptions model_passes_C01.
Print Assumptions model_passes_C02.
Print Assumptions model_passes_C03.
Print Assumptions model_passes_C04.
Print Assumptions model_passes_C05.
Print Assumptions model_passes_C06.
Print Assumptions model_passes_C07.

Lemma model_passes_C03_state : forall sc st a k,
  wf_scenario sc = true -> wf_state sc st = true -> act_ok sc a ->
  ok_C03_state sc (model_rec sc st a k) = true.
Proof.
  intros sc st a k WS WF AOK. pose proof (model_passes_C03 sc st a k WS WF AOK) as H.
  unfold ok_C03 in H. apply andb_true_iff in H. tauto.
Qed.
Print Assumptions model_passes_C03_state.
