(* PC06C07.v -- proofs for C05_reward, C06, C07, C12 (step level), C13 (value level). *)
From NasimV Require Import StmtDyn.
From NasimV.proofs Require Import RowLemmas.

Ltac kinds a :=
  unfold is_exploit, is_privesc, is_noop, is_subnet_scan, is_remote, is_scan, akind_eqb in *;
  destruct (a_kind a) eqn:?K; simpl in *; try discriminate; try congruence.

(* ---------- results of the host-level function ---------- *)
Lemma host_perform_flags h a :
  let r := snd (host_perform h a) in
  r_undef r = false /\ r_conn r = false
  /\ (r_success r = true -> r_perm r = false)
  /\ (r_success r = false -> r_value r = 0).
Proof.
  unfold host_perform.
  destruct (a_kind a) eqn:K; simpl; auto;
  repeat match goal with
  | |- context [if ?c then _ else _] => destruct c eqn:?; simpl
  end; repeat split; intros; auto; try discriminate.
Qed.

Lemma subnet_scan_flags sc st a :
  let r := snd (subnet_scan sc st a) in
  r_undef r = false
  /\ (r_success r = true -> r_conn r = false /\ r_perm r = false)
  /\ (r_conn r && r_perm r = false)
  /\ (r_success r = false -> r_value r = 0).
Proof.
  unfold subnet_scan.
  destruct (negb (h_comp (get_row sc st (a_tgt a)))) eqn:E1; simpl.
  - repeat split; intros; auto; discriminate.
  - destruct (negb (has_access (get_row sc st (a_tgt a)) (a_req a))) eqn:E2; simpl;
      repeat split; intros; auto; discriminate.
Qed.

(* ---------- one normal form for perform_action ---------- *)
Definition tail (sc : scenario) (st : state) (a : action) : state * result :=
  if is_subnet_scan a then subnet_scan sc st a
  else
    let t := get_row sc st (a_tgt a) in
    let t' := fst (host_perform t a) in
    let r := snd (host_perform t a) in
    let st1 := set_row sc st (a_tgt a) t' in
    (if is_exploit a && r_success r then update_reachable sc st1 (fst (a_tgt a)) else st1, r).

Lemma perform_action_nf sc st a k :
  perform_action sc st a k =
  if is_noop a then (st, res_plain true, false) else
  if negb (gates_ok sc st a) then
    (st, (if negb (h_reach (trow sc st a)) || negb (h_disc (trow sc st a)) then res_conn
          else if is_remote a && negb (has_remote_perm sc st a) then res_perm
          else res_conn), false)
  else if negb (reexploit sc st a) && chance_fails a k then (st, res_undef, true)
  else (fst (tail sc st a), snd (tail sc st a), negb (reexploit sc st a)).
Proof.
  unfold perform_action, gates_ok, reexploit, trow, tail.
  destruct (is_noop a) eqn:N; auto.
  destruct (h_reach (get_row sc st (a_tgt a))) eqn:R; simpl; auto.
  destruct (h_disc (get_row sc st (a_tgt a))) eqn:D; simpl; auto.
  destruct (is_remote a) eqn:RM; simpl.
  - destruct (has_remote_perm sc st a) eqn:P; simpl; auto.
    destruct (is_exploit a) eqn:X; simpl.
    + destruct (traffic_permitted sc st (a_tgt a) (a_srv a)) eqn:T; simpl; auto.
      assert (is_privesc a = false) as -> by (kinds a). simpl.
      destruct (h_comp (get_row sc st (a_tgt a))) eqn:C; simpl.
      * assert (is_subnet_scan a = false) as -> by (kinds a).
        destruct (host_perform _ a); reflexivity.
      * destruct (chance_fails a k); auto.
        assert (is_subnet_scan a = false) as -> by (kinds a).
        destruct (host_perform _ a); reflexivity.
    + assert (is_privesc a = false) as -> by (kinds a). simpl.
      destruct (chance_fails a k); auto.
      assert (is_subnet_scan a = false) as -> by (kinds a).
      destruct (host_perform _ a); reflexivity.
  - assert (is_exploit a = false) as X by (kinds a). rewrite X. simpl.
    destruct (is_privesc a) eqn:PE; simpl.
    + destruct (h_comp (get_row sc st (a_tgt a))) eqn:C; simpl; auto.
      destruct (chance_fails a k); auto.
      assert (is_subnet_scan a = false) as -> by (kinds a).
      destruct (host_perform _ a); reflexivity.
    + destruct (chance_fails a k); auto.
      destruct (is_subnet_scan a) eqn:SS.
      * destruct (subnet_scan sc st a); reflexivity.
      * destruct (host_perform _ a); reflexivity.
Qed.

Lemma tail_flags sc st a :
  let r := snd (tail sc st a) in
  r_undef r = false
  /\ (r_success r = true -> r_conn r = false /\ r_perm r = false)
  /\ (r_conn r && r_perm r = false)
  /\ (r_success r = false -> r_value r = 0).
Proof.
  unfold tail. destruct (is_subnet_scan a).
  - apply subnet_scan_flags.
  - simpl. pose proof (host_perform_flags (get_row sc st (a_tgt a)) a) as H. simpl in H.
    destruct H as [H1 [H2 [H3 H4]]]. repeat split; auto.
    rewrite H2. reflexivity.
Qed.

(* ================= C05 (reward) ================= *)
Lemma C05_reward_proof : C05_reward_stmt.
Proof.
  unfold C05_reward_stmt. intros sc m st a k. repeat split.
  - unfold generative_step, res. destruct (perform_action sc st a k) as [[st' r] u]. reflexivity.
  - unfold res. rewrite perform_action_nf.
    destruct (is_noop a); simpl; [discriminate|].
    destruct (negb (gates_ok sc st a)); simpl.
    + intros _. repeat match goal with |- context [if ?c then _ else _] => destruct c end; reflexivity.
    + destruct (negb (reexploit sc st a) && chance_fails a k); simpl; auto.
      apply tail_flags.
Qed.

(* ================= C06 ================= *)
Lemma C06_done_iff_goal_proof : C06_done_iff_goal_stmt.
Proof.
  unfold C06_done_iff_goal_stmt. intros sc m st a k. split.
  - unfold generative_step. destruct (perform_action sc st a k) as [[st' r] u]. reflexivity.
  - unfold goal, has_access, row. rewrite forallb_forall. split.
    + intros H s Hs. apply in_map_iff in Hs. destruct Hs as [e [<- He]].
      specialize (H e He). apply Nat.leb_le in H. exact H.
    + intros H e He. apply Nat.leb_le. apply H. apply in_map. exact He.
Qed.

Lemma run_ops_app sc m ep ops1 ops2 :
  fst (run_ops sc m ep (ops1 ++ ops2)) = fst (run_ops sc m (fst (run_ops sc m ep ops1)) ops2).
Proof.
  revert ep. induction ops1 as [|o r IH]; intros ep; simpl; auto.
  destruct (run_op sc m ep o) as [ep' out] eqn:E.
  specialize (IH ep').
  destruct (run_ops sc m ep' (r ++ ops2)) as [ep2 outs2] eqn:E2.
  destruct (run_ops sc m ep' r) as [ep1 outs1] eqn:E1.
  simpl in *. exact IH.
Qed.

Lemma run_op_steps sc m e pool o :
  e_steps (fst (fst (run_op sc m (e, pool) o))) =
  match o with
  | OReset => O
  | OStep x _ => if decodes sc m x then S (e_steps e) else e_steps e
  | _ => e_steps e
  end.
Proof.
  destruct o as [|x k|i x k|i| |]; simpl.
  - reflexivity.
  - unfold decodes. destruct (decode_arg sc m x) as [a|]; simpl; auto.
  - destruct (decode_arg sc m x) as [a|]; simpl; auto.
    destruct (nth_error pool i); reflexivity.
  - destruct (nth_error pool i); reflexivity.
  - destruct (flat_actions m); reflexivity.
  - reflexivity.
Qed.

Lemma run_ops_steps sc m ops : forall e pool,
  e_steps (fst (fst (run_ops sc m (e, pool) ops))) = steps_since_reset sc m (e_steps e) ops.
Proof.
  induction ops as [|o r IH]; intros e pool; [reflexivity|].
  cbn [run_ops].
  pose proof (run_op_steps sc m e pool o) as HS.
  destruct (run_op sc m (e, pool) o) as [[e' pool'] out] eqn:E.
  cbn [fst] in HS.
  specialize (IH e' pool').
  destruct (run_ops sc m (e', pool') r) as [ep'' outs] eqn:E2.
  cbn [fst] in *. rewrite IH, HS.
  destruct o as [|x k|i x k|i| |]; cbn [steps_since_reset]; reflexivity.
Qed.

Lemma C06_steps_proof : C06_steps_stmt.
Proof.
  unfold C06_steps_stmt, final_env. intros sc m ops.
  rewrite run_ops_steps. reflexivity.
Qed.

Lemma C06_limit_proof : C06_limit_stmt.
Proof.
  unfold C06_limit_stmt, env_step. intros sc m e a k. simpl. split; auto.
  unfold limit_reached. destruct (s_limit sc) as [l|].
  - rewrite Nat.leb_le. split.
    + intros H. exists l. auto.
    + intros [l' [E H]]. inversion E; subst. exact H.
  - split; [discriminate|]. intros [l' [E _]]. discriminate.
Qed.

(* ================= C07 ================= *)
Lemma C07_chance_decides_proof : C07_chance_decides_stmt.
Proof.
  unfold C07_chance_decides_stmt, used, next, res. intros sc st a k N G RX.
  rewrite perform_action_nf. rewrite N, G, RX. simpl. repeat split.
  - destruct (chance_fails a k); reflexivity.
  - match goal with H : chance_fails a k = true |- _ => rewrite H end. reflexivity.
  - match goal with H : chance_fails a k = true |- _ => rewrite H end. reflexivity.
  - intros k' F1 F2. rewrite perform_action_nf, N, G, RX. simpl. rewrite F1, F2. reflexivity.
Qed.

Lemma C07_p1_never_fails_proof : C07_p1_never_fails_stmt.
Proof.
  unfold C07_p1_never_fails_stmt, res. intros sc st a k PZ Hk.
  rewrite perform_action_nf.
  destruct (is_noop a); simpl; auto.
  destruct (negb (gates_ok sc st a)); simpl.
  - repeat match goal with |- context [if ?c then _ else _] => destruct c end; reflexivity.
  - assert (chance_fails a k = false) as ->.
    { unfold chance_fails. rewrite PZ. apply Z.leb_gt. lia. }
    rewrite andb_false_r. simpl. apply tail_flags.
Qed.

Lemma C07_p0_never_succeeds_proof : C07_p0_never_succeeds_stmt.
Proof.
  unfold C07_p0_never_succeeds_stmt, res. intros sc st a k PZ Hk N RX.
  rewrite perform_action_nf, N, RX.
  destruct (negb (gates_ok sc st a)); simpl.
  - repeat match goal with |- context [if ?c then _ else _] => destruct c end; reflexivity.
  - assert (chance_fails a k = true) as ->.
    { unfold chance_fails. rewrite PZ. apply Z.leb_le. lia. }
    reflexivity.
Qed.

Lemma C07_gates_ignore_chance_proof : C07_gates_ignore_chance_stmt.
Proof.
  unfold C07_gates_ignore_chance_stmt, used, res. intros sc st a k k' H.
  rewrite !perform_action_nf.
  destruct (is_noop a) eqn:N; simpl; [repeat split; reflexivity|].
  destruct H as [H|[H|H]]; [discriminate| |].
  - rewrite H. simpl. repeat split; auto.
    repeat match goal with |- context [if ?c then _ else _] => destruct c end; reflexivity.
  - destruct (negb (gates_ok sc st a)); simpl.
    + repeat split; auto.
      repeat match goal with |- context [if ?c then _ else _] => destruct c end; reflexivity.
    + rewrite H. simpl. repeat split; auto. apply tail_flags.
Qed.

Lemma C07_flags_exclusive_proof : C07_flags_exclusive_stmt.
Proof.
  unfold C07_flags_exclusive_stmt, res. intros sc st a k. cbv zeta.
  rewrite perform_action_nf.
  destruct (is_noop a); cbn [fst snd].
  { simpl. repeat split; auto; discriminate. }
  destruct (negb (gates_ok sc st a)); cbn [fst snd].
  { repeat match goal with |- context [if ?c then _ else _] => destruct c end;
      simpl; repeat split; auto; discriminate. }
  destruct (negb (reexploit sc st a) && chance_fails a k); cbn [fst snd].
  { simpl. repeat split; auto; discriminate. }
  pose proof (tail_flags sc st a) as T. cbv zeta in T. destruct T as [T1 [T2 [T3 T4]]].
  rewrite T1. rewrite !andb_false_r.
  split; [|split; [|split; [|split]]]; auto.
  intros S. apply T2 in S. tauto.
Qed.

Lemma C07_exact_probability_proof : C07_exact_probability_stmt.
Proof.
  unfold C07_exact_probability_stmt, res. intros sc st a k0 N RX S0 k.
  rewrite perform_action_nf, N, RX in S0. rewrite perform_action_nf, N, RX. simpl in *.
  destruct (negb (gates_ok sc st a)); simpl in *.
  - exfalso. repeat match goal with H : context [if ?c then _ else _] |- _ => destruct c end;
      simpl in S0; discriminate.
  - destruct (chance_fails a k0) eqn:F0; simpl in S0; [discriminate|].
    unfold chance_fails. destruct (a_pz a <=? k) eqn:F; simpl.
    + apply Z.leb_le in F. split; [discriminate|]. intros. lia.
    + apply Z.leb_gt in F. split; auto.
Qed.

(* ================= C12 / C13 ================= *)
Lemma C12_step_mode_independent_proof : C12_step_mode_independent_stmt.
Proof.
  unfold C12_step_mode_independent_stmt, generative_step. intros sc m1 m2 st a k.
  destruct (perform_action sc st a k) as [[st' r] u]. simpl. repeat split; auto.
  intros ->. reflexivity.
Qed.

Lemma C13_genstep_pure_proof : C13_genstep_pure_stmt.
Proof.
  unfold C13_genstep_pure_stmt. intros sc m e pool i x k. simpl. repeat split.
  - destruct (decode_arg sc m x); simpl; auto. destruct (nth_error pool i); reflexivity.
  - destruct (nth_error pool i); reflexivity.
  - destruct (flat_actions m); reflexivity.
Qed.

Lemma C13_step_is_genstep_proof : C13_step_is_genstep_stmt.
Proof. unfold C13_step_is_genstep_stmt, env_step. intros. reflexivity. Qed.
