(* PC01C02.v -- proofs of the C01 and C02 statements of StmtDyn.v *)
From NasimV Require Import StmtDyn.
From NasimV.proofs Require Import RowLemmas.

(* ====================================================================== *)
(* Row lookups after positional updates, with no side conditions           *)
(* ====================================================================== *)
Lemma addr_eq_dec (a b : addr) : {a = b} + {a <> b}.
Proof. decide equality; apply Nat.eq_dec. Qed.

Lemma get_row_map_rows_cases sc f st x :
  get_row sc (map_rows sc f st) x = f x (get_row sc st x)
  \/ (get_row sc (map_rows sc f st) x = dummy_row /\ get_row sc st x = dummy_row).
Proof.
  destruct (in_dec addr_eq_dec x (map fst (rows sc st))) as [Hin|Hn].
  - left. apply get_row_map_rows; exact Hin.
  - right. apply get_row_map_rows_absent; exact Hn.
Qed.

Lemma get_row_set_row_cases sc st a h' x :
  (x = a /\ get_row sc (set_row sc st a h') x = h')
  \/ get_row sc (set_row sc st a h') x = get_row sc st x.
Proof.
  destruct (addr_eq_dec a x) as [E|Hne].
  - subst x. destruct (in_dec addr_eq_dec a (map fst (rows sc st))) as [Hin|Hn].
    + left. split; [reflexivity|]. apply get_row_set_row_same; exact Hin.
    + right. unfold set_row.
      pose proof (get_row_map_rows_absent sc (fun x h => if addr_eqb x a then h' else h) st a Hn)
        as [E1 E2].
      rewrite E1, E2. reflexivity.
  - right. apply get_row_set_row_other; exact Hne.
Qed.

(* update_reachable and the subnet scan's discovery update touch neither
   h_comp nor h_acc *)
Lemma update_reachable_comp_acc sc st c x :
  h_comp (get_row sc (update_reachable sc st c) x) = h_comp (get_row sc st x)
  /\ h_acc (get_row sc (update_reachable sc st c) x) = h_acc (get_row sc st x).
Proof.
  unfold update_reachable.
  destruct (get_row_map_rows_cases sc
              (fun x h => if h_reach h then h
                          else if connected sc c (fst x) then set_reach h true else h) st x)
    as [E|[E1 E2]].
  - rewrite E. destruct (h_reach (get_row sc st x)); [split; reflexivity|].
    destruct (connected sc c (fst x)); split; reflexivity.
  - rewrite E1, E2. split; reflexivity.
Qed.

Lemma scan_update_comp_acc sc st c x :
  h_comp (get_row sc (map_rows sc (fun x h => if scan_hits sc c x then set_disc h true else h) st) x)
  = h_comp (get_row sc st x)
  /\ h_acc (get_row sc (map_rows sc (fun x h => if scan_hits sc c x then set_disc h true else h) st) x)
  = h_acc (get_row sc st x).
Proof.
  destruct (get_row_map_rows_cases sc
              (fun x h => if scan_hits sc c x then set_disc h true else h) st x)
    as [E|[E1 E2]].
  - rewrite E. destruct (scan_hits sc c x); split; reflexivity.
  - rewrite E1, E2. split; reflexivity.
Qed.

(* ====================================================================== *)
(* What wf_state gives for a looked-up row                                 *)
(* ====================================================================== *)
Lemma in_combine_map_fst {A B C : Type} (l : list (A * B)) (st : list C) a h :
  In (a, h) (combine (map fst l) st) -> exists c, In ((a, c), h) (combine l st).
Proof.
  revert st. induction l as [|[a0 c0] l IH]; intros [|h0 st]; simpl; intros H; try contradiction.
  destruct H as [H|H].
  - inversion H; subst. exists c0. left. reflexivity.
  - destruct (IH st H) as [c Hc]. exists c. right. exact Hc.
Qed.

Lemma wf_state_acc_le sc st x :
  wf_state sc st = true -> In x (addresses sc) -> (h_acc (get_row sc st x) <= 2)%nat.
Proof.
  intros Hwf Hin.
  pose proof (wf_state_length sc st Hwf) as HL.
  pose proof (in_rows_of_addr sc st x HL Hin) as Hr.
  unfold rows, addresses in Hr.
  destruct (in_combine_map_fst _ _ _ _ Hr) as [c Hc].
  unfold wf_state in Hwf. apply andb_true_iff in Hwf. destruct Hwf as [_ Hall].
  rewrite forallb_forall in Hall. specialize (Hall _ Hc).
  apply andb_true_iff in Hall. destruct Hall as [_ Hle].
  apply Nat.leb_le in Hle. exact Hle.
Qed.

(* a member of the positional rows is an address holding that row *)
Lemma member_row sc st p :
  wf_scenario sc = true -> wf_state sc st = true -> In p (rows sc st) ->
  In (fst p) (addresses sc) /\ get_row sc st (fst p) = snd p.
Proof.
  intros Hsc Hst Hp.
  pose proof (wf_state_length sc st Hst) as HL.
  split.
  - rewrite <- (map_fst_rows sc st HL). apply in_map. exact Hp.
  - apply get_row_of_member; auto. apply wf_nodup; exact Hsc.
Qed.

(* ====================================================================== *)
(* Decomposition of perform_action: no-op / gates / body                   *)
(* ====================================================================== *)
Definition pa_body (sc : scenario) (st : state) (a : action) (k : Z) : state * result * bool :=
  let t := get_row sc st (a_tgt a) in
  let skip := is_exploit a && h_comp t in
  if negb skip && chance_fails a k then (st, res_undef, true) else
  if is_subnet_scan a then
    let (st', r) := subnet_scan sc st a in (st', r, negb skip)
  else
    let (t', r) := host_perform t a in
    let st1 := set_row sc st (a_tgt a) t' in
    let st2 := if is_exploit a && r_success r then update_reachable sc st1 (fst (a_tgt a)) else st1 in
    (st2, r, negb skip).

Lemma pa_noop sc st a k :
  is_noop a = true -> perform_action sc st a k = (st, res_plain true, false).
Proof. intros H. unfold perform_action. rewrite H. reflexivity. Qed.

Lemma pa_gates_ok sc st a k :
  is_noop a = false -> gates_ok sc st a = true ->
  perform_action sc st a k = pa_body sc st a k.
Proof.
  intros Hn Hg. unfold gates_ok, trow in Hg. cbv zeta in Hg.
  apply andb_true_iff in Hg. destruct Hg as [Hg G5].
  apply andb_true_iff in Hg. destruct Hg as [Hg G4].
  apply andb_true_iff in Hg. destruct Hg as [Hg G3].
  apply andb_true_iff in Hg. destruct Hg as [G1 G2].
  unfold perform_action, pa_body. cbv zeta. rewrite Hn, G1, G2.
  cbn [negb orb].
  assert (E3 : is_remote a && negb (has_remote_perm sc st a) = false).
  { destruct (is_remote a); [|reflexivity]. cbn [negb orb] in G3. rewrite G3. reflexivity. }
  rewrite E3.
  assert (E4 : is_exploit a && negb (traffic_permitted sc st (a_tgt a) (a_srv a)) = false).
  { destruct (is_exploit a); [|reflexivity]. cbn [negb orb] in G4. rewrite G4. reflexivity. }
  rewrite E4.
  assert (E5 : is_privesc a && negb (h_comp (get_row sc st (a_tgt a))) = false).
  { destruct (is_privesc a); [|reflexivity]. cbn [negb orb] in G5. rewrite G5. reflexivity. }
  rewrite E5. reflexivity.
Qed.

Lemma pa_gates_fail sc st a k :
  is_noop a = false -> gates_ok sc st a = false ->
  perform_action sc st a k = (st, res_conn, false)
  \/ perform_action sc st a k = (st, res_perm, false).
Proof.
  intros Hn Hg. unfold gates_ok, trow in Hg. cbv zeta in Hg.
  unfold perform_action. cbv zeta. rewrite Hn.
  destruct (h_reach (get_row sc st (a_tgt a))) eqn:G1; cbn [negb orb andb] in *; [|left; reflexivity].
  destruct (h_disc (get_row sc st (a_tgt a))) eqn:G2; cbn [negb orb andb] in *; [|left; reflexivity].
  destruct (is_remote a && negb (has_remote_perm sc st a)) eqn:E3; [right; reflexivity|].
  destruct (is_exploit a && negb (traffic_permitted sc st (a_tgt a) (a_srv a))) eqn:E4; [left; reflexivity|].
  destruct (is_privesc a && negb (h_comp (get_row sc st (a_tgt a)))) eqn:E5; [left; reflexivity|].
  exfalso.
  assert (G3 : negb (is_remote a) || has_remote_perm sc st a = true).
  { destruct (is_remote a); [|reflexivity]. destruct (has_remote_perm sc st a); [reflexivity|discriminate]. }
  assert (G4 : negb (is_exploit a) || traffic_permitted sc st (a_tgt a) (a_srv a) = true).
  { destruct (is_exploit a); [|reflexivity].
    destruct (traffic_permitted sc st (a_tgt a) (a_srv a)); [reflexivity|discriminate]. }
  rewrite G3, G4 in Hg. cbn [andb] in Hg.
  destruct (is_privesc a); cbn [negb orb andb] in *; [|discriminate].
  rewrite Hg in E5. discriminate.
Qed.

(* a failed action (no-op excluded) leaves the state alone when a gate fails *)
Lemma pa_gates_fail_next sc st a k :
  is_noop a = false -> gates_ok sc st a = false ->
  next sc st a k = st /\ r_success (res sc st a k) = false.
Proof.
  intros Hn Hg. unfold next, res.
  destruct (pa_gates_fail sc st a k Hn Hg) as [E|E]; rewrite E; split; reflexivity.
Qed.

(* a successful action other than the no-op has passed every gate *)
Lemma success_gates sc st a k :
  is_noop a = false -> r_success (res sc st a k) = true -> gates_ok sc st a = true.
Proof.
  intros Hn Hs. destruct (gates_ok sc st a) eqn:Hg; [reflexivity|].
  destruct (pa_gates_fail_next sc st a k Hn Hg) as [_ Hf]. congruence.
Qed.

(* ====================================================================== *)
(* Host level                                                              *)
(* ====================================================================== *)
Lemma host_perform_fail h a :
  r_success (snd (host_perform h a)) = false -> fst (host_perform h a) = h.
Proof.
  unfold host_perform.
  destruct (a_kind a) eqn:K; cbn [fst snd r_success]; try discriminate;
    (destruct (is_exploit a && nthb (h_srv h) (a_srv a) && os_match h (a_os a));
     cbn [fst snd r_success]; [discriminate|]);
    (destruct (negb (h_comp h && Nat.leb (a_req a) (h_acc h)));
     cbn [fst snd r_success]; [reflexivity|]);
    try reflexivity; try discriminate.
  destruct (nthb (h_proc h) (a_proc a) && os_match h (a_os a)); cbn [fst snd r_success];
    [discriminate|reflexivity].
Qed.

(* scans, and anything that is neither exploit nor escalation, keep the row's
   h_comp and h_acc *)
Lemma host_perform_inert h a :
  is_exploit a = false -> is_privesc a = false ->
  h_comp (fst (host_perform h a)) = h_comp h /\ h_acc (fst (host_perform h a)) = h_acc h.
Proof.
  unfold host_perform. unfold is_exploit, is_privesc.
  destruct (a_kind a) eqn:K; cbn [akind_eqb andb fst]; intros He Hp; try discriminate;
    try (split; reflexivity);
    destruct (negb (h_comp h && Nat.leb (a_req a) (h_acc h))); cbn [fst]; split; reflexivity.
Qed.

(* the only row changes of host_perform in h_comp / h_acc *)
Lemma host_perform_change h a :
  (h_comp (fst (host_perform h a)) <> h_comp h \/ h_acc (fst (host_perform h a)) <> h_acc h) ->
  r_success (snd (host_perform h a)) = true
  /\ ((is_exploit a = true /\ pre_exploit h a = true)
      \/ (is_privesc a = true /\ pre_privesc h a = true)).
Proof.
  intros Hch.
  destruct (is_exploit a) eqn:He.
  - (* exploit *)
    unfold is_exploit in He. unfold host_perform in *.
    destruct (a_kind a) eqn:K; cbn [akind_eqb] in He; try discriminate.
    unfold is_exploit in *. rewrite K in *. cbn [akind_eqb andb] in *.
    unfold pre_exploit.
    destruct (nthb (h_srv h) (a_srv a) && os_match h (a_os a)) eqn:Hpre.
    + cbn [fst snd r_success]. split; [reflexivity|]. left. split; reflexivity.
    + exfalso.
      destruct (negb (h_comp h && Nat.leb (a_req a) (h_acc h))); cbn [fst] in Hch;
        destruct Hch as [Hc|Hc]; apply Hc; reflexivity.
  - destruct (is_privesc a) eqn:Hp.
    + unfold is_privesc in Hp. unfold host_perform in *.
      destruct (a_kind a) eqn:K; cbn [akind_eqb] in Hp; try discriminate.
      unfold is_exploit in *. rewrite K in *. cbn [akind_eqb andb] in *.
      unfold pre_privesc.
      destruct (h_comp h && Nat.leb (a_req a) (h_acc h)) eqn:Hacc; cbn [negb] in *.
      * destruct (nthb (h_proc h) (a_proc a) && os_match h (a_os a)) eqn:Hpre.
        -- cbn [fst snd r_success]. split; [reflexivity|]. right. split; [reflexivity|].
           rewrite <- andb_assoc. rewrite Hpre. reflexivity.
        -- exfalso. cbn [fst] in Hch. destruct Hch as [Hc|Hc]; apply Hc; reflexivity.
      * exfalso. cbn [fst] in Hch. destruct Hch as [Hc|Hc]; apply Hc; reflexivity.
    + exfalso. destruct (host_perform_inert h a He Hp) as [E1 E2].
      destruct Hch as [Hc|Hc]; apply Hc; assumption.
Qed.

Lemma gain_access_max h a :
  (h_acc h <= 2)%nat -> (a_acc a = 1 \/ a_acc a = 2)%nat ->
  gain_access h a = Nat.max (h_acc h) (a_acc a).
Proof.
  intros Hle Ha. unfold gain_access, ROOT.
  destruct (Nat.eqb (h_acc h) 2) eqn:E.
  - apply Nat.eqb_eq in E. lia.
  - apply Nat.eqb_neq in E. lia.
Qed.

(* ====================================================================== *)
(* Kind bookkeeping                                                        *)
(* ====================================================================== *)
Lemma exploit_kind a : is_exploit a = true -> a_kind a = KExploit.
Proof. unfold is_exploit. destruct (a_kind a); cbn [akind_eqb]; intros H; try discriminate; reflexivity. Qed.

Lemma privesc_kind a : is_privesc a = true -> a_kind a = KPrivesc.
Proof. unfold is_privesc. destruct (a_kind a); cbn [akind_eqb]; intros H; try discriminate; reflexivity. Qed.

Lemma exploit_not_others a :
  is_exploit a = true ->
  is_noop a = false /\ is_privesc a = false /\ is_subnet_scan a = false
  /\ is_scan a = false /\ is_remote a = true.
Proof.
  intros H. apply exploit_kind in H.
  unfold is_noop, is_privesc, is_subnet_scan, is_scan, is_remote. rewrite H.
  cbn [akind_eqb]. repeat split; reflexivity.
Qed.

Lemma privesc_not_others a :
  is_privesc a = true ->
  is_noop a = false /\ is_exploit a = false /\ is_subnet_scan a = false
  /\ is_remote a = false.
Proof.
  intros H. apply privesc_kind in H.
  unfold is_noop, is_exploit, is_subnet_scan, is_remote. rewrite H.
  cbn [akind_eqb]. repeat split; reflexivity.
Qed.

Lemma remote_not_noop a : is_remote a = true -> is_noop a = false.
Proof.
  unfold is_remote, is_noop. destruct (a_kind a); cbn [akind_eqb]; intros H;
    try discriminate; reflexivity.
Qed.

(* ====================================================================== *)
(* Boolean gates versus the Prop-level predicates of Spec.v                *)
(* ====================================================================== *)
Lemma stp_spec sc s t srv :
  subnet_traffic_permitted sc s t srv = true <->
  (s = t \/ (connected sc s t = true /\ fw_allows sc s t srv = true)).
Proof.
  unfold subnet_traffic_permitted.
  destruct (Nat.eqb s t) eqn:E.
  - apply Nat.eqb_eq in E. split; [intros _; left; exact E | reflexivity].
  - apply Nat.eqb_neq in E.
    destruct (connected sc s t); cbn [negb].
    + split.
      * intros H. right. split; [reflexivity | exact H].
      * intros [H|[_ H]]; [contradiction | exact H].
    + split; [discriminate|]. intros [H|[H _]]; [contradiction | discriminate].
Qed.

Lemma has_remote_perm_pivot sc st a :
  wf_scenario sc = true -> wf_state sc st = true ->
  has_remote_perm sc st a = true -> pivot sc st a.
Proof.
  intros Hsc Hst H. unfold has_remote_perm in H. unfold pivot.
  destruct (subnet_public sc (fst (a_tgt a))) eqn:Hpub; [left; reflexivity|].
  right. apply existsb_exists in H. destruct H as [p [Hp Hb]].
  apply andb_true_iff in Hb. destruct Hb as [Hb B4].
  apply andb_true_iff in Hb. destruct Hb as [Hb B3].
  apply andb_true_iff in Hb. destruct Hb as [B1 B2].
  destruct (member_row sc st p Hsc Hst Hp) as [Hin Hrow].
  destruct p as [y h]. cbn [fst snd] in *.
  exists y. unfold compromised_at, row. rewrite Hrow.
  split; [split; assumption|].
  split; [unfold has_access in B4; apply Nat.leb_le in B4; exact B4|].
  split.
  - intros Hscan. rewrite Hscan in B2. cbn [negb orb] in B2. exact B2.
  - intros Hex. rewrite Hex in B3. cbn [negb orb] in B3.
    apply stp_spec in B3. exact B3.
Qed.

Lemma pivot_has_remote_perm sc st a :
  wf_state sc st = true -> pivot sc st a -> has_remote_perm sc st a = true.
Proof.
  intros Hst Hp. unfold has_remote_perm.
  destruct (subnet_public sc (fst (a_tgt a))) eqn:Hpub; [reflexivity|].
  destruct Hp as [Hp|[y [[Hin Hc] [Hacc [Hscan Hex]]]]]; [congruence|].
  unfold row in *.
  apply existsb_exists. exists (y, get_row sc st y). split.
  - apply in_rows_of_addr; [apply wf_state_length; exact Hst | exact Hin].
  - cbn [fst snd]. rewrite Hc. cbn [andb].
    apply andb_true_iff. split; [apply andb_true_iff; split|].
    + destruct (is_scan a); cbn [negb orb]; [apply Hscan; reflexivity | reflexivity].
    + destruct (is_exploit a); cbn [negb orb]; [|reflexivity].
      apply stp_spec. apply Hex. reflexivity.
    + unfold has_access. apply Nat.leb_le. exact Hacc.
Qed.

Lemma traffic_permitted_admits sc st a :
  wf_scenario sc = true -> wf_state sc st = true -> In (a_tgt a) (addresses sc) ->
  traffic_permitted sc st (a_tgt a) (a_srv a) = true -> admits sc st a.
Proof.
  intros Hsc Hst Htgt H. unfold traffic_permitted in H. unfold admits.
  apply orb_true_iff in H. destruct H as [H|H].
  - left. apply andb_true_iff in H. destruct H as [Hpub Hs].
    split; [exact Hpub|].
    apply stp_spec in Hs. destruct Hs as [Hs|[_ Hs]]; [|exact Hs].
    pose proof (valid_addr_bounds sc (a_tgt a) (wf_valid_addr sc (a_tgt a) Hsc Htgt)) as Hb.
    lia.
  - right. apply existsb_exists in H. destruct H as [p [Hp Hb]].
    apply andb_true_iff in Hb. destruct Hb as [Hb B3].
    apply andb_true_iff in Hb. destruct Hb as [B1 B2].
    destruct (member_row sc st p Hsc Hst Hp) as [Hin Hrow].
    destruct p as [y h]. cbn [fst snd] in *.
    exists y. unfold compromised_at, row. rewrite Hrow.
    split; [split; assumption|].
    split; [apply stp_spec in B2; exact B2|].
    apply negb_true_iff in B3. exact B3.
Qed.

Lemma admits_traffic_permitted sc st a :
  wf_scenario sc = true -> wf_state sc st = true -> In (a_tgt a) (addresses sc) ->
  admits sc st a -> traffic_permitted sc st (a_tgt a) (a_srv a) = true.
Proof.
  intros Hsc Hst Htgt Ha. unfold traffic_permitted. apply orb_true_iff.
  destruct Ha as [[Hpub Hfw]|[y [[Hin Hc] [Hpos Hden]]]].
  - left. rewrite Hpub. cbn [andb]. apply stp_spec. right. split; [|exact Hfw].
    pose proof (valid_addr_bounds sc (a_tgt a) (wf_valid_addr sc (a_tgt a) Hsc Htgt)) as Hb.
    unfold subnet_public in Hpub.
    rewrite (wf_connected_sym sc Hsc (s:=O) (t:=fst (a_tgt a))); [exact Hpub | lia | lia].
  - right. unfold row in *.
    apply existsb_exists. exists (y, get_row sc st y). split.
    + apply in_rows_of_addr; [apply wf_state_length; exact Hst | exact Hin].
    + cbn [fst snd]. rewrite Hc, Hden. cbn [andb negb].
      rewrite andb_true_r. apply stp_spec. exact Hpos.
Qed.

(* ====================================================================== *)
(* C01                                                                     *)
(* ====================================================================== *)
Ltac nochange H :=
  exfalso; destruct H as [H|H]; apply H; (reflexivity || assumption || congruence).

Lemma C01_frame_proof : C01_frame_stmt.
Proof.
  unfold C01_frame_stmt. intros sc st a k x Hsc Hst Hx Hch. unfold row in *.
  destruct (is_noop a) eqn:Hn.
  { unfold next in Hch. rewrite (pa_noop sc st a k Hn) in Hch. cbn [fst] in Hch. nochange Hch. }
  destruct (gates_ok sc st a) eqn:Hg.
  2:{ destruct (pa_gates_fail_next sc st a k Hn Hg) as [E _]. rewrite E in Hch. nochange Hch. }
  unfold next, res in *. rewrite (pa_gates_ok sc st a k Hn Hg) in *.
  unfold pa_body in *. cbv zeta in *.
  destruct (negb (is_exploit a && h_comp (get_row sc st (a_tgt a))) && chance_fails a k) eqn:Hc.
  { cbn [fst] in Hch. nochange Hch. }
  destruct (is_subnet_scan a) eqn:Hss.
  - exfalso. unfold subnet_scan in Hch. cbv zeta in Hch.
    destruct (negb (h_comp (get_row sc st (a_tgt a)))); [cbn [fst] in Hch; nochange Hch|].
    destruct (negb (has_access (get_row sc st (a_tgt a)) (a_req a))); [cbn [fst] in Hch; nochange Hch|].
    cbn [fst] in Hch.
    destruct (scan_update_comp_acc sc st (fst (a_tgt a)) x) as [E1 E2].
    nochange Hch.
  - destruct (host_perform (get_row sc st (a_tgt a)) a) as [t' r] eqn:Hhp.
    cbn [fst snd] in *.
    assert (Hst2 :
      h_comp (get_row sc (if is_exploit a && r_success r
                          then update_reachable sc (set_row sc st (a_tgt a) t') (fst (a_tgt a))
                          else set_row sc st (a_tgt a) t') x)
      = h_comp (get_row sc (set_row sc st (a_tgt a) t') x)
      /\ h_acc (get_row sc (if is_exploit a && r_success r
                          then update_reachable sc (set_row sc st (a_tgt a) t') (fst (a_tgt a))
                          else set_row sc st (a_tgt a) t') x)
      = h_acc (get_row sc (set_row sc st (a_tgt a) t') x)).
    { destruct (is_exploit a && r_success r); [apply update_reachable_comp_acc | split; reflexivity]. }
    destruct Hst2 as [E1 E2]. rewrite E1, E2 in Hch. clear E1 E2.
    destruct (get_row_set_row_cases sc st (a_tgt a) t' x) as [[Ex Er]|Er].
    + rewrite Er in Hch. subst x.
      pose proof (host_perform_change (get_row sc st (a_tgt a)) a) as Hhc.
      rewrite Hhp in Hhc. cbn [fst snd] in Hhc. specialize (Hhc Hch).
      destruct Hhc as [Hs Hpre]. split; [reflexivity|]. split; assumption.
    + rewrite Er in Hch. nochange Hch.
Qed.

Lemma C01_exploit_must_succeed_proof : C01_exploit_must_succeed_stmt.
Proof.
  unfold C01_exploit_must_succeed_stmt.
  intros sc st a k Hsc Hst [Htgt [Hacc _]] He Hr Hd Hpiv Hadm Hpre Hk. unfold trow in *.
  destruct (exploit_not_others a He) as [Hn [Hp [Hss [_ Hrem]]]].
  pose proof (exploit_kind a He) as K.
  assert (Hg : gates_ok sc st a = true).
  { unfold gates_ok, trow. cbv zeta. rewrite Hr, Hd, Hp.
    rewrite (pivot_has_remote_perm sc st a Hst Hpiv).
    rewrite (admits_traffic_permitted sc st a Hsc Hst Htgt Hadm).
    rewrite !orb_true_r. reflexivity. }
  unfold next, res. rewrite (pa_gates_ok sc st a k Hn Hg).
  unfold pa_body. cbv zeta. rewrite Hss.
  assert (Hc : negb (is_exploit a && h_comp (get_row sc st (a_tgt a))) && chance_fails a k = false).
  { rewrite He. cbn [andb]. destruct Hk as [Hk|Hk].
    - rewrite Hk. reflexivity.
    - unfold chance_fails. apply andb_false_iff. right. apply Z.leb_gt. exact Hk. }
  rewrite Hc.
  unfold host_perform. rewrite K, He. cbn [andb].
  unfold pre_exploit in Hpre. rewrite Hpre. cbn [fst snd r_success].
  pose proof (wf_state_in_rows sc st (a_tgt a) Hst Htgt) as Hin.
  destruct (update_reachable_comp_acc sc
              (set_row sc st (a_tgt a)
                 (set_acc (set_comp (get_row sc st (a_tgt a)) true)
                    (gain_access (get_row sc st (a_tgt a)) a)))
              (fst (a_tgt a)) (a_tgt a)) as [E1 E2].
  rewrite E1, E2. rewrite (get_row_set_row_same sc st (a_tgt a) _ Hin).
  cbn [h_comp h_acc set_acc set_comp].
  split; [reflexivity|]. split; [reflexivity|].
  apply gain_access_max.
  - apply wf_state_acc_le; assumption.
  - apply Hacc. left. exact He.
Qed.

Lemma C01_privesc_must_succeed_proof : C01_privesc_must_succeed_stmt.
Proof.
  unfold C01_privesc_must_succeed_stmt.
  intros sc st a k Hsc Hst [Htgt [Hacc _]] Hp Hr Hd Hpre Hk. unfold trow in *.
  destruct (privesc_not_others a Hp) as [Hn [He [Hss Hrem]]].
  pose proof (privesc_kind a Hp) as K.
  unfold pre_privesc in Hpre.
  apply andb_true_iff in Hpre. destruct Hpre as [Hpre P4].
  apply andb_true_iff in Hpre. destruct Hpre as [Hpre P3].
  apply andb_true_iff in Hpre. destruct Hpre as [P1 P2].
  assert (Hg : gates_ok sc st a = true).
  { unfold gates_ok, trow. cbv zeta. rewrite Hr, Hd, Hrem, He, Hp, P1. reflexivity. }
  unfold next, res. rewrite (pa_gates_ok sc st a k Hn Hg).
  unfold pa_body. cbv zeta. rewrite Hss, He. cbn [andb negb].
  assert (Hc : chance_fails a k = false).
  { unfold chance_fails. apply Z.leb_gt. exact Hk. }
  rewrite Hc.
  unfold host_perform. rewrite K, He, P1, P2, P3, P4. cbn [andb negb fst snd r_success].
  pose proof (wf_state_in_rows sc st (a_tgt a) Hst Htgt) as Hin.
  rewrite (get_row_set_row_same sc st (a_tgt a) _ Hin).
  cbn [h_comp h_acc set_acc].
  split; [reflexivity|]. split; [exact P1|].
  apply gain_access_max.
  - apply wf_state_acc_le; assumption.
  - apply Hacc. right. exact Hp.
Qed.

Lemma C01_scans_inert_proof : C01_scans_inert_stmt.
Proof.
  unfold C01_scans_inert_stmt. intros sc st a k x He Hp. unfold row, next.
  destruct (is_noop a) eqn:Hn.
  { rewrite (pa_noop sc st a k Hn). split; reflexivity. }
  destruct (gates_ok sc st a) eqn:Hg.
  2:{ destruct (pa_gates_fail_next sc st a k Hn Hg) as [E _]. unfold next in E. rewrite E.
      split; reflexivity. }
  rewrite (pa_gates_ok sc st a k Hn Hg).
  unfold pa_body. cbv zeta. rewrite He. cbn [andb negb].
  destruct (chance_fails a k); [split; reflexivity|].
  destruct (is_subnet_scan a) eqn:Hss.
  - unfold subnet_scan. cbv zeta.
    destruct (negb (h_comp (get_row sc st (a_tgt a)))); [split; reflexivity|].
    destruct (negb (has_access (get_row sc st (a_tgt a)) (a_req a))); [split; reflexivity|].
    cbn [fst]. apply scan_update_comp_acc.
  - pose proof (host_perform_inert (get_row sc st (a_tgt a)) a He Hp) as Hin.
    destruct (host_perform (get_row sc st (a_tgt a)) a) as [t' r] eqn:Hhp.
    cbn [fst snd] in *.
    destruct (get_row_set_row_cases sc st (a_tgt a) t' x) as [[Ex Er]|Er].
    + rewrite Er. subst x. exact Hin.
    + rewrite Er. split; reflexivity.
Qed.

(* ====================================================================== *)
(* C02                                                                     *)
(* ====================================================================== *)
Lemma C02_unreached_fails_proof : C02_unreached_fails_stmt.
Proof.
  unfold C02_unreached_fails_stmt. intros sc st a k Hn Hrd.
  unfold next, res, trow, perform_action in *. cbv zeta. rewrite Hn.
  assert (E : negb (h_reach (get_row sc st (a_tgt a))) || negb (h_disc (get_row sc st (a_tgt a))) = true).
  { rewrite <- negb_andb. rewrite Hrd. reflexivity. }
  rewrite E. cbn [fst snd]. repeat split; reflexivity.
Qed.

Lemma C02_remote_needs_pivot_proof : C02_remote_needs_pivot_stmt.
Proof.
  unfold C02_remote_needs_pivot_stmt. intros sc st a k Hsc Hst Hrem Hs.
  pose proof (remote_not_noop a Hrem) as Hn.
  pose proof (success_gates sc st a k Hn Hs) as Hg.
  unfold gates_ok in Hg. cbv zeta in Hg.
  apply andb_true_iff in Hg. destruct Hg as [Hg _].
  apply andb_true_iff in Hg. destruct Hg as [Hg _].
  apply andb_true_iff in Hg. destruct Hg as [_ G3].
  rewrite Hrem in G3. cbn [negb orb] in G3.
  apply has_remote_perm_pivot; assumption.
Qed.

Lemma C02_exploit_needs_admission_proof : C02_exploit_needs_admission_stmt.
Proof.
  unfold C02_exploit_needs_admission_stmt. intros sc st a k Hsc Hst Htgt He Hs.
  destruct (exploit_not_others a He) as [Hn _].
  pose proof (success_gates sc st a k Hn Hs) as Hg.
  unfold gates_ok in Hg. cbv zeta in Hg.
  apply andb_true_iff in Hg. destruct Hg as [Hg _].
  apply andb_true_iff in Hg. destruct Hg as [_ G4].
  rewrite He in G4. cbn [negb orb] in G4.
  apply traffic_permitted_admits; assumption.
Qed.

Lemma host_perform_onhost h a :
  (a_kind a = KProcScan \/ a_kind a = KPrivesc) ->
  r_success (snd (host_perform h a)) = true ->
  h_comp h = true /\ (a_req a <= h_acc h)%nat.
Proof.
  intros HK. unfold host_perform, is_exploit.
  destruct HK as [K|K]; rewrite K; cbn [akind_eqb andb];
    (destruct (h_comp h && Nat.leb (a_req a) (h_acc h)) eqn:E; cbn [negb snd r_success];
     [intros _; apply andb_true_iff in E; destruct E as [E1 E2]; apply Nat.leb_le in E2;
      split; assumption
     | discriminate]).
Qed.

Lemma C02_onhost_needs_access_proof : C02_onhost_needs_access_stmt.
Proof.
  unfold C02_onhost_needs_access_stmt. intros sc st a k HK Hs. unfold trow.
  assert (Hn : is_noop a = false).
  { unfold is_noop. destruct HK as [K|[K|K]]; rewrite K; reflexivity. }
  pose proof (success_gates sc st a k Hn Hs) as Hg.
  unfold res in Hs. rewrite (pa_gates_ok sc st a k Hn Hg) in Hs.
  unfold pa_body in Hs. cbv zeta in Hs.
  destruct (negb (is_exploit a && h_comp (get_row sc st (a_tgt a))) && chance_fails a k);
    [cbn [fst snd r_success] in Hs; discriminate|].
  destruct HK as [K|HK].
  - assert (Hss : is_subnet_scan a = true) by (unfold is_subnet_scan; rewrite K; reflexivity).
    rewrite Hss in Hs. unfold subnet_scan in Hs. cbv zeta in Hs.
    destruct (h_comp (get_row sc st (a_tgt a))) eqn:Hc; cbn [negb] in Hs;
      [|cbn [fst snd r_success] in Hs; discriminate].
    destruct (has_access (get_row sc st (a_tgt a)) (a_req a)) eqn:Ha; cbn [negb] in Hs;
      [|cbn [fst snd r_success] in Hs; discriminate].
    split; [reflexivity|]. unfold has_access in Ha. apply Nat.leb_le in Ha. exact Ha.
  - assert (Hss : is_subnet_scan a = false).
    { unfold is_subnet_scan. destruct HK as [K|K]; rewrite K; reflexivity. }
    rewrite Hss in Hs.
    pose proof (host_perform_onhost (get_row sc st (a_tgt a)) a HK) as Hoh.
    destruct (host_perform (get_row sc st (a_tgt a)) a) as [t' r] eqn:Hhp.
    cbn [fst snd] in *. apply Hoh. exact Hs.
Qed.

Lemma C02_failure_changes_nothing_proof : C02_failure_changes_nothing_stmt.
Proof.
  unfold C02_failure_changes_nothing_stmt. intros sc st a k Hsc Hst Hf.
  destruct (is_noop a) eqn:Hn.
  { unfold next. rewrite (pa_noop sc st a k Hn). reflexivity. }
  destruct (gates_ok sc st a) eqn:Hg.
  2:{ apply (pa_gates_fail_next sc st a k Hn Hg). }
  unfold next, res in *. rewrite (pa_gates_ok sc st a k Hn Hg) in *.
  unfold pa_body in *. cbv zeta in *.
  destruct (negb (is_exploit a && h_comp (get_row sc st (a_tgt a))) && chance_fails a k);
    [reflexivity|].
  destruct (is_subnet_scan a) eqn:Hss.
  - unfold subnet_scan in *. cbv zeta in *.
    destruct (negb (h_comp (get_row sc st (a_tgt a)))); [reflexivity|].
    destruct (negb (has_access (get_row sc st (a_tgt a)) (a_req a))); [reflexivity|].
    cbn [fst snd r_success] in Hf. discriminate.
  - pose proof (host_perform_fail (get_row sc st (a_tgt a)) a) as Hhf.
    destruct (host_perform (get_row sc st (a_tgt a)) a) as [t' r] eqn:Hhp.
    cbn [fst snd] in *. specialize (Hhf Hf). subst t'.
    rewrite Hf, andb_false_r.
    apply set_row_same; [apply wf_nodup; exact Hsc | apply wf_state_length; exact Hst].
Qed.

Print Assumptions C01_frame_proof.
Print Assumptions C01_exploit_must_succeed_proof.
Print Assumptions C01_privesc_must_succeed_proof.
Print Assumptions C01_scans_inert_proof.
Print Assumptions C02_unreached_fails_proof.
Print Assumptions C02_remote_needs_pivot_proof.
Print Assumptions C02_exploit_needs_admission_proof.
Print Assumptions C02_onhost_needs_access_proof.
Print Assumptions C02_failure_changes_nothing_proof.
