(* PC20b.v -- C20, the part that holds: in the cost/value domain the total reward of a
   goal-reaching history from the initial state is at most
   (sensitive value) + (non-negative discovery value) - (number of sensitive hosts),
   so the advertised bound is valid whenever min_hops <= number of sensitive hosts. *)
From NasimV Require Import StmtHops StmtDyn.
From NasimV.proofs Require Import RowLemmas PC01C02 PC04 PC05 PC06C07.

Lemma U_pos : 0 < U.
Proof. unfold U. lia. Qed.

(* ================= sums ================= *)
Lemma sumZ_app (l1 l2 : list Z) : sumZ (l1 ++ l2) = sumZ l1 + sumZ l2.
Proof.
  induction l1 as [|x l1 IH]; cbn [app sumZ]; [reflexivity|]. rewrite IH. lia.
Qed.

Lemma sumZ_map_le {A : Type} (f g : A -> Z) (l : list A) :
  (forall x, In x l -> f x <= g x) -> sumZ (map f l) <= sumZ (map g l).
Proof.
  induction l as [|y l IH]; cbn [map sumZ]; intros H; [lia|].
  assert (H1 : f y <= g y) by (apply H; left; reflexivity).
  assert (H2 : sumZ (map f l) <= sumZ (map g l)).
  { apply IH. intros x Hx. apply H. right. exact Hx. }
  lia.
Qed.

Lemma sumZ_map_nonpos {A : Type} (f : A -> Z) (l : list A) :
  (forall x, In x l -> f x <= 0) -> sumZ (map f l) <= 0.
Proof.
  induction l as [|y l IH]; cbn [map sumZ]; intros H; [lia|].
  assert (H1 : f y <= 0) by (apply H; left; reflexivity).
  assert (H2 : sumZ (map f l) <= 0).
  { apply IH. intros x Hx. apply H. right. exact Hx. }
  lia.
Qed.

(* a function that is non-positive off a duplicate-free sub-list *)
Lemma sumZ_sub {A : Type} (w : A -> Z) :
  forall s l, NoDup s -> NoDup l -> incl s l ->
    (forall x, In x l -> ~ In x s -> w x <= 0) ->
    sumZ (map w l) <= sumZ (map w s).
Proof.
  induction s as [|a s IH]; intros l NS NL Hincl Hw.
  - cbn [map sumZ]. apply sumZ_map_nonpos. intros x Hx. apply Hw; auto.
  - inversion NS as [|? ? Hna NS']; subst.
    assert (Ha : In a l) by (apply Hincl; left; reflexivity).
    destruct (in_split _ _ Ha) as (l1 & l2 & ->).
    pose proof (NoDup_remove_1 _ _ _ NL) as NL'.
    pose proof (NoDup_remove_2 _ _ _ NL) as Hnot.
    rewrite map_app, sumZ_app. cbn [map sumZ].
    specialize (IH (l1 ++ l2) NS' NL').
    rewrite map_app, sumZ_app in IH.
    enough (E : sumZ (map w l1) + sumZ (map w l2) <= sumZ (map w s)) by lia.
    apply IH.
    + intros x Hx.
      assert (Hx' : In x (l1 ++ a :: l2)) by (apply Hincl; right; exact Hx).
      apply in_app_or in Hx'. apply in_or_app.
      destruct Hx' as [Hx'|[Hx'|Hx']]; auto. subst. contradiction.
    + intros x Hx Hns. apply Hw.
      * apply in_app_or in Hx. apply in_or_app.
        destruct Hx as [Hx|Hx]; [left | right; right]; exact Hx.
      * intros [E|E]; [subst; contradiction | contradiction].
Qed.

Lemma sumZ_map_shift {A : Type} (f g : A -> Z) (l : list A) :
  (forall e, In e l -> f e = g e - U) ->
  sumZ (map f l) = sumZ (map g l) - U * Z.of_nat (length l).
Proof.
  induction l as [|y l IH]; intros H.
  - cbn [map sumZ length]. lia.
  - cbn [map sumZ length]. rewrite Nat2Z.inj_succ.
    rewrite (H y) by (left; reflexivity).
    rewrite IH by (intros e He; apply H; right; exact He). lia.
Qed.

(* ================= episode = run_steps minus the costs ================= *)
Definition costs (l : list (action * Z)) : Z := sumZ (map (fun p => a_cost (fst p)) l).

Lemma episode_run sc : forall l st,
  episode sc st l = (fst (run_steps sc st l), snd (run_steps sc st l) - costs l).
Proof.
  induction l as [|[a k] r IH]; intros st.
  - reflexivity.
  - cbn [episode run_steps]. rewrite o_next_generative_step. rewrite IH.
    destruct (C05_reward_proof sc (mkModes true true true) st a k) as [HR _]. rewrite HR.
    destruct (run_steps sc (next sc st a k) r) as [stf v]. cbn [fst snd].
    unfold costs. cbn [map sumZ fst]. f_equal. lia.
Qed.

Lemma costs_ge sc (l : list (action * Z)) :
  cost_value_domain sc = true -> Forall (fun p => In (fst p) (flat sc)) l ->
  U * Z.of_nat (length l) <= costs l.
Proof.
  intros CV Hall. unfold cost_value_domain in CV. apply andb_true_iff in CV.
  destruct CV as [CV _]. rewrite forallb_forall in CV.
  induction Hall as [|p l Hp Hall IH].
  - unfold costs. cbn [map sumZ length]. lia.
  - unfold costs in *. cbn [map sumZ length]. rewrite Nat2Z.inj_succ.
    specialize (CV _ Hp). apply Z.leb_le in CV. lia.
Qed.

Lemma flat_act_ok sc (l : list (action * Z)) :
  wf_scenario sc = true -> Forall (fun p => In (fst p) (flat sc)) l ->
  Forall (fun p => act_ok sc (fst p)) l.
Proof.
  intros WS Hall. eapply Forall_impl; [|exact Hall].
  intros p Hp. apply in_space_act_ok; [exact WS | right; exact Hp].
Qed.

(* ================= rows of well-formed states ================= *)
Lemma init_acc sc x :
  wf_scenario sc = true -> In x (addresses sc) ->
  h_acc (get_row sc (initial_state sc) x) = O.
Proof.
  intros WS Hx. pose proof (wf_initial_state sc) as WF.
  pose proof (C04_reset_is_init_proof sc (initial_state sc) WS WF) as E.
  rewrite <- E. rewrite get_row_net_reset by auto. reflexivity.
Qed.

Lemma wf_row_cfg sc st x c :
  wf_scenario sc = true -> wf_state sc st = true -> In (x, c) (s_hosts sc) ->
  h_val (get_row sc st x) = c_val c /\ h_dval (get_row sc st x) = c_dval c.
Proof.
  intros WS WF Hin.
  destruct (proj1 (wf_state_iff sc st (wf_nodup sc WS)) WF) as [_ H].
  destruct (H x c Hin) as [Hc _]. apply cfg_matches_spec in Hc. tauto.
Qed.

Lemma assoc_In {B : Type} (k : addr) (l : list (addr * B)) (v : B) :
  assoc k l = Some v -> In (k, v) l.
Proof.
  induction l as [|[k' v'] r IH]; cbn [assoc]; intros H; [discriminate|].
  destruct (addr_eqb k' k) eqn:E.
  - apply addr_eqb_eq in E. inversion H; subst. left; reflexivity.
  - right. apply IH. exact H.
Qed.

Lemma sens_facts sc :
  wf_scenario sc = true ->
  NoDup (map fst (s_sens sc))
  /\ forall e, In e (s_sens sc) -> exists c, In (fst e, c) (s_hosts sc) /\ c_val c = snd e.
Proof.
  intros WS. assert (SO : sens_ok sc = true).
  { unfold wf_scenario in WS. repeat rewrite andb_true_iff in WS. tauto. }
  unfold sens_ok in SO. apply andb_true_iff in SO. destruct SO as [SO HF].
  apply andb_true_iff in SO. destruct SO as [_ ND]. split.
  - apply nodupb_addr_NoDup. exact ND.
  - intros e He. rewrite forallb_forall in HF. specialize (HF e He).
    apply andb_true_iff in HF. destruct HF as [_ HF].
    unfold host_cfg in HF. destruct (assoc (fst e) (s_hosts sc)) as [c|] eqn:EA; [|discriminate].
    exists c. split; [apply assoc_In; exact EA | apply Z.eqb_eq; exact HF].
Qed.

(* ================= counting rooted hosts, in units of U ================= *)
Definition rtU (sc : scenario) (st : state) (x : addr) : Z :=
  if Nat.eqb (h_acc (get_row sc st x)) 2 then U else 0.
Definition RU (sc : scenario) (st : state) : Z := sumZ (map (rtU sc st) (addresses sc)).

(* one step roots at most one host *)
Lemma RU_step sc st a k :
  wf_scenario sc = true -> wf_state sc st = true -> act_ok sc a ->
  RU sc (next sc st a k) <= RU sc st + U.
Proof.
  intros WS WF (Htgt & _). unfold RU.
  rewrite (sumZ_map_add (rtU sc (next sc st a k)) (rtU sc st)
             (fun x => rtU sc (next sc st a k) x - rtU sc st x)) by (intros; lia).
  enough (E : sumZ (map (fun x => rtU sc (next sc st a k) x - rtU sc st x) (addresses sc)) <= U)
    by lia.
  rewrite (sumZ_map_single _ (addresses sc) (a_tgt a) (wf_nodup sc WS) Htgt).
  - unfold rtU. pose proof U_pos as UP.
    destruct (Nat.eqb (h_acc (get_row sc (next sc st a k) (a_tgt a))) 2);
      destruct (Nat.eqb (h_acc (get_row sc st (a_tgt a))) 2); lia.
  - intros y Hy Hne. unfold rtU.
    destruct (Nat.eq_dec (h_acc (get_row sc (next sc st a k) y)) (h_acc (get_row sc st y))) as [E|E].
    + rewrite E. apply Z.sub_diag.
    + exfalso. apply Hne. symmetry.
      destruct (C01_frame_proof sc st a k y WS WF Hy) as [HT _]; [right; exact E | exact HT].
Qed.

Lemma RU_run sc :
  wf_scenario sc = true ->
  forall l st, wf_state sc st = true -> Forall (fun p => act_ok sc (fst p)) l ->
    RU sc (fst (run_steps sc st l)) <= RU sc st + U * Z.of_nat (length l).
Proof.
  intros WS. induction l as [|[a k] r IH]; intros st WF Hall.
  - cbn [run_steps fst length]. lia.
  - inversion Hall as [|? ? Hok Hall']; subst. cbn [fst] in Hok.
    pose proof (next_wf sc st a k WS WF Hok) as WF'.
    specialize (IH (next sc st a k) WF' Hall').
    pose proof (RU_step sc st a k WS WF Hok) as HS.
    cbn [run_steps length]. rewrite Nat2Z.inj_succ.
    destruct (run_steps sc (next sc st a k) r) as [stf v]. cbn [fst] in *. lia.
Qed.

(* ================= the pieces of [gained] from the initial state ================= *)
Definition wv (sc : scenario) (st0 stf : state) (x : addr) : Z :=
  if Nat.eqb (h_acc (get_row sc stf x)) 2 then h_val (get_row sc st0 x) - U else 0.
Definition dv (sc : scenario) (st0 : state) (x : addr) : Z :=
  Z.max 0 (h_dval (get_row sc st0 x)).

Lemma gained_split sc st0 stf :
  (forall x, In x (addresses sc) -> h_acc (get_row sc st0 x) = O) ->
  gained sc st0 stf
  <= sumZ (map (wv sc st0 stf) (addresses sc)) + RU sc stf + sumZ (map (dv sc st0) (addresses sc)).
Proof.
  intros H0. rewrite gained_eq. unfold RU.
  rewrite <- (sumZ_map_add (fun x => wv sc st0 stf x + rtU sc stf x) (wv sc st0 stf) (rtU sc stf))
    by (intros; reflexivity).
  rewrite <- (sumZ_map_add (fun x => wv sc st0 stf x + rtU sc stf x + dv sc st0 x)
                (fun x => wv sc st0 stf x + rtU sc stf x) (dv sc st0))
    by (intros; reflexivity).
  apply sumZ_map_le. intros x Hx.
  unfold gsum, newly_rooted, newly_disc, row, ROOT, wv, rtU, dv.
  rewrite (H0 x Hx). change (Nat.eqb 0 2) with false. cbn [negb andb].
  destruct (Nat.eqb (h_acc (get_row sc stf x)) 2);
    destruct (negb (h_disc (get_row sc st0 x)) && h_disc (get_row sc stf x)); lia.
Qed.

Lemma dv_total sc st0 :
  wf_scenario sc = true -> wf_state sc st0 = true ->
  sumZ (map (dv sc st0) (addresses sc)) = total_disc_value sc.
Proof.
  intros WS WF. unfold total_disc_value, addresses. rewrite map_map. f_equal.
  apply map_ext_in. intros [x c] Hin. unfold dv. cbn [fst snd].
  destruct (wf_row_cfg sc st0 x c WS WF Hin) as [_ HD]. rewrite HD. reflexivity.
Qed.

Lemma wv_total sc st0 stf :
  wf_scenario sc = true -> cost_value_domain sc = true ->
  wf_state sc st0 = true -> wf_state sc stf = true -> goal sc stf = true ->
  sumZ (map (wv sc st0 stf) (addresses sc))
  <= total_sens_value sc - U * Z.of_nat (length (s_sens sc)).
Proof.
  intros WS CV WF0 WFf HG.
  destruct (sens_facts sc WS) as [NDs HS].
  pose proof (wf_nodup sc WS) as ND.
  assert (Hincl : incl (map fst (s_sens sc)) (addresses sc)).
  { intros x Hx. apply in_map_iff in Hx. destruct Hx as [e [<- He]].
    destruct (HS e He) as [c [Hc _]]. eapply in_cfg_addresses. exact Hc. }
  assert (LE : sumZ (map (wv sc st0 stf) (addresses sc))
               <= sumZ (map (wv sc st0 stf) (map fst (s_sens sc)))).
  { apply sumZ_sub; auto.
    intros x Hx Hns. unfold wv.
    destruct (Nat.eqb (h_acc (get_row sc stf x)) 2); [|lia].
    destruct (in_addresses_cfg sc x Hx) as [c Hc].
    destruct (wf_row_cfg sc st0 x c WS WF0 Hc) as [HV _]. rewrite HV.
    unfold cost_value_domain in CV. apply andb_true_iff in CV. destruct CV as [_ CV].
    rewrite forallb_forall in CV. specialize (CV _ Hc). cbn [fst snd] in CV.
    destruct (mem_addr x (map fst (s_sens sc))) eqn:M.
    - exfalso. apply Hns. apply mem_addr_In. exact M.
    - cbn [orb] in CV. apply Z.leb_le in CV. lia. }
  assert (EQ : sumZ (map (wv sc st0 stf) (map fst (s_sens sc)))
               = total_sens_value sc - U * Z.of_nat (length (s_sens sc))).
  { rewrite map_map. unfold total_sens_value. apply sumZ_map_shift.
    intros e He. destruct (HS e He) as [c [Hc Hv]].
    destruct (wf_row_cfg sc st0 (fst e) c WS WF0 Hc) as [HV _].
    unfold wv. rewrite HV, Hv.
    assert (HA : h_acc (get_row sc stf (fst e)) = 2%nat).
    { unfold goal in HG. rewrite forallb_forall in HG. specialize (HG e He).
      unfold has_access, ROOT in HG. apply Nat.leb_le in HG.
      pose proof (wf_state_acc sc stf (fst e) WFf (in_cfg_addresses sc _ _ Hc)) as HB. lia. }
    rewrite HA. reflexivity. }
  lia.
Qed.

(* ================= C20 ================= *)
Lemma C20_sound_bound_proof : C20_sound_bound_stmt.
Proof.
  unfold C20_sound_bound_stmt. intros sc l WS CV Hflat HG.
  rewrite episode_run in *. cbn [fst snd] in *.
  pose proof (wf_initial_state sc) as WF0.
  pose proof (flat_act_ok sc l WS Hflat) as Hok.
  destruct (run_steps_inv sc WS l (initial_state sc) WF0 Hok) as [WFf _].
  rewrite (C05_episode_telescopes_proof sc (initial_state sc) l WS WF0 Hok).
  set (st0 := initial_state sc) in *.
  set (stf := fst (run_steps sc st0 l)) in *.
  pose proof (gained_split sc st0 stf (fun x Hx => init_acc sc x WS Hx)) as G.
  rewrite (dv_total sc st0 WS WF0) in G.
  pose proof (wv_total sc st0 stf WS CV WF0 WFf HG) as W.
  pose proof (RU_run sc WS l st0 WF0 Hok) as R. fold stf in R.
  assert (R0 : RU sc st0 = 0).
  { unfold RU. apply sumZ_map_zero. intros x Hx. unfold rtU, st0.
    rewrite (init_acc sc x WS Hx). reflexivity. }
  pose proof (costs_ge sc l CV Hflat) as C.
  lia.
Qed.

Lemma C20_advertised_bound_valid_when_proof : C20_advertised_bound_valid_when_stmt.
Proof.
  unfold C20_advertised_bound_valid_when_stmt. intros sc l WS CV Hflat HG HM.
  pose proof (C20_sound_bound_proof sc l WS CV Hflat HG) as B.
  unfold score_upper_bound. pose proof U_pos as UP. nia.
Qed.

Print Assumptions C20_sound_bound_proof.
Print Assumptions C20_advertised_bound_valid_when_proof.
