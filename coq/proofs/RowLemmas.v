(* RowLemmas.v -- basic facts about positional rows, lookups and updates, and what
   wf_scenario / wf_state give.  Shared by all dynamics proofs. *)
From NasimV Require Import Spec.
Set Implicit Arguments.

Lemma addr_eqb_eq (a b : addr) : addr_eqb a b = true <-> a = b.
Proof.
  unfold addr_eqb. destruct a as [a1 a2], b as [b1 b2]; simpl.
  rewrite andb_true_iff, !Nat.eqb_eq. split.
  - intros [-> ->]; reflexivity.
  - intros H; inversion H; auto.
Qed.

Lemma addr_eqb_refl (a : addr) : addr_eqb a a = true.
Proof. apply addr_eqb_eq; reflexivity. Qed.

Lemma addr_eqb_neq (a b : addr) : addr_eqb a b = false <-> a <> b.
Proof.
  split.
  - intros H E. apply addr_eqb_eq in E. congruence.
  - intros H. destruct (addr_eqb a b) eqn:E; auto. apply addr_eqb_eq in E. contradiction.
Qed.

Lemma addr_eqb_sym (a b : addr) : addr_eqb a b = addr_eqb b a.
Proof.
  destruct (addr_eqb a b) eqn:E.
  - apply addr_eqb_eq in E; subst. symmetry; apply addr_eqb_refl.
  - symmetry. apply addr_eqb_neq. apply addr_eqb_neq in E. congruence.
Qed.

(* ---------- combine / rows ---------- *)
Lemma combine_map_snd {A B C : Type} (l : list A) (l' : list B) (g : A * B -> C) :
  combine l (map g (combine l l')) = map (fun p => (fst p, g p)) (combine l l').
Proof.
  revert l'. induction l as [|x l IH]; intros [|y l']; simpl; auto.
  f_equal. apply IH.
Qed.

Lemma rows_map_rows sc f st :
  rows sc (map_rows sc f st) = map (fun p => (fst p, f (fst p) (snd p))) (rows sc st).
Proof. unfold rows, map_rows. apply combine_map_snd. Qed.

Lemma map_fst_rows_map_rows sc f st :
  map fst (rows sc (map_rows sc f st)) = map fst (rows sc st).
Proof. rewrite rows_map_rows, map_map. simpl. reflexivity. Qed.

Lemma length_rows sc st :
  length st = length (addresses sc) -> length (rows sc st) = length st.
Proof. intros H. unfold rows. rewrite combine_length. lia. Qed.

Lemma length_map_rows sc f st :
  length st = length (addresses sc) -> length (map_rows sc f st) = length st.
Proof. intros H. unfold map_rows. rewrite map_length. apply length_rows; auto. Qed.

Lemma map_fst_rows sc st :
  length st = length (addresses sc) -> map fst (rows sc st) = addresses sc.
Proof.
  unfold rows. generalize (addresses sc). intros l. revert st.
  induction l as [|x l IH]; intros [|h st]; simpl; intros H; try discriminate; auto.
  f_equal. apply IH. lia.
Qed.

Lemma map_snd_rows sc st :
  length st = length (addresses sc) -> map snd (rows sc st) = st.
Proof.
  unfold rows. generalize (addresses sc). intros l. revert st.
  induction l as [|x l IH]; intros [|h st]; simpl; intros H; try discriminate; auto.
  f_equal. apply IH. lia.
Qed.

(* ---------- get_row ---------- *)
Lemma find_addr_map (L : list (addr * hrow)) (g : addr * hrow -> hrow) a :
  find (fun p => addr_eqb (fst p) a) (map (fun p => (fst p, g p)) L)
  = option_map (fun p => (fst p, g p)) (find (fun p => addr_eqb (fst p) a) L).
Proof.
  induction L as [|p L IH]; simpl; auto.
  destruct (addr_eqb (fst p) a); simpl; auto.
Qed.

Lemma find_addr_fst (L : list (addr * hrow)) a p :
  find (fun p => addr_eqb (fst p) a) L = Some p -> fst p = a /\ In p L.
Proof.
  intros H. apply find_some in H. destruct H as [H1 H2]. apply addr_eqb_eq in H2. auto.
Qed.

Lemma find_addr_none (L : list (addr * hrow)) a :
  find (fun p => addr_eqb (fst p) a) L = None -> ~ In a (map fst L).
Proof.
  intros H Hin. apply in_map_iff in Hin. destruct Hin as [p [E Hp]].
  eapply find_none in H; eauto. simpl in H. subst a. rewrite addr_eqb_refl in H. discriminate.
Qed.

Lemma find_addr_some (L : list (addr * hrow)) a :
  In a (map fst L) -> exists p, find (fun p => addr_eqb (fst p) a) L = Some p.
Proof.
  intros Hin. destruct (find (fun p => addr_eqb (fst p) a) L) eqn:E; eauto.
  apply find_addr_none in E. contradiction.
Qed.

(* the row found for an address that is present, after a positional map *)
Lemma get_row_map_rows sc f st a :
  In a (map fst (rows sc st)) ->
  get_row sc (map_rows sc f st) a = f a (get_row sc st a).
Proof.
  intros Hin. unfold get_row. rewrite rows_map_rows, find_addr_map.
  destruct (find_addr_some _ _ Hin) as [p Hp]. rewrite Hp. simpl.
  apply find_addr_fst in Hp. destruct Hp as [-> _]. reflexivity.
Qed.

Lemma get_row_map_rows_absent sc f st a :
  ~ In a (map fst (rows sc st)) ->
  get_row sc (map_rows sc f st) a = dummy_row /\ get_row sc st a = dummy_row.
Proof.
  intros Hn. unfold get_row. rewrite rows_map_rows, find_addr_map.
  destruct (find (fun p => addr_eqb (fst p) a) (rows sc st)) eqn:E.
  - apply find_addr_fst in E. destruct E as [E1 E2]. exfalso. apply Hn.
    apply in_map_iff. exists p. auto.
  - simpl. auto.
Qed.

Lemma get_row_set_row_same sc st a h' :
  In a (map fst (rows sc st)) -> get_row sc (set_row sc st a h') a = h'.
Proof.
  intros Hin. unfold set_row. rewrite get_row_map_rows; auto. rewrite addr_eqb_refl. reflexivity.
Qed.

Lemma get_row_set_row_other sc st a b h' :
  a <> b -> get_row sc (set_row sc st a h') b = get_row sc st b.
Proof.
  intros Hne. unfold set_row.
  destruct (in_dec (fun x y : addr => ltac:(decide equality; apply Nat.eq_dec)) b (map fst (rows sc st))) as [Hin|Hn].
  - rewrite get_row_map_rows; auto.
    assert (addr_eqb b a = false) as -> by (apply addr_eqb_neq; congruence). reflexivity.
  - destruct (get_row_map_rows_absent sc (fun x h => if addr_eqb x a then h' else h) st b Hn) as [-> ->].
    reflexivity.
Qed.

(* In a positional list with duplicate-free addresses, the row found for the
   address of a member is that member. *)
Lemma get_row_of_member sc st p :
  NoDup (addresses sc) -> length st = length (addresses sc) ->
  In p (rows sc st) -> get_row sc st (fst p) = snd p.
Proof.
  intros ND HL Hin. unfold get_row.
  assert (NDr : NoDup (map fst (rows sc st))) by (rewrite map_fst_rows; auto).
  revert NDr Hin. generalize (rows sc st). intros L. induction L as [|q L IH]; simpl; intros NDr Hin.
  - contradiction.
  - inversion NDr as [|? ? Hnot ND']; subst.
    destruct Hin as [->|Hin].
    + rewrite addr_eqb_refl. reflexivity.
    + destruct (addr_eqb (fst q) (fst p)) eqn:E.
      * apply addr_eqb_eq in E. exfalso. apply Hnot. rewrite E. apply in_map. exact Hin.
      * apply IH; auto.
Qed.

Lemma in_rows_of_addr sc st a :
  length st = length (addresses sc) -> In a (addresses sc) ->
  In (a, get_row sc st a) (rows sc st).
Proof.
  intros HL Hin. unfold get_row.
  rewrite <- (map_fst_rows sc st HL) in Hin.
  destruct (find_addr_some _ _ Hin) as [p Hp]. rewrite Hp.
  apply find_addr_fst in Hp. destruct Hp as [<- Hp]. destruct p; exact Hp.
Qed.

(* a positional map that fixes every row is the identity *)
Lemma map_rows_id sc f st :
  length st = length (addresses sc) ->
  (forall p, In p (rows sc st) -> f (fst p) (snd p) = snd p) ->
  map_rows sc f st = st.
Proof.
  intros HL H. unfold map_rows.
  rewrite <- (map_snd_rows sc st HL) at 2.
  apply map_ext_in. exact H.
Qed.

Lemma set_row_same sc st a :
  NoDup (addresses sc) -> length st = length (addresses sc) ->
  set_row sc st a (get_row sc st a) = st.
Proof.
  intros ND HL. unfold set_row. apply map_rows_id; auto.
  intros p Hp. destruct (addr_eqb (fst p) a) eqn:E; auto.
  apply addr_eqb_eq in E. subst a. apply get_row_of_member; auto.
Qed.

(* ---------- what wf gives ---------- *)
Lemma nodupb_addr_NoDup (l : list addr) : nodupb_addr l = true -> NoDup l.
Proof.
  induction l as [|x l IH]; simpl; intros H; constructor.
  - apply andb_true_iff in H. destruct H as [H _]. intros Hin.
    apply negb_true_iff in H. unfold mem_addr in H.
    assert (existsb (addr_eqb x) l = true) as E.
    { apply existsb_exists. exists x. split; auto. apply addr_eqb_refl. }
    congruence.
  - apply IH. apply andb_true_iff in H. tauto.
Qed.

Ltac wf_split H :=
  unfold wf_scenario in H; repeat (apply andb_true_iff in H; let H' := fresh "WF" in destruct H as [H H']).

Lemma wf_nodup sc : wf_scenario sc = true -> NoDup (addresses sc).
Proof.
  intros H. unfold wf_scenario in H. repeat rewrite andb_true_iff in H.
  apply nodupb_addr_NoDup. tauto.
Qed.

Lemma wf_valid_addr sc x : wf_scenario sc = true -> In x (addresses sc) -> valid_addr sc x = true.
Proof.
  intros H Hin. unfold wf_scenario in H. repeat rewrite andb_true_iff in H.
  destruct H as [[[[[[[[[[[[[[[[[_ _] _] _] Hv] _] _] _] _] _] _] _] _] _] _] _] _] _].
  rewrite forallb_forall in Hv. auto.
Qed.

Lemma wf_topo sc : wf_scenario sc = true -> topo_ok sc = true.
Proof. intros H. unfold wf_scenario in H. repeat rewrite andb_true_iff in H. tauto. Qed.

Lemma wf_connected_sym sc s t :
  wf_scenario sc = true -> (s < nsubnets sc)%nat -> (t < nsubnets sc)%nat ->
  connected sc s t = connected sc t s.
Proof.
  intros H Hs Ht. apply wf_topo in H. unfold topo_ok in H.
  repeat rewrite andb_true_iff in H. destruct H as [_ H].
  rewrite forallb_forall in H. specialize (H s). rewrite in_seq in H.
  assert (Hs' : (0 <= s < 0 + nsubnets sc)%nat) by lia. specialize (H Hs').
  apply andb_true_iff in H. destruct H as [_ H]. rewrite forallb_forall in H.
  specialize (H t). rewrite in_seq in H.
  assert (Ht' : (0 <= t < 0 + nsubnets sc)%nat) by lia. specialize (H Ht').
  apply eqb_prop in H. exact H.
Qed.

Lemma wf_connected_refl sc s :
  wf_scenario sc = true -> (s < nsubnets sc)%nat -> connected sc s s = true.
Proof.
  intros H Hs. apply wf_topo in H. unfold topo_ok in H.
  repeat rewrite andb_true_iff in H. destruct H as [_ H].
  rewrite forallb_forall in H. specialize (H s). rewrite in_seq in H.
  assert (Hs' : (0 <= s < 0 + nsubnets sc)%nat) by lia. specialize (H Hs').
  apply andb_true_iff in H. tauto.
Qed.

Lemma valid_addr_bounds sc x :
  valid_addr sc x = true -> (0 < fst x < nsubnets sc)%nat.
Proof.
  unfold valid_addr. rewrite !andb_true_iff, !Nat.ltb_lt. tauto.
Qed.

Lemma wf_state_length sc st : wf_state sc st = true -> length st = length (addresses sc).
Proof.
  unfold wf_state. rewrite andb_true_iff, Nat.eqb_eq. intros [H _].
  unfold addresses. rewrite map_length. exact H.
Qed.

Lemma wf_state_in_rows sc st a :
  wf_state sc st = true -> In a (addresses sc) -> In a (map fst (rows sc st)).
Proof. intros H Hin. rewrite map_fst_rows; auto. apply wf_state_length; auto. Qed.
