(* PC11C12.v -- proofs for C10_actions_total, C11 (action spaces), C12_run_mode_independent. *)
From NasimV Require Import StmtObs.
From NasimV.proofs Require Import RowLemmas PC04 PC06C07.

(* ================= generic list lemmas ================= *)
Lemma flat_map_length_const {A B : Type} (f : A -> list B) (n : nat) (l : list A) :
  (forall x, length (f x) = n) -> length (flat_map f l) = (length l * n)%nat.
Proof.
  intros Hf. induction l as [|a l IH]; [reflexivity|].
  cbn [flat_map length]. rewrite app_length, IH, Hf. cbn [Nat.mul]. reflexivity.
Qed.

Lemma nth_error_flat_map_const {A B : Type} (f : A -> list B) (n : nat) :
  (forall x, length (f x) = n) ->
  forall l i x j, nth_error l i = Some x -> (j < n)%nat ->
    nth_error (flat_map f l) (i * n + j) = nth_error (f x) j.
Proof.
  intros Hf. induction l as [|a l IH]; intros i x j Hi Hj.
  - destruct i; discriminate.
  - destruct i as [|i]; cbn [nth_error] in Hi; cbn [flat_map].
    + inversion Hi; subst a. rewrite Nat.mul_0_l, Nat.add_0_l.
      apply nth_error_app1. rewrite Hf. exact Hj.
    + rewrite nth_error_app2 by (rewrite Hf; lia). rewrite Hf.
      replace (S i * n + j - n)%nat with (i * n + j)%nat by lia.
      apply IH; auto.
Qed.

(* ================= the flat list ================= *)
Lemma host_actions_length sc t : length (host_actions sc t) = per_host sc.
Proof.
  unfold host_actions, per_host. rewrite !app_length, !map_length. reflexivity.
Qed.

Lemma flat_length sc : length (flat sc) = (length (addresses sc) * per_host sc)%nat.
Proof. unfold flat. apply flat_map_length_const. apply host_actions_length. Qed.

Lemma addresses_length sc : length (addresses sc) = length (s_hosts sc).
Proof. unfold addresses. apply map_length. Qed.

Lemma action_space_size_eq sc :
  action_space_size sc = (length (addresses sc) * per_host sc)%nat.
Proof.
  unfold action_space_size, per_host. rewrite addresses_length.
  f_equal. lia.
Qed.

Lemma C11_flat_length_proof : C11_flat_length_stmt.
Proof.
  unfold C11_flat_length_stmt. intros sc. split.
  - rewrite flat_length, action_space_size_eq. reflexivity.
  - apply action_space_size_eq.
Qed.

Lemma flat_nth sc i x j :
  nth_error (addresses sc) i = Some x -> (j < per_host sc)%nat ->
  nth_error (flat sc) (i * per_host sc + j) = nth_error (host_actions sc x) j.
Proof.
  intros Hi Hj. unfold flat.
  apply (nth_error_flat_map_const (host_actions sc) (per_host sc) (host_actions_length sc)); auto.
Qed.

Lemma C11_flat_index_proof : C11_flat_index_stmt.
Proof.
  unfold C11_flat_index_stmt. intros sc i x Hi. cbv zeta.
  assert (P : (4 <= per_host sc)%nat) by (unfold per_host; lia).
  split; [|split; [|split; [|split; [|split]]]].
  - replace (i * per_host sc)%nat with (i * per_host sc + 0)%nat by lia.
    rewrite (flat_nth sc i x 0 Hi) by lia. reflexivity.
  - rewrite (flat_nth sc i x 1 Hi) by lia. reflexivity.
  - rewrite (flat_nth sc i x 2 Hi) by lia. reflexivity.
  - rewrite (flat_nth sc i x 3 Hi) by lia. reflexivity.
  - intros j e Hj.
    assert (Lj : (j < length (s_exploits sc))%nat) by (apply nth_error_Some; congruence).
    replace (i * per_host sc + 4 + j)%nat with (i * per_host sc + (4 + j))%nat by lia.
    rewrite (flat_nth sc i x (4 + j) Hi) by (unfold per_host; lia).
    unfold host_actions. cbn [app Nat.add nth_error].
    rewrite nth_error_app1 by (rewrite map_length; exact Lj).
    apply map_nth_error. exact Hj.
  - intros j p Hj.
    assert (Lj : (j < length (s_privescs sc))%nat) by (apply nth_error_Some; congruence).
    replace (i * per_host sc + 4 + length (s_exploits sc) + j)%nat
      with (i * per_host sc + (4 + (length (s_exploits sc) + j)))%nat by lia.
    rewrite (flat_nth sc i x (4 + (length (s_exploits sc) + j)) Hi) by (unfold per_host; lia).
    unfold host_actions. cbn [app Nat.add nth_error].
    rewrite nth_error_app2 by (rewrite map_length; lia).
    rewrite map_length.
    replace (length (s_exploits sc) + j - length (s_exploits sc))%nat with j by lia.
    apply map_nth_error. exact Hj.
Qed.

(* ================= the parameterised space ================= *)
Lemma below_nvec sc v :
  below v (nvec sc) ->
  exists ty s h o sv pr, v = [ty; s; h; o; sv; pr]
    /\ (ty < 6)%nat /\ (s < nsubnets sc - 1)%nat /\ (h < maxl (s_subnets sc))%nat
    /\ (o < S (s_nos sc))%nat /\ (sv < s_nsrv sc)%nat /\ (pr < s_nproc sc)%nat.
Proof.
  unfold below, nvec. intros H.
  repeat match goal with
  | H : Forall2 _ _ (_ :: _) |- _ => inversion H; subst; clear H
  end.
  match goal with H : Forall2 _ _ [] |- _ => inversion H; subst; clear H end.
  do 6 eexists. split; [reflexivity|]. repeat split; assumption.
Qed.

Definition param_action (sc : scenario) (ty s h o sv pr : nat) : action :=
  let t := (S s, Nat.modulo h (subnet_size sc (S s))) in
  let os := match o with O => None | S o' => Some o' end in
  match ty with
  | 0%nat => match find_exploit sc sv os with Some e => mk_exploit t e | None => noop end
  | 1%nat => match find_privesc sc pr os with Some p => mk_privesc t p | None => noop end
  | 2%nat => mk_scan KSrvScan t (s_ssc sc)
  | 3%nat => mk_scan KOsScan t (s_osc sc)
  | 4%nat => mk_scan KSubScan t (s_subc sc)
  | _ => mk_scan KProcScan t (s_psc sc)
  end.

Lemma decode_param_ok sc ty s h o sv pr :
  wf_scenario sc = true ->
  (ty < 6)%nat -> (s < nsubnets sc - 1)%nat -> (o < S (s_nos sc))%nat ->
  (sv < s_nsrv sc)%nat -> (pr < s_nproc sc)%nat ->
  decode_param sc [ty; s; h; o; sv; pr] = Some (param_action sc ty s h o sv pr).
Proof.
  intros WF Hty Hs Ho Hsv Hpr.
  pose proof (wf_nsubnets sc WF) as N2.
  assert (Ss : (S s < nsubnets sc)%nat) by lia.
  pose proof (wf_subnet_pos sc (S s) WF Ss) as Pos.
  unfold decode_param, param_action.
  assert (G1 : Nat.ltb (S s) (nsubnets sc) = true) by (apply Nat.ltb_lt; exact Ss).
  assert (G2 : Nat.eqb (subnet_size sc (S s)) 0 = false) by (apply Nat.eqb_neq; lia).
  assert (G3 : Nat.leb o (s_nos sc) = true) by (apply Nat.leb_le; lia).
  assert (G4 : Nat.ltb sv (s_nsrv sc) = true) by (apply Nat.ltb_lt; exact Hsv).
  assert (G5 : Nat.ltb pr (s_nproc sc) = true) by (apply Nat.ltb_lt; exact Hpr).
  rewrite G1, G2. cbn [negb].
  destruct ty as [|[|[|[|[|[|ty]]]]]]; try lia; try reflexivity.
  - rewrite G3, G4. reflexivity.
  - rewrite G3, G5. reflexivity.
Qed.

Lemma C10_actions_total_proof : C10_actions_total_stmt.
Proof.
  unfold C10_actions_total_stmt. intros sc WF. split.
  - intros n Hn.
    destruct (nth_error (flat sc) n) as [a|] eqn:E; [exists a; reflexivity|].
    apply nth_error_None in E. rewrite flat_length, <- action_space_size_eq in E. lia.
  - intros v Hv.
    destruct (below_nvec sc v Hv) as (ty & s & h & o & sv & pr & -> & Hty & Hs & Hh & Ho & Hsv & Hpr).
    eexists. apply decode_param_ok; assumption.
Qed.

Lemma C11_param_proof : C11_param_stmt.
Proof.
  unfold C11_param_stmt. intros sc v a WF Hv Hd.
  split; [eapply decode_param_in_space; eauto|].
  destruct (below_nvec sc v Hv) as (ty & s & h & o & sv & pr & -> & Hty & Hs & Hh & Ho & Hsv & Hpr).
  rewrite (decode_param_ok sc ty s h o sv pr WF Hty Hs Ho Hsv Hpr) in Hd.
  injection Hd as Ha.
  split.
  - intros Hn. exists ty, s, h, o, sv, pr. split; [reflexivity|].
    unfold param_action in *.
    destruct ty as [|[|[|[|[|[|ty]]]]]]; try lia.
    + destruct (find_exploit sc sv match o with O => None | S o' => Some o' end) as [e|];
        [subst a; split; reflexivity | congruence].
    + destruct (find_privesc sc pr match o with O => None | S o' => Some o' end) as [p|];
        [subst a; split; reflexivity | congruence].
    + subst a; split; reflexivity.
    + subst a; split; reflexivity.
    + subst a; split; reflexivity.
    + subst a; split; reflexivity.
  - intros ty' s' h' o' sv' pr' E. inversion E; subst ty' s' h' o' sv' pr'. cbv zeta.
    unfold param_action in Ha.
    split; intros ->; symmetry; exact Ha.
Qed.

(* ================= the action mask ================= *)
Lemma C11_mask_proof : C11_mask_stmt.
Proof.
  unfold C11_mask_stmt. intros sc st. split.
  - unfold action_mask. apply map_length.
  - intros i a Hi. unfold action_mask, row.
    apply nth_error_nth.
    apply (map_nth_error (fun a0 => h_disc (get_row sc st (a_tgt a0)))). exact Hi.
Qed.

(* ================= C12: histories in two mode settings ================= *)
Definition rel (ep1 ep2 : env * list state) : Prop :=
  e_state (fst ep1) = e_state (fst ep2)
  /\ e_steps (fst ep1) = e_steps (fst ep2)
  /\ snd ep1 = snd ep2.

Lemma run_op_rel sc m1 m2 ep1 ep2 o1 o2 :
  rel ep1 ep2 ->
  sem_op sc m1 o1 = sem_op sc m2 o2 -> sem_op sc m1 o1 <> None ->
  rel (fst (run_op sc m1 ep1 o1)) (fst (run_op sc m2 ep2 o2))
  /\ proj_out (snd (run_op sc m1 ep1 o1)) = proj_out (snd (run_op sc m2 ep2 o2)).
Proof.
  destruct ep1 as [[s1 ob1 n1] p1], ep2 as [[s2 ob2 n2] p2].
  unfold rel. cbn [fst snd e_state e_steps].
  intros (Hs & Hn & Hp) H NN. subst s2 n2 p2.
  destruct o1 as [|x1 k1|i1 x1 k1|i1| |], o2 as [|x2 k2|i2 x2 k2|i2| |];
    cbn [sem_op] in H, NN; cbn [run_op];
    repeat match goal with
    | H : context [option_map _ (decode_arg ?a ?b ?c)] |- _ => destruct (decode_arg a b c) eqn:?
    end;
    cbn [option_map] in H, NN; try discriminate; try congruence.
  - (* reset / reset *)
    unfold env_reset. cbn [fst snd e_state e_steps e_obs proj_out]. auto.
  - (* step / step *)
    inversion H; subst.
    pose proof (C12_step_mode_independent_proof sc m1 m2 s1 a0 k2) as G. cbv zeta in G.
    destruct G as (G1 & G2 & G3 & G4 & G5 & _).
    unfold env_step. cbn [fst snd e_state e_steps e_obs proj_out].
    rewrite G1, G2, G3, G4, G5. auto.
  - (* gen / gen *)
    inversion H; subst.
    destruct (nth_error p1 i2) as [st|]; cbn [fst snd e_state e_steps proj_out]; auto.
    pose proof (C12_step_mode_independent_proof sc m1 m2 st a0 k2) as G. cbv zeta in G.
    destruct G as (G1 & G2 & G3 & G4 & G5 & _).
    rewrite G1, G2, G3, G4, G5. auto.
  - (* goal / goal *)
    inversion H; subst.
    destruct (nth_error p1 i2) as [st|]; cbn [fst snd e_state e_steps proj_out]; auto.
  - (* generate_initial_state / generate_initial_state *)
    cbn [fst snd e_state e_steps proj_out]. auto.
Qed.

Lemma run_ops_rel sc m1 m2 : forall ops1 ops2 ep1 ep2,
  rel ep1 ep2 ->
  map (sem_op sc m1) ops1 = map (sem_op sc m2) ops2 ->
  Forall (fun o => sem_op sc m1 o <> None) ops1 ->
  map proj_out (snd (run_ops sc m1 ep1 ops1)) = map proj_out (snd (run_ops sc m2 ep2 ops2)).
Proof.
  induction ops1 as [|o1 r1 IH]; intros ops2 ep1 ep2 R HM HF;
    destruct ops2 as [|o2 r2]; cbn [map] in HM; try discriminate.
  - reflexivity.
  - inversion HM as [[HM1 HM2]]. inversion HF as [|? ? HF1 HF2]; subst.
    destruct (run_op_rel sc m1 m2 ep1 ep2 o1 o2 R HM1 HF1) as [R' P'].
    cbn [run_ops].
    destruct (run_op sc m1 ep1 o1) as [ep1' out1].
    destruct (run_op sc m2 ep2 o2) as [ep2' out2].
    cbn [fst snd] in R', P'.
    specialize (IH r2 ep1' ep2' R' HM2 HF2).
    destruct (run_ops sc m1 ep1' r1) as [ep1'' outs1].
    destruct (run_ops sc m2 ep2' r2) as [ep2'' outs2].
    cbn [fst snd map] in *. rewrite P', IH. reflexivity.
Qed.

Lemma C12_run_mode_independent_proof : C12_run_mode_independent_stmt.
Proof.
  unfold C12_run_mode_independent_stmt, run. intros sc m1 m2 ops1 ops2 HM HF.
  apply run_ops_rel; auto.
  unfold rel, env_init, env_reset. cbn [fst snd e_state e_steps]. auto.
Qed.

Print Assumptions C10_actions_total_proof.
Print Assumptions C11_flat_length_proof.
Print Assumptions C11_flat_index_proof.
Print Assumptions C11_param_proof.
Print Assumptions C11_mask_proof.
Print Assumptions C12_run_mode_independent_proof.
