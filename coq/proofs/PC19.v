(* PC19.v -- C19: independence of environments in the specification semantics, agreement of
   the shared-layout-cell semantics with it under a single layout key, and a kernel-checked
   refutation witness of the unrestricted property (defect D12). *)
From NasimV Require Import Multi.
From Coq Require Import List Arith Bool Lia.
Import ListNotations.

(* ---------- find_env / set_env ---------- *)
Lemma find_set_same i e l : find_env i (set_env i e l) = Some e.
Proof.
  induction l as [|[j e'] r IH]; cbn [set_env find_env].
  - rewrite Nat.eqb_refl. reflexivity.
  - destruct (Nat.eqb i j) eqn:Eij; cbn [find_env].
    + rewrite Nat.eqb_refl. reflexivity.
    + rewrite Eij. exact IH.
Qed.

Lemma find_set_other i j e l : i <> j -> find_env i (set_env j e l) = find_env i l.
Proof.
  intros Hne. induction l as [|[j' e'] r IH]; cbn [set_env find_env].
  - destruct (Nat.eqb i j) eqn:Eij; [apply Nat.eqb_eq in Eij; contradiction|reflexivity].
  - destruct (Nat.eqb j j') eqn:Ejj; cbn [find_env].
    + apply Nat.eqb_eq in Ejj. subst j'.
      destruct (Nat.eqb i j) eqn:Eij; [apply Nat.eqb_eq in Eij; contradiction|reflexivity].
    + destruct (Nat.eqb i j') eqn:Eij'; [reflexivity|exact IH].
Qed.

Lemma set_env_not_nil i e l : set_env i e l <> [].
Proof.
  destruct l as [|[j e'] r]; cbn [set_env]; [discriminate|].
  destruct (Nat.eqb i j); discriminate.
Qed.

(* ---------- C19_spec_independent ---------- *)
Lemma step_spec_other i o envs :
  about i o = false -> find_env i (fst (step_spec envs o)) = find_env i envs.
Proof.
  intros Hab. destruct o as [j sc m names|j|j op]; cbn [about] in Hab;
    apply Nat.eqb_neq in Hab; cbn [step_spec].
  - cbn [fst]. apply find_set_other. exact Hab.
  - destruct (find_env j envs); reflexivity.
  - destruct (find_env j envs) as [e|]; [|reflexivity].
    destruct (apply_op e op) as [e' out]. cbn [fst]. apply find_set_other. exact Hab.
Qed.

Lemma step_spec_same i o envs envs' :
  about i o = true -> find_env i envs = find_env i envs' ->
  snd (step_spec envs o) = snd (step_spec envs' o)
  /\ find_env i (fst (step_spec envs o)) = find_env i (fst (step_spec envs' o)).
Proof.
  intros Hab Hfe. destruct o as [j sc m names|j|j op]; cbn [about] in Hab;
    apply Nat.eqb_eq in Hab; subst j; cbn [step_spec].
  - cbn [fst snd]. rewrite !find_set_same. split; reflexivity.
  - rewrite <- Hfe. destruct (find_env i envs) as [e|] eqn:Ee; cbn [fst snd]; split; congruence.
  - rewrite <- Hfe. destruct (find_env i envs) as [e|] eqn:Ee; cbn [fst snd]; [|split; congruence].
    destruct (apply_op e op) as [e' out]. cbn [fst snd]. rewrite !find_set_same. split; reflexivity.
Qed.

Lemma spec_independent_gen i ops : forall envs envs',
  find_env i envs = find_env i envs' ->
  outputs_of i ops (run_spec envs ops) = run_spec envs' (filter (about i) ops).
Proof.
  induction ops as [|o r IH]; intros envs envs' Hfe; [reflexivity|].
  cbn [run_spec filter].
  destruct (step_spec envs o) as [envs1 out] eqn:Es.
  cbn [outputs_of].
  destruct (about i o) eqn:Hab.
  - cbn [run_spec]. destruct (step_spec envs' o) as [envs1' out'] eqn:Es'.
    destruct (step_spec_same i o envs envs' Hab Hfe) as [Hout Hfe1].
    rewrite Es, Es' in Hout, Hfe1. cbn [fst snd] in Hout, Hfe1. subst out'.
    f_equal. apply IH. exact Hfe1.
  - apply IH. rewrite <- Hfe.
    pose proof (step_spec_other i o envs Hab) as Hso. rewrite Es in Hso. exact Hso.
Qed.

Lemma C19_spec_independent_proof : C19_spec_independent_stmt.
Proof.
  unfold C19_spec_independent_stmt. intros i ops.
  apply spec_independent_gen. reflexivity.
Qed.

(* ---------- lkey_eqb is an equivalence ---------- *)
Lemma lkey_eqb_true a b :
  lkey_eqb a b = true <->
  (L_b0 (fst a) = L_b0 (fst b) /\ L_b1 (fst a) = L_b1 (fst b) /\ L_nos (fst a) = L_nos (fst b)
   /\ L_nsrv (fst a) = L_nsrv (fst b) /\ L_nproc (fst a) = L_nproc (fst b) /\ snd a = snd b).
Proof.
  unfold lkey_eqb. rewrite !andb_true_iff, !Nat.eqb_eq. tauto.
Qed.

Lemma lkey_eqb_sym a b : lkey_eqb a b = true -> lkey_eqb b a = true.
Proof.
  rewrite !lkey_eqb_true. intros (H1 & H2 & H3 & H4 & H5 & H6).
  repeat split; symmetry; assumption.
Qed.

Lemma lkey_eqb_trans a b c : lkey_eqb a b = true -> lkey_eqb b c = true -> lkey_eqb a c = true.
Proof.
  rewrite !lkey_eqb_true. intros (H1 & H2 & H3 & H4 & H5 & H6) (G1 & G2 & G3 & G4 & G5 & G6).
  repeat split; etransitivity; eassumption.
Qed.

(* ---------- new_env / apply_op ---------- *)
Lemma key_of_new_env sc m names : key_of (new_env sc m names) = (layout_of sc, names).
Proof. reflexivity. Qed.

Lemma tainted_new_env sc m names : me_tainted (new_env sc m names) = false.
Proof. reflexivity. Qed.

Lemma apply_op_pres e o :
  key_of (fst (apply_op e o)) = key_of e /\ me_tainted (fst (apply_op e o)) = me_tainted e.
Proof.
  unfold apply_op.
  destruct (run_op (me_sc e) (me_modes e) (me_env e, me_pool e) o) as [[e' pool'] out].
  cbn [fst]. unfold key_of. cbn [me_sc me_names me_tainted]. split; reflexivity.
Qed.

(* ---------- C19_same_layout_safe ---------- *)
Definition inv (k : lkey) (cell : option lkey) (envs : list (nat * menv)) : Prop :=
  (forall j e, find_env j envs = Some e -> lkey_eqb (key_of e) k = true /\ me_tainted e = false)
  /\ (envs = [] \/ exists c, cell = Some c /\ lkey_eqb c k = true).

Definition op_ok (k : lkey) (o : mop) : Prop :=
  match o with
  | MNew _ sc _ names => lkey_eqb (layout_of sc, names) k = true
  | _ => True
  end.

Lemma inv_set k cell cell' envs i e :
  inv k cell envs ->
  lkey_eqb (key_of e) k = true -> me_tainted e = false ->
  (exists c, cell' = Some c /\ lkey_eqb c k = true) ->
  inv k cell' (set_env i e envs).
Proof.
  intros [Hall Hcell] Hk Ht Hc. split.
  - intros j e0 Hf. destruct (Nat.eq_dec j i) as [Eji|Nji].
    + subst j. rewrite find_set_same in Hf. injection Hf as Hf. subst e0. split; assumption.
    + rewrite find_set_other in Hf by exact Nji. apply Hall with j. exact Hf.
  - right. exact Hc.
Qed.

Lemma step_shared_safe k cell envs o :
  inv k cell envs -> op_ok k o ->
  exists cell',
    step_shared (cell, envs) o = ((cell', fst (step_spec envs o)), snd (step_spec envs o))
    /\ inv k cell' (fst (step_spec envs o)).
Proof.
  intros Hinv Hok. destruct o as [j sc m names|j|j op]; cbn [step_shared step_spec op_ok] in *.
  - exists (Some (key_of (new_env sc m names))). cbn [fst snd]. split; [reflexivity|].
    apply inv_set with cell.
    + exact Hinv.
    + rewrite key_of_new_env. exact Hok.
    + apply tainted_new_env.
    + eexists. split; [reflexivity|]. rewrite key_of_new_env. exact Hok.
  - destruct (find_env j envs) as [e|] eqn:Ee; cbn [fst snd].
    + exists (Some (key_of e)). split; [reflexivity|].
      destruct Hinv as [Hall Hcell]. split; [exact Hall|].
      right. eexists. split; [reflexivity|]. apply (Hall j e Ee).
    + exists cell. split; [reflexivity|exact Hinv].
  - destruct (find_env j envs) as [e|] eqn:Ee; cbn [fst snd].
    + destruct Hinv as [Hall Hcell].
      destruct (Hall j e Ee) as [Hke Hte].
      destruct Hcell as [Hnil|[c [Hc Hck]]]; [subst envs; discriminate Ee|].
      subst cell.
      assert (Hfit : lkey_eqb c (key_of e) = true).
      { apply lkey_eqb_trans with k; [exact Hck|apply lkey_eqb_sym; exact Hke]. }
      rewrite Hfit, Hte. cbn [negb andb].
      pose proof (apply_op_pres e op) as [Hk' Ht'].
      destruct (apply_op e op) as [e' out]. cbn [fst snd] in *.
      exists (Some c). split; [reflexivity|].
      apply inv_set with (Some c).
      * split; [exact Hall|]. right. exists c. split; [reflexivity|exact Hck].
      * rewrite Hk'. exact Hke.
      * rewrite Ht'. exact Hte.
      * exists c. split; [reflexivity|exact Hck].
    + exists cell. split; [reflexivity|exact Hinv].
Qed.

Lemma same_layout_safe_gen k ops : forall cell envs,
  inv k cell envs -> same_key_ops k ops ->
  run_shared (cell, envs) ops = run_spec envs ops.
Proof.
  induction ops as [|o r IH]; intros cell envs Hinv Hops; [reflexivity|].
  unfold same_key_ops in Hops. inversion Hops as [|o0 r0 Ho Hr]; subst o0 r0.
  cbn [run_shared run_spec].
  destruct (step_shared_safe k cell envs o Hinv) as [cell' [Hstep Hinv']].
  { destruct o; cbn [op_ok]; auto. }
  rewrite Hstep.
  destruct (step_spec envs o) as [envs1 out]. cbn [fst snd] in *.
  f_equal. apply IH; [exact Hinv'|exact Hr].
Qed.

Lemma C19_same_layout_safe_proof : C19_same_layout_safe_stmt.
Proof.
  unfold C19_same_layout_safe_stmt. intros k ops Hops.
  apply same_layout_safe_gen with k; [|exact Hops].
  split; [|left; reflexivity].
  intros j e Hf. cbn [find_env] in Hf. discriminate Hf.
Qed.

(* ---------- C19_same_layout_independent ---------- *)
Lemma C19_same_layout_independent_proof : C19_same_layout_independent_stmt.
Proof.
  unfold C19_same_layout_independent_stmt. intros k i ops Hops.
  rewrite (C19_same_layout_safe_proof k ops Hops).
  apply C19_spec_independent_proof.
Qed.

(* ---------- C19_independent_refuted (defect D12) ---------- *)
Local Open Scope nat_scope.

Definition wsc (nsrv : nat) : scenario :=
  mkSc [] [] 0%nat nsrv 0%nat [] [] 0%Z 0%Z 0%Z 0%Z [] [] [] None (0%nat, 0%nat).

Definition wmodes : modes := mkModes false false false.

Definition wops : list mop :=
  [MNew 0 (wsc 0) wmodes 0; MNew 1 (wsc 1) wmodes 0; MOp 0 OReset].

Lemma C19_independent_refuted_proof : C19_independent_refuted_stmt.
Proof.
  unfold C19_independent_refuted_stmt.
  exists 0, wops. intro H.
  apply (f_equal (fun l => match nth 1 l MDone with MUndef => true | _ => false end)) in H.
  vm_compute in H. discriminate H.
Qed.

Print Assumptions C19_spec_independent_proof.
Print Assumptions C19_same_layout_safe_proof.
Print Assumptions C19_same_layout_independent_proof.
Print Assumptions C19_independent_refuted_proof.
