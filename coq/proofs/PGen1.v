From NasimV Require Import StmtGen.
From NasimV.proofs Require Import GenLemmas.
(* PGen1.v -- C15: shape, topology, sensitive hosts, no-crash, and the refutations D7/D8.
   Reusable facts: gen_subnets_facts, gen_exploits_facts, gen_privescs_facts, gen_final_addrs,
   generate_Crash, params_ok_facts, and the crash-code / OS-bound lemmas of each stage. *)
Require Import ZifyNat.
Local Open Scope nat_scope.

(* ---------- small list facts ---------- *)
Lemma sum_nat_app l1 l2 : sum_nat (l1 ++ l2) = sum_nat l1 + sum_nat l2.
Proof. unfold sum_nat. induction l1 as [|x l1 IH]; cbn [app fold_right]; [reflexivity|]. rewrite IH. lia. Qed.

Lemma sum_nat_replicate k x : sum_nat (replicate k x) = k * x.
Proof. unfold sum_nat. induction k as [|k IH]; cbn [replicate fold_right]; [reflexivity|]. rewrite IH. lia. Qed.

Lemma replicate_length {A} k (x : A) : length (replicate k x) = k.
Proof. induction k as [|k IH]; cbn [replicate length]; [reflexivity|]. rewrite IH. reflexivity. Qed.

Lemma Forall_replicate {A} (P : A -> Prop) k x : P x -> Forall P (replicate k x).
Proof. intros Hx. induction k as [|k IH]; cbn [replicate]; constructor; auto. Qed.

Lemma gen_subnets_facts : forall nh, 3 <= nh ->
  let l := gen_subnets nh in
  4 <= length l /\ nth 0 l O = 1 /\ Forall (fun x => 0 < x) l /\ sum_nat (tl l) = nh.
Proof.
  intros nh Hnh l. subst l. unfold gen_subnets, ceil_div.
  set (dmz := (nh + 40 - 1) / 40). set (sens := (nh + 41 - 1) / 41).
  assert (Hd : 1 <= dmz) by (subst dmz; lia).
  assert (Hs : 1 <= sens) by (subst sens; lia).
  assert (Hu : dmz + sens < nh) by (subst dmz sens; lia).
  set (user := nh - dmz - sens). assert (Hu1 : 1 <= user) by (subst user; lia).
  assert (Hdm : user = 5 * (user / 5) + user mod 5) by (apply Nat.div_mod; lia).
  assert (Hm : user mod 5 < 5) by (apply Nat.mod_upper_bound; lia).
  cbn [app length nth tl].
  split; [|split; [reflexivity|split]].
  - rewrite app_length, replicate_length.
    destruct (Nat.eqb_spec (user mod 5) 0) as [E|E]; cbn [length]; lia.
  - constructor; [lia|]. constructor; [lia|]. constructor; [lia|].
    apply Forall_app. split; [apply Forall_replicate; lia|].
    destruct (Nat.eqb_spec (user mod 5) 0) as [E|E]; constructor; [lia|constructor].
  - change (sum_nat (dmz :: sens :: ?x)) with (dmz + (sens + sum_nat x)).
    rewrite sum_nat_app, sum_nat_replicate.
    destruct (Nat.eqb_spec (user mod 5) 0) as [E|E]; cbn [sum_nat fold_right]; subst user; lia.
Qed.

(* ---------- exploits ---------- *)
Definition ex_ok (p : gparams) (e : edef) : Prop :=
  e_srv e < g_nsrv p /\ opt_lt (e_os e) (g_nos p) = true /\ e_cost e = g_ecost p
  /\ (e_acc e = 1 \/ e_acc e = 2).

Lemma opt_lt_os_of_idx nos i : opt_lt (os_of_idx nos i) nos = true.
Proof. unfold os_of_idx. destruct (Nat.ltb i nos) eqn:E; cbn [opt_lt]; auto. Qed.

Lemma list_ind3 {A} (P : list A -> Prop) :
  P [] -> (forall a, P [a]) -> (forall a b, P [a; b]) ->
  (forall a b c r, P r -> P (a :: b :: c :: r)) -> forall l, P l.
Proof.
  intros H0 H1 H2 H3. fix IH 1. intros l. destruct l as [|a [|b [|c r]]].
  - exact H0.
  - apply H1.
  - apply H2.
  - apply H3. apply IH.
Qed.

Lemma gen_exploits_loop_eq p probs acc o : gen_exploits_loop p probs acc o =
  if Nat.leb (g_nexp p) (length acc) then Ok acc o else
  match o with
  | s :: os :: al :: r =>
      if negb ((0 <=? s)%Z && (s <? Z.of_nat (g_nsrv p))%Z && (0 <=? os)%Z && (os <=? Z.of_nat (g_nos p))%Z
               && (1 <=? al)%Z && (al <=? 2)%Z) then Crash 9 else
      let srv := Z.to_nat s in
      let osi := os_of_idx (g_nos p) (Z.to_nat os) in
      if existsb (same_exploit_key srv osi) acc then gen_exploits_loop p probs acc r
      else gen_exploits_loop p probs
             (acc ++ [mkE srv osi (nth (length acc) probs 0%Z) (g_ecost p) (Z.to_nat al)]) r
  | _ => More
  end.
Proof. destruct o; reflexivity. Qed.

Lemma gen_exploits_loop_inv p probs : forall o acc l r,
  gen_exploits_loop p probs acc o = Ok l r ->
  length acc <= g_nexp p -> Forall (ex_ok p) acc ->
  length l = g_nexp p /\ Forall (ex_ok p) l.
Proof.
  induction o as [|a|a b|s os al r IH] using list_ind3; intros acc l r0 H Hlen Hall;
    rewrite gen_exploits_loop_eq in H;
    destruct (Nat.leb (g_nexp p) (length acc)) eqn:E;
    try (apply Nat.leb_le in E; inversion H; subst; split; [lia|assumption]);
    try discriminate.
  apply Nat.leb_gt in E.
  destruct (negb ((0 <=? s)%Z && (s <? Z.of_nat (g_nsrv p))%Z && (0 <=? os)%Z && (os <=? Z.of_nat (g_nos p))%Z
               && (1 <=? al)%Z && (al <=? 2)%Z)) eqn:B; [discriminate|].
  apply negb_false_iff in B. rewrite !andb_true_iff in B.
  destruct B as [[[[[B1 B2] B3] B4] B5] B6].
  cbv zeta in H.
  destruct (existsb (same_exploit_key (Z.to_nat s) (os_of_idx (g_nos p) (Z.to_nat os))) acc) eqn:X.
  - eapply IH; eauto.
  - eapply IH in H; eauto.
    + rewrite app_length. cbn [length]. lia.
    + apply Forall_app. split; [assumption|]. constructor; [|constructor].
      unfold ex_ok. cbn [e_srv e_os e_cost e_acc].
      split; [lia|]. split; [apply opt_lt_os_of_idx|]. split; [reflexivity|]. lia.
Qed.

Lemma gen_exploits_inv p o ex r : gen_exploits p o = Ok ex r ->
  exists probs o', gen_probs (g_nexp p) (g_eprobs p) o = Ok probs o'
                   /\ gen_exploits_loop p probs [] o' = Ok ex r.
Proof. unfold gen_exploits. intros H. apply bindM_Ok in H. exact H. Qed.

Lemma gen_exploits_facts : forall p o ex r, gen_exploits p o = Ok ex r ->
  length ex = g_nexp p
  /\ Forall (fun e => e_srv e < g_nsrv p /\ opt_lt (e_os e) (g_nos p) = true
                      /\ e_cost e = g_ecost p /\ (e_acc e = 1 \/ e_acc e = 2)) ex.
Proof.
  intros p o ex r H. apply gen_exploits_inv in H. destruct H as [probs [o' [_ H]]].
  eapply gen_exploits_loop_inv in H; [exact H| cbn [length]; lia | constructor].
Qed.

(* ---------- escalations ---------- *)
Definition pe_ok (p : gparams) (q : pdef) : Prop :=
  p_proc q < g_nproc p /\ opt_lt (p_os q) (g_nos p) = true /\ p_cost q = g_pcost p /\ p_acc q = 2.

Definition pe_cover (nos : nat) (pe : list pdef) : Prop :=
  (existsb (fun q => match p_os q with None => true | Some _ => false end) pe
   || forallb (fun os => existsb (fun q => opt_nat_eqb (p_os q) (Some os)) pe) (seq 0 nos)) = true.

Lemma gen_privescs_loop_eq p probs choices acc o : gen_privescs_loop p probs choices acc o =
  if Nat.leb (g_npe p) (length acc) then Ok acc o else
  match o with
  | pr :: r =>
      if negb ((0 <=? pr)%Z && (pr <? Z.of_nat (g_nproc p))%Z) then Crash 9 else
      let proc := Z.to_nat pr in
      let osi := os_of_idx (g_nos p) (nth (length acc) choices O) in
      if existsb (same_privesc_key proc osi) acc then gen_privescs_loop p probs choices acc r
      else gen_privescs_loop p probs choices
             (acc ++ [mkP proc osi (nth (length acc) probs 0%Z) (g_pcost p) 2]) r
  | [] => More
  end.
Proof. destruct o; reflexivity. Qed.

Lemma firstn_S_nth {A} (d : A) : forall l k, k < length l -> firstn (S k) l = firstn k l ++ [nth k l d].
Proof.
  induction l as [|x l IH]; intros k Hk; cbn [length] in Hk; [lia|].
  destruct k as [|k]; [reflexivity|].
  cbn [firstn nth app]. f_equal. change (firstn (S k) l = firstn k l ++ [nth k l d]). apply IH. lia.
Qed.

Lemma gen_privescs_loop_inv p probs choices : forall o acc l r,
  gen_privescs_loop p probs choices acc o = Ok l r ->
  length acc <= g_npe p -> g_npe p <= length choices -> Forall (pe_ok p) acc ->
  map p_os acc = map (os_of_idx (g_nos p)) (firstn (length acc) choices) ->
  length l = g_npe p /\ Forall (pe_ok p) l
  /\ map p_os l = map (os_of_idx (g_nos p)) (firstn (g_npe p) choices).
Proof.
  induction o as [|pr r IH]; intros acc l r0 H Hlen Hch Hall Hmap;
    rewrite gen_privescs_loop_eq in H;
    destruct (Nat.leb (g_npe p) (length acc)) eqn:E;
    try (apply Nat.leb_le in E; inversion H; subst;
         replace (g_npe p) with (length l) by lia; split; [lia|split; assumption]);
    try discriminate.
  apply Nat.leb_gt in E.
  destruct (negb ((0 <=? pr)%Z && (pr <? Z.of_nat (g_nproc p))%Z)) eqn:B; [discriminate|].
  apply negb_false_iff in B. rewrite !andb_true_iff in B. destruct B as [B1 B2].
  cbv zeta in H.
  destruct (existsb (same_privesc_key (Z.to_nat pr) (os_of_idx (g_nos p) (nth (length acc) choices 0))) acc) eqn:X.
  - eapply IH; eauto.
  - eapply IH in H; eauto.
    + rewrite app_length. cbn [length]. lia.
    + apply Forall_app. split; [assumption|]. constructor; [|constructor].
      unfold pe_ok. cbn [p_proc p_os p_cost p_acc].
      split; [lia|]. split; [apply opt_lt_os_of_idx|]. split; reflexivity.
    + rewrite app_length. cbn [length]. replace (length acc + 1) with (S (length acc)) by lia.
      rewrite (firstn_S_nth O) by lia. rewrite !map_app, Hmap. reflexivity.
Qed.

Lemma gen_os_choices_loop_Ok nos n : forall fuel o l r,
  gen_os_choices_loop nos n o fuel = Ok l r -> length l = n /\ os_choices_ok nos l = true.
Proof.
  induction fuel as [|f IH]; intros o l r H; cbn [gen_os_choices_loop] in H; [discriminate|].
  destruct (drawns n (S nos) o) as [l' r'| |w] eqn:D; try discriminate.
  destruct (os_choices_ok nos l') eqn:K.
  - inversion H; subst. apply drawns_Ok in D. split; [apply D|assumption].
  - eapply IH; eauto.
Qed.

Lemma gen_os_choices_Ok p o l r : 0 < g_npe p ->
  gen_os_choices p o = Ok l r -> length l = g_npe p /\ os_choices_ok (g_nos p) l = true.
Proof.
  intros Hpos. unfold gen_os_choices. destruct (Nat.ltb (g_npe p) (g_nos p)) eqn:E; intros H.
  - apply bindM_Ok in H. destruct H as [l' [r' [D H]]]. apply ret_Ok in H. destruct H as [<- _].
    apply drawns_Ok in D. destruct D as [D _]. cbn [length]. split; [lia|].
    unfold os_choices_ok. cbn [existsb]. rewrite Nat.ltb_irrefl. reflexivity.
  - eapply gen_os_choices_loop_Ok; eauto.
Qed.

Lemma cover_of_choices nos ch (l : list pdef) :
  os_choices_ok nos ch = true -> map p_os l = map (os_of_idx nos) ch -> pe_cover nos l.
Proof.
  unfold os_choices_ok, pe_cover. intros H Hmap. apply orb_true_iff in H. apply orb_true_iff.
  destruct H as [H|H].
  - left. apply existsb_exists in H. destruct H as [i [Hi Hn]]. apply existsb_exists.
    assert (Hin : In (os_of_idx nos i) (map p_os l)) by (rewrite Hmap; apply in_map; assumption).
    apply in_map_iff in Hin. destruct Hin as [q [Hq Hql]]. exists q. split; [assumption|].
    rewrite Hq. unfold os_of_idx. apply negb_true_iff in Hn. rewrite Hn. reflexivity.
  - right. apply forallb_forall. intros os Hos. rewrite forallb_forall in H. specialize (H os Hos).
    apply in_seq in Hos. unfold mem_nat in H. apply existsb_exists in H. destruct H as [i [Hi Hn]].
    apply Nat.eqb_eq in Hn. subst i. apply existsb_exists.
    assert (Hin : In (os_of_idx nos os) (map p_os l)) by (rewrite Hmap; apply in_map; assumption).
    apply in_map_iff in Hin. destruct Hin as [q [Hq Hql]]. exists q. split; [assumption|].
    rewrite Hq. unfold os_of_idx. replace (Nat.ltb os nos) with true by (symmetry; apply Nat.ltb_lt; lia).
    cbn [opt_nat_eqb]. apply Nat.eqb_refl.
Qed.

Lemma gen_privescs_facts : forall p o pe r, 0 < g_npe p -> gen_privescs p o = Ok pe r ->
  length pe = g_npe p
  /\ Forall (fun q => p_proc q < g_nproc p /\ opt_lt (p_os q) (g_nos p) = true
                      /\ p_cost q = g_pcost p /\ p_acc q = 2) pe
  /\ (existsb (fun q => match p_os q with None => true | Some _ => false end) pe
      || forallb (fun os => existsb (fun q => opt_nat_eqb (p_os q) (Some os)) pe) (seq 0 (g_nos p))) = true.
Proof.
  intros p o pe r Hpos H. unfold gen_privescs in H.
  apply bindM_Ok in H. destruct H as [probs [o1 [_ H]]].
  apply bindM_Ok in H. destruct H as [ch [o2 [C H]]].
  apply gen_os_choices_Ok in C; [|assumption]. destruct C as [C1 C2].
  eapply gen_privescs_loop_inv in H; [| cbn [length]; lia | lia | constructor | reflexivity].
  destruct H as [H1 [H2 H3]]. split; [assumption|]. split; [exact H2|].
  apply (cover_of_choices _ ch); [assumption|].
  rewrite H3, <- C1. rewrite firstn_all. reflexivity.
Qed.

(* ---------- generate: unpacking ---------- *)
Lemma params_ok_facts p : params_ok p = true ->
  0 < g_nsrv p /\ 2 < g_hosts p /\ 0 < g_nproc p /\ 0 < g_nexp p /\ 0 < g_npe p /\ 0 < g_nos p
  /\ (0 < g_rsens p)%Z /\ (0 < g_ruser p)%Z /\ 0 < g_restrict p.
Proof. unfold params_ok. rewrite !andb_true_iff, !Nat.ltb_lt, !Z.ltb_lt. tauto. Qed.

Ltac sc_proj := cbn [s_subnets s_topo s_nos s_nsrv s_nproc s_exploits s_privescs s_ssc s_osc s_subc
                     s_psc s_fw s_hosts s_sens s_limit s_bounds nsubnets].
Ltac gen_unpack H PO St :=
  let o1 := fresh "o1" in let o2 := fresh "o2" in let o3 := fresh "o3" in
  let o4 := fresh "o4" in let o5 := fresh "o5" in let o6 := fresh "o6" in
  let B1 := fresh "B1" in let B2 := fresh "B2" in
  apply generate_inv in H;
  destruct H as [PO [B1 [B2 [St [o1 [o2 [o3 [o4 [o5 [o6 H]]]]]]]]]]; cbv zeta in H.

Lemma C15_shape_proof : C15_shape_stmt.
Proof.
  intros p o sc [rest H]. gen_unpack H PO St.
  destruct H as [H1 [H2 [H3 [H4 [H5 [H6 [H7 Hsc]]]]]]]. subst sc. sc_proj.
  pose proof (params_ok_facts p PO) as (P1 & P2 & P3 & P4 & P5 & P6 & P7 & P8 & P9).
  pose proof (gen_subnets_facts (g_hosts p) ltac:(lia)) as G. cbv zeta in G.
  destruct G as (G1 & G2 & G3 & G4).
  apply gen_exploits_facts in H1. destruct H1 as [E1 _].
  apply gen_privescs_facts in H2; [|assumption]. destruct H2 as [Q1 _].
  repeat split; assumption.
Qed.

(* ---------- topology ---------- *)
Lemma nth_map_seq {A} (f : nat -> A) n i d : i < n -> nth i (map f (seq 0 n)) d = f i.
Proof.
  intros Hi. rewrite (nth_indep _ d (f 0)) by (rewrite map_length, seq_length; assumption).
  rewrite map_nth, seq_nth by assumption. reflexivity.
Qed.

Lemma gen_topology_nth n s t : s < n -> t < n ->
  nth t (nth s (gen_topology n) []) false = gen_connected n s t.
Proof.
  intros Hs Ht. unfold gen_topology. rewrite nth_map_seq by assumption. apply nth_map_seq. assumption.
Qed.

Lemma gen_topology_length n : length (gen_topology n) = n.
Proof. unfold gen_topology. rewrite map_length, seq_length. reflexivity. Qed.

Lemma gen_topology_rows n : Forall (fun r => length r = n) (gen_topology n).
Proof.
  unfold gen_topology. apply Forall_forall. intros r Hr. apply in_map_iff in Hr.
  destruct Hr as [s [<- _]]. rewrite map_length, seq_length. reflexivity.
Qed.

Lemma small4 s : Nat.ltb s 4 = true -> s = 0 \/ s = 1 \/ s = 2 \/ s = 3.
Proof. intros H. apply Nat.ltb_lt in H. lia. Qed.

Lemma gen_connected_sym n s t : s < n -> t < n -> gen_connected n s t = gen_connected n t s.
Proof.
  intros Hs Ht. unfold gen_connected.
  destruct (Nat.ltb s 4) eqn:S4; destruct (Nat.ltb t 4) eqn:T4; cbn [andb].
  - apply small4 in S4. apply small4 in T4.
    destruct S4 as [->|[->|[->| ->]]]; destruct T4 as [->|[->|[->| ->]]]; reflexivity.
  - destruct (Nat.eqb n 4) eqn:N4; [reflexivity|].
    apply Nat.ltb_lt in S4. apply Nat.ltb_ge in T4.
    replace (Nat.ltb t 3) with false by (symmetry; apply Nat.ltb_ge; lia).
    apply Bool.eq_iff_eq_true.
    destruct (Nat.ltb_spec s 3) as [S3|S3].
    + rewrite !orb_true_iff, !andb_true_iff, !Nat.eqb_eq, !Nat.ltb_lt. lia.
    + rewrite !orb_true_iff, !andb_true_iff, !Nat.eqb_eq, !Nat.ltb_lt. lia.
  - destruct (Nat.eqb n 4) eqn:N4; [reflexivity|].
    apply Nat.ltb_lt in T4. apply Nat.ltb_ge in S4.
    replace (Nat.ltb s 3) with false by (symmetry; apply Nat.ltb_ge; lia).
    apply Bool.eq_iff_eq_true.
    destruct (Nat.ltb_spec t 3) as [T3|T3].
    + rewrite !orb_true_iff, !andb_true_iff, !Nat.eqb_eq, !Nat.ltb_lt. lia.
    + rewrite !orb_true_iff, !andb_true_iff, !Nat.eqb_eq, !Nat.ltb_lt. lia.
  - destruct (Nat.eqb n 4) eqn:N4; [reflexivity|].
    apply Nat.ltb_ge in T4. apply Nat.ltb_ge in S4.
    replace (Nat.ltb s 3) with false by (symmetry; apply Nat.ltb_ge; lia).
    replace (Nat.ltb t 3) with false by (symmetry; apply Nat.ltb_ge; lia).
    apply Bool.eq_iff_eq_true.
    rewrite !orb_true_iff, !andb_true_iff, !Nat.eqb_eq, !Nat.ltb_lt. lia.
Qed.

Lemma gen_connected_refl n s : s < n -> gen_connected n s s = true.
Proof.
  intros Hs. unfold gen_connected.
  destruct (Nat.ltb s 4) eqn:S4; cbn [andb].
  - apply small4 in S4. destruct S4 as [->|[->|[->| ->]]]; reflexivity.
  - apply Nat.ltb_ge in S4.
    replace (Nat.eqb n 4) with false by (symmetry; apply Nat.eqb_neq; lia).
    replace (Nat.ltb s 3) with false by (symmetry; apply Nat.ltb_ge; lia).
    rewrite Nat.eqb_refl. reflexivity.
Qed.

Lemma gen_connected_public n s : 0 < s < n -> (gen_connected n s 0 = true <-> s = 1).
Proof.
  intros Hs. unfold gen_connected.
  destruct (Nat.ltb s 4) eqn:S4; cbn [andb].
  - apply small4 in S4. destruct S4 as [->|[->|[->| ->]]]; cbn; split; intros; try lia; try discriminate; reflexivity.
  - apply Nat.ltb_ge in S4.
    replace (Nat.eqb n 4) with false by (symmetry; apply Nat.eqb_neq; lia).
    replace (Nat.ltb s 3) with false by (symmetry; apply Nat.ltb_ge; lia).
    rewrite !orb_true_iff, !andb_true_iff, !Nat.eqb_eq, !Nat.ltb_lt. lia.
Qed.

Lemma C15_topology_proof : C15_topology_stmt.
Proof.
  intros p o sc [rest H]. gen_unpack H PO St.
  destruct H as [H1 [H2 [H3 [H4 [H5 [H6 [H7 Hsc]]]]]]]. subst sc.
  cbv zeta. unfold subnet_public, connected, nsubnets. sc_proj.
  set (n := length (gen_subnets (g_hosts p))).
  split; [apply gen_topology_length|]. split; [apply gen_topology_rows|].
  split; [|split].
  - intros s t Hs Ht. rewrite !gen_topology_nth by assumption. apply gen_connected_sym; assumption.
  - intros s Hs. rewrite gen_topology_nth by assumption. apply gen_connected_refl; assumption.
  - intros s Hs. rewrite gen_topology_nth by lia. apply gen_connected_public; assumption.
Qed.

(* ---------- host addresses through the stages ---------- *)
Ltac bind_ok H x r Hx := apply bindM_Ok in H; destruct H as [x [r [Hx H]]].
Ltac ret_ok H := apply ret_Ok in H; destruct H as [<- <-].
Ltac st_proj := cbn [st_ex st_pe st_sens st_hosts0 st_pass1 st_hosts st_fw] in *.

Lemma addr_eqb_eq a b : addr_eqb a b = true -> a = b.
Proof.
  unfold addr_eqb. destruct a as [a1 a2]; destruct b as [b1 b2]; cbn [fst snd].
  rewrite andb_true_iff, !Nat.eqb_eq. intros [-> ->]. reflexivity.
Qed.

Lemma gen_hosts_loop_addrs p : forall addrs hn cs o hosts r,
  gen_hosts_loop p addrs hn cs o = Ok hosts r -> map fst hosts = addrs.
Proof.
  induction addrs as [|a addrs IH]; intros hn cs o hosts r H; cbn [gen_hosts_loop] in H.
  - ret_ok H. reflexivity.
  - destruct (g_uniform p).
    + bind_ok H c r1 Hc. bind_ok H rest r2 Hrest. ret_ok H. cbn [map fst]. f_equal. eapply IH; eauto.
    + bind_ok H c r1 Hc. bind_ok H rest r2 Hrest. ret_ok H. cbn [map fst]. f_equal. eapply IH; eauto.
Qed.

Lemma ensure_pass1_addrs ex pe sens : forall hosts vs o res r,
  ensure_pass1 ex pe sens hosts vs o = Ok res r -> map fst (fst res) = map fst hosts.
Proof.
  induction hosts as [|[a c] hosts IH]; intros vs o res r H; cbn [ensure_pass1] in H.
  - ret_ok H. reflexivity.
  - destruct (negb (mem_addr a sens) && mem_nat (fst a) vs).
    + bind_ok H rest r1 Hrest. ret_ok H. cbn [map fst]. f_equal. eapply IH; eauto.
    + destruct (mem_addr a sens).
      * bind_ok H c' r1 Hc. bind_ok H rest r2 Hrest. ret_ok H. cbn [map fst]. f_equal. eapply IH; eauto.
      * bind_ok H rest r1 Hrest. ret_ok H. cbn [map fst]. f_equal. eapply IH; eauto.
Qed.

Lemma update_host_addrs hosts a c : map fst (update_host hosts a c) = map fst hosts.
Proof.
  unfold update_host. rewrite map_map. apply map_ext. intros q.
  destruct (addr_eqb (fst q) a) eqn:E; [|reflexivity]. apply addr_eqb_eq in E. cbn [fst]. auto.
Qed.

Lemma ensure_pass2_addrs ex pe subnets : forall ss hosts vs o res r,
  ensure_pass2 ex pe subnets ss hosts vs o = Ok res r -> map fst res = map fst hosts.
Proof.
  induction ss as [|s ss IH]; intros hosts vs o res r H; cbn [ensure_pass2] in H.
  - ret_ok H. reflexivity.
  - destruct (mem_nat s vs || Nat.eqb s 0).
    + eapply IH; eauto.
    + bind_ok H h r1 Hh. bind_ok H c' r2 Hc. apply IH in H. rewrite H. apply update_host_addrs.
Qed.

Lemma gen_final_addrs p o sc rest : generate p o = Ok sc rest ->
  map fst (s_hosts sc) = gen_addrs (gen_subnets (g_hosts p)).
Proof.
  intros H. gen_unpack H PO St. destruct St as [ex pe sens hosts0 pass1 hosts fw]. st_proj.
  destruct H as [H1 [H2 [H3 [H4 [H5 [H6 [H7 Hsc]]]]]]]. subst sc. sc_proj.
  rewrite map_map. cbn [fst].
  apply ensure_pass2_addrs in H6. apply ensure_pass1_addrs in H5. apply gen_hosts_loop_addrs in H4.
  change (map (fun x : addr * hcfg => fst x) hosts) with (map fst hosts). congruence.
Qed.

Lemma in_gen_addrs subnets s h :
  1 <= s < length subnets -> h < nth s subnets 0 -> In (s, h) (gen_addrs subnets).
Proof.
  intros Hs Hh. unfold gen_addrs. apply in_flat_map. exists s. split; [apply in_seq; lia|].
  apply (in_map (fun h0 => (s, h0))). apply in_seq. lia.
Qed.

Lemma last_nth_len {A} (d : A) : forall l, last l d = nth (length l - 1) l d.
Proof.
  induction l as [|x l IH]; [reflexivity|].
  destruct l as [|y l]; [reflexivity|].
  change (last (x :: y :: l) d) with (last (y :: l) d). rewrite IH.
  cbn [length]. replace (S (S (length l)) - 1) with (S (S (length l) - 1)) by lia. reflexivity.
Qed.

Lemma Forall_nth_pos l i : Forall (fun x => 0 < x) l -> i < length l -> 0 < nth i l 0.
Proof. intros HF Hi. rewrite Forall_forall in HF. apply HF. apply nth_In. assumption. Qed.

Lemma C15_sensitive_proof : C15_sensitive_stmt.
Proof.
  intros p o sc [rest H]. pose proof (gen_final_addrs _ _ _ _ H) as HA.
  gen_unpack H PO St. destruct St as [ex pe sens hosts0 pass1 hosts fw]. st_proj.
  destruct H as [H1 [H2 [H3 [H4 [H5 [H6 [H7 Hsc]]]]]]].
  pose proof (params_ok_facts p PO) as (P1 & P2 & P3 & P4 & P5 & P6 & P7 & P8 & P9).
  pose proof (gen_subnets_facts (g_hosts p) ltac:(lia)) as G. cbv zeta in G.
  destruct G as (G1 & G2 & G3 & G4).
  rewrite HA. subst sc. sc_proj. clear HA H1 H2 H4 H5 H6 H7.
  set (subnets := gen_subnets (g_hosts p)) in *.
  assert (I2 : In (2, 0) (gen_addrs subnets)).
  { apply in_gen_addrs; [lia|]. apply Forall_nth_pos; [assumption|lia]. }
  unfold gen_sensitive in H3.
  destruct (g_random_goal p && Nat.ltb 2 (length subnets)) eqn:R.
  - destruct o2 as [|s [|h r]]; try discriminate.
    destruct (negb ((3 <=? s)%Z && (s <? Z.of_nat (length subnets))%Z)) eqn:C1; [discriminate|].
    destruct (negb ((0 <=? h)%Z && (h <? Z.of_nat (nth (Z.to_nat s) subnets O))%Z)) eqn:C2; [discriminate|].
    apply negb_false_iff in C1, C2. rewrite andb_true_iff in C1, C2.
    destruct C1 as [C1 C1']. destruct C2 as [C2 C2'].
    apply Z.leb_le in C1, C2. apply Z.ltb_lt in C1', C2'.
    cbv zeta in H3.
    replace (addr_eqb (Z.to_nat s, Z.to_nat h) (2, 0)) with false in H3
      by (symmetry; unfold addr_eqb; cbn [fst snd];
          replace (Nat.eqb (Z.to_nat s) 2) with false by (symmetry; apply Nat.eqb_neq; lia); reflexivity).
    inversion H3; subst sens o3. exists (Z.to_nat s, Z.to_nat h). cbn [fst snd].
    split; [reflexivity|]. split; [lia|]. split; [apply in_gen_addrs; lia|]. split; [assumption|].
    intros RG. rewrite RG in R. discriminate.
  - replace (addr_eqb (length subnets - 1, nth (length subnets - 1) subnets 0 - 1) (2, 0)) with false in H3
      by (symmetry; unfold addr_eqb; cbn [fst snd];
          replace (Nat.eqb (length subnets - 1) 2) with false by (symmetry; apply Nat.eqb_neq; lia); reflexivity).
    ret_ok H3. exists (length subnets - 1, nth (length subnets - 1) subnets 0 - 1). cbn [fst snd].
    split; [reflexivity|]. split; [lia|].
    assert (0 < nth (length subnets - 1) subnets 0) by (apply Forall_nth_pos; [assumption|lia]).
    split; [apply in_gen_addrs; lia|]. split; [assumption|].
    intros _. rewrite last_nth_len. reflexivity.
Qed.

(* ---------- D8: a dead end ---------- *)
Definition pD : gparams :=
  mkGP 3 1 1 1 3 1 1%Z 1%Z 1%Z (PFixed [1%Z; 1%Z; 1%Z]) 1%Z (PFixed [1%Z]) 1%Z 1%Z 1%Z 1%Z false [] []
       (Some 0%Z) 1 false 0%Z 0%Z None None.

Lemma opt_nat_eqb_refl x : opt_nat_eqb x x = true.
Proof. destruct x as [x|]; cbn [opt_nat_eqb]; [apply Nat.eqb_refl|reflexivity]. Qed.

Lemma NoDup_snoc {A} (l : list A) x : NoDup l -> ~ In x l -> NoDup (l ++ [x]).
Proof.
  induction l as [|y l IH]; intros HN Hx; cbn [app].
  - constructor; [intros []|constructor].
  - inversion HN as [|y' l' Hy HN']; subst. constructor.
    + rewrite in_app_iff. intros [Hi|[Hi|[]]]; [contradiction|]. subst. apply Hx. left. reflexivity.
    + apply IH; [assumption|]. intros Hi. apply Hx. right. assumption.
Qed.

Definition keysD (acc : list edef) : Prop :=
  Forall (fun e => e_srv e = 0) acc /\ NoDup (map e_os acc) /\ incl (map e_os acc) [Some 0; None].

Lemma keysD_length acc : keysD acc -> length acc <= 2.
Proof.
  intros (_ & HN & HI). rewrite <- (map_length e_os).
  apply (NoDup_incl_length HN) in HI. exact HI.
Qed.

Lemma dead_loop probs : forall o acc l r, keysD acc -> gen_exploits_loop pD probs acc o <> Ok l r.
Proof.
  induction o as [|a|a b|s os al r IH] using list_ind3; intros acc l r0 HK H;
    pose proof (keysD_length acc HK) as HL;
    rewrite gen_exploits_loop_eq in H;
    (destruct (Nat.leb (g_nexp pD) (length acc)) eqn:E;
     [apply Nat.leb_le in E; change (g_nexp pD) with 3 in E; lia|]);
    try discriminate.
  change (g_nsrv pD) with 1 in H. change (g_nos pD) with 1 in H.
  destruct (negb ((0 <=? s)%Z && (s <? Z.of_nat 1)%Z && (0 <=? os)%Z && (os <=? Z.of_nat 1)%Z
               && (1 <=? al)%Z && (al <=? 2)%Z)) eqn:B; [discriminate|].
  apply negb_false_iff in B. rewrite !andb_true_iff in B.
  destruct B as [[[[[B1 B2] B3] B4] B5] B6].
  apply Z.leb_le in B1, B3, B4. apply Z.ltb_lt in B2.
  cbv zeta in H. replace (Z.to_nat s) with 0 in H by lia.
  destruct (existsb (same_exploit_key 0 (os_of_idx 1 (Z.to_nat os))) acc) eqn:X.
  - eapply IH; eauto.
  - eapply IH; [|exact H]. destruct HK as (K1 & K2 & K3). unfold keysD.
    rewrite map_app. cbn [map e_os]. split; [|split].
    + apply Forall_app. split; [assumption|]. constructor; [reflexivity|constructor].
    + apply NoDup_snoc; [assumption|]. intros Hin. apply in_map_iff in Hin.
      destruct Hin as [e [He Hin]].
      assert (Xe : same_exploit_key 0 (os_of_idx 1 (Z.to_nat os)) e = false).
      { destruct (same_exploit_key 0 (os_of_idx 1 (Z.to_nat os)) e) eqn:Y; [|reflexivity].
        rewrite <- X. symmetry. apply existsb_exists. exists e. split; assumption. }
      unfold same_exploit_key in Xe. rewrite Forall_forall in K1. rewrite (K1 e Hin) in Xe.
      rewrite He, opt_nat_eqb_refl in Xe. discriminate.
    + apply incl_app; [assumption|]. intros k [<-|[]].
      assert (Ho : Z.to_nat os = 0 \/ Z.to_nat os = 1) by lia.
      destruct Ho as [-> | ->]; cbn; auto.
Qed.

Lemma C15_dead_end_refuted_proof : C15_dead_end_refuted_stmt.
Proof.
  exists pD. split; [reflexivity|]. split; [discriminate|]. split; [reflexivity|].
  intros o sc rest H. gen_unpack H PO St. destruct H as [H1 _].
  apply gen_exploits_inv in H1. destruct H1 as [probs [o' [_ H1]]].
  revert H1. apply dead_loop. split; [constructor|]. split; [constructor|]. intros x [].
Qed.

(* ---------- D7: alpha_V = 1 ---------- *)
Definition pA : gparams :=
  mkGP 3 1 1 1 1 1 1%Z 1%Z 1%Z (PFixed [1%Z]) 1%Z (PFixed [1%Z]) 1%Z 1%Z 1%Z 1%Z false
       [0%Z; 10%Z; 10%Z; 10%Z] [] None 1 false 0%Z 0%Z None None.

Lemma C15_alphaV_one_refuted_proof : C15_alphaV_one_refuted_stmt.
Proof.
  exists pA, [0; 0; 1; 0; 0; 0; 1; 0; 1; 0; 0]%Z.
  split; [reflexivity|]. split; [reflexivity|]. vm_compute. reflexivity.
Qed.

(* ---------- crash codes ---------- *)
Ltac bind_crash H x r Hx := apply bindM_Crash in H; destruct H as [H | [x [r [Hx H]]]].
Ltac ret_crash H := solve [unfold ret in H; discriminate H].

Lemma drawn_Crash bound o w : drawn bound o = Crash w -> w = 9.
Proof.
  unfold drawn. destruct o as [|z o']; [discriminate|].
  destruct ((0 <=? z)%Z && (z <? Z.of_nat bound)%Z); [discriminate|]. intros H. inversion H. reflexivity.
Qed.

Lemma draw_Crash o w : draw o = Crash w -> False.
Proof. unfold draw. destruct o; discriminate. Qed.

Lemma crash_Crash {A} w' o w : @crash A w' o = Crash w -> w = w'.
Proof. unfold crash. intros H. inversion H. reflexivity. Qed.

Lemma drawns_Crash bound : forall n o w, drawns n bound o = Crash w -> w = 9.
Proof.
  induction n as [|n IH]; intros o w H; cbn [drawns] in H; [ret_crash H|].
  bind_crash H x r Hx; [eapply drawn_Crash; eauto|].
  bind_crash H xs r' Hxs; [eapply IH; eauto|]. ret_crash H.
Qed.

Lemma draws_Crash : forall n o w, draws n o = Crash w -> False.
Proof.
  induction n as [|n IH]; intros o w H; cbn [draws] in H; [ret_crash H|].
  bind_crash H x r Hx; [eapply draw_Crash; eauto|].
  bind_crash H xs r' Hxs; [eapply IH; eauto|]. ret_crash H.
Qed.

Lemma gen_probs_Crash n ps o w : gen_probs n ps o = Crash w -> w = 9.
Proof.
  unfold gen_probs. destruct ps as [l| |levels]; intros H.
  - ret_crash H.
  - exfalso. eapply draws_Crash; eauto.
  - bind_crash H idx r Hidx; [eapply drawns_Crash; eauto|]. ret_crash H.
Qed.

Lemma gen_exploits_loop_Crash p probs : forall o acc w,
  gen_exploits_loop p probs acc o = Crash w -> w = 9.
Proof.
  induction o as [|a|a b|s os al r IH] using list_ind3; intros acc w H;
    rewrite gen_exploits_loop_eq in H;
    destruct (Nat.leb (g_nexp p) (length acc)); try discriminate.
  destruct (negb ((0 <=? s)%Z && (s <? Z.of_nat (g_nsrv p))%Z && (0 <=? os)%Z && (os <=? Z.of_nat (g_nos p))%Z
               && (1 <=? al)%Z && (al <=? 2)%Z)); [inversion H; reflexivity|].
  cbv zeta in H.
  destruct (existsb (same_exploit_key (Z.to_nat s) (os_of_idx (g_nos p) (Z.to_nat os))) acc);
    eapply IH; eauto.
Qed.

Lemma gen_exploits_Crash p o w : gen_exploits p o = Crash w -> w = 9.
Proof.
  unfold gen_exploits. intros H. bind_crash H probs r Hp; [eapply gen_probs_Crash; eauto|].
  eapply gen_exploits_loop_Crash; eauto.
Qed.

Lemma gen_os_choices_loop_Crash nos n : forall fuel o w,
  gen_os_choices_loop nos n o fuel = Crash w -> w = 9.
Proof.
  induction fuel as [|f IH]; intros o w H; cbn [gen_os_choices_loop] in H; [discriminate|].
  destruct (drawns n (S nos) o) as [l' r'| |w'] eqn:D; try discriminate.
  - destruct (os_choices_ok nos l'); [discriminate|]. eapply IH; eauto.
  - inversion H; subst. eapply drawns_Crash; eauto.
Qed.

Lemma gen_os_choices_Crash p o w : gen_os_choices p o = Crash w -> w = 9.
Proof.
  unfold gen_os_choices. destruct (Nat.ltb (g_npe p) (g_nos p)); intros H.
  - bind_crash H l r Hl; [eapply drawns_Crash; eauto|]. ret_crash H.
  - eapply gen_os_choices_loop_Crash; eauto.
Qed.

Lemma gen_privescs_loop_Crash p probs choices : forall o acc w,
  gen_privescs_loop p probs choices acc o = Crash w -> w = 9.
Proof.
  induction o as [|pr r IH]; intros acc w H;
    rewrite gen_privescs_loop_eq in H;
    destruct (Nat.leb (g_npe p) (length acc)); try discriminate.
  destruct (negb ((0 <=? pr)%Z && (pr <? Z.of_nat (g_nproc p))%Z)); [inversion H; reflexivity|].
  cbv zeta in H.
  destruct (existsb (same_privesc_key (Z.to_nat pr) (os_of_idx (g_nos p) (nth (length acc) choices 0))) acc);
    eapply IH; eauto.
Qed.

Lemma gen_privescs_Crash p o w : gen_privescs p o = Crash w -> w = 9.
Proof.
  unfold gen_privescs. intros H. bind_crash H probs r Hp; [eapply gen_probs_Crash; eauto|].
  bind_crash H ch r' Hc; [eapply gen_os_choices_Crash; eauto|].
  eapply gen_privescs_loop_Crash; eauto.
Qed.

Lemma gen_sensitive_Crash p subnets o w : gen_sensitive p subnets o = Crash w -> w = 9.
Proof.
  unfold gen_sensitive. destruct (g_random_goal p && Nat.ltb 2 (length subnets)); intros H; [|ret_crash H].
  destruct o as [|s [|h r]]; try discriminate.
  destruct (negb ((3 <=? s)%Z && (s <? Z.of_nat (length subnets))%Z)); [inversion H; reflexivity|].
  destruct (negb ((0 <=? h)%Z && (h <? Z.of_nat (nth (Z.to_nat s) subnets O))%Z)); [inversion H; reflexivity|].
  discriminate.
Qed.

Lemma dp_loop_Crash p nopt : forall n i cfg prev o w, dp_loop p nopt i n cfg prev o = Crash w -> w = 9.
Proof.
  induction n as [|n IH]; intros i cfg prev o w H; cbn [dp_loop] in H; [ret_crash H|].
  bind_crash H x r Hx; [|eapply IH; eauto].
  destruct (Nat.eqb i 0); [eapply drawn_Crash; eauto|].
  bind_crash H k r Hk; [exfalso; eapply draw_Crash; eauto|].
  destruct (k <? nth i (g_thrP p) 0)%Z; [eapply drawn_Crash; eauto|].
  bind_crash H j r' Hj; [eapply drawn_Crash; eauto|]. ret_crash H.
Qed.

Lemma dirichlet_process_Crash p nopt prev o w : dirichlet_process p nopt prev o = Crash w -> w = 9.
Proof.
  unfold dirichlet_process. intros H. bind_crash H k r Hk; [exfalso; eapply draw_Crash; eauto|].
  destruct (k <? 0)%Z; [eapply crash_Crash; eauto|]. eapply dp_loop_Crash; eauto.
Qed.

Definition code97 (p : gparams) (w : nat) : Prop := w = 9 \/ (w = 7 /\ g_thrS p = None).

Lemma dirichlet_sample_Crash p prev o w : dirichlet_sample p prev o = Crash w -> code97 p w.
Proof.
  unfold dirichlet_sample, code97. destruct prev as [|x prev]; intros H.
  - left. eapply drawn_Crash; eauto.
  - destruct (g_thrS p) as [t|]; [|right; split; [eapply crash_Crash; eauto|reflexivity]].
    left. bind_crash H k r Hk; [exfalso; eapply draw_Crash; eauto|].
    destruct (k <? t)%Z; [eapply drawn_Crash; eauto|].
    bind_crash H j r' Hj; [eapply drawn_Crash; eauto|]. ret_crash H.
Qed.

Definition fresh_host (p : gparams) (cs : cstate) : M (hcfg * cstate) :=
  let! os := dirichlet_sample p (cs_os cs) in
  let! sv := dirichlet_process p (g_nsrv p) (cs_srv cs) in
  let! pc := dirichlet_process p (g_nproc p) (cs_proc cs) in
  let c := mkH os (fst sv) (fst pc) in
  ret (c, mkCS (cs_cfgs cs ++ [c]) (cs_os cs ++ [os]) (snd sv) (snd pc)).

Lemma gen_correlated_host_eq p hn cs : gen_correlated_host p hn cs =
  if Nat.eqb hn 0 then fresh_host p cs
  else
    let! k := draw in
    if (k <? nth hn (g_thrH p) 0)%Z then fresh_host p cs
    else let! j := drawn (length (cs_cfgs cs)) in
         let c := nth j (cs_cfgs cs) (mkH 0 [] []) in
         ret (c, mkCS (cs_cfgs cs ++ [c]) (cs_os cs) (cs_srv cs) (cs_proc cs)).
Proof. reflexivity. Qed.

Lemma fresh_host_Crash p cs o w : fresh_host p cs o = Crash w -> code97 p w.
Proof.
  unfold fresh_host. intros H. bind_crash H os r Hos; [eapply dirichlet_sample_Crash; eauto|].
  left. bind_crash H sv r1 Hsv; [eapply dirichlet_process_Crash; eauto|].
  bind_crash H pc r2 Hpc; [eapply dirichlet_process_Crash; eauto|]. ret_crash H.
Qed.

Lemma gen_correlated_host_Crash p hn cs o w : gen_correlated_host p hn cs o = Crash w -> code97 p w.
Proof.
  rewrite gen_correlated_host_eq. destruct (Nat.eqb hn 0); intros H; [eapply fresh_host_Crash; eauto|].
  bind_crash H k r Hk; [exfalso; eapply draw_Crash; eauto|].
  destruct (k <? nth hn (g_thrH p) 0)%Z; [eapply fresh_host_Crash; eauto|].
  left. bind_crash H j r' Hj; [eapply drawn_Crash; eauto|]. ret_crash H.
Qed.

Lemma gen_uniform_host_Crash p o w : gen_uniform_host p o = Crash w -> w = 9.
Proof.
  unfold gen_uniform_host. intros H.
  bind_crash H si r Hsi; [eapply drawn_Crash; eauto|].
  bind_crash H pi r1 Hpi; [eapply drawn_Crash; eauto|].
  bind_crash H os r2 Hos; [eapply drawn_Crash; eauto|]. ret_crash H.
Qed.

Lemma gen_hosts_loop_Crash p : forall addrs hn cs o w,
  gen_hosts_loop p addrs hn cs o = Crash w -> code97 p w.
Proof.
  induction addrs as [|a addrs IH]; intros hn cs o w H; cbn [gen_hosts_loop] in H; [ret_crash H|].
  destruct (g_uniform p).
  - bind_crash H c r Hc; [left; eapply gen_uniform_host_Crash; eauto|].
    bind_crash H rest r1 Hrest; [eapply IH; eauto|]. ret_crash H.
  - bind_crash H c r Hc; [eapply gen_correlated_host_Crash; eauto|].
    bind_crash H rest r1 Hrest; [eapply IH; eauto|]. ret_crash H.
Qed.

Lemma pick_services_Crash : forall k avail o w, pick_services avail k o = Crash w -> w = 9.
Proof.
  induction k as [|k IH]; intros avail o w H; cbn [pick_services] in H; [ret_crash H|].
  bind_crash H i r Hi; [eapply drawn_Crash; eauto|].
  bind_crash H rest r1 Hrest; [eapply IH; eauto|]. ret_crash H.
Qed.

Lemma gen_fw_pairs_Crash p ex hosts n : forall pairs o w,
  gen_fw_pairs p ex hosts n pairs o = Crash w -> w = 9.
Proof.
  induction pairs as [|[s t] pairs IH]; intros o w H; cbn [gen_fw_pairs] in H; [ret_crash H|].
  destruct (Nat.eqb s t || negb (gen_connected n s t)); [eapply IH; eauto|].
  destruct (Nat.ltb 2 s && Nat.ltb 2 t).
  - bind_crash H rest r Hrest; [eapply IH; eauto|]. ret_crash H.
  - destruct (Nat.ltb (length (subnet_services ex hosts (g_nsrv p) t)) (g_restrict p)).
    + bind_crash H rest r Hrest; [eapply IH; eauto|]. ret_crash H.
    + bind_crash H chosen r Hch; [eapply pick_services_Crash; eauto|].
      bind_crash H rest r1 Hrest; [eapply IH; eauto|]. ret_crash H.
Qed.

(* ---------- every generated host has an OS below g_nos ---------- *)
Lemma dirichlet_sample_Ok p prev o os r : 0 < g_nos p -> Forall (fun x => x < g_nos p) prev ->
  dirichlet_sample p prev o = Ok os r -> os < g_nos p.
Proof.
  intros Hpos HF. unfold dirichlet_sample. destruct prev as [|x prev]; intros H.
  - apply drawn_Ok in H. apply H.
  - destruct (g_thrS p) as [t|]; [|discriminate].
    bind_ok H k r1 Hk. destruct (k <? t)%Z.
    + apply drawn_Ok in H. apply H.
    + bind_ok H j r2 Hj. ret_ok H. apply drawn_Ok in Hj. destruct Hj as [Hj _].
      rewrite Forall_forall in HF. apply HF. apply nth_In. assumption.
Qed.

Definition os_lt (p : gparams) (c : hcfg) : Prop := hc_os c < g_nos p.
Definition cs_inv (p : gparams) (cs : cstate) : Prop :=
  Forall (os_lt p) (cs_cfgs cs) /\ Forall (fun x => x < g_nos p) (cs_os cs).

Lemma fresh_host_Ok p cs o cc r : 0 < g_nos p -> cs_inv p cs ->
  fresh_host p cs o = Ok cc r -> os_lt p (fst cc) /\ cs_inv p (snd cc).
Proof.
  intros Hpos [I1 I2]. unfold fresh_host. intros H.
  bind_ok H os r1 Hos. bind_ok H sv r2 Hsv. bind_ok H pc r3 Hpc. cbv zeta in H. ret_ok H.
  apply dirichlet_sample_Ok in Hos; [|assumption|assumption].
  cbn [fst snd]. unfold cs_inv, os_lt. cbn [cs_cfgs cs_os hc_os]. split; [assumption|].
  split; apply Forall_app; (split; [assumption|]); constructor; auto.
Qed.

Lemma gen_correlated_host_Ok p hn cs o cc r : 0 < g_nos p -> cs_inv p cs ->
  gen_correlated_host p hn cs o = Ok cc r -> os_lt p (fst cc) /\ cs_inv p (snd cc).
Proof.
  intros Hpos I. rewrite gen_correlated_host_eq.
  destruct (Nat.eqb hn 0); intros H; [eapply fresh_host_Ok; eauto|].
  bind_ok H k r1 Hk. destruct (k <? nth hn (g_thrH p) 0)%Z; [eapply fresh_host_Ok; eauto|].
  bind_ok H j r2 Hj. cbv zeta in H. ret_ok H. apply drawn_Ok in Hj. destruct Hj as [Hj _].
  destruct I as [I1 I2].
  assert (Hc : os_lt p (nth j (cs_cfgs cs) (mkH 0 [] []))).
  { rewrite Forall_forall in I1. apply I1. apply nth_In. assumption. }
  cbn [fst snd]. split; [assumption|]. unfold cs_inv. cbn [cs_cfgs cs_os]. split; [|assumption].
  apply Forall_app. split; [assumption|]. constructor; auto.
Qed.

Lemma gen_uniform_host_Ok p o c r : gen_uniform_host p o = Ok c r -> os_lt p c.
Proof.
  unfold gen_uniform_host. intros H. bind_ok H si r1 Hsi. bind_ok H pi r2 Hpi. bind_ok H os r3 Hos.
  ret_ok H. apply drawn_Ok in Hos. unfold os_lt. cbn [hc_os]. apply Hos.
Qed.

Definition hosts_os (p : gparams) (hosts : list (addr * hcfg)) : Prop :=
  Forall (fun q => os_lt p (snd q)) hosts.

Lemma gen_hosts_loop_os p : 0 < g_nos p -> forall addrs hn cs o hosts r, cs_inv p cs ->
  gen_hosts_loop p addrs hn cs o = Ok hosts r -> hosts_os p hosts.
Proof.
  intros Hpos. induction addrs as [|a addrs IH]; intros hn cs o hosts r I H; cbn [gen_hosts_loop] in H.
  - ret_ok H. constructor.
  - destruct (g_uniform p).
    + bind_ok H c r1 Hc. bind_ok H rest r2 Hrest. ret_ok H. constructor.
      * cbn [snd]. eapply gen_uniform_host_Ok; eauto.
      * eapply IH; eauto.
    + bind_ok H cc r1 Hc. bind_ok H rest r2 Hrest. ret_ok H.
      eapply gen_correlated_host_Ok in Hc; eauto. destruct Hc as [Hc1 Hc2]. constructor.
      * cbn [snd]. assumption.
      * eapply IH; eauto.
Qed.

(* ---------- _update_host_to_vulnerable never gives up ---------- *)
Definition ex_os_ok (p : gparams) (ex : list edef) : Prop :=
  Forall (fun e => opt_lt (e_os e) (g_nos p) = true) ex.

Lemma nth_ex_os p ex ei : ex_os_ok p ex -> opt_lt (e_os (nth ei ex (mkE 0 None 0%Z 0%Z 0))) (g_nos p) = true.
Proof.
  intros HF. destruct (Nat.lt_ge_cases ei (length ex)) as [L|L].
  - unfold ex_os_ok in HF. rewrite Forall_forall in HF. apply HF. apply nth_In. assumption.
  - rewrite nth_overflow by assumption. reflexivity.
Qed.

Lemma c1_os p ex ei c : ex_os_ok p ex -> os_lt p c ->
  match e_os (nth ei ex (mkE 0 None 0%Z 0%Z 0)) with Some o => o | None => hc_os c end < g_nos p.
Proof.
  intros HF Hc. pose proof (nth_ex_os p ex ei HF) as Hn.
  destruct (e_os (nth ei ex (mkE 0 None 0%Z 0%Z 0))) as [o|]; [|exact Hc].
  cbn [opt_lt] in Hn. apply Nat.ltb_lt in Hn. assumption.
Qed.

Lemma valid_nonempty nos pe os : pe_cover nos pe -> os < nos ->
  filter (fun q => match p_os q with None => true | Some o => Nat.eqb os o end) pe <> [].
Proof.
  unfold pe_cover. intros HC Hos HE. apply orb_true_iff in HC.
  assert (HX : exists q, In q pe /\ match p_os q with None => true | Some o => Nat.eqb os o end = true).
  { destruct HC as [HC|HC].
    - apply existsb_exists in HC. destruct HC as [q [Hq Hn]]. exists q. split; [assumption|].
      destruct (p_os q); [discriminate|reflexivity].
    - rewrite forallb_forall in HC. specialize (HC os). 
      assert (Hin : In os (seq 0 nos)) by (apply in_seq; lia).
      apply HC in Hin. apply existsb_exists in Hin. destruct Hin as [q [Hq Hn]]. exists q.
      split; [assumption|]. destruct (p_os q) as [o'|]; [|reflexivity].
      cbn [opt_nat_eqb] in Hn. apply Nat.eqb_eq in Hn. subst o'. apply Nat.eqb_refl. }
  destruct HX as [q [Hq Hv]].
  assert (Hf : In q (filter (fun q => match p_os q with None => true | Some o => Nat.eqb os o end) pe))
    by (apply filter_In; split; assumption).
  rewrite HE in Hf. destruct Hf.
Qed.

Lemma make_vulnerable_Crash p ex pe lvl c t o w :
  ex_os_ok p ex -> pe_cover (g_nos p) pe -> os_lt p c ->
  make_vulnerable ex pe lvl c (S t) o = Crash w -> w = 9.
Proof.
  intros HE HC Hc H. cbn [make_vulnerable] in H.
  bind_crash H ei r Hei; [eapply drawn_Crash; eauto|].
  destruct (Nat.leb lvl (e_acc (nth ei ex (mkE 0 None 0%Z 0%Z 0)))); [ret_crash H|].
  cbn [hc_os] in H.
  pose proof (valid_nonempty (g_nos p) pe _ HC (c1_os p ex ei c HE Hc)) as HV.
  destruct (filter (fun q : pdef => match p_os q with
              | Some o => Nat.eqb (match e_os (nth ei ex (mkE 0 None 0%Z 0%Z 0)) with
                                    | Some o0 => o0 | None => hc_os c end) o
              | None => true end) pe) as [|q0 valid] eqn:V; [congruence|].
  bind_crash H pi r1 Hpi; [eapply drawn_Crash; eauto|]. ret_crash H.
Qed.

Lemma make_vulnerable_Ok_os p ex pe lvl : ex_os_ok p ex -> forall t c o c' r, os_lt p c ->
  make_vulnerable ex pe lvl c t o = Ok c' r -> os_lt p c'.
Proof.
  intros HE. induction t as [|t IH]; intros c o c' r Hc H; cbn [make_vulnerable] in H; [discriminate|].
  bind_ok H ei r1 Hei.
  pose proof (c1_os p ex ei c HE Hc) as H1.
  destruct (Nat.leb lvl (e_acc (nth ei ex (mkE 0 None 0%Z 0%Z 0)))).
  - ret_ok H. exact H1.
  - cbn [hc_os hc_srv hc_proc] in H.
    destruct (filter (fun q : pdef => match p_os q with
              | Some o => Nat.eqb (match e_os (nth ei ex (mkE 0 None 0%Z 0%Z 0)) with
                                    | Some o0 => o0 | None => hc_os c end) o
              | None => true end) pe) as [|q0 valid] eqn:V.
    + eapply IH; [|exact H]. exact H1.
    + bind_ok H pi r2 Hpi. ret_ok H. exact H1.
Qed.

  Lemma ensure_pass1_os p exl pel (HE : ex_os_ok p exl) sens : forall hosts vs o res r, hosts_os p hosts ->
    ensure_pass1 exl pel sens hosts vs o = Ok res r -> hosts_os p (fst res).
  Proof.
    induction hosts as [|[a c] hosts IH]; intros vs o res r HH H; cbn [ensure_pass1] in H.
    - ret_ok H. constructor.
    - inversion HH as [|q l Hc HH']; subst. cbn [snd] in Hc.
      destruct (negb (mem_addr a sens) && mem_nat (fst a) vs).
      + bind_ok H rest r1 Hrest. ret_ok H. cbn [fst]. constructor; [assumption|]. eapply IH; eauto.
      + destruct (mem_addr a sens).
        * bind_ok H c' r1 Hc'. bind_ok H rest r2 Hrest. ret_ok H. cbn [fst]. constructor; [|eapply IH; eauto].
          cbn [snd]. destruct (host_vulnerable exl pel c 2).
          -- ret_ok Hc'. assumption.
          -- eapply make_vulnerable_Ok_os; eauto.
        * bind_ok H rest r1 Hrest. ret_ok H. cbn [fst]. constructor; [assumption|]. eapply IH; eauto.
  Qed.

  Lemma ensure_pass1_Crash p exl pel (HE : ex_os_ok p exl) (HC : pe_cover (g_nos p) pel) sens : forall hosts vs o w, hosts_os p hosts ->
    ensure_pass1 exl pel sens hosts vs o = Crash w -> w = 9.
  Proof.
    induction hosts as [|[a c] hosts IH]; intros vs o w HH H; cbn [ensure_pass1] in H; [ret_crash H|].
    inversion HH as [|q l Hc HH']; subst. cbn [snd] in Hc.
    destruct (negb (mem_addr a sens) && mem_nat (fst a) vs).
    - bind_crash H rest r1 Hrest; [eapply IH; eauto|]. ret_crash H.
    - destruct (mem_addr a sens).
      + bind_crash H c' r1 Hc'.
        * destruct (host_vulnerable exl pel c 2); [ret_crash H|]. eapply make_vulnerable_Crash; eauto.
        * bind_crash H rest r2 Hrest; [eapply IH; eauto|]. ret_crash H.
      + bind_crash H rest r1 Hrest; [eapply IH; eauto|]. ret_crash H.
  Qed.

  Lemma assoc_In {B} k : forall (l : list (addr * B)) v, assoc k l = Some v -> exists k', In (k', v) l.
  Proof.
    induction l as [|[k' v'] l IH]; intros v H; cbn [assoc] in H; [discriminate|].
    destruct (addr_eqb k' k).
    - inversion H; subst. exists k'. left. reflexivity.
    - apply IH in H. destruct H as [k'' H]. exists k''. right. assumption.
  Qed.

  Lemma update_host_os p hosts a c : hosts_os p hosts -> os_lt p c -> hosts_os p (update_host hosts a c).
  Proof.
    intros HH Hc. unfold hosts_os, update_host. apply Forall_forall. intros q Hq.
    apply in_map_iff in Hq. destruct Hq as [q0 [<- Hq0]].
    destruct (addr_eqb (fst q0) a); [exact Hc|].
    unfold hosts_os in HH. rewrite Forall_forall in HH. apply HH. assumption.
  Qed.

  Lemma ensure_pass2_Crash p exl pel (HE : ex_os_ok p exl) (HC : pe_cover (g_nos p) pel) subnets : 0 < g_nos p -> forall ss hosts vs o w, hosts_os p hosts ->
    ensure_pass2 exl pel subnets ss hosts vs o = Crash w -> w = 9.
  Proof.
    intros Hpos. induction ss as [|s ss IH]; intros hosts vs o w HH H; cbn [ensure_pass2] in H; [ret_crash H|].
    destruct (mem_nat s vs || Nat.eqb s 0); [eapply IH; eauto|].
    bind_crash H h r1 Hh; [eapply drawn_Crash; eauto|].
    assert (Hc : os_lt p (match assoc (s, h) hosts with Some c => c | None => mkH 0 [] [] end)).
    { destruct (assoc (s, h) hosts) as [c|] eqn:A; [|exact Hpos].
      apply assoc_In in A. destruct A as [k' A]. unfold hosts_os in HH. rewrite Forall_forall in HH.
      apply (HH _ A). }
    bind_crash H c' r2 Hc'; [eapply make_vulnerable_Crash; eauto|].
    eapply IH; [|exact H]. apply update_host_os; [assumption|].
    eapply make_vulnerable_Ok_os; eauto.
  Qed.

Lemma generate_Crash p o w : params_ok p = true -> generate p o = Crash w ->
  w = 2 \/ code97 p w.
Proof.
  intros PO H. pose proof (params_ok_facts p PO) as (P1 & P2 & P3 & P4 & P5 & P6 & P7 & P8 & P9).
  unfold generate in H. rewrite PO in H. cbn [negb] in H. cbv zeta in H.
  set (subnets := gen_subnets (g_hosts p)) in *.
  destruct (negb (Nat.leb (length subnets)
                   (fst match g_bounds p with Some b => b | None => (length subnets, maxl subnets) end)
                  && Nat.leb (maxl subnets)
                   (snd match g_bounds p with Some b => b | None => (length subnets, maxl subnets) end)));
    [left; eapply crash_Crash; eauto|].
  right.
  bind_crash H exl o1 Hex; [left; eapply gen_exploits_Crash; eauto|].
  bind_crash H pel o2 Hpe; [left; eapply gen_privescs_Crash; eauto|].
  bind_crash H sens o3 Hsens; [left; eapply gen_sensitive_Crash; eauto|].
  bind_crash H hosts0 o4 Hh0; [eapply gen_hosts_loop_Crash; eauto|].
  left.
  apply gen_exploits_facts in Hex. destruct Hex as [_ Hex].
  assert (HE : ex_os_ok p exl).
  { unfold ex_os_ok. eapply Forall_impl; [|exact Hex]. intros e He. apply He. }
  apply gen_privescs_facts in Hpe; [|assumption]. destruct Hpe as [_ [_ HC]].
  apply gen_hosts_loop_os in Hh0; [|assumption|split; constructor].
  bind_crash H pass1 o5 Hp1; [eapply ensure_pass1_Crash; eauto|].
  apply (ensure_pass1_os p exl pel HE) in Hp1; [|assumption].
  bind_crash H hosts o6 Hp2; [eapply (ensure_pass2_Crash p exl pel HE HC); eauto|].
  bind_crash H fw o7 Hfw; [eapply gen_fw_pairs_Crash; eauto|]. ret_crash H.
Qed.

Lemma C15_no_crash_proof : C15_no_crash_stmt.
Proof.
  intros p o PO. split; [|split].
  - intros H. apply generate_Crash in H; [|assumption]. unfold code97 in H.
    destruct H as [H|[H|[H _]]]; discriminate.
  - intros H. apply generate_Crash in H; [|assumption]. unfold code97 in H.
    destruct H as [H|[H|[H _]]]; discriminate.
  - intros HS H. apply generate_Crash in H; [|assumption]. unfold code97 in H.
    destruct H as [H|[H|[H HN]]]; try discriminate. contradiction.
Qed.

Print Assumptions C15_shape_proof.
Print Assumptions C15_topology_proof.
Print Assumptions C15_sensitive_proof.
Print Assumptions C15_no_crash_proof.
Print Assumptions C15_dead_end_refuted_proof.
Print Assumptions C15_alphaV_one_refuted_proof.
