(* PC16b.v -- completeness of the closure used to decide solvability (StmtSolve.v).

   FINDING.  The two statements of StmtSolve.v are FALSE as written: the draws of the history
   are arbitrary integers, and a well-formed scenario may contain an exploit (or escalation)
   of probability 0 (a_pz = 0).  Such an action fails under the draw 0 used by the closure
   (chance_fails a 0 = (0 <=? 0) = true) but succeeds under the draw -1
   (chance_fails a (-1) = (0 <=? -1) = false).  Part A refutes both statements with a concrete
   scenario.  Part B proves both statements under the additional hypothesis that every draw
   of the history is non-negative (the model's rand() = k * 2^-53 has 0 <= k < 2^53). *)
From NasimV Require Import StmtSolve.
From NasimV.proofs Require Import RowLemmas PC04 PC16 PC01C02 PC03 PC05.

(* ====================================================================== *)
(* Part A: the statements as written are refuted                           *)
(* ====================================================================== *)
Definition cex_exploit : edef := mkE 0 None 0 64 2.

Definition cex : scenario :=
  mkSc [1%nat; 1%nat] [[true; true]; [true; true]] 1 1 1
       [cex_exploit] [] 64 64 64 64
       [((0%nat, 1%nat), [0%nat]); ((1%nat, 0%nat), [0%nat])]
       [((1%nat, 0%nat), mkCfg [true] [true] [true] 6400 0 [])]
       [((1%nat, 0%nat), 6400)] None (2%nat, 1%nat).

Definition cex_history : list (action * Z) := [(mk_exploit (1%nat, 0%nat) cex_exploit, -1)].

Lemma cex_facts :
  wf_scenario cex = true /\ closed cex (fst (solve cex)) = true /\ solvable cex = false
  /\ Forall (fun p => In (fst p) (flat cex)) cex_history
  /\ goal cex (fst (run_steps cex (initial_state cex) cex_history)) = true
  /\ h_acc (row cex (fst (run_steps cex (initial_state cex) cex_history)) (1%nat, 0%nat)) = 2%nat
  /\ h_acc (row cex (fst (solve cex)) (1%nat, 0%nat)) = 0%nat
  /\ In (1%nat, 0%nat) (addresses cex).
Proof.
  split; [vm_compute; reflexivity|].
  split; [vm_compute; reflexivity|].
  split; [vm_compute; reflexivity|].
  split.
  { constructor; [|constructor]. vm_compute. auto 10. }
  split; [vm_compute; reflexivity|].
  split; [vm_compute; reflexivity|].
  split; [vm_compute; reflexivity|].
  vm_compute. auto.
Qed.

Lemma C16_closure_complete_stmt_refuted : ~ C16_closure_complete_stmt.
Proof.
  intros H.
  destruct cex_facts as (WF & CL & _ & HL & _ & A1 & A2 & IN).
  specialize (H cex cex_history WF CL HL (1%nat, 0%nat) IN).
  destruct H as (_ & _ & _ & H). rewrite A1, A2 in H. lia.
Qed.

Lemma C16_unsolvable_means_unreachable_stmt_refuted : ~ C16_unsolvable_means_unreachable_stmt.
Proof.
  intros H.
  destruct cex_facts as (WF & CL & NS & HL & G & _).
  specialize (H cex cex_history WF CL NS HL). congruence.
Qed.

(* ====================================================================== *)
(* Part B: the statements hold when every draw is non-negative             *)
(* ====================================================================== *)
Definition C16_closure_complete_nonneg_stmt : Prop :=
  forall sc l,
    wf_scenario sc = true -> closed sc (fst (solve sc)) = true ->
    Forall (fun p => In (fst p) (flat sc) /\ 0 <= snd p) l ->
    state_le sc (fst (run_steps sc (initial_state sc) l)) (fst (solve sc)).

Definition C16_unsolvable_means_unreachable_nonneg_stmt : Prop :=
  forall sc l,
    wf_scenario sc = true -> closed sc (fst (solve sc)) = true -> solvable sc = false ->
    Forall (fun p => In (fst p) (flat sc) /\ 0 <= snd p) l ->
    goal sc (fst (run_steps sc (initial_state sc) l)) = false.

(* ---------- two well-formed states carry the same configuration ---------- *)
Lemma cfg_eq sc st S x :
  wf_scenario sc = true -> wf_state sc st = true -> wf_state sc S = true -> In x (addresses sc) ->
  h_os (get_row sc st x) = h_os (get_row sc S x)
  /\ h_srv (get_row sc st x) = h_srv (get_row sc S x)
  /\ h_proc (get_row sc st x) = h_proc (get_row sc S x).
Proof.
  intros WS W1 W2 Hx. pose proof (wf_nodup sc WS) as ND.
  destruct (in_addresses_cfg sc x Hx) as [c Hc].
  destruct (proj1 (wf_state_iff sc st ND) W1) as [_ P1].
  destruct (proj1 (wf_state_iff sc S ND) W2) as [_ P2].
  destruct (P1 x c Hc) as [C1 _]. destruct (P2 x c Hc) as [C2 _].
  apply cfg_matches_spec in C1. apply cfg_matches_spec in C2.
  destruct C1 as (_ & _ & _ & A1 & A2 & A3). destruct C2 as (_ & _ & _ & B1 & B2 & B3).
  repeat split; congruence.
Qed.

(* ---------- the network gates are monotone in the state order ---------- *)
Lemma existsb_rows_mono sc st S (P : addr * hrow -> bool) :
  wf_scenario sc = true -> wf_state sc st = true -> wf_state sc S = true -> state_le sc st S ->
  (forall x h h', row_le h h' -> P (x, h) = true -> P (x, h') = true) ->
  existsb P (rows sc st) = true -> existsb P (rows sc S) = true.
Proof.
  intros WS W1 W2 LE HP H. apply existsb_exists in H. destruct H as [[x h] [Hin Hp]].
  destruct (member_row sc st (x, h) WS W1 Hin) as [Hx Hr]. cbn [fst snd] in Hx, Hr.
  apply existsb_exists. exists (x, get_row sc S x). split.
  - apply in_rows_of_addr; auto. apply wf_state_length; auto.
  - apply (HP x h); auto. rewrite <- Hr. apply LE. exact Hx.
Qed.

Lemma hrp_mono sc st S a :
  wf_scenario sc = true -> wf_state sc st = true -> wf_state sc S = true -> state_le sc st S ->
  has_remote_perm sc st a = true -> has_remote_perm sc S a = true.
Proof.
  intros WS W1 W2 LE. unfold has_remote_perm.
  destruct (subnet_public sc (fst (a_tgt a))); auto.
  apply existsb_rows_mono; auto.
  intros x h h' (L1 & _ & _ & L4). cbn beta. cbn [fst snd]. unfold has_access.
  rewrite !andb_true_iff, !Nat.leb_le. intros [[[A B] C] D]. repeat split; auto. lia.
Qed.

Lemma tp_mono sc st S t srv :
  wf_scenario sc = true -> wf_state sc st = true -> wf_state sc S = true -> state_le sc st S ->
  traffic_permitted sc st t srv = true -> traffic_permitted sc S t srv = true.
Proof.
  intros WS W1 W2 LE. unfold traffic_permitted. intros H.
  apply orb_true_iff in H. apply orb_true_iff. destruct H as [H|H]; [left; exact H|right].
  revert H. apply existsb_rows_mono; auto.
  intros x h h' (L1 & _). cbn beta. cbn [fst snd].
  rewrite !andb_true_iff. intros [[A B] C]. repeat split; auto.
Qed.

Lemma gates_mono sc st S a :
  wf_scenario sc = true -> wf_state sc st = true -> wf_state sc S = true -> state_le sc st S ->
  In (a_tgt a) (addresses sc) ->
  gates_ok sc st a = true -> gates_ok sc S a = true.
Proof.
  intros WS W1 W2 LE Ht H. unfold gates_ok, trow in *. cbv zeta in *.
  destruct (LE (a_tgt a) Ht) as (L1 & L2 & L3 & L4). unfold row in *.
  repeat rewrite andb_true_iff in H. destruct H as [[[[G1 G2] G3] G4] G5].
  rewrite (L2 G1), (L3 G2). cbn [andb].
  assert (negb (is_remote a) || has_remote_perm sc S a = true) as ->.
  { destruct (is_remote a); cbn [negb orb] in *; auto. apply (hrp_mono sc st S a); auto. }
  assert (negb (is_exploit a) || traffic_permitted sc S (a_tgt a) (a_srv a) = true) as ->.
  { destruct (is_exploit a); cbn [negb orb] in *; auto. apply (tp_mono sc st S); auto. }
  cbn [andb]. destruct (is_privesc a); cbn [negb orb] in *; auto.
Qed.

(* ---------- host level ---------- *)
Lemma host_perform_success_mono h H a :
  row_le h H -> h_os h = h_os H -> h_srv h = h_srv H -> h_proc h = h_proc H ->
  r_success (snd (host_perform h a)) = true -> r_success (snd (host_perform H a)) = true.
Proof.
  intros (L1 & _ & _ & L4) E1 E2 E3. unfold host_perform, os_match. rewrite <- E1, <- E2, <- E3.
  destruct (a_kind a) eqn:K; cbn [snd r_success]; auto;
    (destruct (is_exploit a && nthb (h_srv h) (a_srv a)
               && match a_os a with Some i => nthb (h_os h) i | None => true end) eqn:C1;
     cbn [snd r_success]; auto);
    (destruct (h_comp h) eqn:C2;
     [rewrite (L1 eq_refl) | cbn [andb negb snd r_success res_perm]; discriminate]);
    (destruct (Nat.leb (a_req a) (h_acc h)) eqn:C3;
     [ assert (Nat.leb (a_req a) (h_acc H) = true) as ->
         by (apply Nat.leb_le; apply Nat.leb_le in C3; lia)
     | cbn [andb negb snd r_success res_perm]; discriminate]);
    cbn [andb negb]; auto.
  destruct (nthb (h_proc h) (a_proc a)
            && match a_os a with Some i => nthb (h_os h) i | None => true end);
    cbn [snd r_success]; auto.
Qed.

Lemma host_perform_acc h a :
  (h_acc h <= 2)%nat ->
  (is_exploit a = true \/ is_privesc a = true -> (a_acc a = 1 \/ a_acc a = 2)%nat) ->
  h_acc (fst (host_perform h a))
  = if r_success (snd (host_perform h a)) && (is_exploit a || is_privesc a)
    then Nat.max (h_acc h) (a_acc a) else h_acc h.
Proof.
  intros Hh Ha. unfold host_perform, is_exploit, is_privesc in *.
  destruct (a_kind a) eqn:K; cbn [akind_eqb andb orb fst snd r_success] in *;
    rewrite ?andb_false_r; auto;
    repeat (match goal with |- context [if ?c then _ else _] => destruct c eqn:? end;
            cbn [fst snd r_success res_perm res_plain set_acc set_comp h_acc andb]);
    auto; apply gain_access_max; auto.
Qed.

(* ---------- success is monotone in the state order (draw 0 in the larger state) ---------- *)
Lemma success_mono sc st S a k :
  wf_scenario sc = true -> wf_state sc st = true -> wf_state sc S = true -> state_le sc st S ->
  In (a_tgt a) (addresses sc) -> is_noop a = false -> 0 <= k ->
  r_success (res sc st a k) = true -> r_success (res sc S a 0) = true.
Proof.
  intros WS W1 W2 LE Ht Hn Hk Hs.
  pose proof (success_gates sc st a k Hn Hs) as G.
  pose proof (gates_mono sc st S a WS W1 W2 LE Ht G) as G'.
  unfold res in *. rewrite (pa_gates_ok sc st a k Hn G) in Hs. rewrite (pa_gates_ok sc S a 0 Hn G').
  destruct (cfg_eq sc st S (a_tgt a) WS W1 W2 Ht) as (E1 & E2 & E3).
  pose proof (LE _ Ht) as LT. unfold row in LT.
  unfold pa_body, subnet_scan in *. cbv zeta in *.
  set (t := get_row sc st (a_tgt a)) in *. set (T := get_row sc S (a_tgt a)) in *.
  destruct LT as (L1 & L2 & L3 & L4).
  destruct (negb (is_exploit a && h_comp t) && chance_fails a k) eqn:C1;
    [cbn [fst snd r_success res_undef] in Hs; discriminate|].
  assert (negb (is_exploit a && h_comp T) && chance_fails a 0 = false) as ->.
  { unfold chance_fails in *. destruct (is_exploit a); cbn [andb negb] in *.
    - destruct (h_comp t) eqn:Ct.
      + rewrite (L1 eq_refl). reflexivity.
      + cbn [negb andb] in C1. apply Z.leb_gt in C1.
        destruct (h_comp T); cbn [negb andb]; auto. apply Z.leb_gt. lia.
    - apply Z.leb_gt in C1. apply Z.leb_gt. lia. }
  destruct (is_subnet_scan a) eqn:SS.
  - destruct (h_comp t) eqn:Ct; [|cbn [negb fst snd r_success res_conn] in Hs; discriminate].
    rewrite (L1 eq_refl). cbn [negb] in *.
    unfold has_access in *.
    destruct (Nat.leb (a_req a) (h_acc t)) eqn:Ca; [|cbn [negb fst snd r_success res_perm] in Hs; discriminate].
    assert (Nat.leb (a_req a) (h_acc T) = true) as ->
      by (apply Nat.leb_le; apply Nat.leb_le in Ca; lia).
    reflexivity.
  - assert (HS : r_success (snd (host_perform T a)) = true).
    { apply (host_perform_success_mono t T a); auto.
      - repeat split; auto.
      - destruct (host_perform t a) as [t' r]. exact Hs. }
    destruct (host_perform T a) as [T' R]. exact HS.
Qed.

(* ---------- the access level of every row after a step ---------- *)
Lemma noop_kinds a : is_noop a = true -> is_exploit a = false /\ is_privesc a = false.
Proof.
  unfold is_noop, is_exploit, is_privesc.
  destruct (a_kind a); cbn [akind_eqb]; intros H; try discriminate; auto.
Qed.

Lemma ss_kinds a : is_subnet_scan a = true -> is_exploit a = false /\ is_privesc a = false.
Proof.
  unfold is_subnet_scan, is_exploit, is_privesc.
  destruct (a_kind a); cbn [akind_eqb]; intros H; try discriminate; auto.
Qed.

Lemma next_acc sc st a k x :
  wf_scenario sc = true -> wf_state sc st = true -> act_ok sc a -> In x (addresses sc) ->
  h_acc (row sc (next sc st a k) x)
  = if addr_eqb x (a_tgt a) && r_success (res sc st a k) && (is_exploit a || is_privesc a)
    then Nat.max (h_acc (row sc st x)) (a_acc a) else h_acc (row sc st x).
Proof.
  intros WS W1 (Ht & Hacc & _) Hx. unfold row.
  destruct (is_noop a) eqn:Hn.
  { destruct (noop_kinds a Hn) as [-> ->]. unfold next. rewrite (pa_noop sc st a k Hn).
    cbn [fst orb]. rewrite andb_false_r. reflexivity. }
  destruct (gates_ok sc st a) eqn:G.
  2:{ destruct (pa_gates_fail_next sc st a k Hn G) as [-> ->].
      rewrite andb_false_r. reflexivity. }
  unfold next, res. rewrite (pa_gates_ok sc st a k Hn G).
  unfold pa_body, subnet_scan. cbv zeta.
  set (t := get_row sc st (a_tgt a)).
  destruct (negb (is_exploit a && h_comp t) && chance_fails a k).
  { cbn [fst snd r_success res_undef]. rewrite andb_false_r. reflexivity. }
  destruct (is_subnet_scan a) eqn:SS.
  - destruct (ss_kinds a SS) as [-> ->]. cbn [orb]. rewrite andb_false_r.
    destruct (negb (h_comp t)); [reflexivity|].
    destruct (negb (has_access t (a_req a))); [reflexivity|].
    cbn [fst]. apply scan_update_comp_acc.
  - pose proof (host_perform_acc t a (wf_state_acc sc st (a_tgt a) W1 Ht) Hacc) as HA.
    destruct (host_perform t a) as [t' r]. cbn [fst snd] in *.
    assert (E : h_acc (get_row sc (set_row sc st (a_tgt a) t') x)
                = if addr_eqb x (a_tgt a) && r_success r && (is_exploit a || is_privesc a)
                  then Nat.max (h_acc (get_row sc st x)) (a_acc a) else h_acc (get_row sc st x)).
    { rewrite get_row_set_row by (apply wf_state_in_rows; auto).
      destruct (addr_eqb x (a_tgt a)) eqn:X.
      - apply addr_eqb_eq in X. subst x. fold t. cbn [andb]. exact HA.
      - reflexivity. }
    destruct (is_exploit a && r_success r).
    + destruct (update_reachable_comp_acc sc (set_row sc st (a_tgt a) t') (fst (a_tgt a)) x) as [_ ->].
      exact E.
    + exact E.
Qed.

(* ---------- KEY LEMMA: one step stays below a state closed under the action ---------- *)
Lemma one_step_below sc st S a k :
  wf_scenario sc = true -> wf_state sc st = true -> wf_state sc S = true -> state_le sc st S ->
  act_ok sc a -> next sc S a 0 = S -> 0 <= k ->
  state_le sc (next sc st a k) S.
Proof.
  intros WS W1 W2 LE Hok E Hk x Hx.
  destruct (r_success (res sc st a k)) eqn:Hs.
  2:{ rewrite (C02_failure_changes_nothing_proof sc st a k WS W1 Hs). apply LE; auto. }
  destruct (is_noop a) eqn:Hn.
  { unfold next. rewrite (pa_noop sc st a k Hn). cbn [fst]. apply LE; auto. }
  pose proof Hok as (Ht & _ & _).
  pose proof (success_mono sc st S a k WS W1 W2 LE Ht Hn Hk Hs) as HS.
  destruct (step_char sc st a k WS W1) as (_ & _ & CH).
  destruct (step_char sc S a 0 WS W2) as (_ & _ & CHS).
  destruct (CH x Hx) as (C1 & C2 & C3). destruct (CHS x Hx) as (D1 & D2 & D3).
  rewrite E in D1, D2, D3.
  pose proof (next_acc sc st a k x WS W1 Hok Hx) as A1.
  pose proof (next_acc sc S a 0 x WS W2 Hok Hx) as A2. rewrite E in A2.
  unfold exs, sss in C1, C2, C3, D1, D2, D3.
  rewrite Hs in C1, C2, C3, A1. rewrite HS in D1, D2, D3, A2.
  rewrite andb_true_r in C1, C2, C3, D1, D2, D3, A1, A2.
  destruct (LE x Hx) as (L1 & L2 & L3 & L4).
  unfold row_le. rewrite C1, C2, C3, A1. split; [|split; [|split]].
  - intros H. apply orb_true_iff in H. destruct H as [H|H]; [auto|].
    rewrite H in D1. rewrite D1. apply orb_true_r.
  - intros H. apply orb_true_iff in H. destruct H as [H|H]; [auto|].
    rewrite H in D3. rewrite D3. apply orb_true_r.
  - intros H. apply orb_true_iff in H. destruct H as [H|H]; [auto|].
    rewrite H in D2. rewrite D2. apply orb_true_r.
  - destruct (addr_eqb x (a_tgt a) && (is_exploit a || is_privesc a)); [|exact L4].
    lia.
Qed.

(* ---------- facts about the closure state ---------- *)
Lemma flat_act_ok sc a : wf_scenario sc = true -> In a (flat sc) -> act_ok sc a.
Proof. intros WS H. apply in_space_act_ok; auto. right. exact H. Qed.

Lemma solve_facts sc :
  wf_scenario sc = true ->
  wf_state sc (fst (solve sc)) = true /\ state_le sc (initial_state sc) (fst (solve sc)).
Proof.
  intros WS. destruct (C16_plan_sound_proof sc) as (R & F & _).
  unfold replay in R.
  assert (Hall : Forall (fun p => act_ok sc (fst p)) (map (fun a => (a, 0)) (plan sc))).
  { apply Forall_forall. intros p Hp. apply in_map_iff in Hp. destruct Hp as [a [<- Ha]].
    cbn [fst]. rewrite Forall_forall in F. apply flat_act_ok; auto. }
  destruct (run_steps_inv sc WS _ (initial_state sc) (wf_initial_state sc) Hall) as [W S].
  rewrite R in W, S. split; [exact W|].
  intros x Hx. destruct (S x Hx) as [_ H]. unfold row. apply H.
  apply wf_state_acc; auto. apply wf_initial_state.
Qed.

Lemma closed_next sc S a : closed sc S = true -> In a (flat sc) -> next sc S a 0 = S.
Proof.
  unfold closed. intros H Ha. rewrite forallb_forall in H. apply state_eqb_sound. apply H. exact Ha.
Qed.

(* ---------- every history with non-negative draws stays below a closed state ---------- *)
Lemma run_below sc S :
  wf_scenario sc = true -> wf_state sc S = true -> closed sc S = true ->
  forall l st,
    wf_state sc st = true -> state_le sc st S ->
    Forall (fun p => In (fst p) (flat sc) /\ 0 <= snd p) l ->
    state_le sc (fst (run_steps sc st l)) S.
Proof.
  intros WS W2 CL. induction l as [|[a k] r IH]; intros st W1 LE HF.
  - exact LE.
  - inversion HF as [|? ? [Ha Hk] HF']; subst. cbn [fst snd] in Ha, Hk. cbn [run_steps].
    specialize (IH (next sc st a k)).
    destruct (run_steps sc (next sc st a k) r) as [stf v]. cbn [fst] in *.
    pose proof (flat_act_ok sc a WS Ha) as Hok.
    apply IH; auto.
    + apply next_wf; auto.
    + apply one_step_below; auto. apply closed_next; auto.
Qed.

Lemma C16_closure_complete_nonneg_proof : C16_closure_complete_nonneg_stmt.
Proof.
  intros sc l WS CL HF. destruct (solve_facts sc WS) as [W LE].
  apply run_below; auto. apply wf_initial_state.
Qed.

(* ---------- the goal is monotone in the state order ---------- *)
Lemma wf_sens_in sc e : wf_scenario sc = true -> In e (s_sens sc) -> In (fst e) (addresses sc).
Proof.
  intros WS He.
  assert (F : sens_ok sc = true)
    by (unfold wf_scenario in WS; repeat rewrite andb_true_iff in WS; tauto).
  unfold sens_ok in F. apply andb_true_iff in F. destruct F as [_ F].
  rewrite forallb_forall in F. specialize (F e He). apply andb_true_iff in F. destruct F as [V _].
  apply wf_all_addrs; auto. destruct (fst e) as [s h] eqn:Ee.
  unfold valid_addr in V. cbn [fst snd] in V.
  rewrite !andb_true_iff, !Nat.ltb_lt in V. apply in_all_addrs; lia.
Qed.

Lemma goal_mono sc st S :
  wf_scenario sc = true -> state_le sc st S -> goal sc st = true -> goal sc S = true.
Proof.
  unfold goal. rewrite !forallb_forall. intros WS LE H e He. specialize (H e He).
  unfold has_access in *. apply Nat.leb_le in H. apply Nat.leb_le.
  destruct (LE (fst e) (wf_sens_in sc e WS He)) as (_ & _ & _ & L). unfold row in L. lia.
Qed.

Lemma C16_unsolvable_means_unreachable_nonneg_proof : C16_unsolvable_means_unreachable_nonneg_stmt.
Proof.
  intros sc l WS CL NS HF.
  destruct (goal sc (fst (run_steps sc (initial_state sc) l))) eqn:G; [|reflexivity].
  pose proof (C16_closure_complete_nonneg_proof sc l WS CL HF) as LE.
  pose proof (goal_mono sc _ _ WS LE G) as GS. unfold solvable in NS. congruence.
Qed.

Print Assumptions C16_closure_complete_stmt_refuted.
Print Assumptions C16_unsolvable_means_unreachable_stmt_refuted.
Print Assumptions C16_closure_complete_nonneg_proof.
Print Assumptions C16_unsolvable_means_unreachable_nonneg_proof.
