(* PC03run.v -- C03 lifted to every operation history (resets, steps, generative steps). *)
From NasimV Require Import StmtDyn.
From NasimV.proofs Require Import RowLemmas PC04 PC03.

Lemma C03_run_proof : C03_run_stmt.
Proof.
  unfold C03_run_stmt, final_env, final_pool. intros sc m ops WF Hops.
  destruct (init_env_wf sc m WF) as [W0 E0].
  assert (P0 : Inv3 sc (e_state (env_init sc m))).
  { unfold env_init, env_reset. cbn [e_state].
    apply C03_reset_proof; auto. apply reset_wf; auto. apply wf_initial_state. }
  pose proof (run_ops_invariant (Inv3 sc) sc m WF) as RI.
  assert (R1 : forall st, wf_state sc st = true -> Inv3 sc (net_reset sc st)).
  { intros st W. apply C03_reset_proof; auto. }
  assert (R2 : forall st a k, wf_state sc st = true -> act_ok sc a -> Inv3 sc st -> Inv3 sc (next sc st a k)).
  { intros st a k W A I. apply C03_step_proof; auto. }
  specialize (RI R1 R2 ops (env_init sc m) [e_state (env_init sc m)] Hops W0 P0).
  assert (PL : Forall (fun s => wf_state sc s = true /\ Inv3 sc s) [e_state (env_init sc m)]).
  { constructor; auto. }
  specialize (RI PL). cbv zeta in RI. destruct RI as [_ [I1 I2]]. split; auto.
  eapply Forall_impl; [|exact I2]. intros s [_ H]. exact H.
Qed.
Print Assumptions C03_run_proof.
