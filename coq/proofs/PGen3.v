From NasimV Require Import StmtGen.
From NasimV.proofs Require Import GenLemmas PGen1 PGen2.
(* PGen3.v -- C15: action definitions, firewall, well-formedness of generated scenarios.
   C15_wf_stmt is FALSE of the model as stated (see C15_wf_refuted at the end: a fixed
   probability list [-1], or a step limit of 0, gives a generated scenario that is not
   well-formed); the sanctioned partial lemma C15_wf_partial_proof is proved instead. *)
Require Import ZifyNat.
Local Open Scope nat_scope.

(* ====================================================================== *)
(* Part A: C15_actions                                                     *)
(* ====================================================================== *)
Definition pz_seq (probs : list Z) (k : nat) : list Z :=
  map (fun i => nth i probs 0%Z) (seq 0 k).

Lemma pz_seq_snoc probs k : pz_seq probs (k + 1) = pz_seq probs k ++ [nth k probs 0%Z].
Proof. unfold pz_seq. rewrite seq_app, map_app. reflexivity. Qed.

Lemma pz_seq_fixed l : pz_seq l (length l) = l.
Proof.
  apply nth_ext with (d := 0%Z) (d' := 0%Z).
  - unfold pz_seq. rewrite map_length, seq_length. reflexivity.
  - intros i Hi. unfold pz_seq in *. rewrite map_length, seq_length in Hi.
    apply (nth_map_seq (fun j => nth j l 0%Z)). exact Hi.
Qed.

Lemma gen_exploits_loop_pz p probs : forall o acc l r,
  gen_exploits_loop p probs acc o = Ok l r ->
  map e_pz acc = pz_seq probs (length acc) ->
  map e_pz l = pz_seq probs (length l).
Proof.
  induction o as [|a|a b|s os al r IH] using list_ind3; intros acc l r0 H Hacc;
    rewrite PGen1.gen_exploits_loop_eq in H;
    destruct (Nat.leb (g_nexp p) (length acc)) eqn:E;
    try (inversion H; subst; assumption); try discriminate.
  match type of H with context [if negb ?c then _ else _] => destruct (negb c) eqn:B end; [discriminate|].
  cbv zeta in H.
  destruct (existsb (same_exploit_key (Z.to_nat s) (os_of_idx (g_nos p) (Z.to_nat os))) acc) eqn:X.
  - eapply IH; eauto.
  - eapply IH in H; [exact H|].
    rewrite map_app, app_length. cbn [map length e_pz]. rewrite pz_seq_snoc, Hacc. reflexivity.
Qed.

Lemma gen_privescs_loop_pz p probs choices : forall o acc l r,
  gen_privescs_loop p probs choices acc o = Ok l r ->
  map p_pz acc = pz_seq probs (length acc) ->
  map p_pz l = pz_seq probs (length l).
Proof.
  induction o as [|pr r IH]; intros acc l r0 H Hacc;
    rewrite gen_privescs_loop_eq in H;
    destruct (Nat.leb (g_npe p) (length acc)) eqn:E;
    try (inversion H; subst; assumption); try discriminate.
  match type of H with context [if negb ?c then _ else _] => destruct (negb c) eqn:B end; [discriminate|].
  cbv zeta in H.
  destruct (existsb (same_privesc_key (Z.to_nat pr) (os_of_idx (g_nos p) (nth (length acc) choices 0))) acc) eqn:X.
  - eapply IH; eauto.
  - eapply IH in H; [exact H|].
    rewrite map_app, app_length. cbn [map length p_pz]. rewrite pz_seq_snoc, Hacc. reflexivity.
Qed.

Lemma C15_actions_proof : C15_actions_stmt.
Proof.
  intros p o sc [rest H]. gen_unpack H PO St.
  destruct H as [H1 [H2 [H3 [H4 [H5 [H6 [H7 Hsc]]]]]]]. subst sc. sc_proj.
  pose proof (params_ok_facts p PO) as (P1 & P2 & P3 & P4 & P5 & P6 & P7 & P8 & P9).
  pose proof (gen_exploits_facts _ _ _ _ H1) as [E1 E2].
  pose proof (gen_privescs_facts _ _ _ _ P5 H2) as [Q1 [Q2 Q3]].
  split; [exact E2|]. split; [exact Q2|]. split; [exact Q3|].
  split; [|split].
  - intros l Hl Hlen. apply gen_exploits_inv in H1. destruct H1 as [probs [o' [Hp HL]]].
    rewrite Hl in Hp. cbn [gen_probs] in Hp. ret_ok Hp.
    apply gen_exploits_loop_pz in HL; [|reflexivity].
    rewrite HL, E1, <- Hlen. apply pz_seq_fixed.
  - intros l Hl Hlen. unfold gen_privescs in H2.
    bind_ok H2 probs r1 Hp. bind_ok H2 ch r2 Hch.
    rewrite Hl in Hp. cbn [gen_probs] in Hp. ret_ok Hp.
    apply gen_privescs_loop_pz in H2; [|reflexivity].
    rewrite H2, Q1, <- Hlen. apply pz_seq_fixed.
  - intros levels Hl. apply gen_exploits_inv in H1. destruct H1 as [probs [o' [Hp HL]]].
    rewrite Hl in Hp. cbn [gen_probs] in Hp.
    bind_ok Hp idx r1 Hidx. ret_ok Hp.
    apply drawns_Ok in Hidx. destruct Hidx as [_ HF].
    apply gen_exploits_loop_pz in HL; [|reflexivity].
    apply Forall_forall. intros e He. apply (in_map e_pz) in He. rewrite HL in He.
    unfold pz_seq in He. apply in_map_iff in He. destruct He as [i [Hi _]]. rewrite <- Hi.
    destruct (nth_in_or_default i (map (fun i0 => nth i0 levels 0%Z) idx) 0%Z) as [Hin|Hd].
    + right. apply in_map_iff in Hin. destruct Hin as [j [Hj Hjin]]. rewrite <- Hj.
      apply nth_In. rewrite Forall_forall in HF. apply HF. exact Hjin.
    + left. symmetry. exact Hd.
Qed.

(* ====================================================================== *)
(* Part B: C15_firewall                                                    *)
(* ====================================================================== *)

(* ---------- small facts ---------- *)
Lemma addr_eqb_refl a : addr_eqb a a = true.
Proof. unfold addr_eqb. rewrite !Nat.eqb_refl. reflexivity. Qed.

Lemma mem_nat_In x l : mem_nat x l = true <-> In x l.
Proof.
  unfold mem_nat. rewrite existsb_exists. split.
  - intros [y [Hy E]]. apply Nat.eqb_eq in E. subst. exact Hy.
  - intros H. exists x. split; [exact H|apply Nat.eqb_refl].
Qed.

Lemma mem_addr_In x l : mem_addr x l = true <-> In x l.
Proof.
  unfold mem_addr. rewrite existsb_exists. split.
  - intros [y [Hy E]]. apply addr_eqb_eq in E. subst. exact Hy.
  - intros H. exists x. split; [exact H|apply addr_eqb_refl].
Qed.

Lemma in_fst_assoc {B} a : forall (l : list (addr * B)),
  In a (map fst l) -> exists c, assoc a l = Some c /\ In (a, c) l.
Proof.
  induction l as [|[k v] l IH]; intros H; [destruct H|]. cbn [assoc].
  destruct (addr_eqb k a) eqn:E.
  - apply addr_eqb_eq in E. subst. exists v. split; [reflexivity|left; reflexivity].
  - cbn [map fst In] in H. destruct H as [H|H].
    + subst. rewrite addr_eqb_refl in E. discriminate.
    + destruct (IH H) as [c [Hc Hin]]. exists c. split; [exact Hc|right; exact Hin].
Qed.

Lemma assoc_Some_key {B} a : forall (l : list (addr * B)) c, assoc a l = Some c -> In (a, c) l.
Proof.
  induction l as [|[k v] l IH]; intros c H; [discriminate|]. cbn [assoc] in H.
  destruct (addr_eqb k a) eqn:E.
  - apply addr_eqb_eq in E. inversion H; subst. left. reflexivity.
  - right. apply IH. exact H.
Qed.

Lemma assoc_not_None {B} a (l : list (addr * B)) : assoc a l <> None <-> In a (map fst l).
Proof.
  split.
  - intros H. destruct (assoc a l) as [c|] eqn:E; [|congruence].
    apply assoc_Some_key in E. apply (in_map fst) in E. exact E.
  - intros H. destruct (in_fst_assoc a l H) as [c [Hc _]]. rewrite Hc. discriminate.
Qed.

(* ---------- set_true really sets the bit ---------- *)
Lemma set_true_from_nth l : forall s i, s <= i < s + length l ->
  nth (i - s) (set_true_from s l i) false = true.
Proof.
  induction l as [|b l IH]; intros s i H; cbn [length] in H; [lia|].
  rewrite set_true_from_cons. destruct (Nat.eqb s i) eqn:E.
  - apply Nat.eqb_eq in E. subst. rewrite Nat.sub_diag. reflexivity.
  - apply Nat.eqb_neq in E. replace (i - s) with (S (i - S s)) by lia. cbn [nth]. apply IH. lia.
Qed.

Lemma set_true_nth l i : i < length l -> nthb (set_true l i) i = true.
Proof.
  intros H. pose proof (set_true_from_nth l 0 i ltac:(lia)) as X.
  rewrite Nat.sub_0_r in X. exact X.
Qed.

(* ---------- the vulnerability invariant ---------- *)
Definition subnet_vuln (exl : list edef) (hosts : list (addr * hcfg)) (s : nat) : Prop :=
  exists a c e, In (a, c) hosts /\ fst a = s /\ In e exl /\ vuln_e c e = true.

Definition srv_len (k : nat) (hosts : list (addr * hcfg)) : Prop :=
  Forall (fun q => length (hc_srv (snd q)) = k) hosts.

Lemma subnet_vuln_cons exl q hosts s : subnet_vuln exl hosts s -> subnet_vuln exl (q :: hosts) s.
Proof.
  intros (a & c & e & Hin & Ha & He & Hv). exists a, c, e.
  split; [right; exact Hin|]. auto.
Qed.

Lemma subnet_vuln_head exl a c hosts e : In e exl -> vuln_e c e = true ->
  subnet_vuln exl ((a, c) :: hosts) (fst a).
Proof. intros He Hv. exists a, c, e. split; [left; reflexivity|]. auto. Qed.

Lemma host_vulnerable_vuln exl pel c lvl : host_vulnerable exl pel c lvl = true ->
  exists e, In e exl /\ vuln_e c e = true.
Proof.
  unfold host_vulnerable. intros H. apply existsb_exists in H. destruct H as [e [He Hv]].
  apply andb_true_iff in Hv. exists e. tauto.
Qed.

Lemma make_vulnerable_vuln exl pel lvl k : Forall (fun e => e_srv e < k) exl ->
  forall t c o c' r, make_vulnerable exl pel lvl c t o = Ok c' r -> length (hc_srv c) = k ->
  length (hc_srv c') = k /\ exists e, In e exl /\ vuln_e c' e = true.
Proof.
  intros Hex. induction t as [|t IH]; intros c o c' r H Hc; [discriminate|].
  cbn [make_vulnerable] in H. bind_ok H ei r1 Hei. apply drawn_Ok in Hei. destruct Hei as [Hei _].
  set (e := nth ei exl (mkE 0 None 0%Z 0%Z 0)) in *.
  assert (Hin : In e exl) by (apply nth_In; exact Hei).
  assert (Hsrv : e_srv e < k) by (rewrite Forall_forall in Hex; apply Hex; exact Hin).
  set (c1 := mkH (match e_os e with Some o0 => o0 | None => hc_os c end)
                 (set_true (hc_srv c) (e_srv e)) (hc_proc c)) in *.
  assert (L1 : length (hc_srv c1) = k) by (unfold c1; cbn [hc_srv]; rewrite set_true_length; exact Hc).
  assert (V1 : forall pr, vuln_e (mkH (hc_os c1) (hc_srv c1) pr) e = true).
  { intros pr. unfold vuln_e, c1. cbn [hc_srv hc_os]. rewrite set_true_nth by lia.
    destruct (e_os e); [apply Nat.eqb_refl|reflexivity]. }
  destruct (Nat.leb lvl (e_acc e)).
  - ret_ok H. split; [exact L1|]. exists e. split; [exact Hin|]. exact (V1 (hc_proc c)).
  - destruct (filter (fun q => match p_os q with None => true | Some o0 => Nat.eqb (hc_os c1) o0 end) pel)
      as [|q0 valid0] eqn:Ev.
    + eapply IH; eassumption.
    + bind_ok H pi r2 Hpi. ret_ok H. cbn [hc_srv]. split; [exact L1|].
      exists e. split; [exact Hin|]. apply V1.
Qed.

Lemma ensure_pass1_vuln exl pel sens k : Forall (fun e => e_srv e < k) exl ->
  forall hosts vs o res r, ensure_pass1 exl pel sens hosts vs o = Ok res r -> srv_len k hosts ->
  srv_len k (fst res) /\ forall s, In s (snd res) -> In s vs \/ subnet_vuln exl (fst res) s.
Proof.
  intros Hex. induction hosts as [|[a c] hosts IH]; intros vs o res r H Hh; cbn [ensure_pass1] in H.
  - ret_ok H. cbn [fst snd]. split; [constructor|]. intros s Hs. left. exact Hs.
  - unfold srv_len in Hh. pose proof (Forall_inv Hh) as Hc. pose proof (Forall_inv_tail Hh) as Hh'.
    cbn [snd] in Hc.
    destruct (negb (mem_addr a sens) && mem_nat (fst a) vs).
    + bind_ok H rest r1 Hrest. ret_ok H. cbn [fst snd].
      apply IH in Hrest; [|exact Hh']. destruct Hrest as [L V].
      split; [constructor; [exact Hc|exact L]|].
      intros s Hs. destruct (V s Hs) as [V1|V1]; [left; exact V1|right; apply subnet_vuln_cons; exact V1].
    + destruct (mem_addr a sens).
      * bind_ok H c' r1 Hc'. bind_ok H rest r2 Hrest. ret_ok H. cbn [fst snd].
        apply IH in Hrest; [|exact Hh']. destruct Hrest as [L V].
        assert (Hc'2 : length (hc_srv c') = k /\ exists e, In e exl /\ vuln_e c' e = true).
        { destruct (host_vulnerable exl pel c 2) eqn:HV.
          - ret_ok Hc'. split; [exact Hc|]. eapply host_vulnerable_vuln; exact HV.
          - eapply make_vulnerable_vuln; eassumption. }
        destruct Hc'2 as [Lc' [e [He Hv]]].
        split; [constructor; [exact Lc'|exact L]|].
        intros s Hs. destruct (V s Hs) as [[V1|V1]|V1].
        -- right. subst s. eapply subnet_vuln_head; eassumption.
        -- left. exact V1.
        -- right. apply subnet_vuln_cons. exact V1.
      * bind_ok H rest r1 Hrest. ret_ok H. cbn [fst snd].
        apply IH in Hrest; [|exact Hh']. destruct Hrest as [L V].
        split; [constructor; [exact Hc|exact L]|].
        intros s Hs. destruct (V s Hs) as [V1|V1]; [|right; apply subnet_vuln_cons; exact V1].
        destruct (host_vulnerable exl pel c 1) eqn:HV; [|left; exact V1].
        destruct V1 as [V1|V1]; [|left; exact V1].
        right. subst s. apply host_vulnerable_vuln in HV. destruct HV as [e [He Hv]].
        eapply subnet_vuln_head; eassumption.
Qed.

Lemma in_update_host_same hosts a c : In a (map fst hosts) -> In (a, c) (update_host hosts a c).
Proof.
  intros H. apply in_map_iff in H. destruct H as [q [Hq Hin]]. unfold update_host.
  apply in_map_iff. exists q. split; [|exact Hin]. rewrite Hq, addr_eqb_refl. reflexivity.
Qed.

Lemma in_update_host_other hosts a c q : In q hosts -> addr_eqb (fst q) a = false ->
  In q (update_host hosts a c).
Proof.
  intros H E. unfold update_host. apply in_map_iff. exists q. rewrite E. split; [reflexivity|exact H].
Qed.

Lemma ensure_pass2_vuln exl pel subnets k : Forall (fun e => e_srv e < k) exl ->
  forall ss hosts vs o res r,
  ensure_pass2 exl pel subnets ss hosts vs o = Ok res r ->
  srv_len k hosts -> map fst hosts = gen_addrs subnets ->
  Forall (fun s => s < length subnets) ss ->
  (forall s, In s vs -> subnet_vuln exl hosts s) ->
  forall s, In s vs \/ (In s ss /\ s <> 0) -> subnet_vuln exl res s.
Proof.
  intros Hex. induction ss as [|s ss IH]; intros hosts vs o res r H HL HA HS HV s0 Hs0;
    cbn [ensure_pass2] in H.
  - ret_ok H. destruct Hs0 as [Hs0|[[] _]]. apply HV. exact Hs0.
  - pose proof (Forall_inv HS) as Hs. pose proof (Forall_inv_tail HS) as HS'. cbv beta in Hs.
    destruct (mem_nat s vs || Nat.eqb s 0) eqn:E.
    + eapply IH; [exact H|exact HL|exact HA|exact HS'|exact HV|].
      destruct Hs0 as [Hs0|[[Hs0|Hs0] Hn]]; [left; exact Hs0| |right; split; assumption].
      subst s0. apply orb_true_iff in E. destruct E as [E|E].
      * left. apply mem_nat_In. exact E.
      * apply Nat.eqb_eq in E. contradiction.
    + apply orb_false_iff in E. destruct E as [E1 E2]. apply Nat.eqb_neq in E2.
      bind_ok H h r1 Hh. bind_ok H c' r2 Hmv.
      apply drawn_Ok in Hh. destruct Hh as [Hh _].
      assert (Hin : In (s, h) (map fst hosts)).
      { rewrite HA. apply in_gen_addrs; [lia|exact Hh]. }
      destruct (in_fst_assoc (s, h) hosts Hin) as [c [Hc Hinc]].
      rewrite Hc in Hmv.
      assert (Lc : length (hc_srv c) = k).
      { unfold srv_len in HL. rewrite Forall_forall in HL. apply (HL _ Hinc). }
      destruct (make_vulnerable_vuln exl pel 1 k Hex _ _ _ _ _ Hmv Lc) as [Lc' [e [He Hv]]].
      eapply IH; [exact H| | |exact HS'| |].
      * unfold srv_len. apply Forall_forall. intros q Hq. unfold update_host in Hq.
        apply in_map_iff in Hq. destruct Hq as [q0 [<- Hq0]].
        destruct (addr_eqb (fst q0) (s, h)); [exact Lc'|].
        unfold srv_len in HL. rewrite Forall_forall in HL. apply HL. exact Hq0.
      * rewrite update_host_fst. exact HA.
      * intros s1 [Hs1|Hs1].
        -- subst s1. exists (s, h), c', e. split; [apply in_update_host_same; exact Hin|]. auto.
        -- destruct (HV s1 Hs1) as (a & c0 & e0 & Hi0 & Ha0 & He0 & Hv0).
           exists a, c0, e0. split; [|auto].
           apply in_update_host_other; [exact Hi0|]. cbn [fst].
           unfold addr_eqb. cbn [fst snd]. rewrite Ha0.
           destruct (Nat.eqb s1 s) eqn:E3; [|reflexivity].
           apply Nat.eqb_eq in E3. subst s1. apply mem_nat_In in Hs1. congruence.
      * destruct Hs0 as [Hs0|[[Hs0|Hs0] Hn]].
        -- left. right. exact Hs0.
        -- left. left. exact Hs0.
        -- right. split; assumption.
Qed.

Lemma stages_subnet_vuln p subnets sens exl pel hosts0 pass1 hosts o o1 o3 o4 o5 o6 :
  gen_exploits p o = Ok exl o1 ->
  gen_hosts_loop p (gen_addrs subnets) 0 (mkCS [] [] [] []) o3 = Ok hosts0 o4 ->
  ensure_pass1 exl pel sens hosts0 [] o4 = Ok pass1 o5 ->
  ensure_pass2 exl pel subnets (seq 0 (length subnets)) (fst pass1) (snd pass1) o5 = Ok hosts o6 ->
  forall t, 1 <= t < length subnets -> subnet_vuln exl hosts t.
Proof.
  intros H1 H4 H5 H6 t Ht.
  apply gen_exploits_facts in H1. destruct H1 as [_ H1].
  assert (Hex : Forall (fun e => e_srv e < g_nsrv p) exl).
  { eapply Forall_impl; [|exact H1]. intros e He. apply He. }
  apply gen_hosts_loop_ok in H4; [|apply cs_inv_init]. destruct H4 as [A0 K0].
  assert (L0 : srv_len (g_nsrv p) hosts0).
  { unfold srv_len. eapply Forall_impl; [|exact K0]. intros q Hq. apply Hq. }
  pose proof (ensure_pass1_addrs _ _ _ _ _ _ _ _ H5) as A1.
  destruct (ensure_pass1_vuln _ _ _ _ Hex _ _ _ _ _ H5 L0) as [L1 V1].
  eapply ensure_pass2_vuln; [exact Hex|exact H6|exact L1| | | |].
  - rewrite A1. exact A0.
  - apply Forall_forall. intros s Hs. apply in_seq in Hs. lia.
  - intros s Hs. destruct (V1 s Hs) as [[]|V]. exact V.
  - right. split; [apply in_seq; lia|lia].
Qed.

Lemma subnet_services_lt exl hosts nsrv t x : In x (subnet_services exl hosts nsrv t) -> x < nsrv.
Proof. unfold subnet_services. intros H. apply filter_In in H. destruct H as [H _]. apply in_seq in H. lia. Qed.

Lemma subnet_services_nonempty exl hosts nsrv t : Forall (fun e => e_srv e < nsrv) exl ->
  subnet_vuln exl hosts t -> 1 <= length (subnet_services exl hosts nsrv t).
Proof.
  intros Hex (a & c & e & Hin & Ha & He & Hv).
  assert (X : In (e_srv e) (subnet_services exl hosts nsrv t)).
  { unfold subnet_services. apply filter_In. split.
    - apply in_seq. rewrite Forall_forall in Hex. specialize (Hex e He). lia.
    - apply existsb_exists. exists (a, c). split; [exact Hin|]. cbn [fst snd].
      rewrite Ha, Nat.eqb_refl. cbn [andb]. apply existsb_exists. exists e. split; [exact He|].
      rewrite Hv, Nat.eqb_refl. reflexivity. }
  destruct (subnet_services exl hosts nsrv t); [destruct X|cbn [length]; lia].
Qed.

(* ---------- pick_services and sort_nat ---------- *)
Lemma remove_nth_incl {A} : forall (l : list A) i x, In x (remove_nth l i) -> In x l.
Proof.
  induction l as [|y l IH]; intros i x H; [destruct i; exact H|].
  destruct i as [|j]; cbn [remove_nth] in H.
  - right. exact H.
  - destruct H as [H|H]; [left; exact H|right; eapply IH; exact H].
Qed.

Lemma pick_services_facts : forall k avail o chosen r, pick_services avail k o = Ok chosen r ->
  length chosen = k /\ Forall (fun x => In x avail) chosen.
Proof.
  induction k as [|k IH]; intros avail o chosen r H; cbn [pick_services] in H.
  - ret_ok H. split; [reflexivity|constructor].
  - bind_ok H i r1 Hi. bind_ok H rest r2 Hrest. ret_ok H.
    apply drawn_Ok in Hi. destruct Hi as [Hi _].
    apply IH in Hrest. destruct Hrest as [L F]. split; [cbn [length]; lia|].
    constructor; [apply nth_In; exact Hi|].
    eapply Forall_impl; [|exact F]. intros x Hx. eapply remove_nth_incl. exact Hx.
Qed.

Lemma sort_nat_lt chosen b x : In x (sort_nat chosen b) -> x < b.
Proof. unfold sort_nat. intros H. apply filter_In in H. destruct H as [H _]. apply in_seq in H. lia. Qed.

Lemma sort_nat_length_le chosen b : length (sort_nat chosen b) <= length chosen.
Proof.
  apply NoDup_incl_length.
  - unfold sort_nat. apply NoDup_filter. apply seq_NoDup.
  - intros x Hx. unfold sort_nat in Hx. apply filter_In in Hx. destruct Hx as [_ Hx].
    apply mem_nat_In. exact Hx.
Qed.

Lemma sort_nat_length_ge1 chosen b x : In x chosen -> x < b -> 1 <= length (sort_nat chosen b).
Proof.
  intros Hin Hx.
  assert (X : In x (sort_nat chosen b)).
  { unfold sort_nat. apply filter_In. split; [apply in_seq; lia|]. apply mem_nat_In. exact Hin. }
  destruct (sort_nat chosen b); [destruct X|cbn [length]; lia].
Qed.

(* ---------- characterisation of gen_fw_pairs ---------- *)
Definition fw_entry_ok (p : gparams) (exl : list edef) (hosts : list (addr * hcfg))
           (k : addr) (l : list nat) : Prop :=
  (2 < fst k /\ 2 < snd k /\ l = seq 0 (g_nsrv p))
  \/ (~ (2 < fst k /\ 2 < snd k)
      /\ ((l = subnet_services exl hosts (g_nsrv p) (snd k)
           /\ length (subnet_services exl hosts (g_nsrv p) (snd k)) < g_restrict p)
          \/ exists chosen o r,
               pick_services (subnet_services exl hosts (g_nsrv p) (snd k)) (g_restrict p) o = Ok chosen r
               /\ l = sort_nat chosen (g_nsrv p))).

Definition fw_keep (n : nat) (st : nat * nat) : bool :=
  negb (Nat.eqb (fst st) (snd st)) && gen_connected n (fst st) (snd st).

Lemma gen_fw_pairs_char p exl hosts n : forall pairs o fw r,
  gen_fw_pairs p exl hosts n pairs o = Ok fw r ->
  map fst fw = filter (fw_keep n) pairs
  /\ Forall (fun e => fw_entry_ok p exl hosts (fst e) (snd e)) fw.
Proof.
  induction pairs as [|[s t] pairs IH]; intros o fw r H; cbn [gen_fw_pairs] in H.
  - ret_ok H. split; [reflexivity|constructor].
  - assert (K : fw_keep n (s, t) = negb (Nat.eqb s t || negb (gen_connected n s t))).
    { unfold fw_keep. cbn [fst snd]. destruct (Nat.eqb s t), (gen_connected n s t); reflexivity. }
    cbn [filter]. rewrite K.
    destruct (Nat.eqb s t || negb (gen_connected n s t)) eqn:E; cbn [negb].
    + eapply IH; exact H.
    + destruct (Nat.ltb 2 s && Nat.ltb 2 t) eqn:U.
      * bind_ok H rest r1 Hrest. ret_ok H. apply IH in Hrest. destruct Hrest as [R1 R2].
        split; [cbn [map fst]; rewrite R1; reflexivity|].
        constructor; [|exact R2]. cbn [fst snd]. left.
        apply andb_true_iff in U. destruct U as [U1 U2]. apply Nat.ltb_lt in U1, U2. auto.
      * assert (NU : ~ (2 < s /\ 2 < t)).
        { intros [A B]. apply Nat.ltb_lt in A, B. rewrite A, B in U. discriminate. }
        destruct (Nat.ltb (length (subnet_services exl hosts (g_nsrv p) t)) (g_restrict p)) eqn:L.
        -- bind_ok H rest r1 Hrest. ret_ok H. apply IH in Hrest. destruct Hrest as [R1 R2].
           split; [cbn [map fst]; rewrite R1; reflexivity|].
           constructor; [|exact R2]. cbn [fst snd]. right. split; [exact NU|]. left.
           apply Nat.ltb_lt in L. auto.
        -- bind_ok H chosen r1 Hch. bind_ok H rest r2 Hrest. ret_ok H.
           apply IH in Hrest. destruct Hrest as [R1 R2].
           split; [cbn [map fst]; rewrite R1; reflexivity|].
           constructor; [|exact R2]. cbn [fst snd]. right. split; [exact NU|]. right.
           exists chosen, o, r1. auto.
Qed.

Lemma in_all_pairs n s t :
  In (s, t) (flat_map (fun s0 => map (fun t0 => (s0, t0)) (seq 0 n)) (seq 0 n)) <-> s < n /\ t < n.
Proof.
  rewrite in_flat_map. split.
  - intros [s0 [Hs0 Hin]]. apply in_map_iff in Hin. destruct Hin as [t0 [E Ht0]].
    inversion E; subst. apply in_seq in Hs0, Ht0. lia.
  - intros [Hs Ht]. exists s. split; [apply in_seq; lia|].
    apply (in_map (fun t0 => (s, t0))). apply in_seq. lia.
Qed.

Lemma C15_firewall_proof : C15_firewall_stmt.
Proof.
  intros p o sc [rest H]. gen_unpack H PO St.
  destruct St as [exl pel sens hosts0 pass1 hosts fw]. st_proj.
  destruct H as [H1 [H2 [H3 [H4 [H5 [H6 [H7 Hsc]]]]]]]. subst sc. cbv zeta. unfold connected. sc_proj.
  pose proof (params_ok_facts p PO) as (P1 & P2 & P3 & P4 & P5 & P6 & P7 & P8 & P9).
  set (subnets := gen_subnets (g_hosts p)) in *. set (n := length subnets) in *.
  pose proof (stages_subnet_vuln _ _ _ _ _ _ _ _ _ _ _ _ _ _ H1 H4 H5 H6) as SV. fold n in SV.
  apply gen_exploits_facts in H1. destruct H1 as [_ H1].
  assert (Hex : Forall (fun e => e_srv e < g_nsrv p) exl).
  { eapply Forall_impl; [|exact H1]. intros e He. apply He. }
  apply gen_fw_pairs_char in H7. destruct H7 as [K1 K2].
  assert (KIn : forall s t, In (s, t) (map fst fw) ->
                  s < n /\ t < n /\ s <> t /\ gen_connected n s t = true).
  { intros s t Hin. rewrite K1 in Hin. apply filter_In in Hin. destruct Hin as [Hp Hk].
    apply in_all_pairs in Hp. unfold fw_keep in Hk. cbn [fst snd] in Hk.
    apply andb_true_iff in Hk. destruct Hk as [Hk1 Hk2].
    apply negb_true_iff in Hk1. apply Nat.eqb_neq in Hk1. tauto. }
  assert (KE : forall s t l, assoc (s, t) fw = Some l -> fw_entry_ok p exl hosts (s, t) l).
  { intros s t l Ha. apply assoc_Some_key in Ha. rewrite Forall_forall in K2.
    apply (K2 _ Ha). }
  split; [|split; [|split]].
  - intros s t Hs Ht. rewrite gen_topology_nth by assumption. rewrite assoc_not_None. split.
    + intros Hin. apply KIn in Hin. tauto.
    + intros [Hne Hc]. rewrite K1. apply filter_In. split; [apply in_all_pairs; auto|].
      unfold fw_keep. cbn [fst snd]. rewrite Hc.
      replace (Nat.eqb s t) with false by (symmetry; apply Nat.eqb_neq; exact Hne). reflexivity.
  - apply Forall_forall. intros [k l] Hin. rewrite Forall_forall in K2. specialize (K2 _ Hin).
    cbn [fst snd] in *. apply Forall_forall. intros x Hx.
    destruct K2 as [(_ & _ & ->)|[_ [[-> _]|(chosen & o' & r' & _ & ->)]]].
    + apply in_seq in Hx. lia.
    + eapply subnet_services_lt. exact Hx.
    + eapply sort_nat_lt. exact Hx.
  - intros s t l Ha Hs Ht. apply KE in Ha. cbn [fst snd] in Ha.
    destruct Ha as [(_ & _ & Hl)|[Hn _]]; [exact Hl|]. exfalso. apply Hn. auto.
  - intros s t l Ha Hn Ht1.
    assert (Htn : t < n).
    { assert (Hin : In (s, t) (map fst fw)) by (apply assoc_not_None; congruence).
      apply KIn in Hin. tauto. }
    apply KE in Ha. cbn [fst snd] in Ha.
    destruct Ha as [(A & B & _)|[_ [[-> Hlt]|(chosen & o' & r' & Hpick & ->)]]].
    + exfalso. apply Hn. auto.
    + split; [|lia]. apply subnet_services_nonempty; [exact Hex|]. apply SV. split; [exact Ht1|exact Htn].
    + apply pick_services_facts in Hpick. destruct Hpick as [Lc Fc].
      split.
      * destruct chosen as [|x chosen]; [cbn [length] in Lc; lia|].
        inversion Fc as [|x' l' Hx Fc']; subst.
        eapply sort_nat_length_ge1; [left; reflexivity|]. eapply subnet_services_lt. exact Hx.
      * rewrite <- Lc. apply sort_nat_length_le.
Qed.

(* ====================================================================== *)
(* Part C: well-formedness                                                 *)
(* ====================================================================== *)
Lemma NoDup_app_intro {A} (l1 l2 : list A) :
  NoDup l1 -> NoDup l2 -> (forall x, In x l1 -> ~ In x l2) -> NoDup (l1 ++ l2).
Proof.
  induction l1 as [|y l1 IH]; intros N1 N2 HD; cbn [app]; [exact N2|].
  inversion N1 as [|y' l' Hy N1']; subst. constructor.
  - rewrite in_app_iff. intros [Hi|Hi]; [contradiction|]. apply (HD y); [left; reflexivity|exact Hi].
  - apply IH; [exact N1'|exact N2|]. intros x Hx. apply HD. right. exact Hx.
Qed.

Lemma NoDup_pairs (s : nat) (l : list nat) : NoDup l -> NoDup (map (fun h => (s, h)) l).
Proof.
  induction l as [|x l IH]; intros N; cbn [map]; [constructor|].
  inversion N as [|x' l' Hx N']; subst. constructor; [|apply IH; exact N'].
  intros Hin. apply in_map_iff in Hin. destruct Hin as [h [E Hh]]. inversion E; subst. contradiction.
Qed.

Lemma NoDup_flat_pairs (f : nat -> list nat) : forall ss, NoDup ss -> (forall s, NoDup (f s)) ->
  NoDup (flat_map (fun s => map (fun h => (s, h)) (f s)) ss).
Proof.
  induction ss as [|s ss IH]; intros N Hf; cbn [flat_map]; [constructor|].
  inversion N as [|s' l' Hs N']; subst. apply NoDup_app_intro.
  - apply NoDup_pairs. apply Hf.
  - apply IH; assumption.
  - intros [s1 h1] Hin1 Hin2. apply in_map_iff in Hin1. destruct Hin1 as [h [E _]]. inversion E; subst.
    apply in_flat_map in Hin2. destruct Hin2 as [s2 [Hs2 Hin2]].
    apply in_map_iff in Hin2. destruct Hin2 as [h2 [E2 _]]. inversion E2; subst. contradiction.
Qed.

Lemma NoDup_gen_addrs subnets : NoDup (gen_addrs subnets).
Proof.
  unfold gen_addrs.
  apply (NoDup_flat_pairs (fun s => seq 0 (nth s subnets 0))); [apply seq_NoDup|].
  intros s. apply seq_NoDup.
Qed.

Lemma NoDup_nodupb_addr : forall l, NoDup l -> nodupb_addr l = true.
Proof.
  induction l as [|x l IH]; intros N; [reflexivity|].
  inversion N as [|x' l' Hx N']; subst. cbn [nodupb_addr].
  rewrite IH by exact N'. rewrite andb_true_r. apply negb_true_iff.
  destruct (mem_addr x l) eqn:E; [|reflexivity]. apply mem_addr_In in E. contradiction.
Qed.

Lemma in_gen_addrs_inv subnets s h : In (s, h) (gen_addrs subnets) ->
  1 <= s < length subnets /\ h < nth s subnets 0.
Proof.
  unfold gen_addrs. intros H. apply in_flat_map in H. destruct H as [s0 [Hs0 Hin]].
  apply in_map_iff in Hin. destruct Hin as [h0 [E Hh0]]. inversion E; subst.
  apply in_seq in Hs0, Hh0. lia.
Qed.

Lemma C15_wf_partial_proof : forall p o sc, gen_ok p o sc ->
  Forall (fun e => (0 <= e_pz e <= TWO53)%Z) (s_exploits sc) ->
  Forall (fun q => (0 <= p_pz q <= TWO53)%Z) (s_privescs sc) ->
  match g_limit p with Some l => 0 < l | None => True end ->
  wf_scenario sc = true.
Proof.
  intros p o sc G HE HP HL.
  pose proof (C15_shape_proof p o sc G) as (S1 & S2 & S3 & S4 & S5 & S6 & S7 & S8 & S9 & S10 & _).
  pose proof (C15_topology_proof p o sc G) as T. cbv zeta in T. destruct T as (T1 & T2 & T3 & T4 & _).
  pose proof (C15_hosts_proof p o sc G) as (A1 & A2).
  pose proof (C15_actions_proof p o sc G) as (X1 & X2 & _).
  pose proof (C15_sensitive_proof p o sc G) as (a & Z1 & Z2 & Z3 & Z4 & _).
  pose proof (C15_firewall_proof p o sc G) as F. cbv zeta in F. destruct F as (F1 & F2 & _).
  assert (PB : params_ok p = true
               /\ nsubnets sc <= fst (s_bounds sc) /\ maxl (s_subnets sc) <= snd (s_bounds sc)).
  { destruct G as [rest H]. apply generate_inv in H.
    destruct H as [PO [B1 [B2 [St [o1 [o2 [o3 [o4 [o5 [o6 H]]]]]]]]]]. cbv zeta in H.
    destruct H as (_ & _ & _ & _ & _ & _ & _ & Hsc). subst sc. sc_proj. auto. }
  destruct PB as (PO & B1 & B2).
  pose proof (params_ok_facts p PO) as (P1 & P2 & P3 & P4 & P5 & P6 & P7 & P8 & P9).
  assert (W1 : Nat.leb 2 (nsubnets sc) = true) by (apply Nat.leb_le; unfold nsubnets; lia).
  assert (W2 : Nat.eqb (subnet_size sc 0) 1 = true) by (unfold subnet_size; rewrite S2; reflexivity).
  assert (W3 : forallb (fun x => Nat.ltb 0 x) (s_subnets sc) = true).
  { apply forallb_forall. intros x Hx. apply Nat.ltb_lt. rewrite Forall_forall in S3. apply S3. exact Hx. }
  assert (W4 : topo_ok sc = true).
  { unfold topo_ok. rewrite T1, Nat.eqb_refl. cbn [andb]. apply andb_true_iff. split.
    - apply forallb_forall. intros r Hr. apply Nat.eqb_eq. rewrite Forall_forall in T2. apply T2. exact Hr.
    - apply forallb_forall. intros s Hs. apply in_seq in Hs. rewrite T4 by lia. cbn [andb].
      apply forallb_forall. intros t Ht. apply in_seq in Ht. rewrite (T3 s t) by lia.
      apply eqb_reflx. }
  assert (VA : forall x, In x (addresses sc) -> valid_addr sc x = true).
  { unfold addresses. rewrite A1. intros [s h] Hin. apply in_gen_addrs_inv in Hin.
    unfold valid_addr, nsubnets, subnet_size. cbn [fst snd].
    rewrite !andb_true_iff, !Nat.ltb_lt. lia. }
  assert (W5 : forallb (valid_addr sc) (addresses sc) = true).
  { apply forallb_forall. exact VA. }
  assert (W6 : nodupb_addr (addresses sc) = true).
  { unfold addresses. rewrite A1. apply NoDup_nodupb_addr. apply NoDup_gen_addrs. }
  assert (W7 : forallb (fun x => mem_addr x (addresses sc)) (all_addrs sc) = true).
  { change (all_addrs sc) with (gen_addrs (s_subnets sc)). unfold addresses. rewrite A1.
    apply forallb_forall. intros x Hx. apply mem_addr_In. exact Hx. }
  assert (W8 : forallb (fun e => wf_cfg sc (snd e)) (s_hosts sc) = true).
  { apply forallb_forall. intros e He. rewrite Forall_forall in A2. specialize (A2 e He).
    cbv zeta in A2. destruct A2 as (C1 & C2 & C3 & _ & _ & _ & _ & C8 & _).
    unfold wf_cfg. rewrite C1, C2, C3, C8, S5, S6, S7, !Nat.eqb_refl. reflexivity. }
  assert (W9 : forallb (wf_edef sc) (s_exploits sc) = true).
  { apply forallb_forall. intros e He. rewrite Forall_forall in X1, HE.
    destruct (X1 e He) as (D1 & D2 & _ & D4). specialize (HE e He).
    unfold wf_edef. rewrite S5, S6, D2. rewrite !andb_true_iff, orb_true_iff, Nat.ltb_lt, !Nat.eqb_eq, !Z.leb_le.
    tauto. }
  assert (W10 : forallb (wf_pdef sc) (s_privescs sc) = true).
  { apply forallb_forall. intros q Hq. rewrite Forall_forall in X2, HP.
    destruct (X2 q Hq) as (D1 & D2 & _ & D4). specialize (HP q Hq).
    unfold wf_pdef. rewrite S5, S7, D2. rewrite !andb_true_iff, orb_true_iff, Nat.ltb_lt, !Nat.eqb_eq, !Z.leb_le.
    tauto. }
  assert (W11 : fw_ok sc = true).
  { unfold fw_ok. apply andb_true_iff. split.
    - apply forallb_forall. intros s Hs. apply in_seq in Hs.
      apply forallb_forall. intros t Ht. apply in_seq in Ht.
      destruct (Nat.eqb s t) eqn:E; [reflexivity|]. apply Nat.eqb_neq in E.
      destruct (connected sc s t) eqn:C; [|reflexivity]. cbn [negb orb].
      assert (N : assoc (s, t) (s_fw sc) <> None) by (apply F1; [lia|lia|auto]).
      destruct (assoc (s, t) (s_fw sc)); [reflexivity|congruence].
    - apply forallb_forall. intros e He. rewrite Forall_forall in F2. specialize (F2 e He).
      apply forallb_forall. intros x Hx. rewrite Forall_forall in F2. rewrite S6.
      apply Nat.ltb_lt. apply F2. exact Hx. }
  assert (W12 : sens_ok sc = true).
  { assert (HV : forall x v, In x (map fst (s_hosts sc)) -> assoc x (s_sens sc) = Some v ->
              match host_cfg sc x with Some c => (c_val c =? v)%Z | None => false end = true).
    { intros x v Hx Hv. unfold host_cfg. destruct (in_fst_assoc x _ Hx) as [c [Hc Hin]]. rewrite Hc.
      rewrite Forall_forall in A2. specialize (A2 _ Hin). cbv zeta in A2. cbn [fst snd] in A2.
      destruct A2 as (_ & _ & _ & _ & _ & _ & _ & _ & Hval). rewrite Hval, Hv. apply Z.eqb_refl. }
    assert (N2 : addr_eqb (2, 0) a = false).
    { unfold addr_eqb. cbn [fst snd]. destruct a as [a1 a2]. cbn [fst snd] in *.
      replace (Nat.eqb 2 a1) with false by (symmetry; apply Nat.eqb_neq; lia). reflexivity. }
    assert (V2 : assoc (2, 0) (s_sens sc) = Some (g_rsens p)).
    { rewrite Z1. cbn [assoc]. rewrite addr_eqb_refl. reflexivity. }
    assert (Va : assoc a (s_sens sc) = Some (g_ruser p)).
    { rewrite Z1. cbn [assoc]. rewrite N2, addr_eqb_refl. reflexivity. }
    pose proof (HV _ _ Z4 V2) as HV2. pose proof (HV _ _ Z3 Va) as HVa.
    unfold sens_ok. rewrite Z1. cbn [length map fst snd forallb nodupb_addr mem_addr existsb].
    rewrite N2, HV2, HVa. rewrite (VA _ Z4), (VA _ Z3). reflexivity. }
  assert (W13 : Nat.leb (nsubnets sc) (fst (s_bounds sc)) = true) by (apply Nat.leb_le; exact B1).
  assert (W14 : Nat.leb (maxl (s_subnets sc)) (snd (s_bounds sc)) = true) by (apply Nat.leb_le; exact B2).
  assert (W15 : match s_limit sc with Some l => Nat.ltb 0 l | None => true end = true).
  { rewrite S10. destruct (g_limit p) as [l|]; [apply Nat.ltb_lt; exact HL|reflexivity]. }
  assert (W16 : Nat.ltb 0 (s_nos sc) = true) by (rewrite S5; apply Nat.ltb_lt; exact P6).
  assert (W17 : Nat.ltb 0 (s_nsrv sc) = true) by (rewrite S6; apply Nat.ltb_lt; exact P1).
  assert (W18 : Nat.ltb 0 (s_nproc sc) = true) by (rewrite S7; apply Nat.ltb_lt; exact P3).
  unfold wf_scenario.
  rewrite W1, W2, W3, W4, W5, W6, W7, W8, W9, W10, W11, W12, W13, W14, W15, W16, W17, W18.
  reflexivity.
Qed.

(* ---------- when are the probabilities in range?  (fixed / mixed specifications whose
   entries are in range; PRandom depends on the oracle entries and is not covered) ---------- *)
Definition pz_ok (z : Z) : Prop := (0 <= z <= TWO53)%Z.

Definition probspec_in_range (ps : probspec) : Prop :=
  match ps with
  | PFixed l => Forall pz_ok l
  | PMixed levels => Forall pz_ok levels
  | PRandom => False
  end.

Lemma nth_default_ok l i : Forall pz_ok l -> pz_ok (nth i l 0%Z).
Proof.
  intros HF. destruct (nth_in_or_default i l 0%Z) as [Hin|Hd].
  - rewrite Forall_forall in HF. apply HF. exact Hin.
  - rewrite Hd. unfold pz_ok, TWO53. lia.
Qed.

Lemma gen_probs_in_range n ps o probs r : probspec_in_range ps -> gen_probs n ps o = Ok probs r ->
  forall k, Forall pz_ok (pz_seq probs k).
Proof.
  intros Hps H k. assert (HF : Forall pz_ok probs).
  { destruct ps as [l| |levels]; cbn [probspec_in_range gen_probs] in *.
    - ret_ok H. exact Hps.
    - destruct Hps.
    - bind_ok H idx r1 Hidx. ret_ok H. apply Forall_forall. intros z Hz.
      apply in_map_iff in Hz. destruct Hz as [i [<- _]]. apply nth_default_ok. exact Hps. }
  unfold pz_seq. apply Forall_forall. intros z Hz. apply in_map_iff in Hz. destruct Hz as [i [<- _]].
  apply nth_default_ok. exact HF.
Qed.

Lemma C15_pz_in_range : forall p o sc, gen_ok p o sc ->
  probspec_in_range (g_eprobs p) -> probspec_in_range (g_pprobs p) ->
  Forall (fun e => (0 <= e_pz e <= TWO53)%Z) (s_exploits sc)
  /\ Forall (fun q => (0 <= p_pz q <= TWO53)%Z) (s_privescs sc).
Proof.
  intros p o sc [rest H] HEp HPp. gen_unpack H PO St.
  destruct H as [H1 [H2 [H3 [H4 [H5 [H6 [H7 Hsc]]]]]]]. subst sc. sc_proj. split.
  - apply gen_exploits_inv in H1. destruct H1 as [probs [o' [Hp HL]]].
    apply gen_exploits_loop_pz in HL; [|reflexivity].
    pose proof (gen_probs_in_range _ _ _ _ _ HEp Hp (length (st_ex St))) as HF.
    rewrite <- HL in HF. apply Forall_forall. intros e He. rewrite Forall_forall in HF.
    apply (HF (e_pz e)). apply in_map. exact He.
  - unfold gen_privescs in H2. bind_ok H2 probs r1 Hp. bind_ok H2 ch r2 Hch.
    apply gen_privescs_loop_pz in H2; [|reflexivity].
    pose proof (gen_probs_in_range _ _ _ _ _ HPp Hp (length (st_pe St))) as HF.
    rewrite <- H2 in HF. apply Forall_forall. intros q Hq. rewrite Forall_forall in HF.
    apply (HF (p_pz q)). apply in_map. exact Hq.
Qed.

Lemma C15_wf_conditional_proof : forall p o sc, gen_ok p o sc ->
  probspec_in_range (g_eprobs p) -> probspec_in_range (g_pprobs p) ->
  match g_limit p with Some l => 0 < l | None => True end ->
  wf_scenario sc = true.
Proof.
  intros p o sc G HEp HPp HL. destruct (C15_pz_in_range p o sc G HEp HPp) as [HE HP].
  eapply C15_wf_partial_proof; eassumption.
Qed.

(* ---------- C15_wf_stmt is false of the model ---------- *)
(* fixed exploit probability "-1": every stage succeeds, but wf_edef fails (0 <= e_pz) *)
Definition pW : gparams :=
  mkGP 3 1 1 1 1 1 1%Z 1%Z 1%Z (PFixed [(-1)%Z]) 1%Z (PFixed [1%Z]) 1%Z 1%Z 1%Z 1%Z true [] []
       (Some 0%Z) 1 false 0%Z 0%Z None None.
(* step limit 0: everything else fine, but wf wants 0 < limit *)
Definition pW2 : gparams :=
  mkGP 3 1 1 1 1 1 1%Z 1%Z 1%Z (PFixed [1%Z]) 1%Z (PFixed [1%Z]) 1%Z 1%Z 1%Z 1%Z true [] []
       (Some 0%Z) 1 false 0%Z 0%Z (Some 0) None.
Definition oW : list Z :=
  [0; 1; 2; 1; 0; 0; 0; 0; 0; 0; 0; 0; 0; 0; 0; 0; 0; 0; 0; 0; 0]%Z.

Lemma C15_wf_refuted : ~ C15_wf_stmt.
Proof.
  intros W.
  destruct (generate pW oW) as [sc r| |w] eqn:G; [|vm_compute in G; discriminate|vm_compute in G; discriminate].
  assert (X : wf_scenario sc = true) by (apply (W pW oW sc); exists r; exact G).
  vm_compute in G. inversion G; subst sc. vm_compute in X. discriminate.
Qed.

Lemma C15_wf_refuted_limit : exists p o sc,
  gen_ok p o sc /\ Forall (fun e => (0 <= e_pz e <= TWO53)%Z) (s_exploits sc)
  /\ Forall (fun q => (0 <= p_pz q <= TWO53)%Z) (s_privescs sc) /\ wf_scenario sc = false.
Proof.
  destruct (generate pW2 oW) as [sc r| |w] eqn:G; [|vm_compute in G; discriminate|vm_compute in G; discriminate].
  exists pW2, oW, sc. split; [exists r; exact G|].
  vm_compute in G. inversion G; subst sc. cbn [s_exploits s_privescs].
  split; [|split].
  - constructor; [|constructor]. cbn [e_pz]. unfold TWO53. lia.
  - constructor; [|constructor]. cbn [p_pz]. unfold TWO53. lia.
  - vm_compute. reflexivity.
Qed.

Print Assumptions C15_actions_proof.
Print Assumptions C15_firewall_proof.
Print Assumptions C15_wf_partial_proof.
Print Assumptions C15_pz_in_range.
Print Assumptions C15_wf_conditional_proof.
Print Assumptions C15_wf_refuted.
Print Assumptions C15_wf_refuted_limit.
