(* PC14.v -- C14: what a seeded run depends on.  Whether a step consumes the random draw does
   not depend on the draw's value, so a history consumes a stream of draws at positions fixed by
   (scenario, history); together with C14_prefix (generation depends only on the consumed
   prefix of the stream) seeded runs are functions of (parameters / scenario, history, stream). *)
From NasimV Require Import StmtDyn StmtGen.
From NasimV.proofs Require Import RowLemmas PC06C07 PGen2.

Definition C14_draw_consumption_stmt : Prop :=
  forall sc st a k k', used sc st a k = used sc st a k'.

Lemma C14_draw_consumption_proof : C14_draw_consumption_stmt.
Proof.
  unfold C14_draw_consumption_stmt, used. intros sc st a k k'.
  rewrite !perform_action_nf.
  destruct (is_noop a); [reflexivity|].
  destruct (negb (gates_ok sc st a)); [reflexivity|].
  destruct (reexploit sc st a); cbn [negb andb].
  - reflexivity.
  - destruct (chance_fails a k), (chance_fails a k'); reflexivity.
Qed.
Print Assumptions C14_draw_consumption_proof.
