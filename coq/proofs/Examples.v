(* Examples.v -- non-vacuity: the hypotheses of the property theorems are met by concrete,
   non-trivial scenarios, states, actions and draws (all by kernel evaluation). *)
From NasimV Require Import StmtDyn StmtObs Hops Monitors StmtGen.
From NasimV.proofs Require Import PGen3.

Definition sc2 : scenario := star 2.
Definition st0 : state := initial_state sc2.
(* after exploiting the hub and scanning from it *)
Definition st2 : state := fst (episode sc2 st0 [star_exploit 1; star_scan]).
Definition ex1 : action := fst (star_exploit 1).
Definition ex2 : action := fst (star_exploit 2).

Example wf_somewhere : wf_scenario sc2 = true /\ wf_state sc2 st0 = true /\ wf_state sc2 st2 = true.
Proof. vm_compute. auto. Qed.

(* C01_exploit_must_succeed: every hypothesis holds for the first exploit of the episode *)
Example C01_hypotheses_met :
  act_ok sc2 ex1 /\ is_exploit ex1 = true
  /\ h_reach (trow sc2 st0 ex1) = true /\ h_disc (trow sc2 st0 ex1) = true
  /\ pivot sc2 st0 ex1 /\ admits sc2 st0 ex1 /\ pre_exploit (trow sc2 st0 ex1) ex1 = true
  /\ 0 < a_pz ex1.
Proof.
  split.
  { unfold act_ok. split; [vm_compute; tauto|]. split.
    - intros _. vm_compute. auto.
    - intros _. vm_compute. reflexivity. }
  split; [vm_compute; reflexivity|].
  split; [vm_compute; reflexivity|].
  split; [vm_compute; reflexivity|].
  split; [left; vm_compute; reflexivity|].
  split; [left; vm_compute; auto|].
  split; vm_compute; reflexivity.
Qed.

(* ... and for a private target through a pivot (second exploit, from the mid-episode state) *)
Example C02_pivot_through_compromised_host :
  subnet_public sc2 (fst (a_tgt ex2)) = false
  /\ r_success (Spec.res sc2 st2 ex2 0) = true
  /\ has_remote_perm sc2 st2 ex2 = true /\ traffic_permitted sc2 st2 (a_tgt ex2) (a_srv ex2) = true.
Proof. vm_compute. auto. Qed.

(* the invariant of C03 holds in a state with compromised, reachable-only and undiscovered hosts *)
Example C03_invariant_somewhere :
  inv3b sc2 st0 = true /\ inv3b sc2 st2 = true
  /\ map h_disc st0 = [true; false; false] /\ map h_disc st2 = [true; true; true]
  /\ map h_comp st2 = [true; false; false].
Proof. vm_compute. auto. Qed.

(* C05: a step that really pays a value, and one that pays nothing *)
Example C05_values_paid :
  r_value (Spec.res sc2 st2 ex2 0) = 100 * U /\ gained sc2 st2 (next sc2 st2 ex2 0) = 100 * U
  /\ r_value (Spec.res sc2 st2 ex2 TWO53) = 0.
Proof. vm_compute. auto. Qed.

(* C06: a goal state and a non-goal state *)
Example C06_goal_both_ways :
  goal sc2 st2 = false
  /\ goal sc2 (fst (episode sc2 st0 [star_exploit 1; star_scan; star_exploit 2; star_exploit 3])) = true.
Proof. vm_compute. auto. Qed.

(* C07: gates pass, the draw decides *)
Example C07_draw_decides :
  gates_ok sc2 st0 ex1 = true /\ reexploit sc2 st0 ex1 = false
  /\ r_success (Spec.res sc2 st0 ex1 0) = true /\ r_undef (Spec.res sc2 st0 ex1 TWO53) = true.
Proof. vm_compute. auto. Qed.

(* C08 / C09: the layout hypotheses (fits) hold for every row of a reachable state *)
Example C09_rows_fit : Forall (fits (layout_of sc2)) st2.
Proof. repeat constructor; vm_compute; auto. Qed.

(* C15: gen_ok is inhabited (a generation that finishes), with in-range probabilities *)
Example C15_generation_finishes : exists p o sc, gen_ok p o sc /\ params_ok p = true.
Proof.
  destruct C15_wf_refuted_limit as [p [o [sc [G _]]]].
  exists p, o, sc. split; [exact G|].
  destruct G as [rest G]. unfold generate in G.
  destruct (params_ok p); [reflexivity|]. discriminate.
Qed.

Print Assumptions C01_hypotheses_met.
Print Assumptions C15_generation_finishes.
