(* PC20.v -- C20: kernel-checked refutation witnesses (defect D13) and the bound's formula. *)
From NasimV Require Import Hops.

Lemma C20_bound_formula_proof : C20_bound_formula_stmt.
Proof. unfold C20_bound_formula_stmt. intros. reflexivity. Qed.

Lemma in_flat_dec sc (l : list (action * Z)) :
  forallb (fun p => existsb (fun a => 
     akind_eqb (a_kind a) (a_kind (fst p)) && addr_eqb (a_tgt a) (a_tgt (fst p))
     && (a_cost a =? a_cost (fst p)) && (a_pz a =? a_pz (fst p)) && Nat.eqb (a_req a) (a_req (fst p))
     && Nat.eqb (a_srv a) (a_srv (fst p)) && Nat.eqb (a_proc a) (a_proc (fst p))
     && opt_nat_eqb (a_os a) (a_os (fst p)) && Nat.eqb (a_acc a) (a_acc (fst p))) (flat sc)) l = true ->
  Forall (fun p => In (fst p) (flat sc)) l.
Proof.
  intros H. apply Forall_forall. intros p Hp.
  rewrite forallb_forall in H. specialize (H p Hp). apply existsb_exists in H.
  destruct H as [a [Ha E]]. repeat (apply andb_true_iff in E; destruct E as [E ?]).
  assert (a = fst p); [|subst; exact Ha].
  destruct a as [k1 t1 c1 z1 r1 s1 p1 o1 c1'], (fst p) as [k2 t2 c2 z2 r2 s2 p2 o2 c2']; simpl in *.
  repeat match goal with
  | H : Nat.eqb _ _ = true |- _ => apply Nat.eqb_eq in H
  | H : (_ =? _) = true |- _ => apply Z.eqb_eq in H
  end.
  assert (k1 = k2) by (destruct k1, k2; simpl in *; try discriminate; reflexivity).
  assert (t1 = t2).
  { unfold addr_eqb in *. destruct t1, t2; simpl in *.
    match goal with H : _ && _ = true |- _ => apply andb_true_iff in H; destruct H as [A B] end.
    apply Nat.eqb_eq in A, B. subst; reflexivity. }
  assert (o1 = o2).
  { destruct o1, o2; simpl in *; try discriminate; auto.
    match goal with H : Nat.eqb _ _ = true |- _ => apply Nat.eqb_eq in H; subst; reflexivity end. }
  subst. reflexivity.
Qed.

Lemma C20_hops_le_hosts_refuted_proof : C20_hops_le_hosts_refuted_stmt.
Proof.
  exists (star 2), [star_exploit 1; star_scan; star_exploit 2; star_exploit 3].
  split; [vm_compute; reflexivity|].
  split; [apply in_flat_dec; vm_compute; reflexivity|].
  split; vm_compute; reflexivity.
Qed.

Lemma C20_bound_refuted_proof : C20_bound_refuted_stmt.
Proof.
  exists (star 3), [star_exploit 1; star_scan; star_exploit 2; star_exploit 3; star_exploit 4].
  split; [vm_compute; reflexivity|].
  split; [vm_compute; reflexivity|].
  split; [apply in_flat_dec; vm_compute; reflexivity|].
  split; vm_compute; reflexivity.
Qed.

Print Assumptions C20_bound_formula_proof.
Print Assumptions C20_hops_le_hosts_refuted_proof.
Print Assumptions C20_bound_refuted_proof.
