(* PC08.v -- proofs for C08 (observations) and C12_obs_relation. *)
From NasimV Require Import StmtObs.
From NasimV.proofs Require Import RowLemmas PC04 PC06C07.

(* ---------- list helpers ---------- *)
Lemma nth_error_combine {A B : Type} (l : list A) (l' : list B) i :
  nth_error (combine l l') i
  = match nth_error l i, nth_error l' i with
    | Some x, Some y => Some (x, y)
    | _, _ => None
    end.
Proof.
  revert l' i. induction l as [|x l IH]; intros l' i.
  - destruct i; reflexivity.
  - destruct l' as [|y l'].
    + destruct i as [|i]; cbn [combine nth_error]; auto.
      destruct (nth_error l i); reflexivity.
    + destruct i as [|i]; cbn [combine nth_error]; auto.
Qed.

Lemma nth_error_seq s n i : (i < n)%nat -> nth_error (seq s n) i = Some (s + i)%nat.
Proof.
  revert s i. induction n as [|n IH]; intros s i Hi; [lia|].
  destruct i as [|i]; cbn [seq nth_error].
  - f_equal. lia.
  - rewrite IH by lia. f_equal. lia.
Qed.

Lemma nth_map_some {A B : Type} (f : A -> B) (l : list A) i x d :
  nth_error l i = Some x -> nth i (map f l) d = f x.
Proof.
  intros H. apply nth_error_nth. apply map_nth_error. exact H.
Qed.

Lemma nth_app_last {A : Type} (l : list A) (y d : A) : nth (length l) (l ++ [y]) d = y.
Proof. rewrite app_nth2 by lia. rewrite Nat.sub_diag. reflexivity. Qed.

Lemma nth_error_lt_some {A : Type} (l : list A) i :
  (i < length l)%nat -> exists x, nth_error l i = Some x.
Proof.
  intros H. destruct (nth_error l i) eqn:E; eauto.
  apply nth_error_None in E. lia.
Qed.

Lemma nthb_map_some {A : Type} (f : A -> bool) (l : list A) i x :
  nth_error l i = Some x -> nthb (map f l) i = f x.
Proof. intros H. unfold nthb. apply nth_map_some. exact H. Qed.

(* ---------- rows of the vector layer ---------- *)
Lemma zat_replicate n j : zat (replicate n 0) j = 0.
Proof.
  unfold zat. revert j. induction n as [|n IH]; intros [|j]; cbn [replicate nth]; auto.
Qed.

Lemma zat_zero_row L j : zat (zero_row L) j = 0.
Proof. unfold zero_row. apply zat_replicate. Qed.

Lemma zat_beyond v j : (length v <= j)%nat -> zat v j = 0.
Proof. intros H. unfold zat. apply nth_overflow. exact H. Qed.

Lemma zat_observe_gen L m v : forall s j,
  nth j (map (fun p : nat * Z => if mask_has m (col_group L (fst p)) then snd p else 0)
             (combine (seq s (length v)) v)) 0
  = if mask_has m (col_group L (s + j)) then nth j v 0 else 0.
Proof.
  induction v as [|z v IH]; intros s j.
  - cbn [length seq combine map]. destruct j; cbn [nth]; destruct (mask_has _ _); reflexivity.
  - cbn [length seq combine map]. destruct j as [|j]; cbn [nth fst snd].
    + rewrite Nat.add_0_r. reflexivity.
    + rewrite IH. replace (S s + j)%nat with (s + S j)%nat by lia. reflexivity.
Qed.

Lemma zat_observe L m v j :
  zat (observe L m v) j = if mask_has m (col_group L j) then zat v j else 0.
Proof. unfold zat, observe. rewrite zat_observe_gen. reflexivity. Qed.

Lemma zat_observe_bounded L m v j :
  zat (observe L m v) j
  = if Nat.ltb j (length v) then (if mask_has m (col_group L j) then zat v j else 0) else 0.
Proof.
  rewrite zat_observe. destruct (Nat.ltb j (length v)) eqn:E; auto.
  apply Nat.ltb_ge in E. rewrite zat_beyond by exact E.
  destruct (mask_has _ _); reflexivity.
Qed.

(* ---------- the i-th positional row ---------- *)
Lemma nth_error_rows sc st i :
  nth_error (rows sc st) i
  = match nth_error (addresses sc) i, nth_error st i with
    | Some x, Some h => Some (x, h)
    | _, _ => None
    end.
Proof. unfold rows. apply nth_error_combine. Qed.

Lemma nth_error_rows_row sc st i x :
  NoDup (addresses sc) -> length st = length (addresses sc) ->
  nth_error (addresses sc) i = Some x ->
  nth_error (rows sc st) i = Some (x, row sc st x) /\ nth_error st i = Some (row sc st x).
Proof.
  intros ND HL Hx.
  assert (Hi : (i < length st)%nat).
  { rewrite HL. apply nth_error_Some. congruence. }
  destruct (nth_error_lt_some st i Hi) as [h Hh].
  assert (Hr : nth_error (rows sc st) i = Some (x, h)).
  { rewrite nth_error_rows, Hx, Hh. reflexivity. }
  assert (E : row sc st x = h).
  { unfold row. apply (get_row_of_member sc st (x, h) ND HL).
    eapply nth_error_In. exact Hr. }
  rewrite E. auto.
Qed.

(* ---------- the i-th row of an observation ---------- *)
Lemma nth_indexed_map {A B : Type} (g : nat * A -> B) (l : list A) i x d :
  nth_error l i = Some x ->
  nth i (map g (combine (seq 0 (length l)) l)) d = g (i, x).
Proof.
  intros H. apply nth_map_some. rewrite nth_error_combine.
  rewrite nth_error_seq by (apply nth_error_Some; congruence).
  rewrite H. reflexivity.
Qed.

Lemma obs_row_partial sc st' a r i q :
  length st' = length (addresses sc) ->
  nth_error (rows sc st') i = Some q ->
  nth i (get_observation sc st' a r false) []
  = if is_noop a || negb (r_success r) then zero_row (layout_of sc)
    else host_obs_row sc (layout_of sc) a r i (fst q) (snd q).
Proof.
  intros HL Hq.
  assert (Hi : (i < length st')%nat).
  { rewrite <- (length_rows sc st' HL). apply nth_error_Some. congruence. }
  unfold get_observation. cbv zeta.
  destruct (is_noop a || negb (r_success r)).
  - rewrite app_nth1 by (rewrite map_length; exact Hi).
    destruct (nth_error_lt_some st' i Hi) as [h Hh].
    apply (nth_map_some (fun _ : hrow => zero_row (layout_of sc)) st' i h [] Hh).
  - rewrite <- (length_rows sc st' HL).
    rewrite app_nth1.
    + rewrite (nth_indexed_map
                 (fun q0 : nat * (addr * hrow) =>
                    host_obs_row sc (layout_of sc) a r (fst q0) (fst (snd q0)) (snd (snd q0)))
                 (rows sc st') i q [] Hq).
      reflexivity.
    + rewrite map_length, combine_length, seq_length, Nat.min_id.
      rewrite (length_rows sc st' HL). exact Hi.
Qed.

Lemma obs_row_full sc st' a r i h :
  nth_error st' i = Some h ->
  nth i (get_observation sc st' a r true) [] = encode_row (layout_of sc) h.
Proof.
  intros Hh. unfold get_observation. cbv zeta. unfold encode_state.
  rewrite app_nth1.
  - apply nth_map_some. exact Hh.
  - rewrite map_length. apply nth_error_Some. congruence.
Qed.

Lemma obs_length sc st' a r fully :
  length st' = length (addresses sc) ->
  exists body, get_observation sc st' a r fully = body ++ [aux_row (layout_of sc) r]
               /\ length body = length st'.
Proof.
  intros HL. unfold get_observation. cbv zeta.
  destruct fully.
  - eexists. split; [reflexivity|]. unfold encode_state. apply map_length.
  - destruct (is_noop a || negb (r_success r)).
    + eexists. split; [reflexivity|]. apply map_length.
    + eexists. split; [reflexivity|].
      rewrite map_length, combine_length, seq_length, (length_rows sc st' HL). apply Nat.min_id.
Qed.

(* ---------- the result of a successful subnet scan ---------- *)
Lemma res_subscan sc st a k :
  is_subnet_scan a = true -> r_success (res sc st a k) = true ->
  r_disc (res sc st a k) = map (fun p => scan_hits sc (fst (a_tgt a)) (fst p)) (rows sc st)
  /\ r_newly (res sc st a k)
     = map (fun p => scan_hits sc (fst (a_tgt a)) (fst p) && negb (h_disc (snd p))) (rows sc st).
Proof.
  intros SS. unfold res. rewrite perform_action_nf.
  assert (N : is_noop a = false) by (kinds a).
  rewrite N.
  destruct (negb (gates_ok sc st a)); cbn [fst snd].
  { intros S. exfalso.
    repeat match goal with H : context [if ?c then _ else _] |- _ => destruct c end;
      simpl in S; discriminate. }
  destruct (negb (reexploit sc st a) && chance_fails a k); cbn [fst snd].
  { intros S. simpl in S. discriminate. }
  unfold tail. rewrite SS. unfold subnet_scan.
  destruct (negb (h_comp (get_row sc st (a_tgt a)))); cbn [fst snd].
  { intros S. simpl in S. discriminate. }
  destruct (negb (has_access (get_row sc st (a_tgt a)) (a_req a))); cbn [fst snd].
  { intros S. simpl in S. discriminate. }
  intros _. cbn [r_disc r_newly]. split; reflexivity.
Qed.

(* ================= C08 ================= *)
Lemma C08_exact_proof : C08_exact_stmt.
Proof.
  unfold C08_exact_stmt. intros sc st a k i x j WF Hwf Hok Hx.
  pose proof (wf_nodup sc WF) as ND.
  pose proof (wf_state_length sc st Hwf) as HL.
  assert (HL' : length (next sc st a k) = length (addresses sc)).
  { rewrite next_length; auto. }
  destruct (nth_error_rows_row sc st i x ND HL Hx) as [Hr _].
  destruct (nth_error_rows_row sc (next sc st a k) i x ND HL' Hx) as [Hr' _].
  unfold obs_of.
  rewrite (obs_row_partial sc (next sc st a k) a (res sc st a k) i _ HL' Hr').
  cbn [fst snd]. unfold visible.
  destruct (is_noop a) eqn:N; cbn [orb negb andb].
  { rewrite zat_zero_row, andb_false_r. reflexivity. }
  destruct (r_success (res sc st a k)) eqn:S; cbn [orb negb andb].
  2:{ rewrite zat_zero_row. reflexivity. }
  unfold host_obs_row, entitlement.
  destruct (addr_eqb x (a_tgt a)) eqn:E; cbn [orb andb].
  { rewrite zat_observe. reflexivity. }
  destruct (is_subnet_scan a) eqn:SS; cbn [orb andb].
  2:{ rewrite zat_zero_row. reflexivity. }
  destruct (res_subscan sc st a k SS S) as [Hd Hn].
  rewrite Hd, Hn.
  rewrite (nthb_map_some _ (rows sc st) i _ Hr).
  rewrite (nthb_map_some _ (rows sc st) i _ Hr).
  cbn [fst snd]. unfold scan_hits.
  destruct (connected sc (fst (a_tgt a)) (fst x)) eqn:C; cbn [andb].
  - rewrite zat_observe. reflexivity.
  - rewrite zat_zero_row. reflexivity.
Qed.

Lemma C08_truthful_proof : C08_truthful_stmt.
Proof.
  unfold C08_truthful_stmt. intros sc st a k i x j WF Hwf Hok Hx Hnz.
  rewrite (C08_exact_proof sc st a k i x j WF Hwf Hok Hx) in *.
  destruct (visible sc st a k x && mask_has (entitlement sc st a x) (col_group (layout_of sc) j)).
  - reflexivity.
  - exfalso. apply Hnz. reflexivity.
Qed.

Lemma C08_failure_blind_proof : C08_failure_blind_stmt.
Proof.
  unfold C08_failure_blind_stmt. intros sc st a k i WF Hwf Hok Hf Hi.
  pose proof (wf_state_length sc st Hwf) as HL.
  assert (HL' : length (next sc st a k) = length (addresses sc)).
  { rewrite next_length; auto. }
  assert (Hi' : (i < length (rows sc (next sc st a k)))%nat).
  { rewrite (length_rows sc _ HL'), HL', <- HL. exact Hi. }
  destruct (nth_error_lt_some _ i Hi') as [q Hq].
  unfold obs_of.
  rewrite (obs_row_partial sc (next sc st a k) a (res sc st a k) i q HL' Hq).
  assert (G : is_noop a || negb (r_success (res sc st a k)) = true).
  { destruct Hf as [Hf|Hf]; rewrite Hf; cbn [negb orb]; auto. apply orb_true_r. }
  rewrite G. reflexivity.
Qed.

Lemma C08_full_proof : C08_full_stmt.
Proof. unfold C08_full_stmt, obs_of, get_observation. intros. reflexivity. Qed.

Lemma C08_aux_proof : C08_aux_stmt.
Proof.
  unfold C08_aux_stmt. intros sc st a k fully WF Hwf Hok.
  pose proof (wf_state_length sc st Hwf) as HL.
  assert (HL' : length (next sc st a k) = length (addresses sc)).
  { rewrite next_length; auto. }
  unfold obs_of.
  destruct (obs_length sc (next sc st a k) a (res sc st a k) fully HL') as [body [-> Hb]].
  assert (Hb' : length body = length st) by (rewrite Hb, HL', HL; reflexivity).
  split.
  - rewrite <- Hb'. apply nth_app_last.
  - rewrite app_length, Hb'. cbn [length]. lia.
Qed.

Lemma C08_initial_proof : C08_initial_stmt.
Proof.
  unfold C08_initial_stmt. intros sc st. cbv zeta.
  split; [|split].
  - reflexivity.
  - intros i h j Hh. unfold initial_observation. cbv zeta.
    rewrite app_nth1 by (rewrite map_length; apply nth_error_Some; congruence).
    rewrite (nth_map_some
               (fun h0 : hrow => if h_reach h0
                                 then observe (layout_of sc) base_mask (encode_row (layout_of sc) h0)
                                 else zero_row (layout_of sc)) st i h [] Hh).
    destruct (h_reach h); cbn [andb].
    + apply zat_observe.
    + apply zat_zero_row.
  - unfold initial_observation. cbv zeta.
    rewrite <- (map_length
                  (fun h0 : hrow => if h_reach h0
                                    then observe (layout_of sc) base_mask (encode_row (layout_of sc) h0)
                                    else zero_row (layout_of sc)) st) at 1.
    apply nth_app_last.
Qed.

(* ================= C12 (observation relation) ================= *)
Lemma C12_obs_relation_proof : C12_obs_relation_stmt.
Proof.
  unfold C12_obs_relation_stmt. intros sc st a r i j WF Hwf Hi.
  pose proof (wf_state_length sc st Hwf) as HL.
  destruct (nth_error_lt_some st i Hi) as [h Hh].
  assert (Hi2 : (i < length (addresses sc))%nat) by (rewrite <- HL; exact Hi).
  destruct (nth_error_lt_some (addresses sc) i Hi2) as [x Hx].
  assert (Hr : nth_error (rows sc st) i = Some (x, h)).
  { rewrite nth_error_rows, Hx, Hh. reflexivity. }
  rewrite (obs_row_partial sc st a r i (x, h) HL Hr).
  rewrite (obs_row_full sc st a r i h Hh).
  cbn [fst snd].
  destruct (is_noop a || negb (r_success r)).
  { rewrite zat_zero_row. intros H. exfalso. apply H. reflexivity. }
  unfold host_obs_row.
  destruct (addr_eqb x (a_tgt a)).
  { rewrite zat_observe. destruct (mask_has _ _); auto.
    intros H. exfalso. apply H. reflexivity. }
  destruct (is_subnet_scan a && nthb (r_disc r) i).
  { rewrite zat_observe. destruct (mask_has _ _); auto.
    intros H. exfalso. apply H. reflexivity. }
  rewrite zat_zero_row. intros H. exfalso. apply H. reflexivity.
Qed.

Print Assumptions C08_exact_proof.
Print Assumptions C08_truthful_proof.
Print Assumptions C08_failure_blind_proof.
Print Assumptions C08_full_proof.
Print Assumptions C08_aux_proof.
Print Assumptions C08_initial_proof.
Print Assumptions C12_obs_relation_proof.
