From NasimV Require Import StmtGen.
From NasimV.proofs Require Import GenLemmas PGen1 PGen2 PGen3.
(* PGen4.v -- C16, generator side: the STRUCTURAL half of "generated scenarios are always
   solvable".  For all parameters, all oracles and every successfully generated scenario:
   every sensitive host can be rooted (a ROOT exploit applies to it, or some exploit and some
   escalation apply), every subnet 1 <= t < n contains a host that is vulnerable to some
   exploit, and every firewall entry into a subnet t >= 1 admits a service for which some
   host of t is vulnerable to some exploit. *)
Require Import ZifyNat.
Local Open Scope nat_scope.

(* host configuration of the final scenario, as the generator's hcfg *)
Definition cfg_vuln_e (c : hostcfg) (e : edef) : bool :=
  nthb (c_srv c) (e_srv e) && match e_os e with None => true | Some o => nthb (c_os c) o end.
Definition cfg_vuln_pe (c : hostcfg) (q : pdef) : bool :=
  nthb (c_proc c) (p_proc q) && match p_os q with None => true | Some o => nthb (c_os c) o end.
(* root can be obtained on the host: a ROOT exploit applies, or some exploit applies and some
   escalation applies *)
Definition cfg_root_vulnerable (sc : scenario) (c : hostcfg) : bool :=
  existsb (fun e => cfg_vuln_e c e && (Nat.leb 2 (e_acc e) || existsb (cfg_vuln_pe c) (s_privescs sc)))
          (s_exploits sc).

(* ====================================================================== *)
(* correspondence between the generator's hcfg and the final hostcfg      *)
(* ====================================================================== *)
Lemma onehot_b_nth n i o : i < n -> nthb (onehot_b n i) o = Nat.eqb i o.
Proof.
  intros Hi. unfold nthb, onehot_b. destruct (Nat.lt_ge_cases o n) as [L|L].
  - rewrite (nth_map_seq (fun j => Nat.eqb j i)) by exact L. apply Nat.eqb_sym.
  - rewrite nth_overflow by (rewrite map_length, seq_length; exact L).
    symmetry. apply Nat.eqb_neq. lia.
Qed.

Lemma cfg_vuln_e_corr nos c v d fwl e : hc_os c < nos ->
  cfg_vuln_e (mkCfg (onehot_b nos (hc_os c)) (hc_srv c) (hc_proc c) v d fwl) e = vuln_e c e.
Proof.
  intros Hos. unfold cfg_vuln_e, vuln_e. cbn [c_srv c_os].
  destruct (e_os e) as [x|]; [|reflexivity]. rewrite onehot_b_nth by exact Hos. reflexivity.
Qed.

Lemma cfg_vuln_pe_corr nos c v d fwl q : hc_os c < nos ->
  cfg_vuln_pe (mkCfg (onehot_b nos (hc_os c)) (hc_srv c) (hc_proc c) v d fwl) q = vuln_pe c q.
Proof.
  intros Hos. unfold cfg_vuln_pe, vuln_pe. cbn [c_proc c_os].
  destruct (p_os q) as [x|]; [|reflexivity]. rewrite onehot_b_nth by exact Hos. reflexivity.
Qed.

Lemma existsb_pointwise {A} (f g : A -> bool) : (forall x, f x = g x) ->
  forall l, existsb f l = existsb g l.
Proof.
  intros E. induction l as [|x l IH]; [reflexivity|]. cbn [existsb]. rewrite E, IH. reflexivity.
Qed.

Lemma cfg_root_vulnerable_corr sc nos c v d fwl : hc_os c < nos ->
  cfg_root_vulnerable sc (mkCfg (onehot_b nos (hc_os c)) (hc_srv c) (hc_proc c) v d fwl)
  = host_vulnerable (s_exploits sc) (s_privescs sc) c 2.
Proof.
  intros Hos. unfold cfg_root_vulnerable, host_vulnerable.
  apply existsb_pointwise. intros e. rewrite cfg_vuln_e_corr by exact Hos.
  rewrite (existsb_pointwise _ (vuln_pe c)); [reflexivity|].
  intros q. apply cfg_vuln_pe_corr. exact Hos.
Qed.

(* ====================================================================== *)
(* make_vulnerable at level 2 produces a host on which root is obtainable *)
(* ====================================================================== *)
Lemma make_vulnerable_root exl pel ks kp :
  Forall (fun e => e_srv e < ks) exl -> Forall (fun q => p_proc q < kp) pel ->
  forall t c o c' r, make_vulnerable exl pel 2 c t o = Ok c' r ->
  length (hc_srv c) = ks -> length (hc_proc c) = kp ->
  host_vulnerable exl pel c' 2 = true.
Proof.
  intros Hex Hpe. induction t as [|t IH]; intros c o c' r H Ls Lp; [discriminate|].
  cbn [make_vulnerable] in H. bind_ok H ei r1 Hei. apply drawn_Ok in Hei. destruct Hei as [Hei _].
  set (e := nth ei exl (mkE 0 None 0%Z 0%Z 0)) in *.
  assert (Hin : In e exl) by (apply nth_In; exact Hei).
  assert (Hsrv : e_srv e < ks) by (rewrite Forall_forall in Hex; apply Hex; exact Hin).
  set (c1 := mkH (match e_os e with Some o0 => o0 | None => hc_os c end)
                 (set_true (hc_srv c) (e_srv e)) (hc_proc c)) in *.
  assert (L1 : length (hc_srv c1) = ks) by (unfold c1; cbn [hc_srv]; rewrite set_true_length; exact Ls).
  assert (L1p : length (hc_proc c1) = kp) by (unfold c1; cbn [hc_proc]; exact Lp).
  assert (V1 : forall pr, vuln_e (mkH (hc_os c1) (hc_srv c1) pr) e = true).
  { intros pr. unfold vuln_e, c1. cbn [hc_srv hc_os]. rewrite set_true_nth by lia.
    destruct (e_os e); [apply Nat.eqb_refl|reflexivity]. }
  destruct (Nat.leb 2 (e_acc e)) eqn:EA.
  - ret_ok H. unfold host_vulnerable. apply existsb_exists. exists e. split; [exact Hin|].
    assert (Ve : vuln_e c1 e = true) by exact (V1 (hc_proc c)).
    rewrite Ve, EA. reflexivity.
  - destruct (filter (fun q => match p_os q with None => true | Some o0 => Nat.eqb (hc_os c1) o0 end) pel)
      as [|q0 valid0] eqn:Ev.
    + eapply IH; [exact H|exact L1|exact L1p].
    + bind_ok H pi r2 Hpi. ret_ok H. apply drawn_Ok in Hpi. destruct Hpi as [Hpi _].
      set (q := nth pi (q0 :: valid0) (mkP 0 None 0%Z 0%Z 0)) in *.
      assert (Hq : In q (q0 :: valid0)) by (apply nth_In; exact Hpi).
      rewrite <- Ev in Hq. apply filter_In in Hq. destruct Hq as [Hqin Hqv].
      assert (Hproc : p_proc q < kp) by (rewrite Forall_forall in Hpe; apply Hpe; exact Hqin).
      assert (VP : nthb (set_true (hc_proc c1) (p_proc q)) (p_proc q) = true)
        by (apply set_true_nth; lia).
      unfold host_vulnerable. apply existsb_exists. exists e. split; [exact Hin|].
      rewrite V1. cbn [andb]. apply orb_true_iff. right.
      apply existsb_exists. exists q. split; [exact Hqin|].
      unfold vuln_pe. apply andb_true_iff. split; [exact VP|exact Hqv].
Qed.

(* ====================================================================== *)
(* pass 1: every sensitive host is root-vulnerable and its subnet is in vs *)
(* ====================================================================== *)
Definition len_ok (ks kp : nat) (hosts : list (addr * hcfg)) : Prop :=
  Forall (fun q => length (hc_srv (snd q)) = ks /\ length (hc_proc (snd q)) = kp) hosts.

Lemma ensure_pass1_sens exl pel sens ks kp :
  Forall (fun e => e_srv e < ks) exl -> Forall (fun q => p_proc q < kp) pel ->
  forall hosts vs o res r, ensure_pass1 exl pel sens hosts vs o = Ok res r -> len_ok ks kp hosts ->
  (forall s, In s vs -> In s (snd res))
  /\ (forall a c, In (a, c) (fst res) -> In a sens ->
        host_vulnerable exl pel c 2 = true /\ In (fst a) (snd res)).
Proof.
  intros Hex Hpe. induction hosts as [|[a c] hosts IH]; intros vs o res r H Hh; cbn [ensure_pass1] in H.
  - ret_ok H. cbn [fst snd]. split; [intros s Hs; exact Hs|]. intros a c [].
  - unfold len_ok in Hh. pose proof (Forall_inv Hh) as Hc. pose proof (Forall_inv_tail Hh) as Hh'.
    cbn [snd] in Hc. destruct Hc as [Ls Lp].
    destruct (mem_addr a sens) eqn:MS.
    + cbn [negb andb] in H.
      bind_ok H c' r1 Hc'. bind_ok H rest r2 Hrest. ret_ok H. cbn [fst snd].
      apply IH in Hrest; [|exact Hh']. destruct Hrest as [M V].
      assert (HV : host_vulnerable exl pel c' 2 = true).
      { destruct (host_vulnerable exl pel c 2) eqn:HV0.
        - ret_ok Hc'. exact HV0.
        - eapply make_vulnerable_root; [exact Hex|exact Hpe|exact Hc'|exact Ls|exact Lp]. }
      split.
      * intros s Hs. apply M. right. exact Hs.
      * intros a0 c0 [E|Hin] Hs.
        -- inversion E; subst a0 c0. split; [exact HV|]. apply M. left. reflexivity.
        -- apply V; assumption.
    + cbn [negb andb] in H.
      assert (NS : ~ In a sens) by (intros X; apply mem_addr_In in X; congruence).
      destruct (mem_nat (fst a) vs).
      * bind_ok H rest r1 Hrest. ret_ok H. cbn [fst snd].
        apply IH in Hrest; [|exact Hh']. destruct Hrest as [M V].
        split; [exact M|].
        intros a0 c0 [E|Hin] Hs.
        -- inversion E; subst a0 c0. contradiction.
        -- apply V; assumption.
      * bind_ok H rest r1 Hrest. ret_ok H. cbn [fst snd].
        apply IH in Hrest; [|exact Hh']. destruct Hrest as [M V].
        split.
        -- intros s Hs. apply M. destruct (host_vulnerable exl pel c 1); [right; exact Hs|exact Hs].
        -- intros a0 c0 [E|Hin] Hs.
           ++ inversion E; subst a0 c0. contradiction.
           ++ apply V; assumption.
Qed.

(* ====================================================================== *)
(* pass 2 never rewrites a sensitive host                                  *)
(* ====================================================================== *)
Lemma ensure_pass2_sens exl pel subnets sens : forall ss hosts vs o res r,
  ensure_pass2 exl pel subnets ss hosts vs o = Ok res r ->
  (forall a c, In (a, c) hosts -> In a sens -> host_vulnerable exl pel c 2 = true /\ In (fst a) vs) ->
  forall a c, In (a, c) res -> In a sens -> host_vulnerable exl pel c 2 = true.
Proof.
  induction ss as [|s ss IH]; intros hosts vs o res r H Inv a c Hin Hs; cbn [ensure_pass2] in H.
  - ret_ok H. apply (Inv a c Hin Hs).
  - destruct (mem_nat s vs || Nat.eqb s 0) eqn:E.
    + eapply IH; [exact H|exact Inv|exact Hin|exact Hs].
    + apply orb_false_iff in E. destruct E as [E1 E2].
      bind_ok H h r1 Hh. bind_ok H c' r2 Hmv.
      eapply IH; [exact H| |exact Hin|exact Hs].
      intros a0 c0 Hin0 Hs0. unfold update_host in Hin0. apply in_map_iff in Hin0.
      destruct Hin0 as [[a1 c1] [Hq Hq0]]. cbn [fst] in Hq.
      destruct (addr_eqb a1 (s, h)) eqn:EA.
      * apply addr_eqb_eq in EA. inversion Hq; subst a0 c0 a1.
        destruct (Inv _ _ Hq0 Hs0) as [_ Hvs]. cbn [fst] in Hvs.
        apply mem_nat_In in Hvs. congruence.
      * inversion Hq; subst a0 c0. destruct (Inv _ _ Hq0 Hs0) as [HV Hvs].
        split; [exact HV|right; exact Hvs].
Qed.

(* ====================================================================== *)
(* membership in subnet_services                                           *)
(* ====================================================================== *)
Lemma subnet_services_inv exl hosts nsrv t x : In x (subnet_services exl hosts nsrv t) ->
  exists a c e, In (a, c) hosts /\ fst a = t /\ In e exl /\ e_srv e = x /\ vuln_e c e = true.
Proof.
  unfold subnet_services. intros H. apply filter_In in H. destruct H as [_ H].
  apply existsb_exists in H. destruct H as [[a c] [Hin H]]. cbn [fst snd] in H.
  apply andb_true_iff in H. destruct H as [Ht H]. apply Nat.eqb_eq in Ht.
  apply existsb_exists in H. destruct H as [e [He H]].
  apply andb_true_iff in H. destruct H as [Hv Hsv]. apply Nat.eqb_eq in Hsv.
  exists a, c, e. auto.
Qed.

(* ====================================================================== *)
(* the three statements                                                    *)
(* ====================================================================== *)
Lemma C16_gen_sensitive_root_vulnerable :
  forall p o sc, gen_ok p o sc ->
    forall a v, In (a, v) (s_sens sc) -> exists c, In (a, c) (s_hosts sc) /\ cfg_root_vulnerable sc c = true.
Proof.
  intros p o sc G a v Hav.
  pose proof (C15_sensitive_proof p o sc G) as (a' & Z1 & _ & Z3 & Z4 & _).
  assert (Ha : In a (map fst (s_hosts sc))).
  { rewrite Z1 in Hav. destruct Hav as [E|[E|[]]]; inversion E; subst; assumption. }
  assert (Has : In a (map fst (s_sens sc))) by (apply (in_map fst) in Hav; exact Hav).
  clear Z1 Z3 Z4 a'.
  destruct G as [rest H]. gen_unpack H PO St.
  destruct St as [exl pel sens hosts0 pass1 hosts fw]. st_proj.
  destruct H as [H1 [H2 [H3 [H4 [H5 [H6 [H7 Hsc]]]]]]]. subst sc.
  cbn [s_hosts s_sens] in Ha, Has, Hav |- *.
  pose proof (params_ok_facts p PO) as (P1 & P2 & P3 & P4 & P5 & P6 & P7 & P8 & P9).
  destruct (final_hosts_ok _ _ _ _ _ _ _ _ _ _ _ _ _ _ _ H1 H4 H5 H6) as [_ F].
  pose proof (gen_exploits_facts _ _ _ _ H1) as [_ E2].
  pose proof (gen_privescs_facts _ _ _ _ P5 H2) as [_ [Q2 _]].
  assert (Hex : Forall (fun e => e_srv e < g_nsrv p) exl).
  { eapply Forall_impl; [|exact E2]. intros e He. apply He. }
  assert (Hpe : Forall (fun q => p_proc q < g_nproc p) pel).
  { eapply Forall_impl; [|exact Q2]. intros q Hq. apply Hq. }
  apply gen_hosts_loop_ok in H4; [|apply cs_inv_init]. destruct H4 as [_ K0].
  assert (L0 : len_ok (g_nsrv p) (g_nproc p) hosts0).
  { unfold len_ok. eapply Forall_impl; [|exact K0]. intros q Hq.
    destruct Hq as (_ & C2 & C3 & _). auto. }
  destruct (ensure_pass1_sens _ _ _ _ _ Hex Hpe _ _ _ _ _ H5 L0) as [_ V1].
  pose proof (ensure_pass2_sens _ _ _ (map fst sens) _ _ _ _ _ _ H6 V1) as V2.
  rewrite map_map in Ha. apply in_map_iff in Ha. destruct Ha as [[a0 hc] [Ea Hq]].
  cbn [fst] in Ea. subst a0.
  pose proof (V2 _ _ Hq Has) as HV.
  rewrite Forall_forall in F. pose proof (F _ Hq) as [Hos _]. cbn [snd] in Hos.
  eexists. split.
  - apply in_map_iff. exists (a, hc). split; [reflexivity|exact Hq].
  - cbn [fst snd]. rewrite cfg_root_vulnerable_corr by exact Hos.
    cbn [s_exploits s_privescs]. exact HV.
Qed.

Lemma C16_gen_every_subnet_vulnerable :
  forall p o sc, gen_ok p o sc ->
    forall t, (1 <= t < nsubnets sc)%nat ->
      exists a c e, In (a, c) (s_hosts sc) /\ fst a = t /\ In e (s_exploits sc) /\ cfg_vuln_e c e = true.
Proof.
  intros p o sc [rest H] t Ht. gen_unpack H PO St.
  destruct St as [exl pel sens hosts0 pass1 hosts fw]. st_proj.
  destruct H as [H1 [H2 [H3 [H4 [H5 [H6 [H7 Hsc]]]]]]]. subst sc.
  cbn [nsubnets s_subnets s_hosts s_exploits] in Ht |- *.
  destruct (final_hosts_ok _ _ _ _ _ _ _ _ _ _ _ _ _ _ _ H1 H4 H5 H6) as [_ F].
  destruct (stages_subnet_vuln _ _ _ _ _ _ _ _ _ _ _ _ _ _ H1 H4 H5 H6 t Ht)
    as (a & c & e & Hin & Ha & He & Hv).
  rewrite Forall_forall in F. pose proof (F _ Hin) as [Hos _]. cbn [snd] in Hos.
  exists a. eexists. exists e. split.
  - apply in_map_iff. exists (a, c). split; [reflexivity|exact Hin].
  - split; [exact Ha|]. split; [exact He|].
    cbn [fst snd]. rewrite cfg_vuln_e_corr by exact Hos. exact Hv.
Qed.

Lemma C16_gen_firewall_admits_usable_service :
  forall p o sc, gen_ok p o sc ->
    forall s t l, assoc (s, t) (s_fw sc) = Some l -> (1 <= t)%nat ->
      exists srv a c e, In srv l /\ In (a, c) (s_hosts sc) /\ fst a = t /\ In e (s_exploits sc)
                        /\ e_srv e = srv /\ cfg_vuln_e c e = true.
Proof.
  intros p o sc [rest H] s t l Ha Ht1. gen_unpack H PO St.
  destruct St as [exl pel sens hosts0 pass1 hosts fw]. st_proj.
  destruct H as [H1 [H2 [H3 [H4 [H5 [H6 [H7 Hsc]]]]]]]. subst sc.
  cbn [s_fw s_hosts s_exploits] in Ha |- *.
  pose proof (params_ok_facts p PO) as (P1 & P2 & P3 & P4 & P5 & P6 & P7 & P8 & P9).
  destruct (final_hosts_ok _ _ _ _ _ _ _ _ _ _ _ _ _ _ _ H1 H4 H5 H6) as [_ F].
  pose proof (stages_subnet_vuln _ _ _ _ _ _ _ _ _ _ _ _ _ _ H1 H4 H5 H6) as SV.
  set (subnets := gen_subnets (g_hosts p)) in *. set (n := length subnets) in *.
  pose proof (gen_exploits_facts _ _ _ _ H1) as [_ E2].
  assert (Hex : Forall (fun e => e_srv e < g_nsrv p) exl).
  { eapply Forall_impl; [|exact E2]. intros e He. apply He. }
  apply gen_fw_pairs_char in H7. destruct H7 as [K1 K2].
  assert (Htn : t < n).
  { assert (Hin : In (s, t) (map fst fw)) by (apply assoc_not_None; congruence).
    rewrite K1 in Hin. apply filter_In in Hin. destruct Hin as [Hp _].
    apply in_all_pairs in Hp. tauto. }
  assert (KE : fw_entry_ok p exl hosts (s, t) l).
  { apply assoc_Some_key in Ha. rewrite Forall_forall in K2. apply (K2 _ Ha). }
  assert (SVt : subnet_vuln exl hosts t) by (apply SV; split; [exact Ht1|exact Htn]).
  assert (Key : exists srv a c e, In srv l /\ In (a, c) hosts /\ fst a = t /\ In e exl
                                  /\ e_srv e = srv /\ vuln_e c e = true).
  { unfold fw_entry_ok in KE. cbn [fst snd] in KE.
    destruct KE as [(_ & _ & ->)|[_ [[-> _]|(chosen & o' & r' & Hpick & ->)]]].
    - destruct SVt as (a & c & e & Hin & Hat & He & Hv).
      exists (e_srv e), a, c, e. split; [|auto].
      apply in_seq. rewrite Forall_forall in Hex. specialize (Hex e He). lia.
    - pose proof (subnet_services_nonempty exl hosts (g_nsrv p) t Hex SVt) as NE.
      destruct (subnet_services exl hosts (g_nsrv p) t) as [|x av] eqn:EA; [cbn [length] in NE; lia|].
      assert (Hx : In x (subnet_services exl hosts (g_nsrv p) t)) by (rewrite EA; left; reflexivity).
      apply subnet_services_inv in Hx. destruct Hx as (a & c & e & Hin & Hat & He & Hsv & Hv).
      exists x, a, c, e. split; [left; reflexivity|auto].
    - apply pick_services_facts in Hpick. destruct Hpick as [Lc Fc].
      destruct chosen as [|x chosen]; [cbn [length] in Lc; lia|].
      inversion Fc as [|x' l' Hx Fc']; subst x' l'.
      pose proof (subnet_services_lt _ _ _ _ _ Hx) as Hlt.
      apply subnet_services_inv in Hx. destruct Hx as (a & c & e & Hin & Hat & He & Hsv & Hv).
      exists x, a, c, e. split; [|auto].
      unfold sort_nat. apply filter_In. split; [apply in_seq; lia|].
      apply mem_nat_In. left. reflexivity. }
  destruct Key as (srv & a & c & e & Hl & Hin & Hat & He & Hsv & Hv).
  rewrite Forall_forall in F. pose proof (F _ Hin) as [Hos _]. cbn [snd] in Hos.
  exists srv, a. eexists. exists e. split; [exact Hl|]. split.
  - apply in_map_iff. exists (a, c). split; [reflexivity|exact Hin].
  - split; [exact Hat|]. split; [exact He|]. split; [exact Hsv|].
    cbn [fst snd]. rewrite cfg_vuln_e_corr by exact Hos. exact Hv.
Qed.

Print Assumptions C16_gen_sensitive_root_vulnerable.
Print Assumptions C16_gen_every_subnet_vulnerable.
Print Assumptions C16_gen_firewall_admits_usable_service.
