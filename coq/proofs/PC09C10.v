(* PC09C10.v -- proofs of the vector-layout / observation-shape statements C09, C10. *)
From NasimV Require Import StmtObs.
From NasimV.proofs Require Import RowLemmas PC04.

(* ================= reusable helpers ================= *)
Lemma U_pos : 0 < U.
Proof. reflexivity. Qed.

Lemma U_neq0 : U <> 0.
Proof. pose proof U_pos. lia. Qed.

Lemma b2z_cases b : b2z b = 0 \/ b2z b = U.
Proof. destruct b; cbn [b2z]; auto. Qed.

Lemma z2b_b2z b : z2b (b2z b) = b.
Proof.
  unfold z2b, b2z. destruct b.
  - destruct (Z.eqb_spec U 0) as [E|E]; [exfalso; apply U_neq0; exact E | reflexivity].
  - reflexivity.
Qed.

Lemma nth_replicate (n j : nat) : nth j (replicate n 0) 0 = 0.
Proof.
  revert j. induction n as [|n IH]; intros [|j]; cbn [replicate nth]; auto.
Qed.

Lemma length_replicate {A : Type} (n : nat) (x : A) : length (replicate n x) = n.
Proof. induction n as [|n IH]; cbn [replicate length]; auto. Qed.

Lemma zat_zero_row : forall L j, zat (zero_row L) j = 0.
Proof. intros L j. unfold zat, zero_row. apply nth_replicate. Qed.

Lemma length_zero_row : forall L, length (zero_row L) = width L.
Proof. intros L. unfold zero_row. apply length_replicate. Qed.

Lemma nth_observe_aux L m (v : list Z) : forall (s j : nat),
  nth j (map (fun p : nat * Z => if mask_has m (col_group L (fst p)) then snd p else 0)
             (combine (seq s (length v)) v)) 0
  = if Nat.ltb j (length v)
    then (if mask_has m (col_group L (s + j)) then nth j v 0 else 0) else 0.
Proof.
  induction v as [|x v IH]; intros s j.
  - cbn [length seq combine map]. destruct j; reflexivity.
  - cbn [length seq combine map]. destruct j as [|j].
    + cbn [nth fst snd]. rewrite Nat.add_0_r. reflexivity.
    + cbn [nth]. rewrite IH.
      replace (S s + j)%nat with (s + S j)%nat by lia.
      change (Nat.ltb (S j) (S (length v))) with (Nat.ltb j (length v)). reflexivity.
Qed.

Lemma zat_observe : forall L m v j,
  zat (observe L m v) j
  = if Nat.ltb j (length v) then (if mask_has m (col_group L j) then zat v j else 0) else 0.
Proof.
  intros L m v j. unfold zat, observe. rewrite nth_observe_aux. reflexivity.
Qed.

Lemma length_observe : forall L m v, length (observe L m v) = length v.
Proof.
  intros L m v. unfold observe. rewrite map_length, combine_length, seq_length. lia.
Qed.

Lemma length_onehot n i : length (onehot n i) = n.
Proof. unfold onehot. rewrite map_length, seq_length. reflexivity. Qed.

Lemma width_eq L :
  width L = (L_b0 L + L_b1 L + 6 + L_nos L + L_nsrv L + L_nproc L)%nat.
Proof.
  unfold width, proc_start, srv_start, os_start, acc_idx, dval_idx, val_idx, disc_idx,
    reach_idx, comp_idx, hostaddr_idx. lia.
Qed.

Lemma length_encode_row : forall L h, fits L h -> length (encode_row L h) = width L.
Proof.
  intros L h (_ & _ & H1 & H2 & H3). rewrite width_eq. unfold encode_row.
  rewrite !app_length, !length_onehot, !map_length, H1, H2, H3. cbn [length]. lia.
Qed.

(* ================= list facts ================= *)
Lemma nth_map_seq (f : nat -> Z) (d : Z) : forall n s i,
  (i < n)%nat -> nth i (map f (seq s n)) d = f (s + i)%nat.
Proof.
  induction n as [|n IH]; intros s i Hi; [lia|].
  cbn [seq map]. destruct i as [|i].
  - cbn [nth]. rewrite Nat.add_0_r. reflexivity.
  - cbn [nth]. rewrite IH by lia. f_equal. lia.
Qed.

Lemma nth_onehot n k i : (i < n)%nat -> nth i (onehot n k) 0 = b2z (Nat.eqb i k).
Proof. intros Hi. unfold onehot. rewrite nth_map_seq by exact Hi. reflexivity. Qed.

Lemma nth_map_b2z (l : list bool) i : nth i (map b2z l) 0 = b2z (nthb l i).
Proof. unfold nthb. exact (map_nth b2z l false i). Qed.

Lemma skipn_length_app {A : Type} (l1 l2 : list A) : skipn (length l1) (l1 ++ l2) = l2.
Proof. induction l1 as [|x l1 IH]; cbn [length app skipn]; auto. Qed.

Lemma firstn_length_app {A : Type} (l1 l2 : list A) : firstn (length l1) (l1 ++ l2) = l1.
Proof. induction l1 as [|x l1 IH]; cbn [length app firstn]; [reflexivity | f_equal; exact IH]. Qed.

Lemma slice_mid {A : Type} (l1 l2 l3 : list A) (a b : nat) :
  a = length l1 -> b = (length l1 + length l2)%nat -> slice (l1 ++ l2 ++ l3) a b = l2.
Proof.
  intros -> ->. unfold slice. rewrite skipn_length_app.
  replace (length l1 + length l2 - length l1)%nat with (length l2) by lia.
  apply firstn_length_app.
Qed.

(* ================= argmax of a one-hot vector ================= *)
Lemma argmax_from_done (l : list Z) : forall i best besti,
  (forall x, In x l -> x <= best) -> argmax_from l i best besti = besti.
Proof.
  induction l as [|x l IH]; intros i best besti H; cbn [argmax_from]; [reflexivity|].
  assert (Hx : x <= best) by (apply H; left; reflexivity).
  destruct (Z.ltb_spec best x) as [C|C]; [lia|].
  apply IH. intros y Hy. apply H. right. exact Hy.
Qed.

Lemma onehot_entries_le_U (k : nat) (l : list nat) x :
  In x (map (fun j => b2z (Nat.eqb j k)) l) -> x <= U.
Proof.
  intros H. apply in_map_iff in H. destruct H as [j [<- _]].
  pose proof U_pos. destruct (b2z_cases (Nat.eqb j k)) as [-> | ->]; lia.
Qed.

Lemma argmax_from_onehot (k : nat) : forall n s besti,
  (s <= k < s + n)%nat ->
  argmax_from (map (fun j => b2z (Nat.eqb j k)) (seq s n)) s 0 besti = k.
Proof.
  induction n as [|n IH]; intros s besti Hk; [lia|].
  cbn [seq map argmax_from]. destruct (Nat.eqb_spec s k) as [E|E].
  - subst s. cbn [b2z].
    destruct (Z.ltb_spec 0 U) as [C|C]; [|pose proof U_pos; lia].
    apply argmax_from_done. intros x Hx. eapply onehot_entries_le_U; eauto.
  - cbn [b2z]. rewrite Z.ltb_irrefl. apply IH. lia.
Qed.

Lemma argmax_onehot n k : (k < n)%nat -> argmax (onehot n k) = k.
Proof.
  intros Hk. unfold onehot. destruct n as [|n]; [lia|].
  cbn [seq map argmax]. destruct k as [|k].
  - cbn [Nat.eqb b2z]. apply argmax_from_done. intros x Hx. eapply onehot_entries_le_U; eauto.
  - cbn [Nat.eqb b2z]. apply argmax_from_onehot. lia.
Qed.

(* ================= C09: layout ================= *)
Lemma C09_layout_order_proof : C09_layout_order_stmt.
Proof.
  intros L.
  unfold width, proc_start, srv_start, os_start, acc_idx, dval_idx, val_idx, disc_idx,
    reach_idx, comp_idx, hostaddr_idx, subnet_idx.
  repeat split; lia.
Qed.

Lemma C09_dims_proof : C09_dims_stmt.
Proof.
  intros sc. unfold obs_dims, state_dims. cbn [fst snd].
  rewrite width_eq. unfold layout_of. cbn [L_b0 L_b1 L_nos L_nsrv L_nproc].
  repeat split.
Qed.

(* block decomposition of an encoded row *)
Definition blkA L h := onehot (L_b0 L) (fst (h_addr h)).
Definition blkB L h := onehot (L_b1 L) (snd (h_addr h)).
Definition blkC (h : hrow) :=
  [b2z (h_comp h); b2z (h_reach h); b2z (h_disc h); h_val h; h_dval h; U * Z.of_nat (h_acc h)].

Lemma encode_row_blocks L h :
  encode_row L h = blkA L h ++ blkB L h ++ blkC h ++ map b2z (h_os h) ++ map b2z (h_srv h)
                   ++ map b2z (h_proc h).
Proof. reflexivity. Qed.

Lemma nth_skip2 (A B R : list Z) i :
  nth (length A + length B + i) (A ++ B ++ R) 0 = nth i R 0.
Proof.
  replace (length A + length B + i)%nat with (length A + (length B + i))%nat by lia.
  rewrite !app_nth2_plus. reflexivity.
Qed.

Lemma C09_encode_entries_proof : C09_encode_entries_stmt.
Proof.
  intros L h Hf v. pose proof (length_encode_row L h Hf) as HL.
  destruct Hf as (F0 & F1 & F2 & F3 & F4).
  pose proof (C09_layout_order_proof L) as
    (I0 & I1 & I2 & I3 & I4 & I5 & I6 & I7 & I8 & I9 & I10 & I11).
  subst v. split; [exact HL|].
  rewrite I0, I1, I2, I3, I4, I5, I6, I7, I8, I9, I10.
  rewrite encode_row_blocks. unfold zat.
  assert (LA : length (blkA L h) = L_b0 L) by apply length_onehot.
  assert (LB : length (blkB L h) = L_b1 L) by apply length_onehot.
  assert (LC : length (blkC h) = 6%nat) by reflexivity.
  assert (LD : length (map b2z (h_os h)) = L_nos L) by (rewrite map_length; exact F2).
  assert (LE : length (map b2z (h_srv h)) = L_nsrv L) by (rewrite map_length; exact F3).
  rewrite <- LA, <- LB.
  split; [|split; [|repeat split]].
  - intros i Hi. cbn [Nat.add]. rewrite app_nth1 by lia. apply nth_onehot. lia.
  - intros i Hi. rewrite app_nth2_plus. rewrite app_nth1 by lia. apply nth_onehot. lia.
  - rewrite <- (Nat.add_0_r (length (blkA L h) + length (blkB L h))). rewrite nth_skip2. reflexivity.
  - rewrite nth_skip2. reflexivity.
  - rewrite nth_skip2. reflexivity.
  - rewrite nth_skip2. reflexivity.
  - rewrite nth_skip2. reflexivity.
  - rewrite nth_skip2. reflexivity.
  - intros i Hi.
    replace (length (blkA L h) + length (blkB L h) + 6 + i)%nat
      with (length (blkA L h) + length (blkB L h) + (length (blkC h) + i))%nat by lia.
    rewrite nth_skip2, app_nth2_plus, app_nth1 by lia. apply nth_map_b2z.
  - intros i Hi.
    replace (length (blkA L h) + length (blkB L h) + 6 + L_nos L + i)%nat
      with (length (blkA L h) + length (blkB L h)
            + (length (blkC h) + (length (map b2z (h_os h)) + i)))%nat by lia.
    rewrite nth_skip2, !app_nth2_plus.
    rewrite app_nth1 by (rewrite map_length; lia). apply nth_map_b2z.
  - intros i Hi.
    replace (length (blkA L h) + length (blkB L h) + 6 + L_nos L + L_nsrv L + i)%nat
      with (length (blkA L h) + length (blkB L h)
            + (length (blkC h) + (length (map b2z (h_os h)) + (length (map b2z (h_srv h)) + i))))%nat
      by lia.
    rewrite nth_skip2, !app_nth2_plus. apply nth_map_b2z.
Qed.

(* ================= C09: round trip ================= *)
Lemma to_nat_U_mul n : Z.to_nat (U * Z.of_nat n / U) = n.
Proof. rewrite Z.mul_comm, Z.div_mul by exact U_neq0. apply Nat2Z.id. Qed.

Lemma map_z2b_b2z (l : list bool) : map z2b (map b2z l) = l.
Proof.
  rewrite map_map. rewrite <- (map_id l) at 2. apply map_ext. intros b. apply z2b_b2z.
Qed.

Lemma C09_roundtrip_proof : C09_roundtrip_stmt.
Proof.
  intros L h Hf.
  pose proof (C09_encode_entries_proof L h Hf) as E. cbv zeta in E.
  destruct E as (HL & _ & _ & E1 & E2 & E3 & E4 & E5 & E6 & _).
  unfold decode_row. rewrite HL, Nat.eqb_refl. cbn [negb].
  rewrite E1, E2, E3, E4, E5, E6, !z2b_b2z, to_nat_U_mul.
  destruct Hf as (F0 & F1 & F2 & F3 & F4).
  pose proof (C09_layout_order_proof L) as
    (I0 & I1 & I2 & I3 & I4 & I5 & I6 & I7 & I8 & I9 & I10 & I11).
  assert (LA : length (blkA L h) = L_b0 L) by apply length_onehot.
  assert (LB : length (blkB L h) = L_b1 L) by apply length_onehot.
  assert (LC : length (blkC h) = 6%nat) by reflexivity.
  assert (LD : length (map b2z (h_os h)) = L_nos L) by (rewrite map_length; exact F2).
  assert (LE : length (map b2z (h_srv h)) = L_nsrv L) by (rewrite map_length; exact F3).
  assert (LF : length (map b2z (h_proc h)) = L_nproc L) by (rewrite map_length; exact F4).
  assert (S1 : slice (encode_row L h) (subnet_idx L) (hostaddr_idx L) = blkA L h).
  { rewrite encode_row_blocks.
    apply (slice_mid [] (blkA L h) _); cbn [length]; lia. }
  assert (S2 : slice (encode_row L h) (hostaddr_idx L) (comp_idx L) = blkB L h).
  { rewrite encode_row_blocks. apply slice_mid; lia. }
  assert (S3 : slice (encode_row L h) (os_start L) (srv_start L) = map b2z (h_os h)).
  { rewrite encode_row_blocks.
    rewrite (app_assoc (blkA L h)), (app_assoc (blkA L h ++ blkB L h)).
    apply slice_mid; rewrite !app_length; lia. }
  assert (S4 : slice (encode_row L h) (srv_start L) (proc_start L) = map b2z (h_srv h)).
  { rewrite encode_row_blocks.
    rewrite (app_assoc (blkA L h)), (app_assoc (blkA L h ++ blkB L h)),
      (app_assoc ((blkA L h ++ blkB L h) ++ blkC h)).
    apply slice_mid; rewrite !app_length; lia. }
  assert (S5 : slice (encode_row L h) (proc_start L) (width L) = map b2z (h_proc h)).
  { rewrite encode_row_blocks.
    rewrite (app_assoc (blkA L h)), (app_assoc (blkA L h ++ blkB L h)),
      (app_assoc ((blkA L h ++ blkB L h) ++ blkC h)),
      (app_assoc (((blkA L h ++ blkB L h) ++ blkC h) ++ map b2z (h_os h))).
    rewrite <- (app_nil_r (map b2z (h_proc h))) at 1.
    apply slice_mid; rewrite !app_length; lia. }
  rewrite S1, S2, S3, S4, S5, !map_z2b_b2z.
  unfold blkA, blkB. rewrite !argmax_onehot by assumption.
  destruct h as [[a0 a1] ? ? ? ? ? ? ? ? ?]. reflexivity.
Qed.

(* ================= C09: well-formed states fit ================= *)
Lemma nth_le_maxl (l : list nat) : forall s, (nth s l O <= maxl l)%nat.
Proof.
  induction l as [|x l IH]; intros [|s]; unfold maxl; cbn [nth fold_right]; try lia.
  specialize (IH s). unfold maxl in IH. lia.
Qed.

Lemma wf_bounds sc : wf_scenario sc = true ->
  (nsubnets sc <= fst (s_bounds sc))%nat /\ (maxl (s_subnets sc) <= snd (s_bounds sc))%nat.
Proof.
  intros H. unfold wf_scenario in H. repeat rewrite andb_true_iff in H.
  rewrite <- !Nat.leb_le. tauto.
Qed.

Lemma wf_host_cfg sc e : wf_scenario sc = true -> In e (s_hosts sc) -> wf_cfg sc (snd e) = true.
Proof.
  intros H Hin.
  assert (F : forallb (fun e => wf_cfg sc (snd e)) (s_hosts sc) = true)
    by (unfold wf_scenario in H; repeat rewrite andb_true_iff in H; tauto).
  rewrite forallb_forall in F. apply F. exact Hin.
Qed.

Lemma wf_cfg_lengths sc c : wf_cfg sc c = true ->
  length (c_os c) = s_nos sc /\ length (c_srv c) = s_nsrv sc /\ length (c_proc c) = s_nproc sc.
Proof.
  unfold wf_cfg. rewrite !andb_true_iff, !Nat.eqb_eq. tauto.
Qed.

Lemma fits_of_cfg sc x c h :
  wf_scenario sc = true -> In (x, c) (s_hosts sc) -> cfg_matches x c h = true ->
  fits (layout_of sc) h.
Proof.
  intros WF Hin Hm. apply cfg_matches_spec in Hm.
  destruct Hm as (M1 & M2 & M3 & M4 & M5 & M6).
  pose proof (wf_host_cfg sc (x, c) WF Hin) as Hc. cbn [snd] in Hc.
  apply wf_cfg_lengths in Hc. destruct Hc as (C1 & C2 & C3).
  pose proof (wf_valid_addr sc x WF (in_cfg_addresses sc x c Hin)) as Hv.
  unfold valid_addr in Hv. rewrite !andb_true_iff, !Nat.ltb_lt in Hv.
  destruct Hv as [[V0 V1] V2].
  destruct (wf_bounds sc WF) as [B0 B1].
  pose proof (nth_le_maxl (s_subnets sc) (fst x)) as Hm. fold (subnet_size sc (fst x)) in Hm.
  unfold fits, layout_of. cbn [L_b0 L_b1 L_nos L_nsrv L_nproc].
  rewrite M1, M4, M5, M6. repeat split; lia.
Qed.

Lemma in_combine_r_exists {A B : Type} (l : list A) (l' : list B) y :
  length l' = length l -> In y l' -> exists x, In (x, y) (combine l l').
Proof.
  revert l'. induction l as [|a l IH]; intros [|b l'] HL Hin; cbn [length] in HL;
    try discriminate; try contradiction.
  destruct Hin as [->|Hin].
  - exists a. left. reflexivity.
  - destruct (IH l') as [x Hx]; [lia | exact Hin |]. exists x. right. exact Hx.
Qed.

Lemma wf_state_member sc st h :
  wf_state sc st = true -> In h st ->
  exists x c, In (x, c) (s_hosts sc) /\ cfg_matches x c h = true /\ (h_acc h <= 2)%nat.
Proof.
  intros Hwf Hin. unfold wf_state in Hwf. apply andb_true_iff in Hwf.
  destruct Hwf as [HL Hf]. apply Nat.eqb_eq in HL.
  destruct (in_combine_r_exists (s_hosts sc) st h HL Hin) as [[x c] Hx].
  rewrite forallb_forall in Hf. specialize (Hf _ Hx). cbn [fst snd] in Hf.
  apply andb_true_iff in Hf. destruct Hf as [H1 H2]. apply Nat.leb_le in H2.
  exists x, c. split; [|auto]. apply in_combine_l in Hx. exact Hx.
Qed.

Lemma C09_wf_state_fits_proof : C09_wf_state_fits_stmt.
Proof.
  intros sc st WF Hwf. apply Forall_forall. intros h Hin.
  destruct (wf_state_member sc st h Hwf Hin) as (x & c & Hc & Hm & _).
  eapply fits_of_cfg; eauto.
Qed.

Lemma C09_initial_decodes_to_scenario_proof : C09_initial_decodes_to_scenario_stmt.
Proof.
  intros sc WF.
  pose proof (C09_wf_state_fits_proof sc (initial_state sc) WF (wf_initial_state sc)) as HF.
  split; [|exact HF].
  unfold encode_state. rewrite map_map. unfold initial_state. rewrite map_map.
  apply map_ext_in. intros e He. apply C09_roundtrip_proof.
  rewrite Forall_forall in HF. apply HF. unfold initial_state.
  apply in_map_iff. exists e. auto.
Qed.

(* ================= C09: observation shape ================= *)
Lemma width_ge6 L : (6 <= width L)%nat.
Proof. rewrite width_eq. lia. Qed.

Lemma length_aux_row L r : length (aux_row L r) = width L.
Proof.
  unfold aux_row. rewrite app_length, length_replicate. cbn [length].
  pose proof (width_ge6 L). lia.
Qed.

Lemma Forall_replicate {A : Type} (P : A -> Prop) n x : P x -> Forall P (replicate n x).
Proof. intros H. induction n as [|n IH]; cbn [replicate]; constructor; auto. Qed.

Lemma length_flatten w (rows : list (list Z)) :
  Forall (fun r => length r = w) rows -> length (flatten rows) = (length rows * w)%nat.
Proof.
  unfold flatten. induction 1 as [|r rows Hr _ IH]; cbn [concat length]; [reflexivity|].
  rewrite app_length, IH, Hr. lia.
Qed.

Lemma length_host_obs_row sc L a r i x h :
  fits L h -> length (host_obs_row sc L a r i x h) = width L.
Proof.
  intros Hf. unfold host_obs_row.
  destruct (addr_eqb x (a_tgt a)); [rewrite length_observe; apply length_encode_row; exact Hf|].
  destruct (is_subnet_scan a && nthb (r_disc r) i).
  - rewrite length_observe. apply length_encode_row. exact Hf.
  - apply length_zero_row.
Qed.

Lemma in_indexed_rows sc (st : state) (q : nat * (addr * hrow)) :
  In q (combine (seq 0 (length st)) (rows sc st)) -> In (snd (snd q)) st.
Proof.
  intros H. destruct q as [i [x h]]. apply in_combine_r in H. unfold rows in H.
  apply in_combine_r in H. exact H.
Qed.

Lemma length_indexed_rows sc st :
  length st = length (addresses sc) ->
  length (combine (seq 0 (length st)) (rows sc st)) = length st.
Proof.
  intros HL. rewrite combine_length, seq_length, length_rows by exact HL. lia.
Qed.

(* host part and last row of both kinds of observation *)
Lemma get_observation_split sc st a r fully :
  exists body, get_observation sc st a r fully = body ++ [aux_row (layout_of sc) r]
    /\ (length st = length (addresses sc) -> length body = length st)
    /\ (Forall (fits (layout_of sc)) st ->
        Forall (fun row => length row = width (layout_of sc)) body).
Proof.
  unfold get_observation. cbv zeta. destruct fully.
  - eexists. split; [reflexivity|]. split.
    + intros _. unfold encode_state. apply map_length.
    + intros HF. unfold encode_state. rewrite Forall_map.
      eapply Forall_impl; [|exact HF]. intros h Hh. apply length_encode_row. exact Hh.
  - destruct (is_noop a || negb (r_success r)).
    + eexists. split; [reflexivity|]. split.
      * intros _. apply map_length.
      * intros _. rewrite Forall_map. apply Forall_forall. intros h _. apply length_zero_row.
    + eexists. split; [reflexivity|]. split.
      * intros HL. rewrite map_length. apply length_indexed_rows. exact HL.
      * intros HF. rewrite Forall_map. apply Forall_forall. intros q Hq.
        apply length_host_obs_row. rewrite Forall_forall in HF. apply HF.
        eapply in_indexed_rows; eauto.
Qed.

Lemma initial_observation_split sc st fully :
  exists body, initial_observation sc st fully = body ++ [zero_row (layout_of sc)]
    /\ length body = length st
    /\ (Forall (fits (layout_of sc)) st ->
        Forall (fun row => length row = width (layout_of sc)) body).
Proof.
  unfold initial_observation. cbv zeta. destruct fully.
  - eexists. split; [reflexivity|]. split.
    + unfold encode_state. apply map_length.
    + intros HF. unfold encode_state. rewrite Forall_map.
      eapply Forall_impl; [|exact HF]. intros h Hh. apply length_encode_row. exact Hh.
  - eexists. split; [reflexivity|]. split.
    + apply map_length.
    + intros HF. rewrite Forall_map. eapply Forall_impl; [|exact HF]. intros h Hh. cbv beta.
      destruct (h_reach h).
      * rewrite length_observe. apply length_encode_row. exact Hh.
      * apply length_zero_row.
Qed.

Lemma C09_obs_shape_proof : C09_obs_shape_stmt.
Proof.
  intros sc st a r fully WF Hwf o L.
  pose proof (wf_state_length _ _ Hwf) as HL.
  pose proof (C09_wf_state_fits_proof sc st WF Hwf) as HF.
  destruct (get_observation_split sc st a r fully) as (body & E & B1 & B2).
  specialize (B1 HL). specialize (B2 HF). fold L in E, B2.
  assert (Hrows : Forall (fun row => length row = width L) o).
  { subst o. rewrite E. apply Forall_app. split; [exact B2|].
    constructor; [apply length_aux_row | constructor]. }
  assert (Hlen : length o = S (length st)).
  { subst o. rewrite E, app_length, B1. cbn [length]. lia. }
  split; [exact Hlen|]. split; [exact Hrows|]. split; [|split; [|split]].
  - subst o. rewrite E, <- B1. apply nth_middle.
  - reflexivity.
  - unfold aux_row. cbn [app skipn]. apply Forall_replicate. reflexivity.
  - rewrite (length_flatten (width L) o Hrows), Hlen. reflexivity.
Qed.

Lemma C09_flatten_unflatten_proof : C09_flatten_unflatten_stmt.
Proof.
  intros w rows Hw HF. unfold flatten.
  induction HF as [|r rows Hr _ IH]; [reflexivity|].
  cbn [length concat unflatten].
  destruct (r ++ concat rows) as [|z t] eqn:E.
  - exfalso. destruct r; cbn [length app] in *; [lia | discriminate].
  - rewrite <- E, <- Hr, firstn_length_app, skipn_length_app. rewrite Hr, IH. reflexivity.
Qed.

(* ================= C10 ================= *)
Lemma minl_le_d d l : minl d l <= d.
Proof. unfold minl. induction l as [|x l IH]; cbn [fold_right]; lia. Qed.

Lemma minl_le_in d l x : In x l -> minl d l <= x.
Proof.
  unfold minl. induction l as [|y l IH]; intros H; [contradiction|].
  cbn [fold_right]. destruct H as [->|H]; [lia|]. specialize (IH H). lia.
Qed.

Lemma maxlZ_ge_d d l : d <= maxlZ d l.
Proof. unfold maxlZ. induction l as [|x l IH]; cbn [fold_right]; lia. Qed.

Lemma maxlZ_ge_in d l x : In x l -> x <= maxlZ d l.
Proof.
  unfold maxlZ. induction l as [|y l IH]; intros H; [contradiction|].
  cbn [fold_right]. destruct H as [->|H]; [lia|]. specialize (IH H). lia.
Qed.

Definition inb (sc : scenario) (z : Z) : Prop := obs_low sc <= z <= obs_high sc.

Lemma inb_0 sc : inb sc 0.
Proof.
  unfold inb, obs_low, obs_high. split; [apply minl_le_d|].
  pose proof U_pos. etransitivity; [|apply maxlZ_ge_d]. lia.
Qed.

Lemma inb_U sc : inb sc U.
Proof.
  unfold inb, obs_low, obs_high. split; [|apply maxlZ_ge_d].
  pose proof U_pos. etransitivity; [apply minl_le_d|]. lia.
Qed.

Lemma inb_b2z sc b : inb sc (b2z b).
Proof. destruct b; cbn [b2z]; [apply inb_U | apply inb_0]. Qed.

Lemma inb_between sc z : 0 <= z <= 2 * U -> inb sc z.
Proof.
  intros Hz. destruct (inb_0 sc) as [L0 _]. split; [lia|].
  etransitivity; [apply (proj2 Hz)|]. unfold obs_high. apply maxlZ_ge_in.
  rewrite !in_app_iff. right. right. left. reflexivity.
Qed.

Lemma inb_val sc x c : In (x, c) (s_hosts sc) -> inb sc (c_val c).
Proof.
  intros Hin. unfold inb, obs_low, obs_high.
  assert (H : In (c_val c) (map (fun e : addr * hostcfg => c_val (snd e)) (s_hosts sc))).
  { apply in_map_iff. exists (x, c). auto. }
  split.
  - apply minl_le_in. rewrite in_app_iff. left. exact H.
  - apply maxlZ_ge_in. rewrite in_app_iff. left. exact H.
Qed.

Lemma inb_dval sc x c : In (x, c) (s_hosts sc) -> inb sc (c_dval c).
Proof.
  intros Hin. unfold inb, obs_low, obs_high.
  assert (H : In (c_dval c) (map (fun e : addr * hostcfg => c_dval (snd e)) (s_hosts sc))).
  { apply in_map_iff. exists (x, c). auto. }
  split.
  - apply minl_le_in. rewrite in_app_iff. right. exact H.
  - apply maxlZ_ge_in. rewrite !in_app_iff. right. left. exact H.
Qed.

Lemma Forall_inb_onehot sc n k : Forall (inb sc) (onehot n k).
Proof. unfold onehot. rewrite Forall_map. apply Forall_forall. intros j _. apply inb_b2z. Qed.

Lemma Forall_inb_map_b2z sc l : Forall (inb sc) (map b2z l).
Proof. rewrite Forall_map. apply Forall_forall. intros j _. apply inb_b2z. Qed.

Lemma encode_row_inb sc st h :
  wf_state sc st = true -> In h st -> Forall (inb sc) (encode_row (layout_of sc) h).
Proof.
  intros Hwf Hin.
  destruct (wf_state_member sc st h Hwf Hin) as (x & c & Hc & Hm & Hacc).
  apply cfg_matches_spec in Hm. destruct Hm as (_ & M2 & M3 & _).
  unfold encode_row. repeat (apply Forall_app; split);
    try apply Forall_inb_onehot; try apply Forall_inb_map_b2z.
  repeat (apply Forall_cons; [try apply inb_b2z|]); [| | |apply Forall_nil].
  - rewrite M2. eapply inb_val; eauto.
  - rewrite M3. eapply inb_dval; eauto.
  - apply inb_between. pose proof U_pos. nia.
Qed.

Lemma observe_inb sc L m v : Forall (inb sc) v -> Forall (inb sc) (observe L m v).
Proof.
  intros HF. unfold observe. rewrite Forall_map. apply Forall_forall. intros [i z] Hp.
  cbn [fst snd]. destruct (mask_has m (col_group L i)); [|apply inb_0].
  apply in_combine_r in Hp. rewrite Forall_forall in HF. apply HF. exact Hp.
Qed.

Lemma zero_row_inb sc L : Forall (inb sc) (zero_row L).
Proof. unfold zero_row. apply Forall_replicate. apply inb_0. Qed.

Lemma aux_row_inb sc L r : Forall (inb sc) (aux_row L r).
Proof.
  unfold aux_row. apply Forall_app. split.
  - repeat (apply Forall_cons; [apply inb_b2z|]). apply Forall_nil.
  - apply Forall_replicate. apply inb_0.
Qed.

Lemma C10_in_bounds_proof : C10_in_bounds_stmt.
Proof.
  intros sc st a r fully WF Hwf. unfold in_box. fold (inb sc).
  assert (HE : forall h, In h st -> Forall (inb sc) (encode_row (layout_of sc) h))
    by (intros h Hh; eapply encode_row_inb; eauto).
  split.
  - unfold get_observation. cbv zeta. destruct fully; [|destruct (is_noop a || negb (r_success r))];
      apply Forall_app; (split; [|constructor; [apply aux_row_inb | constructor]]).
    + unfold encode_state. rewrite Forall_map. apply Forall_forall. exact HE.
    + rewrite Forall_map. apply Forall_forall. intros h _. apply zero_row_inb.
    + rewrite Forall_map. apply Forall_forall. intros q Hq.
      apply in_indexed_rows in Hq. unfold host_obs_row.
      destruct (addr_eqb (fst (snd q)) (a_tgt a)); [apply observe_inb; auto|].
      destruct (is_subnet_scan a && nthb (r_disc r) (fst q));
        [apply observe_inb; auto | apply zero_row_inb].
  - unfold initial_observation. cbv zeta.
    apply Forall_app; (split; [|constructor; [apply zero_row_inb | constructor]]).
    destruct fully.
    + unfold encode_state. rewrite Forall_map. apply Forall_forall. exact HE.
    + rewrite Forall_map. apply Forall_forall. intros h Hh.
      destruct (h_reach h); [apply observe_inb; auto | apply zero_row_inb].
Qed.

Lemma C10_shape_proof : C10_shape_stmt.
Proof.
  intros sc st a r fully WF Hwf o o0.
  destruct (C09_dims_proof sc) as (_ & _ & D). rewrite D. cbn [fst snd].
  pose proof (wf_state_length _ _ Hwf) as HL.
  assert (HS : length st = length (s_hosts sc)).
  { rewrite HL. unfold addresses. apply map_length. }
  pose proof (C09_wf_state_fits_proof sc st WF Hwf) as HF.
  pose proof (C09_obs_shape_proof sc st a r fully WF Hwf) as H. cbv zeta in H.
  destruct H as (H1 & H2 & _ & _ & _ & H3). fold o in H1, H2, H3.
  rewrite <- HS.
  destruct (initial_observation_split sc st fully) as (body & E & B1 & B2).
  specialize (B2 HF). fold o0 in E.
  assert (Hrows : Forall (fun row => length row = width (layout_of sc)) o0).
  { rewrite E. apply Forall_app. split; [exact B2|].
    constructor; [apply length_zero_row | constructor]. }
  assert (Hlen : length o0 = S (length st)).
  { rewrite E, app_length, B1. cbn [length]. lia. }
  repeat split; auto.
  rewrite (length_flatten _ o0 Hrows), Hlen. reflexivity.
Qed.

Print Assumptions C09_layout_order_proof.
Print Assumptions C09_dims_proof.
Print Assumptions C09_encode_entries_proof.
Print Assumptions C09_roundtrip_proof.
Print Assumptions C09_initial_decodes_to_scenario_proof.
Print Assumptions C09_wf_state_fits_proof.
Print Assumptions C09_obs_shape_proof.
Print Assumptions C09_flatten_unflatten_proof.
Print Assumptions C10_in_bounds_proof.
Print Assumptions C10_shape_proof.
