From NasimV Require Import HostGates.

Lemma hostgates_classify_proof : hostgates_classify_stmt.
Proof.
  unfold hostgates_classify_stmt, host_outcome, hatoms_of, host_perform, apply_houtcome,
    is_exploit, is_privesc, os_match, gain_value, gain_access.
  intros h a.
  cbn [ha_srvscan ha_osscan ha_exploit ha_runs_srv ha_os_none ha_runs_os ha_is_root ha_grant_root
       ha_comp ha_req_le ha_procscan ha_privesc ha_proc_none ha_runs_proc].
  destruct (a_kind a) eqn:K; cbn [akind_eqb andb orb negb fst snd];
  destruct (a_os a) as [o|]; cbn [andb orb negb];
  repeat match goal with
  | |- context [nthb ?l ?i] => destruct (nthb l i) eqn:?; cbn [andb orb negb fst snd]
  | |- context [h_comp h] => destruct (h_comp h) eqn:?; cbn [andb orb negb fst snd]
  | |- context [Nat.leb (a_req a) (h_acc h)] => destruct (Nat.leb (a_req a) (h_acc h)) eqn:?; cbn [andb orb negb fst snd]
  | |- context [Nat.eqb (h_acc h) ROOT] => destruct (Nat.eqb (h_acc h) ROOT) eqn:?; cbn [andb orb negb fst snd]
  | |- context [Nat.eqb (a_acc a) ROOT] => destruct (Nat.eqb (a_acc a) ROOT) eqn:?; cbn [andb orb negb fst snd]
  end;
  repeat split; try reflexivity;
  try (destruct h; cbn [set_comp set_acc h_addr h_comp h_reach h_disc h_val h_dval h_acc h_os h_srv h_proc] in *;
       repeat match goal with H : Nat.eqb _ _ = true |- _ => apply Nat.eqb_eq in H; subst end; reflexivity).
  all: destruct h; reflexivity.
Qed.
Print Assumptions hostgates_classify_proof.
