(* PGen2.v -- C15_hosts (host configurations produced by the generator) and C14_prefix
   (the result depends only on the draws consumed). *)
From NasimV Require Import StmtGen.
From NasimV.proofs Require Import GenLemmas.

Definition hcfg_ok (p : gparams) (c : hcfg) : Prop :=
  (hc_os c < g_nos p)%nat /\ length (hc_srv c) = g_nsrv p /\ length (hc_proc c) = g_nproc p
  /\ (1 <= count_true (hc_srv c))%nat /\ (1 <= count_true (hc_proc c))%nat.

(* ================= count_true, set_true, onehot_b ================= *)
Lemma count_true_cons b l : count_true (b :: l) = (if b then S (count_true l) else count_true l).
Proof. destruct b; reflexivity. Qed.

Definition set_true_from (s : nat) (l : list bool) (i : nat) : list bool :=
  map (fun q : nat * bool => if Nat.eqb (fst q) i then true else snd q) (combine (seq s (length l)) l).

Lemma set_true_from_cons s b l i :
  set_true_from s (b :: l) i = (if Nat.eqb s i then true else b) :: set_true_from (S s) l i.
Proof. reflexivity. Qed.

Lemma set_true_from_facts l : forall s i,
  length (set_true_from s l i) = length l
  /\ (count_true l <= count_true (set_true_from s l i))%nat
  /\ ((s <= i < s + length l)%nat -> (1 <= count_true (set_true_from s l i))%nat).
Proof.
  induction l as [|b l IH]; intros s i.
  - cbn. split; [reflexivity|]. split; lia.
  - rewrite set_true_from_cons. destruct (IH (S s) i) as [IH1 [IH2 IH3]].
    cbn [length]. rewrite !count_true_cons.
    destruct (Nat.eqb s i) eqn:E.
    + split; [lia|]. destruct b; split; lia.
    + apply Nat.eqb_neq in E. split; [lia|]. destruct b; (split; [lia|]).
      * intros _. lia.
      * intros Hr. apply IH3. lia.
Qed.

Lemma set_true_length l i : length (set_true l i) = length l.
Proof. apply (set_true_from_facts l 0%nat i). Qed.

Lemma set_true_mono l i : (count_true l <= count_true (set_true l i))%nat.
Proof. apply (set_true_from_facts l 0%nat i). Qed.

Lemma set_true_ge1 l i : (i < length l)%nat -> (1 <= count_true (set_true l i))%nat.
Proof. intros H. apply (set_true_from_facts l 0%nat i). lia. Qed.

Lemma replicate_length {A} n (x : A) : length (replicate n x) = n.
Proof. induction n as [|n IH]; cbn [replicate length]; [reflexivity|]. rewrite IH. reflexivity. Qed.

Lemma onehot_count0 n : forall s i, (i < s)%nat ->
  count_true (map (fun j => Nat.eqb j i) (seq s n)) = 0%nat.
Proof.
  induction n as [|n IH]; intros s i H; [reflexivity|].
  cbn [seq map]. rewrite count_true_cons.
  destruct (Nat.eqb s i) eqn:E; [apply Nat.eqb_eq in E; lia|]. apply IH. lia.
Qed.

Lemma onehot_count1 n : forall s i, (s <= i < s + n)%nat ->
  count_true (map (fun j => Nat.eqb j i) (seq s n)) = 1%nat.
Proof.
  induction n as [|n IH]; intros s i H; [lia|].
  cbn [seq map]. rewrite count_true_cons.
  destruct (Nat.eqb s i) eqn:E.
  - apply Nat.eqb_eq in E. rewrite onehot_count0; [reflexivity|lia].
  - apply Nat.eqb_neq in E. apply IH. lia.
Qed.

Lemma onehot_b_count n i : (i < n)%nat -> count_true (onehot_b n i) = 1%nat.
Proof. intros H. unfold onehot_b. apply onehot_count1. lia. Qed.

Lemma onehot_b_length n i : length (onehot_b n i) = n.
Proof. unfold onehot_b. rewrite map_length, seq_length. reflexivity. Qed.

(* ================= bool_perms ================= *)
Lemma bool_perms_facts m :
  Forall (fun q => length q = S m) (bool_perms (S m))
  /\ exists init, bool_perms (S m) = init ++ [replicate (S m) false]
       /\ Forall (fun q => (1 <= count_true q)%nat) init.
Proof.
  induction m as [|m [IHl [init [IHe IHc]]]].
  - split.
    + repeat constructor.
    + exists [[true]]. split; [reflexivity|]. repeat constructor.
  - change (bool_perms (S (S m))) with (flat_map (fun q => [true :: q; false :: q]) (bool_perms (S m))).
    split.
    + apply Forall_forall. intros x Hx. apply in_flat_map in Hx. destruct Hx as [q [Hq Hx]].
      rewrite Forall_forall in IHl. specialize (IHl q Hq).
      destruct Hx as [<-|[<-|[]]]; cbn [length]; lia.
    + exists (flat_map (fun q => [true :: q; false :: q]) init ++ [true :: replicate (S m) false]).
      split.
      * rewrite IHe. rewrite flat_map_app. cbn [flat_map app]. rewrite <- app_assoc. reflexivity.
      * apply Forall_app. split.
        -- apply Forall_forall. intros x Hx. apply in_flat_map in Hx. destruct Hx as [q [Hq Hx]].
           rewrite Forall_forall in IHc. specialize (IHc q Hq).
           destruct Hx as [<-|[<-|[]]]; rewrite count_true_cons; lia.
        -- constructor; [|constructor]. rewrite count_true_cons. lia.
Qed.

Lemma perms_removelast_ok n :
  Forall (fun q => length q = n /\ (1 <= count_true q)%nat) (removelast (bool_perms n)).
Proof.
  destruct n as [|m]; [constructor|].
  destruct (bool_perms_facts m) as [Hl [init [He Hc]]].
  rewrite He in Hl. rewrite He. rewrite removelast_last.
  apply Forall_app in Hl. destruct Hl as [Hl _].
  rewrite Forall_forall in *. intros q Hq. split; [apply Hl|apply Hc]; exact Hq.
Qed.

(* ================= host generation ================= *)
Lemma gen_uniform_host_ok p o c r : gen_uniform_host p o = Ok c r -> hcfg_ok p c.
Proof.
  unfold gen_uniform_host. cbv zeta. intros H.
  apply bindM_Ok in H. destruct H as [si [r1 [H1 H]]].
  apply bindM_Ok in H. destruct H as [pi [r2 [H2 H]]].
  apply bindM_Ok in H. destruct H as [os [r3 [H3 H]]].
  apply ret_Ok in H. destruct H as [<- _].
  apply drawn_Ok in H1. destruct H1 as [H1 _].
  apply drawn_Ok in H2. destruct H2 as [H2 _].
  apply drawn_Ok in H3. destruct H3 as [H3 _].
  pose proof (perms_removelast_ok (g_nsrv p)) as Ps.
  pose proof (perms_removelast_ok (g_nproc p)) as Pp.
  rewrite Forall_forall in Ps, Pp.
  destruct (Ps _ (nth_In _ [] H1)) as [Ps1 Ps2].
  destruct (Pp _ (nth_In _ [] H2)) as [Pp1 Pp2].
  unfold hcfg_ok. cbn [hc_os hc_srv hc_proc]. auto.
Qed.

Definition all_lt (n : nat) (l : list nat) : Prop := Forall (fun x => (x < n)%nat) l.

Lemma all_lt_nth n l j : all_lt n l -> (j < length l)%nat -> (nth j l O < n)%nat.
Proof.
  intros H Hj. unfold all_lt in H. rewrite Forall_forall in H. apply H. apply nth_In. exact Hj.
Qed.

Lemma all_lt_snoc n l x : all_lt n l -> (x < n)%nat -> all_lt n (l ++ [x]).
Proof. intros H Hx. apply Forall_app. split; [exact H|]. constructor; [exact Hx|constructor]. Qed.

Lemma dp_loop_ok p nopt : forall n i cfg prev o res r,
  dp_loop p nopt i n cfg prev o = Ok res r ->
  length cfg = nopt -> all_lt nopt prev ->
  length (fst res) = nopt /\ all_lt nopt (snd res)
  /\ (count_true cfg <= count_true (fst res))%nat
  /\ ((1 <= n)%nat -> (1 <= count_true (fst res))%nat).
Proof.
  induction n as [|n IH]; intros i cfg prev o res r H Hlen Hprev.
  - cbn [dp_loop] in H. apply ret_Ok in H. destruct H as [<- _]. cbn [fst snd].
    split; [exact Hlen|]. split; [exact Hprev|]. split; lia.
  - cbn [dp_loop] in H. apply bindM_Ok in H. destruct H as [x [r1 [Hx H]]].
    assert (Hxlt : (x < nopt)%nat).
    { destruct (Nat.eqb i 0).
      - apply drawn_Ok in Hx. tauto.
      - apply bindM_Ok in Hx. destruct Hx as [k [r0 [_ Hx]]].
        destruct (k <? nth i (g_thrP p) 0).
        + apply drawn_Ok in Hx. tauto.
        + apply bindM_Ok in Hx. destruct Hx as [j [r00 [Hj Hx]]].
          apply ret_Ok in Hx. destruct Hx as [<- _].
          apply drawn_Ok in Hj. destruct Hj as [Hj _]. apply all_lt_nth; assumption. }
    apply IH in H.
    + destruct H as [R1 [R2 [R3 R4]]]. split; [exact R1|]. split; [exact R2|].
      pose proof (set_true_mono cfg x) as Hm.
      assert (Hg : (1 <= count_true (set_true cfg x))%nat) by (apply set_true_ge1; lia).
      split; [lia|]. intros _. lia.
    + rewrite set_true_length. exact Hlen.
    + apply all_lt_snoc; assumption.
Qed.

Lemma dirichlet_process_ok p nopt prev o res r :
  dirichlet_process p nopt prev o = Ok res r -> all_lt nopt prev ->
  length (fst res) = nopt /\ all_lt nopt (snd res) /\ (1 <= count_true (fst res))%nat.
Proof.
  unfold dirichlet_process. intros H Hprev.
  apply bindM_Ok in H. destruct H as [k [r1 [_ H]]].
  destruct (k <? 0); [discriminate|].
  apply dp_loop_ok in H; [|apply replicate_length|exact Hprev].
  destruct H as [R1 [R2 [_ R4]]]. split; [exact R1|]. split; [exact R2|]. apply R4. lia.
Qed.

Lemma dirichlet_sample_ok p prev o os r :
  dirichlet_sample p prev o = Ok os r -> all_lt (g_nos p) prev -> (os < g_nos p)%nat.
Proof.
  unfold dirichlet_sample. intros H Hprev.
  destruct prev as [|x0 prev0] eqn:Eprev.
  - apply drawn_Ok in H. tauto.
  - rewrite <- Eprev in *. clear Eprev.
    destruct (g_thrS p) as [t|]; [|discriminate].
    apply bindM_Ok in H. destruct H as [k [r1 [_ H]]].
    destruct (k <? t).
    + apply drawn_Ok in H. tauto.
    + apply bindM_Ok in H. destruct H as [j [r2 [Hj H]]].
      apply ret_Ok in H. destruct H as [<- _].
      apply drawn_Ok in Hj. destruct Hj as [Hj _]. apply all_lt_nth; assumption.
Qed.

Definition cs_inv (p : gparams) (cs : cstate) : Prop :=
  Forall (hcfg_ok p) (cs_cfgs cs) /\ all_lt (g_nos p) (cs_os cs)
  /\ all_lt (g_nsrv p) (cs_srv cs) /\ all_lt (g_nproc p) (cs_proc cs).

Lemma cs_inv_init p : cs_inv p (mkCS [] [] [] []).
Proof. unfold cs_inv, all_lt. cbn. repeat split; constructor. Qed.

Lemma fresh_host_ok p cs o cc r :
  (let! os := dirichlet_sample p (cs_os cs) in
   let! sv := dirichlet_process p (g_nsrv p) (cs_srv cs) in
   let! pc := dirichlet_process p (g_nproc p) (cs_proc cs) in
   ret (mkH os (fst sv) (fst pc),
        mkCS (cs_cfgs cs ++ [mkH os (fst sv) (fst pc)]) (cs_os cs ++ [os]) (snd sv) (snd pc))) o = Ok cc r ->
  cs_inv p cs -> hcfg_ok p (fst cc) /\ cs_inv p (snd cc).
Proof.
  intros H [I1 [I2 [I3 I4]]].
  apply bindM_Ok in H. destruct H as [os [r1 [H1 H]]].
  apply bindM_Ok in H. destruct H as [sv [r2 [H2 H]]].
  apply bindM_Ok in H. destruct H as [pc [r3 [H3 H]]].
  apply ret_Ok in H. destruct H as [<- _]. cbn [fst snd].
  apply dirichlet_sample_ok in H1; [|exact I2].
  apply dirichlet_process_ok in H2; [|exact I3]. destruct H2 as [S1 [S2 S3]].
  apply dirichlet_process_ok in H3; [|exact I4]. destruct H3 as [P1 [P2 P3]].
  assert (Hc : hcfg_ok p (mkH os (fst sv) (fst pc))).
  { unfold hcfg_ok. cbn [hc_os hc_srv hc_proc]. auto. }
  split; [exact Hc|]. unfold cs_inv. cbn [cs_cfgs cs_os cs_srv cs_proc].
  split; [apply Forall_app; split; [exact I1|constructor; [exact Hc|constructor]]|].
  split; [apply all_lt_snoc; assumption|]. split; assumption.
Qed.

Lemma gen_correlated_host_ok p hn cs o cc r :
  gen_correlated_host p hn cs o = Ok cc r -> cs_inv p cs ->
  hcfg_ok p (fst cc) /\ cs_inv p (snd cc).
Proof.
  unfold gen_correlated_host. cbv zeta. intros H I.
  destruct (Nat.eqb hn 0).
  - eapply fresh_host_ok; eassumption.
  - apply bindM_Ok in H. destruct H as [k [r1 [_ H]]].
    destruct (k <? nth hn (g_thrH p) 0).
    + eapply fresh_host_ok; eassumption.
    + apply bindM_Ok in H. destruct H as [j [r2 [Hj H]]].
      apply ret_Ok in H. destruct H as [<- _]. cbn [fst snd].
      apply drawn_Ok in Hj. destruct Hj as [Hj _].
      destruct I as [I1 [I2 [I3 I4]]].
      assert (Hc : hcfg_ok p (nth j (cs_cfgs cs) (mkH 0 [] []))).
      { rewrite Forall_forall in I1. apply I1. apply nth_In. exact Hj. }
      split; [exact Hc|]. unfold cs_inv. cbn [cs_cfgs cs_os cs_srv cs_proc].
      split; [apply Forall_app; split; [exact I1|constructor; [exact Hc|constructor]]|].
      split; [exact I2|]. split; assumption.
Qed.

Definition hosts_ok (p : gparams) (l : list (addr * hcfg)) : Prop :=
  Forall (fun q => hcfg_ok p (snd q)) l.

Lemma gen_hosts_loop_ok p : forall addrs hn cs o l r,
  gen_hosts_loop p addrs hn cs o = Ok l r -> cs_inv p cs ->
  map fst l = addrs /\ hosts_ok p l.
Proof.
  induction addrs as [|a addrs IH]; intros hn cs o l r H I.
  - cbn [gen_hosts_loop] in H. apply ret_Ok in H. destruct H as [<- _]. split; [reflexivity|constructor].
  - cbn [gen_hosts_loop] in H. destruct (g_uniform p).
    + apply bindM_Ok in H. destruct H as [c [r1 [H1 H]]].
      apply bindM_Ok in H. destruct H as [rest [r2 [H2 H]]].
      apply ret_Ok in H. destruct H as [<- _].
      apply gen_uniform_host_ok in H1. apply IH in H2; [|exact I]. destruct H2 as [E F].
      split; [cbn [map fst]; rewrite E; reflexivity|]. constructor; [exact H1|exact F].
    + apply bindM_Ok in H. destruct H as [cc [r1 [H1 H]]].
      apply bindM_Ok in H. destruct H as [rest [r2 [H2 H]]].
      apply ret_Ok in H. destruct H as [<- _].
      apply gen_correlated_host_ok in H1; [|exact I]. destruct H1 as [Hc I'].
      apply IH in H2; [|exact I']. destruct H2 as [E F].
      split; [cbn [map fst]; rewrite E; reflexivity|]. constructor; [exact Hc|exact F].
Qed.

(* ================= exploits: the os of every exploit is None or < nos ================= *)
Definition eos_ok (nos : nat) (e : edef) : Prop :=
  match e_os e with None => True | Some i => (i < nos)%nat end.

Lemma gen_exploits_loop_eq p probs acc o :
  gen_exploits_loop p probs acc o =
  if Nat.leb (g_nexp p) (length acc) then Ok acc o else
  match o with
  | s :: os :: al :: r =>
      if negb ((0 <=? s) && (s <? Z.of_nat (g_nsrv p)) && (0 <=? os) && (os <=? Z.of_nat (g_nos p))
               && (1 <=? al) && (al <=? 2)) then Crash 9 else
      let srv := Z.to_nat s in
      let osi := os_of_idx (g_nos p) (Z.to_nat os) in
      if existsb (same_exploit_key srv osi) acc then gen_exploits_loop p probs acc r
      else gen_exploits_loop p probs
             (acc ++ [mkE srv osi (nth (length acc) probs 0) (g_ecost p) (Z.to_nat al)]) r
  | _ => More
  end.
Proof. destruct o; reflexivity. Qed.

Lemma gen_exploits_loop_os p probs : forall n o acc l r,
  (length o <= n)%nat ->
  gen_exploits_loop p probs acc o = Ok l r ->
  Forall (eos_ok (g_nos p)) acc -> Forall (eos_ok (g_nos p)) l.
Proof.
  induction n as [|n IH]; intros o acc l r Hn H Hacc; rewrite gen_exploits_loop_eq in H.
  - destruct (Nat.leb (g_nexp p) (length acc)).
    + inversion H; subst. exact Hacc.
    + destruct o as [|s o]; [discriminate|]. cbn [length] in Hn. lia.
  - destruct (Nat.leb (g_nexp p) (length acc)).
    + inversion H; subst. exact Hacc.
    + destruct o as [|s [|os [|al o']]]; try discriminate.
      cbv zeta in H.
      destruct (negb ((0 <=? s) && (s <? Z.of_nat (g_nsrv p)) && (0 <=? os) && (os <=? Z.of_nat (g_nos p))
               && (1 <=? al) && (al <=? 2))); [discriminate|].
      cbn [length] in Hn.
      destruct (existsb (same_exploit_key (Z.to_nat s) (os_of_idx (g_nos p) (Z.to_nat os))) acc).
      * eapply IH; [|exact H|exact Hacc]. lia.
      * eapply IH; [|exact H|]; [lia|].
        apply Forall_app. split; [exact Hacc|]. constructor; [|constructor].
        unfold eos_ok, os_of_idx. cbn [e_os].
        destruct (Nat.ltb (Z.to_nat os) (g_nos p)) eqn:E; [|exact I].
        apply Nat.ltb_lt in E. exact E.
Qed.

Lemma gen_exploits_os p o ex r : gen_exploits p o = Ok ex r -> Forall (eos_ok (g_nos p)) ex.
Proof.
  unfold gen_exploits. intros H. apply bindM_Ok in H. destruct H as [probs [r1 [_ H]]].
  eapply gen_exploits_loop_os; [apply Nat.le_refl|exact H|constructor].
Qed.

(* ================= vulnerability repair ================= *)
Lemma make_vulnerable_ok p ex pe lvl : Forall (eos_ok (g_nos p)) ex ->
  forall tries c o c' r,
  make_vulnerable ex pe lvl c tries o = Ok c' r -> hcfg_ok p c -> hcfg_ok p c'.
Proof.
  intros Hex. induction tries as [|t IH]; intros c o c' r H Hc.
  - discriminate.
  - cbn [make_vulnerable] in H.
    apply bindM_Ok in H. destruct H as [ei [r1 [Hei H]]].
    apply drawn_Ok in Hei. destruct Hei as [Hei _].
    set (e := nth ei ex (mkE 0 None 0 0 0)) in *.
    assert (He : eos_ok (g_nos p) e).
    { rewrite Forall_forall in Hex. apply Hex. apply nth_In. exact Hei. }
    set (c1 := mkH (match e_os e with Some o0 => o0 | None => hc_os c end)
                   (set_true (hc_srv c) (e_srv e)) (hc_proc c)) in *.
    assert (Hc1 : hcfg_ok p c1).
    { destruct Hc as [C1 [C2 [C3 [C4 C5]]]]. unfold hcfg_ok, c1. cbn [hc_os hc_srv hc_proc].
      split. { unfold eos_ok in He. destruct (e_os e); assumption. }
      split. { rewrite set_true_length. exact C2. }
      split; [exact C3|]. split; [|exact C5].
      pose proof (set_true_mono (hc_srv c) (e_srv e)). lia. }
    destruct (Nat.leb lvl (e_acc e)).
    + apply ret_Ok in H. destruct H as [<- _]. exact Hc1.
    + destruct (filter (fun q => match p_os q with None => true | Some o0 => Nat.eqb (hc_os c1) o0 end) pe)
        as [|q0 valid0] eqn:Ev.
      * eapply IH; eassumption.
      * apply bindM_Ok in H. destruct H as [pi [r2 [_ H]]].
        apply ret_Ok in H. destruct H as [<- _].
        destruct Hc1 as [C1 [C2 [C3 [C4 C5]]]]. unfold hcfg_ok. cbn [hc_os hc_srv hc_proc].
        split; [exact C1|]. split; [exact C2|]. split; [rewrite set_true_length; exact C3|].
        split; [exact C4|].
        match goal with |- (1 <= count_true (set_true ?l ?i))%nat => pose proof (set_true_mono l i) end. lia.
Qed.

Lemma ensure_pass1_ok p ex pe sens : Forall (eos_ok (g_nos p)) ex ->
  forall hosts vs o res r,
  ensure_pass1 ex pe sens hosts vs o = Ok res r -> hosts_ok p hosts ->
  map fst (fst res) = map fst hosts /\ hosts_ok p (fst res).
Proof.
  intros Hex. induction hosts as [|[a c] hosts IH]; intros vs o res r H Hh.
  - cbn [ensure_pass1] in H. apply ret_Ok in H. destruct H as [<- _]. split; [reflexivity|constructor].
  - cbn [ensure_pass1] in H. inversion Hh as [|x y Hc Hh']; subst. cbn [snd] in Hc.
    destruct (negb (mem_addr a sens) && mem_nat (fst a) vs).
    + apply bindM_Ok in H. destruct H as [rest [r1 [H1 H]]].
      apply ret_Ok in H. destruct H as [<- _]. cbn [fst snd].
      apply IH in H1; [|exact Hh']. destruct H1 as [E F].
      split; [cbn [map fst]; rewrite E; reflexivity|]. constructor; [exact Hc|exact F].
    + destruct (mem_addr a sens).
      * apply bindM_Ok in H. destruct H as [c' [r1 [H0 H]]].
        apply bindM_Ok in H. destruct H as [rest [r2 [H1 H]]].
        apply ret_Ok in H. destruct H as [<- _]. cbn [fst snd].
        apply IH in H1; [|exact Hh']. destruct H1 as [E F].
        split; [cbn [map fst]; rewrite E; reflexivity|]. constructor; [|exact F]. cbn [snd].
        destruct (host_vulnerable ex pe c 2).
        -- apply ret_Ok in H0. destruct H0 as [<- _]. exact Hc.
        -- eapply make_vulnerable_ok; eassumption.
      * apply bindM_Ok in H. destruct H as [rest [r1 [H1 H]]].
        apply ret_Ok in H. destruct H as [<- _]. cbn [fst snd].
        apply IH in H1; [|exact Hh']. destruct H1 as [E F].
        split; [cbn [map fst]; rewrite E; reflexivity|]. constructor; [exact Hc|exact F].
Qed.

Lemma addr_eqb_true a b : addr_eqb a b = true -> a = b.
Proof.
  unfold addr_eqb. destruct a as [a1 a2], b as [b1 b2]. cbn [fst snd]. intros H.
  apply andb_true_iff in H. destruct H as [H1 H2].
  apply Nat.eqb_eq in H1, H2. subst. reflexivity.
Qed.

Lemma update_host_fst hosts a c : map fst (update_host hosts a c) = map fst hosts.
Proof.
  unfold update_host. rewrite map_map. apply map_ext. intros q.
  destruct (addr_eqb (fst q) a) eqn:E; [|reflexivity].
  apply addr_eqb_true in E. cbn [fst]. symmetry. exact E.
Qed.

Lemma update_host_ok p a c' : forall hosts,
  hosts_ok p hosts -> (forall c0, assoc a hosts = Some c0 -> hcfg_ok p c') ->
  hosts_ok p (update_host hosts a c').
Proof.
  induction hosts as [|[k c] hosts IH]; intros Hh Hc.
  - constructor.
  - inversion Hh as [|x y Hk Hh']; subst. cbn [assoc] in Hc.
    unfold update_host. cbn [map fst]. fold (update_host hosts a c').
    destruct (addr_eqb k a) eqn:E.
    + constructor.
      * cbn [snd]. eapply Hc. reflexivity.
      * apply IH; [exact Hh'|]. intros c0 _. eapply Hc. reflexivity.
    + constructor; [exact Hk|]. apply IH; [exact Hh'|exact Hc].
Qed.

Lemma assoc_Some_In {B} a : forall (l : list (addr * B)) c, assoc a l = Some c -> exists k, In (k, c) l.
Proof.
  induction l as [|[k v] l IH]; intros c H; [discriminate|]. cbn [assoc] in H.
  destruct (addr_eqb k a).
  - inversion H; subst. exists k. left. reflexivity.
  - apply IH in H. destruct H as [k' Hk]. exists k'. right. exact Hk.
Qed.

Lemma ensure_pass2_ok p ex pe subnets : Forall (eos_ok (g_nos p)) ex ->
  forall ss hosts vs o res r,
  ensure_pass2 ex pe subnets ss hosts vs o = Ok res r -> hosts_ok p hosts ->
  map fst res = map fst hosts /\ hosts_ok p res.
Proof.
  intros Hex. induction ss as [|s ss IH]; intros hosts vs o res r H Hh.
  - cbn [ensure_pass2] in H. apply ret_Ok in H. destruct H as [<- _]. split; [reflexivity|exact Hh].
  - cbn [ensure_pass2] in H. destruct (mem_nat s vs || Nat.eqb s 0).
    + eapply IH; eassumption.
    + apply bindM_Ok in H. destruct H as [h [r1 [_ H]]].
      apply bindM_Ok in H. destruct H as [c' [r2 [Hmv H]]].
      apply IH in H.
      * destruct H as [E F]. rewrite update_host_fst in E. split; assumption.
      * apply update_host_ok; [exact Hh|]. intros c0 Ha. rewrite Ha in Hmv.
        eapply make_vulnerable_ok; [exact Hex|exact Hmv|].
        apply assoc_Some_In in Ha. destruct Ha as [k Hk].
        unfold hosts_ok in Hh. rewrite Forall_forall in Hh. apply (Hh (k, c0)). exact Hk.
Qed.

(* ================= the final host list ================= *)
(* Stage form: [ex], [hosts0], [pass1], [hosts] are st_ex, st_hosts0, st_pass1, st_hosts of
   generate_inv; [sens] is [map fst (st_sens S)], [ss] is [seq 0 n]. *)
Lemma final_hosts_ok : forall p subnets ss (sens : list addr) ex pe hosts0 pass1 hosts o o1 o3 o4 o5 o6,
  gen_exploits p o = Ok ex o1 ->
  gen_hosts_loop p (gen_addrs subnets) 0 (mkCS [] [] [] []) o3 = Ok hosts0 o4 ->
  ensure_pass1 ex pe sens hosts0 [] o4 = Ok pass1 o5 ->
  ensure_pass2 ex pe subnets ss (fst pass1) (snd pass1) o5 = Ok hosts o6 ->
  map fst hosts = gen_addrs subnets /\ Forall (fun q => hcfg_ok p (snd q)) hosts.
Proof.
  intros p subnets ss sens ex pe hosts0 pass1 hosts o o1 o3 o4 o5 o6 H1 H4 H5 H6.
  apply gen_exploits_os in H1.
  apply gen_hosts_loop_ok in H4; [|apply cs_inv_init]. destruct H4 as [E0 F0].
  eapply ensure_pass1_ok in H5; [|exact H1|exact F0]. destruct H5 as [E1 F1].
  eapply ensure_pass2_ok in H6; [|exact H1|exact F1]. destruct H6 as [E2 F2].
  split; [|exact F2]. rewrite E2, E1. exact E0.
Qed.

Lemma C15_hosts_proof : C15_hosts_stmt.
Proof.
  unfold C15_hosts_stmt, gen_ok. intros p o sc [rest H].
  apply generate_inv in H. destruct H as [_ [_ [_ [S [o1 [o2 [o3 [o4 [o5 [o6 H]]]]]]]]]].
  cbv zeta in H. destruct H as [H1 [_ [_ [H4 [H5 [H6 [_ Hsc]]]]]]].
  destruct (final_hosts_ok _ _ _ _ _ _ _ _ _ _ _ _ _ _ _ H1 H4 H5 H6) as [E F].
  subst sc. cbn [s_hosts s_subnets s_sens].
  split.
  - rewrite map_map. cbn [fst]. exact E.
  - apply Forall_map. eapply Forall_impl; [|exact F].
    intros [a c] [C1 [C2 [C3 [C4 C5]]]]. cbn [snd fst] in *. cbv zeta.
    cbn [c_os c_srv c_proc c_val c_dval c_fw].
    rewrite onehot_b_length. rewrite onehot_b_count by exact C1.
    repeat split; assumption.
Qed.

(* ================= C14: frame lemmas ================= *)
Definition framed {A} (m : M A) : Prop :=
  forall o a r extra, m o = Ok a r -> m (o ++ extra) = Ok a (r ++ extra).

Lemma framed_ret {A} (a : A) : framed (ret a).
Proof. intros o b r extra H. apply ret_Ok in H. destruct H as [<- <-]. reflexivity. Qed.

Lemma framed_crash {A} w : framed (@crash A w).
Proof. intros o b r extra H. discriminate. Qed.

Lemma framed_draw : framed draw.
Proof. intros o b r extra H. destruct o as [|x o]; [discriminate|]. inversion H; subst. reflexivity. Qed.

Lemma framed_drawn bound : framed (drawn bound).
Proof.
  intros o b r extra H. destruct o as [|x o]; [discriminate|]. cbn [drawn app] in *.
  unfold drawn in *. cbn [app].
  destruct ((0 <=? x) && (x <? Z.of_nat bound)); [|discriminate]. inversion H; subst. reflexivity.
Qed.

Lemma framed_bind {A B} (m : M A) (f : A -> M B) :
  framed m -> (forall a, framed (f a)) -> framed (bindM m f).
Proof.
  intros Hm Hf o b r extra H. apply bindM_Ok in H. destruct H as [a [r1 [H1 H2]]].
  unfold bindM. rewrite (Hm _ _ _ extra H1). apply Hf. exact H2.
Qed.

Lemma framed_draws n : framed (draws n).
Proof.
  induction n as [|n IH]; cbn [draws]; [apply framed_ret|].
  apply framed_bind; [apply framed_draw|]. intros x.
  apply framed_bind; [exact IH|]. intros xs. apply framed_ret.
Qed.

Lemma framed_drawns n bound : framed (drawns n bound).
Proof.
  induction n as [|n IH]; cbn [drawns]; [apply framed_ret|].
  apply framed_bind; [apply framed_drawn|]. intros x.
  apply framed_bind; [exact IH|]. intros xs. apply framed_ret.
Qed.

Ltac fr_step :=
  match goal with
  | |- framed (ret _) => apply framed_ret
  | |- framed (crash _) => apply framed_crash
  | |- framed draw => apply framed_draw
  | |- framed (drawn _) => apply framed_drawn
  | |- framed (draws _) => apply framed_draws
  | |- framed (drawns _ _) => apply framed_drawns
  | |- framed (bindM _ _) => apply framed_bind; [|intros ?]
  | |- framed (if ?b then _ else _) => destruct b
  | |- framed (match ?x with _ => _ end) => destruct x
  | |- framed (let _ := _ in _) => cbv zeta
  | H : _ |- framed _ => solve [apply H]
  end.
Ltac fr := repeat fr_step.

Lemma framed_gen_probs n ps : framed (gen_probs n ps).
Proof. unfold gen_probs. fr. Qed.

Lemma framed_exploits_loop p probs : forall n o acc, (length o <= n)%nat ->
  forall a r extra, gen_exploits_loop p probs acc o = Ok a r ->
  gen_exploits_loop p probs acc (o ++ extra) = Ok a (r ++ extra).
Proof.
  induction n as [|n IH]; intros o acc Hn a r extra H;
    rewrite gen_exploits_loop_eq in H; rewrite gen_exploits_loop_eq.
  - destruct (Nat.leb (g_nexp p) (length acc)).
    + inversion H; subst. reflexivity.
    + destruct o as [|s o]; [discriminate|]. cbn [length] in Hn. lia.
  - destruct (Nat.leb (g_nexp p) (length acc)).
    + inversion H; subst. reflexivity.
    + destruct o as [|s [|os [|al o']]]; try discriminate.
      cbn [app]. cbv zeta in *.
      destruct (negb ((0 <=? s) && (s <? Z.of_nat (g_nsrv p)) && (0 <=? os) && (os <=? Z.of_nat (g_nos p))
               && (1 <=? al) && (al <=? 2))); [discriminate|].
      cbn [length] in Hn.
      destruct (existsb (same_exploit_key (Z.to_nat s) (os_of_idx (g_nos p) (Z.to_nat os))) acc);
        (apply IH; [lia|exact H]).
Qed.

Lemma framed_gen_exploits p : framed (gen_exploits p).
Proof.
  unfold gen_exploits. apply framed_bind; [apply framed_gen_probs|]. intros probs.
  intros o a r extra H. eapply framed_exploits_loop; [apply Nat.le_refl|exact H].
Qed.

Lemma os_choices_loop_frame nos n : forall f f' o l r extra, (f <= f')%nat ->
  gen_os_choices_loop nos n o f = Ok l r ->
  gen_os_choices_loop nos n (o ++ extra) f' = Ok l (r ++ extra).
Proof.
  induction f as [|f IH]; intros f' o l r extra Hf H; [discriminate|].
  destruct f' as [|f']; [lia|]. cbn [gen_os_choices_loop] in *.
  destruct (drawns n (S nos) o) as [l0 r0| |w] eqn:E; try discriminate.
  rewrite (framed_drawns _ _ _ _ _ extra E).
  destruct (os_choices_ok nos l0).
  - inversion H; subst. reflexivity.
  - apply IH; [lia|exact H].
Qed.

Lemma framed_gen_os_choices p : framed (gen_os_choices p).
Proof.
  unfold gen_os_choices. destruct (Nat.ltb (g_npe p) (g_nos p)); [fr|].
  intros o a r extra H. eapply os_choices_loop_frame; [|exact H].
  rewrite app_length. lia.
Qed.

Lemma framed_privescs_loop p probs choices : forall o acc a r extra,
  gen_privescs_loop p probs choices acc o = Ok a r ->
  gen_privescs_loop p probs choices acc (o ++ extra) = Ok a (r ++ extra).
Proof.
  induction o as [|pr o IH]; intros acc a r extra H.
  - cbn [gen_privescs_loop] in H.
    destruct (Nat.leb (g_npe p) (length acc)) eqn:E; [|discriminate].
    inversion H; subst. cbn [app]. destruct extra; cbn [gen_privescs_loop]; rewrite E; reflexivity.
  - cbn [app gen_privescs_loop] in *.
    destruct (Nat.leb (g_npe p) (length acc)).
    + inversion H; subst. reflexivity.
    + destruct (negb ((0 <=? pr) && (pr <? Z.of_nat (g_nproc p)))); [discriminate|].
      cbv zeta in *.
      destruct (existsb (same_privesc_key (Z.to_nat pr)
                  (os_of_idx (g_nos p) (nth (length acc) choices 0%nat))) acc);
        (apply IH; exact H).
Qed.

Lemma framed_gen_privescs p : framed (gen_privescs p).
Proof.
  unfold gen_privescs. apply framed_bind; [apply framed_gen_probs|]. intros probs.
  apply framed_bind; [apply framed_gen_os_choices|]. intros choices.
  intros o a r extra H. apply framed_privescs_loop. exact H.
Qed.

Lemma framed_gen_sensitive p subnets : framed (gen_sensitive p subnets).
Proof.
  unfold gen_sensitive. cbv zeta.
  destruct (g_random_goal p && Nat.ltb 2 (length subnets)); [|apply framed_ret].
  intros o a r extra H. destruct o as [|s [|h o']]; try discriminate. cbn [app].
  destruct (negb ((3 <=? s) && (s <? Z.of_nat (length subnets)))); [discriminate|].
  destruct (negb ((0 <=? h) && (h <? Z.of_nat (nth (Z.to_nat s) subnets 0%nat)))); [discriminate|].
  inversion H; subst. reflexivity.
Qed.

Lemma framed_gen_uniform_host p : framed (gen_uniform_host p).
Proof. unfold gen_uniform_host. fr. Qed.

Lemma framed_dp_loop p nopt : forall n i cfg prev, framed (dp_loop p nopt i n cfg prev).
Proof.
  induction n as [|n IH]; intros i cfg prev; cbn [dp_loop]; fr.
Qed.

Lemma framed_dirichlet_process p nopt prev : framed (dirichlet_process p nopt prev).
Proof. unfold dirichlet_process. fr. apply framed_dp_loop. Qed.

Lemma framed_dirichlet_sample p prev : framed (dirichlet_sample p prev).
Proof. unfold dirichlet_sample. fr. Qed.

Lemma framed_gen_correlated_host p hn cs : framed (gen_correlated_host p hn cs).
Proof.
  pose proof (framed_dirichlet_sample p) as F1.
  pose proof (framed_dirichlet_process p) as F2.
  unfold gen_correlated_host. fr.
Qed.

Lemma framed_gen_hosts_loop p : forall addrs hn cs, framed (gen_hosts_loop p addrs hn cs).
Proof.
  pose proof (framed_gen_uniform_host p) as F1.
  pose proof (framed_gen_correlated_host p) as F2.
  induction addrs as [|a addrs IH]; intros hn cs; cbn [gen_hosts_loop]; fr.
Qed.

Lemma framed_make_vulnerable ex pe lvl : forall tries c, framed (make_vulnerable ex pe lvl c tries).
Proof.
  induction tries as [|t IH]; intros c; cbn [make_vulnerable]; fr.
Qed.

Lemma framed_ensure_pass1 ex pe sens : forall hosts vs, framed (ensure_pass1 ex pe sens hosts vs).
Proof.
  pose proof (framed_make_vulnerable ex pe) as F1.
  induction hosts as [|[a c] hosts IH]; intros vs; cbn [ensure_pass1]; fr.
Qed.

Lemma framed_ensure_pass2 ex pe subnets : forall ss hosts vs, framed (ensure_pass2 ex pe subnets ss hosts vs).
Proof.
  pose proof (framed_make_vulnerable ex pe) as F1.
  induction ss as [|s ss IH]; intros hosts vs; cbn [ensure_pass2]; fr.
Qed.

Lemma framed_pick_services : forall k avail, framed (pick_services avail k).
Proof.
  induction k as [|k IH]; intros avail; cbn [pick_services]; fr.
Qed.

Lemma framed_gen_fw_pairs p ex hosts n : forall pairs, framed (gen_fw_pairs p ex hosts n pairs).
Proof.
  pose proof framed_pick_services as F1.
  induction pairs as [|[s t] pairs IH]; cbn [gen_fw_pairs]; fr.
Qed.

Lemma framed_generate p : framed (generate p).
Proof.
  pose proof (framed_gen_exploits p) as F1.
  pose proof (framed_gen_privescs p) as F2.
  pose proof (framed_gen_sensitive p) as F3.
  pose proof (framed_gen_hosts_loop p) as F4.
  pose proof framed_ensure_pass1 as F5.
  pose proof framed_ensure_pass2 as F6.
  pose proof (framed_gen_fw_pairs p) as F7.
  unfold generate. fr.
Qed.

Lemma C14_prefix_proof : C14_prefix_stmt.
Proof.
  unfold C14_prefix_stmt. intros p o sc rest extra H. apply framed_generate. exact H.
Qed.

Print Assumptions C15_hosts_proof.
Print Assumptions C14_prefix_proof.
Print Assumptions final_hosts_ok.
