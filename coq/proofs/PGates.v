(* PGates.v -- the hand model's perform_action is exactly the gate cascade [gate_outcome]. *)
From NasimV Require Import Gates.

Lemma gates_classify_proof : gates_classify_stmt.
Proof.
  unfold gates_classify_stmt, outcome_matches, gate_outcome, atoms_of, perform_action, trow.
  intros sc st a k. cbn [at_noop at_reach at_disc at_remote at_perm at_exploit at_traffic at_privesc
                         at_comp at_chance_ge at_subscan].
  destruct (is_noop a) eqn:N; [reflexivity|].
  destruct (negb (h_reach (get_row sc st (a_tgt a))) || negb (h_disc (get_row sc st (a_tgt a)))) eqn:G1;
    [reflexivity|].
  destruct (is_remote a && negb (has_remote_perm sc st a)) eqn:G2; [reflexivity|].
  destruct (is_exploit a && negb (traffic_permitted sc st (a_tgt a) (a_srv a))) eqn:G3; [reflexivity|].
  destruct (is_privesc a && negb (h_comp (get_row sc st (a_tgt a)))) eqn:G4; [reflexivity|].
  destruct (negb (is_exploit a && h_comp (get_row sc st (a_tgt a))) && chance_fails a k) eqn:G5; [reflexivity|].
  destruct (is_subnet_scan a) eqn:S.
  - destruct (subnet_scan sc st a). reflexivity.
  - destruct (host_perform (get_row sc st (a_tgt a)) a) as [t' r]. cbn [fst snd]. split; reflexivity.
Qed.
Print Assumptions gates_classify_proof.
