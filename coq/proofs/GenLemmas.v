(* GenLemmas.v -- inversion lemmas for the oracle monad and for [generate]. *)
From NasimV Require Import StmtGen.

Lemma bindM_Ok {A B} (m : M A) (f : A -> M B) o b r :
  bindM m f o = Ok b r -> exists a r', m o = Ok a r' /\ f a r' = Ok b r.
Proof.
  unfold bindM. destruct (m o) as [a r'| |w] eqn:E; intros H; try discriminate.
  exists a, r'. auto.
Qed.

Lemma bindM_Crash {A B} (m : M A) (f : A -> M B) o w :
  bindM m f o = Crash w -> m o = Crash w \/ exists a r', m o = Ok a r' /\ f a r' = Crash w.
Proof.
  unfold bindM. destruct (m o) as [a r'| |w'] eqn:E; intros H; try discriminate.
  - right. exists a, r'. auto.
  - left. inversion H. reflexivity.
Qed.

Lemma ret_Ok {A} (a b : A) o r : ret a o = Ok b r -> a = b /\ o = r.
Proof. unfold ret. intros H. inversion H. auto. Qed.

Lemma drawn_Ok bound o x r : drawn bound o = Ok x r -> (x < bound)%nat /\ exists z, o = z :: r /\ x = Z.to_nat z.
Proof.
  unfold drawn. destruct o as [|z o']; [discriminate|].
  destruct ((0 <=? z) && (z <? Z.of_nat bound)) eqn:E; [|discriminate].
  intros H. inversion H; subst. apply andb_true_iff in E. destruct E as [E1 E2].
  apply Z.leb_le in E1. apply Z.ltb_lt in E2. split; [lia|]. exists z. auto.
Qed.

Lemma drawns_Ok n bound : forall o l r, drawns n bound o = Ok l r -> length l = n /\ Forall (fun x => (x < bound)%nat) l.
Proof.
  induction n as [|n IH]; intros o l r H; simpl in H.
  - apply ret_Ok in H. destruct H as [<- _]. auto.
  - apply bindM_Ok in H. destruct H as [x [r1 [H1 H2]]].
    apply bindM_Ok in H2. destruct H2 as [xs [r2 [H2 H3]]].
    apply ret_Ok in H3. destruct H3 as [<- _].
    apply drawn_Ok in H1. destruct H1 as [Hx _].
    apply IH in H2. destruct H2 as [HL HF]. simpl. split; [lia|]. constructor; auto.
Qed.

(* the stages of a successful generation *)
Record stages := mkStages {
  st_ex : list edef; st_pe : list pdef; st_sens : list (addr * Z);
  st_hosts0 : list (addr * hcfg); st_pass1 : list (addr * hcfg) * list nat;
  st_hosts : list (addr * hcfg); st_fw : list (addr * list nat)
}.

Definition bounds_of (p : gparams) : nat * nat :=
  match g_bounds p with Some b => b | None => (length (gen_subnets (g_hosts p)), maxl (gen_subnets (g_hosts p))) end.

Lemma generate_inv p o sc rest :
  generate p o = Ok sc rest ->
  params_ok p = true
  /\ (length (gen_subnets (g_hosts p)) <= fst (bounds_of p))%nat
  /\ (maxl (gen_subnets (g_hosts p)) <= snd (bounds_of p))%nat
  /\ exists S o1 o2 o3 o4 o5 o6,
       let subnets := gen_subnets (g_hosts p) in
       let n := length subnets in
       gen_exploits p o = Ok (st_ex S) o1
       /\ gen_privescs p o1 = Ok (st_pe S) o2
       /\ gen_sensitive p subnets o2 = Ok (st_sens S) o3
       /\ gen_hosts_loop p (gen_addrs subnets) 0 (mkCS [] [] [] []) o3 = Ok (st_hosts0 S) o4
       /\ ensure_pass1 (st_ex S) (st_pe S) (map fst (st_sens S)) (st_hosts0 S) [] o4 = Ok (st_pass1 S) o5
       /\ ensure_pass2 (st_ex S) (st_pe S) subnets (seq 0 n) (fst (st_pass1 S)) (snd (st_pass1 S)) o5
          = Ok (st_hosts S) o6
       /\ gen_fw_pairs p (st_ex S) (st_hosts S) n
            (flat_map (fun s => map (fun t => (s, t)) (seq 0 n)) (seq 0 n)) o6 = Ok (st_fw S) rest
       /\ sc = mkSc subnets (gen_topology n) (g_nos p) (g_nsrv p) (g_nproc p) (st_ex S) (st_pe S)
                    (g_ssc p) (g_osc p) (g_subc p) (g_psc p) (st_fw S)
                    (map (fun q => (fst q,
                                    mkCfg (onehot_b (g_nos p) (hc_os (snd q))) (hc_srv (snd q)) (hc_proc (snd q))
                                          (match assoc (fst q) (st_sens S) with Some v => v | None => g_base_value p end)
                                          (g_dvalue p) [])) (st_hosts S))
                    (st_sens S) (g_limit p) (bounds_of p).
Proof.
  unfold generate, bounds_of. intros H.
  destruct (params_ok p) eqn:PO; cbn [negb] in H; [|discriminate].
  set (subnets := gen_subnets (g_hosts p)) in *.
  set (bounds := match g_bounds p with Some b => b | None => (length subnets, maxl subnets) end) in *.
  destruct (Nat.leb (length subnets) (fst bounds) && Nat.leb (maxl subnets) (snd bounds)) eqn:BO;
    cbn [negb] in H; [|discriminate].
  apply andb_true_iff in BO. destruct BO as [B1 B2]. apply Nat.leb_le in B1, B2.
  apply bindM_Ok in H. destruct H as [ex [o1 [H1 H]]].
  apply bindM_Ok in H. destruct H as [pe [o2 [H2 H]]].
  apply bindM_Ok in H. destruct H as [sens [o3 [H3 H]]].
  apply bindM_Ok in H. destruct H as [hosts0 [o4 [H4 H]]].
  apply bindM_Ok in H. destruct H as [pass1 [o5 [H5 H]]].
  apply bindM_Ok in H. destruct H as [hosts [o6 [H6 H]]].
  apply bindM_Ok in H. destruct H as [fw [o7 [H7 H]]].
  apply ret_Ok in H. destruct H as [Hsc <-].
  split; [reflexivity|]. split; [exact B1|]. split; [exact B2|].
  exists (mkStages ex pe sens hosts0 pass1 hosts fw), o1, o2, o3, o4, o5, o6. cbn [st_ex st_pe st_sens st_hosts0 st_pass1 st_hosts st_fw].
  repeat split; auto.
Qed.
