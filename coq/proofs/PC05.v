(* PC05.v -- proofs of the C05 statements about where the paid value comes from:
   every step pays exactly the value of the hosts newly rooted / newly discovered
   by it, whole histories telescope, and each host is paid at most once. *)
From NasimV Require Import StmtDyn.
From NasimV.proofs Require Import RowLemmas PC04 PC06C07.

(* ================= sums ================= *)
Lemma sumZ_map_zero {A : Type} (f : A -> Z) (l : list A) :
  (forall x, In x l -> f x = 0) -> sumZ (map f l) = 0.
Proof.
  induction l as [|y l IH]; cbn [map sumZ]; intros H; [reflexivity|].
  rewrite (H y) by (left; reflexivity). rewrite IH; [reflexivity|].
  intros x Hx. apply H. right. exact Hx.
Qed.

Lemma sumZ_map_add {A : Type} (f g h : A -> Z) (l : list A) :
  (forall x, In x l -> f x = g x + h x) ->
  sumZ (map f l) = sumZ (map g l) + sumZ (map h l).
Proof.
  induction l as [|y l IH]; cbn [map sumZ]; intros H; [reflexivity|].
  rewrite (H y) by (left; reflexivity). rewrite IH; [lia|].
  intros x Hx. apply H. right. exact Hx.
Qed.

(* a function that vanishes off one member of a duplicate-free list *)
Lemma sumZ_map_single {A : Type} (f : A -> Z) (l : list A) (x : A) :
  NoDup l -> In x l -> (forall y, In y l -> y <> x -> f y = 0) ->
  sumZ (map f l) = f x.
Proof.
  induction l as [|z l IH]; intros ND Hin H; [contradiction|].
  inversion ND as [|? ? Hnot ND']; subst. cbn [map sumZ].
  destruct Hin as [->|Hin].
  - rewrite sumZ_map_zero; [lia|].
    intros y Hy. apply H; [right; exact Hy|]. intros ->. contradiction.
  - rewrite (H z); [| left; reflexivity | intros ->; contradiction].
    rewrite IH; auto. intros y Hy Hne. apply H; auto. right. exact Hy.
Qed.

(* ================= the summand of [gained] ================= *)
Definition gsum (sc : scenario) (st st' : state) (x : addr) : Z :=
  (if newly_rooted sc st st' x then h_val (row sc st x) else 0)
  + (if newly_disc sc st st' x then h_dval (row sc st x) else 0).

Lemma gained_eq sc st st' : gained sc st st' = sumZ (map (gsum sc st st') (addresses sc)).
Proof. reflexivity. Qed.

Lemma gained_rows sc st st' :
  length st = length (addresses sc) ->
  gained sc st st' = sumZ (map (fun p => gsum sc st st' (fst p)) (rows sc st)).
Proof.
  intros HL. rewrite gained_eq.
  transitivity (sumZ (map (gsum sc st st') (map fst (rows sc st)))).
  - rewrite map_fst_rows by exact HL. reflexivity.
  - rewrite map_map. reflexivity.
Qed.

Lemma same_ok (n : nat) (v : Z) : 0 = if negb (Nat.eqb n ROOT) && Nat.eqb n ROOT then v else 0.
Proof. destruct (Nat.eqb n ROOT); reflexivity. Qed.

Lemma same_ok_b (d : bool) (v : Z) : 0 = if negb d && d then v else 0.
Proof. destruct d; reflexivity. Qed.

(* a row whose access level and discovered flag are unchanged pays nothing *)
Lemma gsum_frame sc st st' x :
  h_acc (get_row sc st' x) = h_acc (get_row sc st x) ->
  h_disc (get_row sc st' x) = h_disc (get_row sc st x) ->
  gsum sc st st' x = 0.
Proof.
  intros HA HD. unfold gsum, newly_rooted, newly_disc, row. rewrite HA, HD.
  rewrite <- same_ok, <- same_ok_b. reflexivity.
Qed.

Lemma gained_refl sc st : gained sc st st = 0.
Proof.
  rewrite gained_eq. apply sumZ_map_zero. intros x _. apply gsum_frame; reflexivity.
Qed.

(* ================= host level ================= *)
Lemma gain_ok h a :
  gain_value h a
  = if negb (Nat.eqb (h_acc h) ROOT) && Nat.eqb (gain_access h a) ROOT then h_val h else 0.
Proof.
  unfold gain_value, gain_access.
  destruct (Nat.eqb (h_acc h) ROOT) eqn:E; cbn [negb andb]; reflexivity.
Qed.

Lemma host_perform_value h a :
  h_disc (fst (host_perform h a)) = h_disc h
  /\ r_value (snd (host_perform h a))
     = if negb (Nat.eqb (h_acc h) ROOT) && Nat.eqb (h_acc (fst (host_perform h a))) ROOT
       then h_val h else 0.
Proof.
  assert (Hs : h_disc h = h_disc h
               /\ 0 = if negb (Nat.eqb (h_acc h) ROOT) && Nat.eqb (h_acc h) ROOT then h_val h else 0)
    by (split; [reflexivity | apply same_ok]).
  assert (Hg1 : h_disc (set_acc (set_comp h true) (gain_access h a)) = h_disc h
               /\ gain_value h a
                  = if negb (Nat.eqb (h_acc h) ROOT)
                       && Nat.eqb (h_acc (set_acc (set_comp h true) (gain_access h a))) ROOT
                    then h_val h else 0)
    by (split; [reflexivity | apply gain_ok]).
  assert (Hg2 : h_disc (set_acc h (gain_access h a)) = h_disc h
               /\ gain_value h a
                  = if negb (Nat.eqb (h_acc h) ROOT)
                       && Nat.eqb (h_acc (set_acc h (gain_access h a))) ROOT
                    then h_val h else 0)
    by (split; [reflexivity | apply gain_ok]).
  unfold host_perform.
  destruct (a_kind a); cbv beta iota;
    repeat match goal with
           | |- context [if ?c then (_, _) else _] => destruct c
           end;
    cbn [fst snd r_value res_perm res_plain];
    first [exact Hs | exact Hg1 | exact Hg2].
Qed.

(* ================= rows after the state updates ================= *)
Lemma update_reachable_row sc st c x :
  In x (map fst (rows sc st)) ->
  h_acc (get_row sc (update_reachable sc st c) x) = h_acc (get_row sc st x)
  /\ h_disc (get_row sc (update_reachable sc st c) x) = h_disc (get_row sc st x).
Proof.
  intros Hin. unfold update_reachable. rewrite get_row_map_rows by exact Hin.
  destruct (h_reach (get_row sc st x)); [auto|].
  destruct (connected sc c (fst x)); cbn [set_reach h_acc h_disc]; auto.
Qed.

(* ================= one step ================= *)
Lemma tail_value sc st a :
  wf_scenario sc = true -> wf_state sc st = true -> In (a_tgt a) (addresses sc) ->
  r_value (snd (tail sc st a)) = gained sc st (fst (tail sc st a)).
Proof.
  intros WS WF Htgt.
  pose proof (wf_nodup sc WS) as ND.
  pose proof (wf_state_length sc st WF) as HL.
  unfold tail. destruct (is_subnet_scan a) eqn:SS.
  - (* subnet scan *)
    unfold subnet_scan.
    destruct (negb (h_comp (get_row sc st (a_tgt a)))) eqn:G1.
    { cbn [fst snd r_value res_conn]. symmetry. apply gained_refl. }
    destruct (negb (has_access (get_row sc st (a_tgt a)) (a_req a))) eqn:G2.
    { cbn [fst snd r_value res_perm]. symmetry. apply gained_refl. }
    cbn [fst snd r_value].
    rewrite (gained_rows sc st _ HL).
    f_equal. apply map_ext_in. intros p Hp.
    unfold gsum, newly_rooted, newly_disc, row.
    rewrite get_row_map_rows by (apply in_map; exact Hp).
    rewrite (get_row_of_member sc st p ND HL Hp).
    destruct p as [x h]. cbn [fst snd].
    destruct (scan_hits sc (fst (a_tgt a)) x) eqn:HIT.
    + cbn [set_disc h_acc h_disc]. rewrite <- same_ok.
      destruct (h_disc h); cbn [negb andb]; lia.
    + rewrite <- same_ok, <- same_ok_b. cbn [andb]. reflexivity.
  - (* host-level action *)
    cbv zeta.
    set (t := get_row sc st (a_tgt a)).
    destruct (host_perform_value t a) as [HD HV].
    cbn [fst snd]. rewrite HV.
    set (t' := fst (host_perform t a)) in *.
    set (st1 := set_row sc st (a_tgt a) t').
    set (st2 := if is_exploit a && r_success (snd (host_perform t a))
                then update_reachable sc st1 (fst (a_tgt a)) else st1).
    assert (IN1 : forall x, In x (addresses sc) -> In x (map fst (rows sc st1))).
    { intros x Hx. unfold st1, set_row. rewrite map_fst_rows_map_rows.
      apply wf_state_in_rows; auto. }
    assert (R2 : forall x, In x (addresses sc) ->
                 h_acc (get_row sc st2 x) = h_acc (get_row sc st1 x)
                 /\ h_disc (get_row sc st2 x) = h_disc (get_row sc st1 x)).
    { intros x Hx. unfold st2.
      destruct (is_exploit a && r_success (snd (host_perform t a))); [|auto].
      apply update_reachable_row. apply IN1. exact Hx. }
    rewrite gained_eq.
    rewrite (sumZ_map_single (gsum sc st st2) (addresses sc) (a_tgt a) ND Htgt).
    + destruct (R2 _ Htgt) as [A2 D2].
      unfold gsum, newly_rooted, newly_disc, row.
      rewrite A2, D2. unfold st1.
      rewrite get_row_set_row_same by (apply wf_state_in_rows; auto).
      fold t. rewrite HD. rewrite <- same_ok_b. lia.
    + intros y Hy Hne. destruct (R2 _ Hy) as [A2 D2].
      apply gsum_frame.
      * rewrite A2. unfold st1. rewrite get_row_set_row_other by congruence. reflexivity.
      * rewrite D2. unfold st1. rewrite get_row_set_row_other by congruence. reflexivity.
Qed.

Lemma C05_value_source_proof : C05_value_source_stmt.
Proof.
  unfold C05_value_source_stmt. intros sc st a k WS WF (Htgt & _ & _).
  unfold res, next. rewrite perform_action_nf.
  destruct (is_noop a) eqn:N.
  { cbn [fst snd r_value res_plain]. symmetry. apply gained_refl. }
  destruct (negb (gates_ok sc st a)) eqn:G.
  { cbn [fst snd].
    repeat match goal with |- context [if ?c then _ else _] => destruct c end;
      cbn [r_value res_conn res_perm]; symmetry; apply gained_refl. }
  destruct (negb (reexploit sc st a) && chance_fails a k) eqn:C.
  { cbn [fst snd r_value res_undef]. symmetry. apply gained_refl. }
  cbn [fst snd]. apply tail_value; auto.
Qed.

(* ================= histories ================= *)
Lemma flip_acc (a0 a1 a2 : nat) (v : Z) :
  (a0 <= a1)%nat -> (a1 <= a2)%nat -> (a2 <= 2)%nat ->
  (if negb (Nat.eqb a0 2) && Nat.eqb a2 2 then v else 0)
  = (if negb (Nat.eqb a0 2) && Nat.eqb a1 2 then v else 0)
    + (if negb (Nat.eqb a1 2) && Nat.eqb a2 2 then v else 0).
Proof.
  intros H1 H2 H3.
  destruct (Nat.eqb_spec a0 2), (Nat.eqb_spec a1 2), (Nat.eqb_spec a2 2);
    cbn [negb andb]; lia.
Qed.

Lemma flip_bool (d0 d1 d2 : bool) (v : Z) :
  (d0 = true -> d1 = true) -> (d1 = true -> d2 = true) ->
  (if negb d0 && d2 then v else 0)
  = (if negb d0 && d1 then v else 0) + (if negb d1 && d2 then v else 0).
Proof.
  destruct d0, d1, d2; cbn [negb andb]; intros H1 H2; try lia;
    try (specialize (H1 eq_refl); discriminate);
    try (specialize (H2 eq_refl); discriminate).
Qed.

(* a monotone flag flips at most once: gains add up along monotone evolutions *)
Lemma gained_add sc st st' st'' :
  (forall x, In x (addresses sc) ->
     (h_acc (get_row sc st x) <= 2)%nat
     /\ row_step (get_row sc st x) (get_row sc st' x)
     /\ row_step (get_row sc st' x) (get_row sc st'' x)) ->
  gained sc st st'' = gained sc st st' + gained sc st' st''.
Proof.
  intros H. rewrite !gained_eq. apply sumZ_map_add. intros x Hx.
  destruct (H x Hx) as (B0 & [C1 M1] & [C2 M2]).
  destruct (M1 B0) as [L1 B1]. destruct (M2 B1) as [L2 B2].
  destruct C1 as (_ & _ & _ & _ & V1 & D1).
  destruct L1 as (_ & _ & Dm1 & Am1). destruct L2 as (_ & _ & Dm2 & Am2).
  pose proof (flip_acc _ _ _ (h_val (get_row sc st x)) Am1 Am2 B2) as FA.
  pose proof (flip_bool _ _ _ (h_dval (get_row sc st x)) Dm1 Dm2) as FB.
  unfold gsum, newly_rooted, newly_disc, row, ROOT. rewrite V1, D1. lia.
Qed.

Definition st_step (sc : scenario) (st st' : state) : Prop :=
  forall x, In x (addresses sc) -> row_step (get_row sc st x) (get_row sc st' x).

Lemma run_steps_inv sc :
  wf_scenario sc = true ->
  forall l st, wf_state sc st = true -> Forall (fun p => act_ok sc (fst p)) l ->
    wf_state sc (fst (run_steps sc st l)) = true /\ st_step sc st (fst (run_steps sc st l)).
Proof.
  intros WS. induction l as [|[a k] r IH]; intros st WF Hall.
  - cbn [run_steps fst]. split; [exact WF|]. intros x _. apply row_step_refl.
  - inversion Hall as [|? ? Hok Hall']; subst. cbn [fst] in Hok.
    cbn [run_steps].
    specialize (IH (next sc st a k) (next_wf sc st a k WS WF Hok) Hall').
    destruct (run_steps sc (next sc st a k) r) as [stf v]. cbn [fst] in *.
    destruct IH as [W S]. split; [exact W|].
    intros x Hx. eapply row_step_trans; [exact (next_row_step sc st a k x WF Hok Hx) | apply S; exact Hx].
Qed.

Lemma C05_episode_telescopes_proof : C05_episode_telescopes_stmt.
Proof.
  unfold C05_episode_telescopes_stmt. intros sc st l WS. revert st.
  induction l as [|[a k] r IH]; intros st WF Hall.
  - cbn [run_steps fst snd]. symmetry. apply gained_refl.
  - inversion Hall as [|? ? Hok Hall']; subst. cbn [fst] in Hok.
    pose proof (next_wf sc st a k WS WF Hok) as WF'.
    specialize (IH (next sc st a k) WF' Hall').
    destruct (run_steps_inv sc WS r (next sc st a k) WF' Hall') as [_ S].
    cbn [run_steps].
    destruct (run_steps sc (next sc st a k) r) as [stf v]. cbn [fst snd] in *.
    rewrite IH, (C05_value_source_proof sc st a k WS WF Hok).
    symmetry. apply gained_add. intros x Hx. split; [|split].
    + apply wf_state_acc; auto.
    + apply next_row_step; auto.
    + apply S. exact Hx.
Qed.

(* ================= paid at most once ================= *)
Lemma count_pairs_trace_cons f sc st a k r :
  count_pairs f (trace sc st ((a, k) :: r))
  = ((if f st (next sc st a k) then 1 else 0) + count_pairs f (trace sc (next sc st a k) r))%nat.
Proof. destruct r as [|[a' k'] r']; reflexivity. Qed.

Lemma paid_once sc x :
  wf_scenario sc = true -> In x (addresses sc) ->
  forall l st, wf_state sc st = true -> Forall (fun p => act_ok sc (fst p)) l ->
    ((count_pairs (fun s s' => newly_rooted sc s s' x) (trace sc st l) <= 1)%nat
     /\ (h_acc (get_row sc st x) = 2%nat ->
         count_pairs (fun s s' => newly_rooted sc s s' x) (trace sc st l) = O))
    /\ ((count_pairs (fun s s' => newly_disc sc s s' x) (trace sc st l) <= 1)%nat
        /\ (h_disc (get_row sc st x) = true ->
            count_pairs (fun s s' => newly_disc sc s s' x) (trace sc st l) = O)).
Proof.
  intros WS Hx. induction l as [|[a k] r IH]; intros st WF Hall.
  - cbn [trace count_pairs]. repeat split; auto.
  - inversion Hall as [|? ? Hok Hall']; subst. cbn [fst] in Hok.
    pose proof (next_wf sc st a k WS WF Hok) as WF'.
    specialize (IH (next sc st a k) WF' Hall').
    destruct (next_row_step sc st a k x WF Hok Hx) as [_ M].
    destruct (M (wf_state_acc sc st x WF Hx)) as [(_ & _ & Dm & Am) B1].
    rewrite !count_pairs_trace_cons. cbv beta.
    set (cr := count_pairs (fun s s' => newly_rooted sc s s' x) (trace sc (next sc st a k) r)) in *.
    set (cd := count_pairs (fun s s' => newly_disc sc s s' x) (trace sc (next sc st a k) r)) in *.
    clearbody cr cd.
    destruct IH as [[R1 R2] [D1 D2]].
    unfold newly_rooted, newly_disc, row, ROOT. split.
    + destruct (Nat.eqb_spec (h_acc (get_row sc st x)) 2),
               (Nat.eqb_spec (h_acc (get_row sc (next sc st a k) x)) 2);
        cbn [negb andb]; lia.
    + destruct (h_disc (get_row sc st x)) eqn:E0.
      * rewrite (Dm eq_refl) in *. cbn [negb andb]. specialize (D2 eq_refl). lia.
      * destruct (h_disc (get_row sc (next sc st a k) x)) eqn:E1; cbn [negb andb].
        -- specialize (D2 eq_refl). split; [lia | discriminate].
        -- split; [lia | discriminate].
Qed.

Lemma C05_paid_at_most_once_proof : C05_paid_at_most_once_stmt.
Proof.
  unfold C05_paid_at_most_once_stmt. intros sc st l x WS WF Hall Hx.
  destruct (paid_once sc x WS Hx l st WF Hall) as [[R _] [D _]]. split; assumption.
Qed.

Print Assumptions C05_value_source_proof.
Print Assumptions C05_episode_telescopes_proof.
Print Assumptions C05_paid_at_most_once_proof.
