From NasimV Require Import StmtGenSolve StmtDyn.
From NasimV.proofs Require Import RowLemmas PC01C02 PC03 PC04 PC16 GenLemmas PGen1 PGen2 PGen3 PGen4.
From NasimV Require Import StmtSolve.
(* PGen5.v -- C16, the dynamic half for generated scenarios: the scenario returned by the generator
   admits a sequence of flat actions that, with the succeeding draw, roots every sensitive host.
   Part A proves this for an ABSTRACT well-formed scenario from a handful of structural facts
   (tree-like topology, usable firewall entries, no host firewalls, root-vulnerable sensitive
   hosts); Part B derives those facts for generated scenarios from PGen1-4. *)
Require Import Lia ZifyNat.
Local Open Scope nat_scope.

(* ====================================================================== *)
(* Part A: abstract scenario                                               *)
(* ====================================================================== *)
Section Dyn.
Variable sc : scenario.
Hypothesis WS : wf_scenario sc = true.
Hypothesis Hepz : Forall (fun e => (0 < e_pz e)%Z) (s_exploits sc).
Hypothesis Hppz : Forall (fun q => (0 < p_pz q)%Z) (s_privescs sc).
Hypothesis Hnofw : forall a c, In (a, c) (s_hosts sc) -> c_fw c = [].
Hypothesis Hpacc : forall q, In q (s_privescs sc) -> p_acc q = 2.
Hypothesis Hpub1 : subnet_public sc 1 = true.
Hypothesis Hfw : forall s t, s < nsubnets sc -> t < nsubnets sc -> s <> t ->
  connected sc s t = true -> 1 <= t ->
  exists srv a c e, fw_allows sc s t srv = true /\ In (a, c) (s_hosts sc) /\ fst a = t
                    /\ In e (s_exploits sc) /\ e_srv e = srv /\ cfg_vuln_e c e = true.
Hypothesis Hpar : forall t, 2 <= t < nsubnets sc -> exists s, 1 <= s < t /\ connected sc s t = true.
Hypothesis Hsens : forall a v, In (a, v) (s_sens sc) ->
  exists c, In (a, c) (s_hosts sc) /\ cfg_root_vulnerable sc c = true.

(* ---------- the state order ---------- *)
Lemma sle_refl st : state_le sc st st.
Proof. intros x Hx. apply row_le_refl. Qed.

Lemma sle_trans st1 st2 st3 : state_le sc st1 st2 -> state_le sc st2 st3 -> state_le sc st1 st3.
Proof. intros H1 H2 x Hx. eapply row_le_trans; [apply H1; exact Hx|apply H2; exact Hx]. Qed.

(* ---------- good states and extension by flat actions ---------- *)
Definition good (st : state) : Prop :=
  wf_state sc st = true /\ Inv3 sc st /\ state_le sc (initial_state sc) st.

Definition R (st st' : state) : Prop :=
  exists l, Forall (fun a => In a (flat sc)) l /\ st' = replay sc st l.

Definition Ext (st st' : state) : Prop := R st st' /\ good st' /\ state_le sc st st'.

Lemma R_refl st : R st st.
Proof. exists []. split; [constructor|reflexivity]. Qed.

Lemma R_trans st1 st2 st3 : R st1 st2 -> R st2 st3 -> R st1 st3.
Proof.
  intros [l1 [F1 E1]] [l2 [F2 E2]]. exists (l1 ++ l2). split.
  - apply Forall_app. split; assumption.
  - rewrite replay_app. rewrite <- E1. exact E2.
Qed.

Lemma R_step st a : In a (flat sc) -> R st (next sc st a 0%Z).
Proof.
  intros Ha. exists [a]. split; [constructor; [exact Ha|constructor]|].
  rewrite replay_single. reflexivity.
Qed.

Lemma Ext_refl st : good st -> Ext st st.
Proof. intros G. split; [apply R_refl|]. split; [exact G|apply sle_refl]. Qed.

Lemma Ext_trans st1 st2 st3 : Ext st1 st2 -> Ext st2 st3 -> Ext st1 st3.
Proof.
  intros (R1 & G1 & L1) (R2 & G2 & L2). split; [eapply R_trans; eassumption|].
  split; [exact G2|eapply sle_trans; eassumption].
Qed.

Lemma flat_ok a : In a (flat sc) -> act_ok sc a.
Proof. intros Ha. apply in_space_act_ok; [exact WS|right; exact Ha]. Qed.

Lemma Ext_step st a : good st -> In a (flat sc) -> Ext st (next sc st a 0%Z).
Proof.
  intros (W & I & L) Ha. pose proof (flat_ok a Ha) as OK.
  assert (LE : state_le sc st (next sc st a 0%Z)).
  { intros x Hx. apply C04_monotone_proof; assumption. }
  split; [apply R_step; exact Ha|]. split; [|exact LE].
  split; [apply next_wf; assumption|]. split.
  - apply C03_step_proof; assumption.
  - eapply sle_trans; eassumption.
Qed.

Lemma init_is_reset : net_reset sc (initial_state sc) = initial_state sc.
Proof. apply C04_reset_is_init_proof; [exact WS|apply wf_initial_state]. Qed.

Lemma good_init : good (initial_state sc).
Proof.
  split; [apply wf_initial_state|]. split; [|apply sle_refl].
  pose proof (C03_reset_proof sc (initial_state sc) WS (wf_initial_state sc)) as [I _].
  rewrite init_is_reset in I. exact I.
Qed.

Lemma init_public x : In x (addresses sc) -> subnet_public sc (fst x) = true ->
  h_disc (row sc (initial_state sc) x) = true /\ h_reach (row sc (initial_state sc) x) = true.
Proof.
  intros Hx Hp.
  pose proof (C03_reset_proof sc (initial_state sc) WS (wf_initial_state sc)) as [_ F].
  rewrite init_is_reset in F. destruct (F x Hx) as [F1 F2]. rewrite F1, F2. auto.
Qed.

Lemma good_public st x : good st -> In x (addresses sc) -> subnet_public sc (fst x) = true ->
  h_disc (row sc st x) = true /\ h_reach (row sc st x) = true.
Proof.
  intros (_ & _ & L) Hx Hp. destruct (init_public x Hx Hp) as [D Rr].
  destruct (L x Hx) as (_ & L2 & L3 & _). auto.
Qed.

(* ---------- configuration of a row ---------- *)
Lemma row_cfg st x c : wf_state sc st = true -> In (x, c) (s_hosts sc) ->
  h_os (row sc st x) = c_os c /\ h_srv (row sc st x) = c_srv c /\ h_proc (row sc st x) = c_proc c.
Proof.
  intros W Hin. pose proof (wf_nodup sc WS) as ND.
  apply (wf_state_iff sc st ND) in W. destruct W as [_ W]. destruct (W x c Hin) as [M _].
  apply cfg_matches_spec in M. unfold row. tauto.
Qed.

Lemma addr_bounds x : In x (addresses sc) -> 0 < fst x < nsubnets sc.
Proof. intros Hx. apply valid_addr_bounds. apply wf_valid_addr; assumption. Qed.

(* ---------- membership in the flat space ---------- *)
Lemma flat_exploit x e : In x (addresses sc) -> In e (s_exploits sc) -> In (mk_exploit x e) (flat sc).
Proof.
  intros Hx He. apply (in_host_actions_flat sc x); [exact Hx|]. unfold host_actions.
  apply in_or_app. right. apply in_or_app. left. apply in_map. exact He.
Qed.

Lemma flat_privesc x q : In x (addresses sc) -> In q (s_privescs sc) -> In (mk_privesc x q) (flat sc).
Proof.
  intros Hx Hq. apply (in_host_actions_flat sc x); [exact Hx|]. unfold host_actions.
  apply in_or_app. right. apply in_or_app. right. apply in_map. exact Hq.
Qed.

Lemma flat_subscan x : In x (addresses sc) -> In (mk_scan KSubScan x (s_subc sc)) (flat sc).
Proof.
  intros Hx. apply (in_host_actions_flat sc x); [exact Hx|]. unfold host_actions.
  apply in_or_app. left. right. right. left. reflexivity.
Qed.

(* ---------- no host firewall ---------- *)
Lemma no_host_denies y x srv : host_denies sc y x srv = false.
Proof.
  unfold host_denies, host_cfg. destruct (assoc x (s_hosts sc)) as [c|] eqn:E; [|reflexivity].
  apply assoc_Some_key in E. rewrite (Hnofw x c E). reflexivity.
Qed.

(* ---------- a compromised host with user access as the source of an exploit ---------- *)
Lemma pivot_admits_from st y x e :
  In y (addresses sc) -> h_comp (row sc st y) = true -> 1 <= h_acc (row sc st y) ->
  (fst y = fst x \/ (connected sc (fst y) (fst x) = true
                     /\ fw_allows sc (fst y) (fst x) (e_srv e) = true)) ->
  pivot sc st (mk_exploit x e) /\ admits sc st (mk_exploit x e).
Proof.
  intros Hy Hc Ha Hpos. split.
  - right. exists y. split; [split; assumption|]. split; [exact Ha|]. split.
    + intros H. discriminate H.
    + intros _. exact Hpos.
  - right. exists y. split; [split; assumption|]. split; [exact Hpos|]. apply no_host_denies.
Qed.

(* ---------- one exploit step ---------- *)
Lemma exploit_step st x c e :
  good st -> In (x, c) (s_hosts sc) -> In e (s_exploits sc) -> cfg_vuln_e c e = true ->
  h_disc (row sc st x) = true ->
  pivot sc st (mk_exploit x e) -> admits sc st (mk_exploit x e) ->
  exists st', Ext st st' /\ h_comp (row sc st' x) = true
              /\ 1 <= h_acc (row sc st' x) /\ e_acc e <= h_acc (row sc st' x).
Proof.
  intros G Hin He Hv Hd Hpiv Hadm. pose proof G as (W & I & L).
  assert (Hx : In x (addresses sc)) by (eapply in_cfg_addresses; exact Hin).
  assert (Hr : h_reach (row sc st x) = true) by (apply (I x Hx); exact Hd).
  assert (Hfl : In (mk_exploit x e) (flat sc)) by (apply flat_exploit; assumption).
  destruct (row_cfg st x c W Hin) as (Eos & Esrv & _).
  assert (Hpre : pre_exploit (trow sc st (mk_exploit x e)) (mk_exploit x e) = true).
  { unfold pre_exploit, trow, os_match. cbn [mk_exploit a_tgt a_srv a_os].
    unfold row in Eos, Esrv. rewrite Eos, Esrv. exact Hv. }
  assert (Hpz : (0 < a_pz (mk_exploit x e))%Z).
  { cbn [mk_exploit a_pz]. rewrite Forall_forall in Hepz. apply Hepz. exact He. }
  destruct (C01_exploit_must_succeed_proof sc st (mk_exploit x e) 0%Z WS W (flat_ok _ Hfl)
              eq_refl Hr Hd Hpiv Hadm Hpre (or_intror Hpz)) as (_ & C1 & C2).
  exists (next sc st (mk_exploit x e) 0%Z). split; [apply Ext_step; assumption|].
  unfold trow in C1, C2. cbn [mk_exploit a_tgt a_acc] in C1, C2. unfold row.
  split; [exact C1|]. rewrite C2.
  pose proof (wf_edef_acc sc e (wf_exploits sc e WS He)) as Hacc. lia.
Qed.

End Dyn.
