From NasimV Require Import StmtGenSolve StmtDyn.
From NasimV.proofs Require Import RowLemmas PC01C02 PC03 PC04 PC16 GenLemmas PGen1 PGen2 PGen3 PGen4.
From NasimV Require Import StmtSolve.
(* PGen5.v -- C16, the dynamic half for generated scenarios: the scenario returned by the generator
   admits a sequence of flat actions that, with the succeeding draw, roots every sensitive host.
   Part A proves this for an ABSTRACT well-formed scenario from a handful of structural facts
   (tree-like topology, usable firewall entries, no host firewalls, root-vulnerable sensitive
   hosts); Part B derives those facts for generated scenarios from PGen1-4. *)
Require Import Lia ZifyNat.
Local Open Scope nat_scope.

(* ====================================================================== *)
(* Part A: abstract scenario                                               *)
(* ====================================================================== *)
Section Dyn.
Variable sc : scenario.
Hypothesis WS : wf_scenario sc = true.
Hypothesis Hepz : Forall (fun e => (0 < e_pz e)%Z) (s_exploits sc).
Hypothesis Hppz : Forall (fun q => (0 < p_pz q)%Z) (s_privescs sc).
Hypothesis Hnofw : forall a c, In (a, c) (s_hosts sc) -> c_fw c = [].
Hypothesis Hpacc : forall q, In q (s_privescs sc) -> p_acc q = 2.
Hypothesis Hpub1 : subnet_public sc 1 = true.
Hypothesis Hfw : forall s t, s < nsubnets sc -> t < nsubnets sc -> s <> t ->
  connected sc s t = true -> 1 <= t ->
  exists srv a c e, fw_allows sc s t srv = true /\ In (a, c) (s_hosts sc) /\ fst a = t
                    /\ In e (s_exploits sc) /\ e_srv e = srv /\ cfg_vuln_e c e = true.
Hypothesis Hpar : forall t, 2 <= t < nsubnets sc -> exists s, 1 <= s < t /\ connected sc s t = true.
Hypothesis Hsens : forall a v, In (a, v) (s_sens sc) ->
  exists c, In (a, c) (s_hosts sc) /\ cfg_root_vulnerable sc c = true.

(* ---------- the state order ---------- *)
Lemma sle_refl st : state_le sc st st.
Proof. intros x Hx. apply row_le_refl. Qed.

Lemma sle_trans st1 st2 st3 : state_le sc st1 st2 -> state_le sc st2 st3 -> state_le sc st1 st3.
Proof. intros H1 H2 x Hx. eapply row_le_trans; [apply H1; exact Hx|apply H2; exact Hx]. Qed.

(* ---------- good states and extension by flat actions ---------- *)
Definition good (st : state) : Prop :=
  wf_state sc st = true /\ Inv3 sc st /\ state_le sc (initial_state sc) st.

Definition R (st st' : state) : Prop :=
  exists l, Forall (fun a => In a (flat sc)) l /\ st' = replay sc st l.

Definition Ext (st st' : state) : Prop := R st st' /\ good st' /\ state_le sc st st'.

Lemma R_refl st : R st st.
Proof. exists []. split; [constructor|reflexivity]. Qed.

Lemma R_trans st1 st2 st3 : R st1 st2 -> R st2 st3 -> R st1 st3.
Proof.
  intros [l1 [F1 E1]] [l2 [F2 E2]]. exists (l1 ++ l2). split.
  - apply Forall_app. split; assumption.
  - rewrite replay_app. rewrite <- E1. exact E2.
Qed.

Lemma R_step st a : In a (flat sc) -> R st (next sc st a 0%Z).
Proof.
  intros Ha. exists [a]. split; [constructor; [exact Ha|constructor]|].
  rewrite replay_single. reflexivity.
Qed.

Lemma Ext_refl st : good st -> Ext st st.
Proof. intros G. split; [apply R_refl|]. split; [exact G|apply sle_refl]. Qed.

Lemma Ext_trans st1 st2 st3 : Ext st1 st2 -> Ext st2 st3 -> Ext st1 st3.
Proof.
  intros (R1 & G1 & L1) (R2 & G2 & L2). split; [eapply R_trans; eassumption|].
  split; [exact G2|eapply sle_trans; eassumption].
Qed.

Lemma flat_ok a : In a (flat sc) -> act_ok sc a.
Proof. intros Ha. apply in_space_act_ok; [exact WS|right; exact Ha]. Qed.

Lemma Ext_step st a : good st -> In a (flat sc) -> Ext st (next sc st a 0%Z).
Proof.
  intros (W & I & L) Ha. pose proof (flat_ok a Ha) as OK.
  assert (LE : state_le sc st (next sc st a 0%Z)).
  { intros x Hx. apply C04_monotone_proof; assumption. }
  split; [apply R_step; exact Ha|]. split; [|exact LE].
  split; [apply next_wf; assumption|]. split.
  - apply C03_step_proof; assumption.
  - eapply sle_trans; eassumption.
Qed.

Lemma init_is_reset : net_reset sc (initial_state sc) = initial_state sc.
Proof. apply C04_reset_is_init_proof; [exact WS|apply wf_initial_state]. Qed.

Lemma good_init : good (initial_state sc).
Proof.
  split; [apply wf_initial_state|]. split; [|apply sle_refl].
  pose proof (C03_reset_proof sc (initial_state sc) WS (wf_initial_state sc)) as [I _].
  rewrite init_is_reset in I. exact I.
Qed.

Lemma init_public x : In x (addresses sc) -> subnet_public sc (fst x) = true ->
  h_disc (row sc (initial_state sc) x) = true /\ h_reach (row sc (initial_state sc) x) = true.
Proof.
  intros Hx Hp.
  pose proof (C03_reset_proof sc (initial_state sc) WS (wf_initial_state sc)) as [_ F].
  rewrite init_is_reset in F. destruct (F x Hx) as [F1 F2]. rewrite F1, F2. auto.
Qed.

Lemma good_public st x : good st -> In x (addresses sc) -> subnet_public sc (fst x) = true ->
  h_disc (row sc st x) = true /\ h_reach (row sc st x) = true.
Proof.
  intros (_ & _ & L) Hx Hp. destruct (init_public x Hx Hp) as [D Rr].
  destruct (L x Hx) as (_ & L2 & L3 & _). auto.
Qed.

(* ---------- configuration of a row ---------- *)
Lemma row_cfg st x c : wf_state sc st = true -> In (x, c) (s_hosts sc) ->
  h_os (row sc st x) = c_os c /\ h_srv (row sc st x) = c_srv c /\ h_proc (row sc st x) = c_proc c.
Proof.
  intros W Hin. pose proof (wf_nodup sc WS) as ND.
  apply (wf_state_iff sc st ND) in W. destruct W as [_ W]. destruct (W x c Hin) as [M _].
  apply cfg_matches_spec in M. unfold row. tauto.
Qed.

Lemma addr_bounds x : In x (addresses sc) -> 0 < fst x < nsubnets sc.
Proof. intros Hx. apply valid_addr_bounds. apply wf_valid_addr; assumption. Qed.

(* ---------- membership in the flat space ---------- *)
Lemma flat_exploit x e : In x (addresses sc) -> In e (s_exploits sc) -> In (mk_exploit x e) (flat sc).
Proof.
  intros Hx He. apply (in_host_actions_flat sc x); [exact Hx|]. unfold host_actions.
  apply in_or_app. right. apply in_or_app. left. apply in_map. exact He.
Qed.

Lemma flat_privesc x q : In x (addresses sc) -> In q (s_privescs sc) -> In (mk_privesc x q) (flat sc).
Proof.
  intros Hx Hq. apply (in_host_actions_flat sc x); [exact Hx|]. unfold host_actions.
  apply in_or_app. right. apply in_or_app. right. apply in_map. exact Hq.
Qed.

Lemma flat_subscan x : In x (addresses sc) -> In (mk_scan KSubScan x (s_subc sc)) (flat sc).
Proof.
  intros Hx. apply (in_host_actions_flat sc x); [exact Hx|]. unfold host_actions.
  apply in_or_app. left. right. right. left. reflexivity.
Qed.

(* ---------- no host firewall ---------- *)
Lemma no_host_denies y x srv : host_denies sc y x srv = false.
Proof.
  unfold host_denies, host_cfg. destruct (assoc x (s_hosts sc)) as [c|] eqn:E; [|reflexivity].
  apply assoc_Some_key in E. rewrite (Hnofw x c E). reflexivity.
Qed.

(* ---------- a compromised host with user access as the source of an exploit ---------- *)
Lemma pivot_admits_from st y x e :
  In y (addresses sc) -> h_comp (row sc st y) = true -> 1 <= h_acc (row sc st y) ->
  (fst y = fst x \/ (connected sc (fst y) (fst x) = true
                     /\ fw_allows sc (fst y) (fst x) (e_srv e) = true)) ->
  pivot sc st (mk_exploit x e) /\ admits sc st (mk_exploit x e).
Proof.
  intros Hy Hc Ha Hpos. split.
  - right. exists y. split; [split; assumption|]. split; [exact Ha|]. split.
    + intros H. discriminate H.
    + intros _. exact Hpos.
  - right. exists y. split; [split; assumption|]. split; [exact Hpos|]. apply no_host_denies.
Qed.

(* ---------- one exploit step ---------- *)
Lemma exploit_step st x c e :
  good st -> In (x, c) (s_hosts sc) -> In e (s_exploits sc) -> cfg_vuln_e c e = true ->
  h_disc (row sc st x) = true ->
  pivot sc st (mk_exploit x e) -> admits sc st (mk_exploit x e) ->
  exists st', Ext st st' /\ h_comp (row sc st' x) = true
              /\ 1 <= h_acc (row sc st' x) /\ e_acc e <= h_acc (row sc st' x).
Proof.
  intros G Hin He Hv Hd Hpiv Hadm. pose proof G as (W & I & L).
  assert (Hx : In x (addresses sc)) by (eapply in_cfg_addresses; exact Hin).
  assert (Hr : h_reach (row sc st x) = true) by (apply (I x Hx); exact Hd).
  assert (Hfl : In (mk_exploit x e) (flat sc)) by (apply flat_exploit; assumption).
  destruct (row_cfg st x c W Hin) as (Eos & Esrv & _).
  assert (Hpre : pre_exploit (trow sc st (mk_exploit x e)) (mk_exploit x e) = true).
  { unfold pre_exploit, trow, os_match. cbn [mk_exploit a_tgt a_srv a_os].
    unfold row in Eos, Esrv. rewrite Eos, Esrv. exact Hv. }
  assert (Hpz : (0 < a_pz (mk_exploit x e))%Z).
  { cbn [mk_exploit a_pz]. rewrite Forall_forall in Hepz. apply Hepz. exact He. }
  destruct (C01_exploit_must_succeed_proof sc st (mk_exploit x e) 0%Z WS W (flat_ok _ Hfl)
              eq_refl Hr Hd Hpiv Hadm Hpre (or_intror Hpz)) as (_ & C1 & C2).
  exists (next sc st (mk_exploit x e) 0%Z). split; [apply Ext_step; assumption|].
  unfold trow in C1, C2. cbn [mk_exploit a_tgt a_acc] in C1, C2. unfold row.
  split; [exact C1|]. rewrite C2.
  pose proof (wf_edef_acc sc e (wf_exploits sc e WS He)) as Hacc. lia.
Qed.

(* ---------- owned subnets ---------- *)
Definition owned (st : state) (t : nat) : Prop :=
  exists y, In y (addresses sc) /\ fst y = t /\ h_comp (row sc st y) = true
            /\ 1 <= h_acc (row sc st y).

Lemma owned_mono st st' t : state_le sc st st' -> owned st t -> owned st' t.
Proof.
  intros L (y & Hy & Ht & Hc & Ha). exists y. destruct (L y Hy) as (L1 & _ & _ & L4).
  split; [exact Hy|]. split; [exact Ht|]. split; [apply L1; exact Hc|lia].
Qed.

(* ---------- (P1) entering the DMZ ---------- *)
Lemma enter_dmz st : good st -> exists st', Ext st st' /\ owned st' 1.
Proof.
  intros G. pose proof (wf_nsubnets sc WS) as N.
  assert (C01 : connected sc 0 1 = true).
  { rewrite (wf_connected_sym sc (s:=0) (t:=1) WS) by lia. exact Hpub1. }
  destruct (Hfw 0 1) as (srv & a & c & e & F & Hin & Ha & He & Hs & Hv); try lia; [exact C01|].
  assert (Hx : In a (addresses sc)) by (eapply in_cfg_addresses; exact Hin).
  assert (Hp : subnet_public sc (fst a) = true) by (rewrite Ha; exact Hpub1).
  destruct (good_public st a G Hx Hp) as [D _].
  destruct (exploit_step st a c e G Hin He Hv D) as (st' & E & C1 & C2 & _).
  - left. cbn [mk_exploit a_tgt]. exact Hp.
  - left. cbn [mk_exploit a_tgt a_srv]. split; [exact Hp|]. rewrite Ha, Hs. exact F.
  - exists st'. split; [exact E|]. exists a. auto.
Qed.

(* ---------- (P2) a subnet scan from a compromised host ---------- *)
Lemma scan_step st y :
  good st -> In y (addresses sc) -> h_comp (row sc st y) = true -> 1 <= h_acc (row sc st y) ->
  exists st', Ext st st'
    /\ forall z, In z (addresses sc) -> connected sc (fst y) (fst z) = true ->
                 h_disc (row sc st' z) = true.
Proof.
  intros G Hy Hc Ha. pose proof G as (W & I & L).
  assert (Hd : h_disc (row sc st y) = true) by (apply (I y Hy); exact Hc).
  assert (Hr : h_reach (row sc st y) = true) by (apply (I y Hy); exact Hd).
  set (a := mk_scan KSubScan y (s_subc sc)).
  assert (Hfl : In a (flat sc)) by (apply flat_subscan; exact Hy).
  assert (Et : a_tgt a = y) by reflexivity.
  assert (Hg : gates_ok sc st a = true).
  { unfold gates_ok, trow. cbv zeta. rewrite Et. unfold row in Hr, Hd. rewrite Hr, Hd. reflexivity. }
  assert (S : r_success (Spec.res sc st a 0%Z) = true).
  { unfold Spec.res. rewrite (pa_gates_ok sc st a 0%Z eq_refl Hg).
    unfold pa_body. cbv zeta.
    assert (E1 : is_exploit a = false) by reflexivity.
    assert (E2 : chance_fails a 0%Z = false) by reflexivity.
    assert (E3 : is_subnet_scan a = true) by reflexivity.
    rewrite E1, E2, E3. cbn [andb negb]. unfold subnet_scan. cbv zeta. rewrite Et.
    unfold row in Hc, Ha. rewrite Hc. cbn [negb].
    assert (E4 : has_access (get_row sc st y) (a_req a) = true).
    { unfold has_access. apply Nat.leb_le. exact Ha. }
    rewrite E4. reflexivity. }
  exists (next sc st a 0%Z). split; [apply Ext_step; assumption|].
  intros z Hz Cz.
  rewrite (C03_scan_discovers_exactly_proof sc st a 0%Z z WS W Hz eq_refl S).
  rewrite Et, Cz. apply orb_true_r.
Qed.

(* ---------- (P3) spreading along an edge ---------- *)
Lemma spread st s t :
  good st -> owned st s -> s <> t -> 1 <= t < nsubnets sc -> connected sc s t = true ->
  (forall z, In z (addresses sc) -> fst z = t -> h_disc (row sc st z) = true) ->
  exists st', Ext st st' /\ owned st' t.
Proof.
  intros G (y & Hy & Hys & Hc & Hacc) Hne Ht Hcon Hdisc.
  pose proof (addr_bounds y Hy) as By. rewrite Hys in By.
  destruct (Hfw s t) as (srv & a & c & e & F & Hin & Ha & He & Hs & Hv); try lia; [exact Hcon|].
  assert (Hx : In a (addresses sc)) by (eapply in_cfg_addresses; exact Hin).
  destruct (pivot_admits_from st y a e Hy Hc Hacc) as [Hpiv Hadm].
  { right. rewrite Hys, Ha, Hs. split; assumption. }
  destruct (exploit_step st a c e G Hin He Hv (Hdisc a Hx Ha) Hpiv Hadm) as (st' & E & C1 & C2 & _).
  exists st'. split; [exact E|]. exists a. auto.
Qed.

(* ---------- (P4) rooting a host inside an owned subnet ---------- *)
Lemma root_host st x c :
  good st -> owned st (fst x) -> In (x, c) (s_hosts sc) -> cfg_root_vulnerable sc c = true ->
  h_disc (row sc st x) = true ->
  exists st', Ext st st' /\ 2 <= h_acc (row sc st' x).
Proof.
  intros G (y & Hy & Hys & Hc & Hacc) Hin Hrv Hd.
  assert (Hx : In x (addresses sc)) by (eapply in_cfg_addresses; exact Hin).
  unfold cfg_root_vulnerable in Hrv. apply existsb_exists in Hrv.
  destruct Hrv as (e & He & Hrv). apply andb_true_iff in Hrv. destruct Hrv as [Hv Hrv].
  destruct (pivot_admits_from st y x e Hy Hc Hacc (or_introl Hys)) as [Hpiv Hadm].
  destruct (exploit_step st x c e G Hin He Hv Hd Hpiv Hadm) as (st1 & E1 & C1 & C2 & C3).
  apply orb_true_iff in Hrv. destruct Hrv as [Hrv|Hrv].
  - apply Nat.leb_le in Hrv. exists st1. split; [exact E1|lia].
  - apply existsb_exists in Hrv. destruct Hrv as (q & Hq & Hvq).
    pose proof E1 as (_ & G1 & _). pose proof G1 as (W1 & I1 & _).
    assert (Hd1 : h_disc (row sc st1 x) = true) by (apply (I1 x Hx); exact C1).
    assert (Hr1 : h_reach (row sc st1 x) = true) by (apply (I1 x Hx); exact Hd1).
    assert (Hfl : In (mk_privesc x q) (flat sc)) by (apply flat_privesc; assumption).
    destruct (row_cfg st1 x c W1 Hin) as (Eos & _ & Eproc).
    assert (Hpre : pre_privesc (trow sc st1 (mk_privesc x q)) (mk_privesc x q) = true).
    { unfold pre_privesc, trow, os_match. cbn [mk_privesc a_tgt a_req a_proc a_os].
      unfold row in Eos, Eproc, C1, C2. rewrite Eos, Eproc, C1.
      assert (E4 : Nat.leb USER (h_acc (get_row sc st1 x)) = true) by (apply Nat.leb_le; exact C2).
      rewrite E4. cbn [andb]. exact Hvq. }
    assert (Hpz : (0 < a_pz (mk_privesc x q))%Z).
    { cbn [mk_privesc a_pz]. rewrite Forall_forall in Hppz. apply Hppz. exact Hq. }
    destruct (C01_privesc_must_succeed_proof sc st1 (mk_privesc x q) 0%Z WS W1 (flat_ok _ Hfl)
                eq_refl Hr1 Hd1 Hpre Hpz) as (_ & _ & D2).
    exists (next sc st1 (mk_privesc x q) 0%Z). split.
    + eapply Ext_trans; [exact E1|]. apply Ext_step; assumption.
    + unfold trow in D2. cbn [mk_privesc a_tgt a_acc] in D2. unfold row. rewrite D2.
      rewrite (Hpacc q Hq). lia.
Qed.

(* ---------- (M1) every subnet can be owned, with all its hosts discovered ---------- *)
Definition subnet_disc (st : state) (t : nat) : Prop :=
  forall z, In z (addresses sc) -> fst z = t -> h_disc (row sc st z) = true.

Lemma subnet_disc_mono st st' t : state_le sc st st' -> subnet_disc st t -> subnet_disc st' t.
Proof. intros L D z Hz Ht. destruct (L z Hz) as (_ & _ & L3 & _). apply L3. apply D; assumption. Qed.

Lemma own_subnet : forall t, 1 <= t < nsubnets sc ->
  forall st, good st -> exists st', Ext st st' /\ owned st' t /\ subnet_disc st' t.
Proof.
  intros t. induction t as [t IH] using lt_wf_ind. intros Ht st G.
  destruct (Nat.eq_dec t 1) as [->|Hne].
  - destruct (enter_dmz st G) as (st' & E & O). exists st'. split; [exact E|]. split; [exact O|].
    destruct E as (_ & G' & _). intros z Hz Hz1. apply (good_public st' z G' Hz).
    rewrite Hz1. exact Hpub1.
  - destruct (Hpar t) as (s & Hs & Hcon); [lia|].
    destruct (IH s) with (st := st) as (st1 & E1 & O1 & _); [lia|lia|exact G|].
    pose proof E1 as (_ & G1 & _).
    destruct O1 as (y & Hy & Hys & Hc & Hacc).
    destruct (scan_step st1 y G1 Hy Hc Hacc) as (st2 & E2 & D2).
    pose proof E2 as (_ & G2 & L2).
    assert (O2 : owned st2 s).
    { apply (owned_mono st1 st2 s L2). exists y. auto. }
    assert (SD2 : subnet_disc st2 t).
    { intros z Hz Hzt. apply D2; [exact Hz|]. rewrite Hys, Hzt. exact Hcon. }
    destruct (spread st2 s t G2 O2) as (st3 & E3 & O3); [lia|lia|exact Hcon|exact SD2|].
    exists st3. split; [eapply Ext_trans; [exact E1|]; eapply Ext_trans; eassumption|].
    split; [exact O3|]. destruct E3 as (_ & _ & L3). eapply subnet_disc_mono; eassumption.
Qed.

(* ---------- (M2) every root-vulnerable host can be rooted ---------- *)
Lemma root_any st x c :
  good st -> In (x, c) (s_hosts sc) -> cfg_root_vulnerable sc c = true ->
  exists st', Ext st st' /\ 2 <= h_acc (row sc st' x).
Proof.
  intros G Hin Hrv.
  assert (Hx : In x (addresses sc)) by (eapply in_cfg_addresses; exact Hin).
  pose proof (addr_bounds x Hx) as Bx.
  destruct (own_subnet (fst x)) with (st := st) as (st1 & E1 & O1 & D1); [lia|exact G|].
  pose proof E1 as (_ & G1 & _).
  destruct (root_host st1 x c G1 O1 Hin Hrv (D1 x Hx eq_refl)) as (st2 & E2 & A2).
  exists st2. split; [eapply Ext_trans; eassumption|exact A2].
Qed.

(* ---------- (M3) all sensitive hosts ---------- *)
Lemma root_all : forall L : list (addr * Z), (forall e, In e L -> In e (s_sens sc)) ->
  forall st, good st ->
  exists st', Ext st st' /\ forall e, In e L -> 2 <= h_acc (row sc st' (fst e)).
Proof.
  induction L as [|e0 L IH]; intros Hsub st G.
  - exists st. split; [apply Ext_refl; exact G|]. intros e [].
  - destruct (IH (fun e He => Hsub e (or_intror He)) st G) as (st1 & E1 & A1).
    pose proof E1 as (_ & G1 & _).
    destruct e0 as [a v].
    destruct (Hsens a v (Hsub _ (or_introl eq_refl))) as (c & Hin & Hrv).
    destruct (root_any st1 a c G1 Hin Hrv) as (st2 & E2 & A2).
    exists st2. split; [eapply Ext_trans; eassumption|].
    intros e [<-|He]; [exact A2|].
    destruct E2 as (_ & _ & L2).
    assert (Hx : In (fst e) (addresses sc)).
    { destruct e as [a' v']. destruct (Hsens a' v' (Hsub _ (or_intror He))) as (c' & Hin' & _).
      eapply in_cfg_addresses. exact Hin'. }
    destruct (L2 (fst e) Hx) as (_ & _ & _ & L4). specialize (A1 e He). lia.
Qed.

Theorem abstract_solvable :
  exists l, Forall (fun a => In a (flat sc)) l
            /\ goal sc (replay sc (initial_state sc) l) = true.
Proof.
  destruct (root_all (s_sens sc) (fun e He => He) (initial_state sc) good_init)
    as (st' & ((l & Fl & El) & _ & _) & A).
  exists l. split; [exact Fl|]. rewrite <- El. unfold goal. apply forallb_forall.
  intros e He. unfold has_access. apply Nat.leb_le. apply (A e He).
Qed.

End Dyn.


(* ====================================================================== *)
(* Part B: generated scenarios                                             *)
(* ====================================================================== *)
Lemma gen_connected_eq p o sc : gen_ok p o sc ->
  forall s t, s < nsubnets sc -> t < nsubnets sc ->
    connected sc s t = gen_connected (nsubnets sc) s t.
Proof.
  intros [rest H]. gen_unpack H PO St.
  destruct H as [H1 [H2 [H3 [H4 [H5 [H6 [H7 Hsc]]]]]]]. subst sc.
  unfold connected, nsubnets. sc_proj. intros s t Hs Ht. apply gen_topology_nth; assumption.
Qed.

(* the parent of subnet t >= 2: the DMZ for the sensitive subnet and the root of the user tree,
   the tree parent otherwise *)
Lemma gen_parent n t : 4 <= n -> 2 <= t < n ->
  exists s, 1 <= s < t /\ gen_connected n s t = true.
Proof.
  intros Hn Ht. destruct (Nat.lt_ge_cases t 4) as [L|L].
  - exists 1. split; [lia|].
    assert (E : t = 2 \/ t = 3) by lia. destruct E as [->| ->]; reflexivity.
  - pose proof (Nat.div_mod (t - 4) 2) as DM. pose proof (Nat.mod_upper_bound (t - 4) 2) as MB.
    set (pos := (t - 4) / 2) in *. set (m := (t - 4) mod 2) in *.
    exists (pos + 3). split; [lia|]. unfold gen_connected.
    replace (Nat.ltb t 4) with false by (symmetry; apply Nat.ltb_ge; lia).
    rewrite andb_false_r.
    replace (Nat.eqb n 4) with false by (symmetry; apply Nat.eqb_neq; lia).
    replace (Nat.ltb (pos + 3) 3) with false by (symmetry; apply Nat.ltb_ge; lia).
    rewrite !orb_true_iff, !andb_true_iff, !Nat.eqb_eq, !Nat.ltb_lt. lia.
Qed.

Lemma C16_generated_proof : C16_generated_stmt.
Proof.
  intros p o sc G WS Hepz Hppz.
  pose proof (C15_shape_proof p o sc G) as (_ & _ & _ & N4 & _).
  fold (nsubnets sc) in N4.
  pose proof (C15_topology_proof p o sc G) as (_ & _ & _ & _ & Tpub). cbv zeta in Tpub.
  pose proof (C15_hosts_proof p o sc G) as (_ & Thosts).
  pose proof (C15_actions_proof p o sc G) as (_ & Tpe & _).
  pose proof (C15_firewall_proof p o sc G) as (Tfw & _). cbv zeta in Tfw.
  apply (abstract_solvable sc WS Hepz Hppz).
  - (* no host firewalls *)
    intros a c Hin. rewrite Forall_forall in Thosts. specialize (Thosts _ Hin).
    cbn [snd] in Thosts. tauto.
  - (* escalations grant root *)
    intros q Hq. rewrite Forall_forall in Tpe. specialize (Tpe _ Hq). tauto.
  - (* the DMZ is public *)
    apply Tpub; [lia|reflexivity].
  - (* usable firewall entries *)
    intros s t Hs Ht Hne Hcon Ht1.
    destruct (assoc (s, t) (s_fw sc)) as [l|] eqn:El.
    2:{ exfalso. apply (proj2 (Tfw s t Hs Ht)); [split; assumption|exact El]. }
    destruct (C16_gen_firewall_admits_usable_service p o sc G s t l El Ht1)
      as (srv & a & c & e & Hl & Hin & Ha & He & Hsrv & Hv).
    exists srv, a, c, e. split; [|auto].
    unfold fw_allows. rewrite El. apply mem_nat_In. exact Hl.
  - (* tree-like topology *)
    intros t Ht. destruct (gen_parent (nsubnets sc) t N4 Ht) as (s & Hs & Hc).
    exists s. split; [exact Hs|]. rewrite (gen_connected_eq p o sc G) by lia. exact Hc.
  - (* sensitive hosts *)
    apply (C16_gen_sensitive_root_vulnerable p o sc G).
Qed.

Print Assumptions C16_generated_proof.
