From NasimV Require Import Format.
From Coq Require Import Btauto.

(* ================================================================== *)
(* C17_prob_one_ok : plain computation (done before making SCALE opaque) *)
Lemma C17_prob_one_ok_proof : C17_prob_one_ok_stmt.
Proof. unfold C17_prob_one_ok_stmt. repeat split; vm_compute; reflexivity. Qed.

Opaque SCALE num_fx num_pz num_scaled.

(* ================================================================== *)
(* general list lemmas *)

Lemma mapM_char {A B : Type} (f : A -> option B) (def : B) (l : list A) :
  mapM_opt f l = if forallb (fun x => is_some (f x)) l
                 then Some (map (fun x => dflt def (f x)) l) else None.
Proof.
  induction l as [|x r IH]; [reflexivity|].
  cbn [mapM_opt forallb map]. rewrite IH.
  destruct (f x) as [y|]; cbn [is_some andb dflt]; [|reflexivity].
  destruct (forallb (fun x0 => is_some (f x0)) r); reflexivity.
Qed.

Lemma flat_map_some {A B : Type} (f : A -> option B) (def : B) (l : list A) :
  forallb (fun x => is_some (f x)) l = true ->
  flat_map (fun x => match f x with Some e => [e] | None => [] end) l
  = map (fun x => dflt def (f x)) l.
Proof.
  induction l as [|a r IH]; cbn [forallb flat_map map]; intros H; [reflexivity|].
  apply andb_true_iff in H. destruct H as [H1 H2]. rewrite (IH H2).
  destruct (f a); [reflexivity|discriminate H1].
Qed.

Lemma forallb_false_in {A : Type} (f : A -> bool) (l : list A) (x : A) :
  In x l -> f x = false -> forallb f l = false.
Proof.
  intros Hin Hf. destruct (forallb f l) eqn:E; [|reflexivity].
  rewrite forallb_forall in E. rewrite (E x Hin) in Hf. discriminate Hf.
Qed.

Lemma forallb_ext_in {A : Type} (f g : A -> bool) (l : list A) :
  (forall x, In x l -> f x = g x) -> forallb f l = forallb g l.
Proof.
  induction l as [|a r IH]; intros H; [reflexivity|].
  cbn [forallb]. rewrite (H a (or_introl eq_refl)). rewrite IH; [reflexivity|].
  intros x Hx. apply H. right; exact Hx.
Qed.

Lemma forallb_andb {A : Type} (f g : A -> bool) (l : list A) :
  forallb (fun x => f x && g x) l = forallb f l && forallb g l.
Proof.
  induction l as [|a r IH]; [reflexivity|].
  cbn [forallb]. rewrite IH. btauto.
Qed.

(* ================================================================== *)
(* lookup facts *)

Lemma key_eqb_str k n : key_eqb k (YStr n) = true -> k = YStr n.
Proof.
  destruct k; cbn [key_eqb]; intros H; try discriminate H.
  apply Nat.eqb_eq in H. subst. reflexivity.
Qed.

Lemma lookup_str_in n d v : lookup (YStr n) d = Some v -> In (YStr n, v) d.
Proof.
  induction d as [|[k' v'] r IH]; cbn [lookup]; [intros H; discriminate H|].
  destruct (key_eqb k' (YStr n)) eqn:E.
  - intros H. injection H as ->. apply key_eqb_str in E. subst. left; reflexivity.
  - intros H. right. exact (IH H).
Qed.

Lemma lookup_typed d k t v :
  forallb entry_ok d = true -> key_type k = Some t -> lookup k d = Some v -> has_type t v = true.
Proof.
  intros Hent Hk Hl.
  destruct k; try (cbn in Hk; discriminate Hk).
  apply lookup_str_in in Hl. rewrite forallb_forall in Hent. specialize (Hent _ Hl).
  unfold entry_ok in Hent. cbn [fst snd] in Hent. rewrite Hk in Hent. exact Hent.
Qed.

Lemma sec_list_some d k l : sec_list d k = Some l -> has_key k d = true.
Proof.
  unfold sec_list, has_key. destruct (lookup k d); intros H; [reflexivity|discriminate H].
Qed.

Lemma sec_map_some d k m : sec_map d k = Some m -> has_key k d = true.
Proof.
  unfold sec_map, has_key. destruct (lookup k d); intros H; [reflexivity|discriminate H].
Qed.

Lemma scan_cost_some d k z : scan_cost d k = Some z -> has_key k d = true.
Proof.
  unfold scan_cost, has_key. destruct (lookup k d); intros H; [reflexivity|discriminate H].
Qed.

Lemma sec_list_none d k :
  forallb entry_ok d = true -> key_type k = Some TList -> sec_list d k = None -> has_key k d = false.
Proof.
  intros Hent Hk. unfold sec_list, has_key.
  destruct (lookup k d) as [v|] eqn:L; [|reflexivity].
  pose proof (lookup_typed _ _ _ _ Hent Hk L) as Ht.
  destruct v; cbn [has_type] in Ht; try discriminate Ht; intros H; discriminate H.
Qed.

Lemma sec_map_none d k :
  forallb entry_ok d = true -> key_type k = Some TMap -> sec_map d k = None -> has_key k d = false.
Proof.
  intros Hent Hk. unfold sec_map, has_key.
  destruct (lookup k d) as [v|] eqn:L; [|reflexivity].
  pose proof (lookup_typed _ _ _ _ Hent Hk L) as Ht.
  destruct v; cbn [has_type] in Ht; try discriminate Ht; intros H; discriminate H.
Qed.

(* the 14 required keys are pairwise different, so a document that has them all has
   at least 14 entries *)
Lemma required_len d :
  forallb (fun k => has_key k d) required_keys = true -> (14 <= length d)%nat.
Proof.
  intros H. rewrite forallb_forall in H.
  assert (Hincl : incl required_keys (map fst d)).
  { intros k Hk. specialize (H k Hk). unfold has_key in H.
    destruct (lookup k d) as [y|] eqn:L; [|discriminate H].
    assert (Hn : exists n, k = YStr n).
    { unfold required_keys in Hk. cbn [In] in Hk.
      repeat (destruct Hk as [Hk|Hk]; [rewrite <- Hk; eexists; reflexivity|]).
      contradiction. }
    destruct Hn as [n ->].
    apply lookup_str_in in L. apply in_map_iff. exists (YStr n, y). split; [reflexivity|exact L]. }
  assert (Hnd : NoDup required_keys).
  { cbv [required_keys k_subnets k_topology k_sensitive k_os k_services k_processes k_exploits
         k_privescs k_ssc k_subc k_osc k_psc k_hostcfgs k_firewall].
    repeat constructor; cbn [In]; intuition discriminate. }
  pose proof (NoDup_incl_length Hnd Hincl) as Hl. rewrite map_length in Hl. exact Hl.
Qed.

Lemma check_sections_false d : check_sections d = false -> v_sections d = false.
Proof.
  unfold check_sections, v_sections. intros H.
  destruct (forallb entry_ok d); [|apply andb_false_r].
  rewrite andb_true_r in H. rewrite andb_true_r.
  destruct (forallb (fun k => has_key k d) required_keys) eqn:E; [|reflexivity].
  apply required_len in E. apply Nat.leb_gt in H. lia.
Qed.

(* ================================================================== *)
(* one failing clause makes [valid] false *)
Ltac vf H := unfold valid; rewrite H; btauto.

Lemma vf_sections d : v_sections d = false -> valid d = false. Proof. intros H; vf H. Qed.
Lemma vf_subnets d : v_subnets d = false -> valid d = false. Proof. intros H; vf H. Qed.
Lemma vf_topology d : v_topology d = false -> valid d = false. Proof. intros H; vf H. Qed.
Lemma vf_names d : v_names d = false -> valid d = false. Proof. intros H; vf H. Qed.
Lemma vf_sensitive d : v_sensitive d = false -> valid d = false. Proof. intros H; vf H. Qed.
Lemma vf_exploits d : v_exploits d = false -> valid d = false. Proof. intros H; vf H. Qed.
Lemma vf_privescs d : v_privescs d = false -> valid d = false. Proof. intros H; vf H. Qed.
Lemma vf_scan_costs d : v_scan_costs d = false -> valid d = false. Proof. intros H; vf H. Qed.
Lemma vf_host_cfgs d : v_host_cfgs d = false -> valid d = false. Proof. intros H; vf H. Qed.
Lemma vf_firewall d : v_firewall d = false -> valid d = false. Proof. intros H; vf H. Qed.
Lemma vf_step_limit d : v_step_limit d = false -> valid d = false. Proof. intros H; vf H. Qed.

Lemma vf_key d k : In k required_keys -> has_key k d = false -> valid d = false.
Proof.
  intros Hin Hk. apply vf_sections. unfold v_sections.
  rewrite (forallb_false_in (fun k0 => has_key k0 d) required_keys k Hin Hk). reflexivity.
Qed.

Ltac in_req := unfold required_keys; cbn [In]; repeat (first [left; reflexivity | right]).

(* ================================================================== *)
(* the sub-parsers, characterised equationally *)

Definition addr_of_key (kv : yv * yv) : addr := z_addr (dflt (0, 0) (eval_pair (fst kv))).

Lemma parse_sens_char d :
  parse_sens (d_sizes d) (d_sensm d) = if v_sensitive d then Some (d_sens d) else None.
Proof.
  unfold parse_sens, v_sensitive.
  destruct (Nat.eqb (length (d_sensm d)) 0); cbn [negb andb]; [reflexivity|].
  destruct (Nat.leb (length (d_sensm d)) (num_hosts (d_sizes d))); cbn [negb andb]; [|reflexivity].
  rewrite (mapM_char _ (((O, O) : addr), 0)).
  destruct (forallb (fun kv => is_some (parse_sens_entry (d_sizes d) kv)) (d_sensm d)) eqn:Hall;
    cbn [andb]; [|reflexivity].
  assert (Hfst : map fst (map (fun x => dflt (((O, O) : addr), 0) (parse_sens_entry (d_sizes d) x)) (d_sensm d))
                 = map (fun kv => z_addr (dflt (0, 0) (eval_pair (fst kv)))) (d_sensm d)).
  { rewrite map_map. apply map_ext_in. intros kv Hin.
    rewrite forallb_forall in Hall. specialize (Hall kv Hin).
    unfold parse_sens_entry in *. destruct (eval_pair (fst kv)) as [p|]; [|discriminate Hall].
    destruct (host_pair_ok (d_sizes d) p && is_num (snd kv) && (0 <? num_scaled (snd kv)));
      [reflexivity|discriminate Hall]. }
  rewrite Hfst.
  unfold d_sens. rewrite (flat_map_some _ (((O, O) : addr), 0) _ Hall).
  reflexivity.
Qed.

Lemma exploits_char d :
  mapM_opt (fun kv => parse_exploit (d_os d) (d_srv d) (snd kv)) (d_expm d)
  = if v_exploits d then Some (map (b_exploit d) (d_expm d)) else None.
Proof. exact (mapM_char _ (mkE 0 None 0 0 0) _). Qed.

Lemma privescs_char d :
  mapM_opt (fun kv => parse_privesc (d_os d) (d_proc d) (snd kv)) (d_pem d)
  = if v_privescs d then Some (map (b_privesc d) (d_pem d)) else None.
Proof. exact (mapM_char _ (mkP 0 None 0 0 0) _). Qed.

Lemma parse_hostfw_build sizes services o hfw :
  parse_hostfw sizes services o = Some hfw ->
  hfw = match o with Some (YMap m) => map (b_fw_entry services) m | _ => [] end.
Proof.
  destruct o as [v|]; [|intros H; injection H as <-; reflexivity].
  destruct v; cbn [parse_hostfw]; intros H; try discriminate H.
  rewrite (mapM_char _ (((O, O) : addr), @nil nat)) in H.
  match type of H with context [forallb ?f ?l] => destruct (forallb f l) eqn:Hall end;
    [|discriminate H].
  cbv beta iota in H.
  match type of H with (if ?c then _ else _) = _ => destruct c end; [|discriminate H].
  injection H as <-. apply map_ext_in. intros kv Hin.
  rewrite forallb_forall in Hall. specialize (Hall kv Hin). cbv beta in Hall.
  unfold b_fw_entry.
  destruct (eval_pair (fst kv)) as [p|]; [|discriminate Hall].
  destruct (snd kv); try discriminate Hall.
  match type of Hall with is_some (if ?c then _ else _) = _ => destruct c end;
    [reflexivity|discriminate Hall].
Qed.

Lemma parse_host_build d kv x :
  parse_host (d_sizes d) (d_os d) (d_srv d) (d_proc d) (d_sens d) kv = Some x -> x = b_host d kv.
Proof.
  unfold parse_host, b_host. destruct kv as [k v]; cbn [fst snd].
  destruct (eval_pair k) as [p|]; [|intros H; discriminate H].
  destruct v; try (intros H; discriminate H).
  destruct (negb (Nat.leb 3 (length m))); [intros H; discriminate H|].
  destruct (lookup k_os m) as [os|]; [|intros H; discriminate H].
  destruct (lookup k_services m) as [sv|]; [|intros H; discriminate H].
  destruct sv as [| | | | |sv|]; try (intros H; discriminate H).
  destruct (lookup k_processes m) as [pc|]; [|intros H; discriminate H].
  destruct pc as [| | | | |pc|]; try (intros H; discriminate H).
  destruct (negb (forallb (fun s => mem_yv s (d_srv d)) sv && nodup_yv sv)); [intros H; discriminate H|].
  destruct (negb (forallb (fun s => mem_yv s (d_proc d)) pc && nodup_yv pc)); [intros H; discriminate H|].
  destruct (negb (mem_yv os (d_os d))); [intros H; discriminate H|].
  destruct (parse_hostfw (d_sizes d) (d_srv d) (lookup k_firewall m)) as [hfw|] eqn:Hfw;
    [|intros H; discriminate H].
  apply parse_hostfw_build in Hfw. cbv zeta.
  match goal with |- (if ?c then _ else _) = _ -> _ => destruct c end; [intros H; discriminate H|].
  intros H. injection H as <-. cbn [dflt]. rewrite Hfw. reflexivity.
Qed.

Lemma parse_hosts_char d :
  parse_hosts (d_sizes d) (d_os d) (d_srv d) (d_proc d) (d_sens d) (d_hostm d)
  = if v_host_cfgs d then Some (map (b_host d) (d_hostm d)) else None.
Proof.
  unfold parse_hosts, v_host_cfgs.
  destruct (Nat.eqb (length (d_hostm d)) (num_hosts (d_sizes d))); cbn [negb andb]; [|reflexivity].
  destruct (forallb (fun k => has_key k (d_hostm d)) (canon_hosts (d_sizes d))); cbn [negb andb];
    [|reflexivity].
  rewrite (mapM_char _ (((O, O) : addr), mkCfg [] [] [] 0 0 [])).
  destruct (forallb (fun kv => is_some (parse_host (d_sizes d) (d_os d) (d_srv d) (d_proc d) (d_sens d) kv))
                    (d_hostm d)) eqn:Hall; [|reflexivity].
  f_equal. apply map_ext_in. intros kv Hin.
  rewrite forallb_forall in Hall. specialize (Hall kv Hin). cbv beta in Hall.
  destruct (parse_host (d_sizes d) (d_os d) (d_srv d) (d_proc d) (d_sens d) kv) as [x|] eqn:Hp;
    [|discriminate Hall].
  cbn [dflt]. exact (parse_host_build _ _ _ Hp).
Qed.

Lemma parse_fw_char d :
  parse_fw (d_topo d) (d_n d) (d_srv d) (d_fwm d)
  = if v_firewall d then Some (map (b_fw_entry (d_srv d)) (d_fwm d)) else None.
Proof.
  unfold parse_fw, v_firewall.
  destruct (required_fw (d_topo d) (d_n d) (d_fwm d)); cbn [negb andb]; [|reflexivity].
  rewrite (forallb_andb (fun kv => fw_setting_ok (d_srv d) (snd kv))
                        (fun kv => is_some (eval_pair (fst kv)))).
  destruct (forallb (fun kv => fw_setting_ok (d_srv d) (snd kv)) (d_fwm d)) eqn:Hok;
    cbn [negb andb]; [|reflexivity].
  rewrite (mapM_char _ (((O, O) : addr), @nil nat)).
  rewrite forallb_forall in Hok.
  rewrite (forallb_ext_in _ (fun kv => is_some (eval_pair (fst kv)))).
  2:{ intros kv Hin. specialize (Hok kv Hin). cbv beta in Hok. unfold fw_setting_ok in Hok.
      destruct (eval_pair (fst kv)); [|reflexivity].
      destruct (snd kv); try discriminate Hok. reflexivity. }
  destruct (forallb (fun kv => is_some (eval_pair (fst kv))) (d_fwm d)) eqn:Hev; [|reflexivity].
  rewrite forallb_forall in Hev.
  assert (Hfst : map fst (map (fun x => dflt (((O, O) : addr), @nil nat)
                   match eval_pair (fst x) with
                   | Some p => match snd x with
                               | YList l => Some (z_addr p, idx_list (d_srv d) l)
                               | _ => None end
                   | None => None end) (d_fwm d))
                 = map (fun kv => z_addr (dflt (0, 0) (eval_pair (fst kv)))) (d_fwm d)).
  { rewrite map_map. apply map_ext_in. intros kv Hin.
    specialize (Hok kv Hin). specialize (Hev kv Hin). cbv beta in Hok, Hev.
    unfold fw_setting_ok in Hok.
    destruct (eval_pair (fst kv)); [|discriminate Hev].
    destruct (snd kv); try discriminate Hok. reflexivity. }
  rewrite Hfst.
  destruct (nodupb_addr (map (fun kv => z_addr (dflt (0, 0) (eval_pair (fst kv)))) (d_fwm d)));
    [|reflexivity].
  cbn [andb]. f_equal. apply map_ext_in. intros kv Hin.
  specialize (Hok kv Hin). specialize (Hev kv Hin). cbv beta in Hok, Hev.
  unfold fw_setting_ok in Hok. unfold b_fw_entry.
  destruct (eval_pair (fst kv)); [|discriminate Hev].
  destruct (snd kv); try discriminate Hok. reflexivity.
Qed.

(* ================================================================== *)
(* the characterisation of [load] *)

Lemma scan_none d k :
  In k [k_osc; k_ssc; k_subc; k_psc] -> scan_cost d k = None -> valid d = false.
Proof.
  intros Hin Hk. apply vf_scan_costs. unfold v_scan_costs.
  apply (forallb_false_in _ _ k Hin). rewrite Hk. reflexivity.
Qed.

Ltac miss_list Hent Hk :=
  match type of Hk with sec_list ?d ?k = None =>
    rewrite (vf_key d k); [reflexivity|in_req|];
    apply sec_list_none; [exact Hent|reflexivity|exact Hk] end.
Ltac miss_map Hent Hk :=
  match type of Hk with sec_map ?d ?k = None =>
    rewrite (vf_key d k); [reflexivity|in_req|];
    apply sec_map_none; [exact Hent|reflexivity|exact Hk] end.
Ltac miss_scan Hk :=
  match type of Hk with scan_cost ?d ?k = None =>
    rewrite (scan_none d k); [reflexivity|cbn [In]; tauto|exact Hk] end.

Lemma load_char d : load (YMap d) = if valid d then Some (build d) else None.
Proof.
  unfold load.
  destruct (check_sections d) eqn:Hcs; cbn [negb].
  2:{ rewrite (vf_sections d (check_sections_false d Hcs)). reflexivity. }
  assert (Hent : forallb entry_ok d = true).
  { unfold check_sections in Hcs. apply andb_true_iff in Hcs. exact (proj2 Hcs). }
  (* subnets *)
  destruct (sec_list d k_subnets) as [sub|] eqn:Hsub; [|miss_list Hent Hsub].
  assert (Hd : sub = d_sub d) by (unfold d_sub; rewrite Hsub; reflexivity). subst sub.
  cbv beta iota zeta.
  change (sizes_of (d_sub d)) with (d_sizes d). change (length (d_sizes d)) with (d_n d).
  replace (Nat.eqb (length (d_sub d)) 0 || negb (forallb subnet_entry_ok (d_sub d)))
    with (negb (v_subnets d))
    by (unfold v_subnets;
        destruct (Nat.eqb (length (d_sub d)) 0), (forallb subnet_entry_ok (d_sub d)); reflexivity).
  destruct (v_subnets d) eqn:Hv2; cbn [negb]; [|rewrite (vf_subnets d Hv2); reflexivity].
  (* topology *)
  destruct (sec_list d k_topology) as [topo|] eqn:Htopo; [|miss_list Hent Htopo].
  assert (Hd : topo = d_topo d) by (unfold d_topo; rewrite Htopo; reflexivity). subst topo.
  cbv beta iota.
  change (Nat.eqb (length (d_topo d)) (d_n d) && forallb (topo_row_ok (d_n d)) (d_topo d))
    with (v_topology d).
  destruct (v_topology d) eqn:Hv3; cbn [negb]; [|rewrite (vf_topology d Hv3); reflexivity].
  (* names *)
  destruct (sec_list d k_os) as [oss|] eqn:Hos; [|miss_list Hent Hos].
  assert (Hd : oss = d_os d) by (unfold d_os; rewrite Hos; reflexivity). subst oss.
  destruct (sec_list d k_services) as [srv|] eqn:Hsrv; [|miss_list Hent Hsrv].
  assert (Hd : srv = d_srv d) by (unfold d_srv; rewrite Hsrv; reflexivity). subst srv.
  destruct (sec_list d k_processes) as [proc|] eqn:Hproc; [|miss_list Hent Hproc].
  assert (Hd : proc = d_proc d) by (unfold d_proc; rewrite Hproc; reflexivity). subst proc.
  cbv beta iota.
  change (names_ok (d_os d) && names_ok (d_srv d) && names_ok (d_proc d)) with (v_names d).
  destruct (v_names d) eqn:Hv4; cbn [negb]; [|rewrite (vf_names d Hv4); reflexivity].
  (* sensitive hosts *)
  destruct (sec_map d k_sensitive) as [sm|] eqn:Hsm; [|miss_map Hent Hsm].
  assert (Hd : sm = d_sensm d) by (unfold d_sensm; rewrite Hsm; reflexivity). subst sm.
  cbv beta iota. rewrite parse_sens_char.
  destruct (v_sensitive d) eqn:Hv5; [|rewrite (vf_sensitive d Hv5); reflexivity].
  cbv beta iota.
  (* exploits, escalations *)
  destruct (sec_map d k_exploits) as [em|] eqn:Hem; [|miss_map Hent Hem].
  assert (Hd : em = d_expm d) by (unfold d_expm; rewrite Hem; reflexivity). subst em.
  destruct (sec_map d k_privescs) as [pm|] eqn:Hpm; [|miss_map Hent Hpm].
  assert (Hd : pm = d_pem d) by (unfold d_pem; rewrite Hpm; reflexivity). subst pm.
  cbv beta iota. rewrite exploits_char, privescs_char.
  destruct (v_exploits d) eqn:Hv6; [|rewrite (vf_exploits d Hv6); reflexivity].
  destruct (v_privescs d) eqn:Hv7; [|rewrite (vf_privescs d Hv7); reflexivity].
  cbv beta iota.
  (* scan costs *)
  destruct (scan_cost d k_osc) as [osc|] eqn:Hosc; [|miss_scan Hosc].
  destruct (scan_cost d k_ssc) as [ssc|] eqn:Hssc; [|miss_scan Hssc].
  destruct (scan_cost d k_subc) as [subc|] eqn:Hsubc; [|miss_scan Hsubc].
  destruct (scan_cost d k_psc) as [psc|] eqn:Hpsc; [|miss_scan Hpsc].
  cbv beta iota.
  (* host configurations *)
  destruct (sec_map d k_hostcfgs) as [hm|] eqn:Hhm; [|miss_map Hent Hhm].
  assert (Hd : hm = d_hostm d) by (unfold d_hostm; rewrite Hhm; reflexivity). subst hm.
  cbv beta iota. rewrite parse_hosts_char.
  destruct (v_host_cfgs d) eqn:Hv9; [|rewrite (vf_host_cfgs d Hv9); reflexivity].
  cbv beta iota.
  (* firewall *)
  destruct (sec_map d k_firewall) as [fm|] eqn:Hfm; [|miss_map Hent Hfm].
  assert (Hd : fm = d_fwm d) by (unfold d_fwm; rewrite Hfm; reflexivity). subst fm.
  cbv beta iota. rewrite parse_fw_char.
  destruct (v_firewall d) eqn:Hv10; [|rewrite (vf_firewall d Hv10); reflexivity].
  cbv beta iota.
  (* step limit *)
  destruct (parse_limit d) as [lim|] eqn:Hlim.
  2:{ rewrite (vf_step_limit d); [reflexivity|]. unfold v_step_limit. rewrite Hlim. reflexivity. }
  (* every clause holds *)
  assert (Hv1 : v_sections d = true).
  { unfold v_sections. rewrite Hent, andb_true_r. unfold required_keys. cbn [forallb].
    rewrite (sec_list_some _ _ _ Hsub), (sec_list_some _ _ _ Htopo), (sec_map_some _ _ _ Hsm),
      (sec_list_some _ _ _ Hos), (sec_list_some _ _ _ Hsrv), (sec_list_some _ _ _ Hproc),
      (sec_map_some _ _ _ Hem), (sec_map_some _ _ _ Hpm),
      (scan_cost_some _ _ _ Hssc), (scan_cost_some _ _ _ Hsubc), (scan_cost_some _ _ _ Hosc),
      (scan_cost_some _ _ _ Hpsc), (sec_map_some _ _ _ Hhm), (sec_map_some _ _ _ Hfm).
    reflexivity. }
  assert (Hv8 : v_scan_costs d = true).
  { unfold v_scan_costs. cbn [forallb]. rewrite Hosc, Hssc, Hsubc, Hpsc. reflexivity. }
  assert (Hv11 : v_step_limit d = true).
  { unfold v_step_limit. rewrite Hlim. reflexivity. }
  assert (Hv : valid d = true).
  { unfold valid. rewrite Hv1, Hv2, Hv3, Hv4, Hv5, Hv6, Hv7, Hv8, Hv9, Hv10, Hv11. reflexivity. }
  rewrite Hv. unfold build. rewrite Hosc, Hssc, Hsubc, Hpsc, Hlim. cbn [dflt]. reflexivity.
Qed.

Lemma load_none d : valid d = false -> load (YMap d) = None.
Proof. intros H. rewrite load_char, H. reflexivity. Qed.

Lemma load_inv d sc : load (YMap d) = Some sc -> valid d = true /\ sc = build d.
Proof.
  rewrite load_char. destruct (valid d); intros H; [|discriminate H].
  injection H as <-. split; reflexivity.
Qed.

(* ================================================================== *)
(* C17 *)

Lemma C17_accepts_and_means_proof : C17_accepts_and_means_stmt.
Proof. intros d H. rewrite load_char, H. reflexivity. Qed.

Lemma nth_map_seq {A : Type} (f : nat -> A) (n i : nat) (def : A) :
  (i < n)%nat -> nth i (map f (seq 0 n)) def = f i.
Proof.
  intros H. rewrite (nth_indep _ def (f O)) by (rewrite map_length, seq_length; exact H).
  rewrite map_nth. rewrite seq_nth by exact H. reflexivity.
Qed.

Lemma C17_components_proof : C17_components_stmt.
Proof.
  intros d sc H. apply load_inv in H. destruct H as [_ ->].
  split; [reflexivity|].
  split.
  { intros s t Hs Ht. unfold connected, build. cbn [s_topo].
    rewrite (nth_map_seq _ _ _ _ Hs). rewrite (nth_map_seq _ _ _ _ Ht). reflexivity. }
  split; [reflexivity|]. split; [reflexivity|]. split; [reflexivity|].
  split.
  { unfold build. cbn [s_hosts]. rewrite map_map. apply map_ext. intros kv.
    unfold b_host. destruct (snd kv); reflexivity. }
  split; [reflexivity|]. split; [reflexivity|].
  split; [unfold build; cbn [s_exploits]; apply map_length|].
  split; [unfold build; cbn [s_privescs]; apply map_length|].
  split; reflexivity.
Qed.

Lemma parse_host_some_inv sizes oss services processes sens kv x c :
  parse_host sizes oss services processes sens kv = Some x -> snd kv = YMap c ->
  exists p hfw, eval_pair (fst kv) = Some p
                /\ parse_hostfw sizes services (lookup k_firewall c) = Some hfw.
Proof.
  unfold parse_host. intros H Hc. rewrite Hc in H.
  destruct (eval_pair (fst kv)) as [p|]; [|discriminate H].
  destruct (negb (Nat.leb 3 (length c))); [discriminate H|].
  destruct (lookup k_os c) as [os|]; [|discriminate H].
  destruct (lookup k_services c) as [sv|]; [|discriminate H].
  destruct sv as [| | | | |sv|]; try discriminate H.
  destruct (lookup k_processes c) as [pc|]; [|discriminate H].
  destruct pc as [| | | | |pc|]; try discriminate H.
  destruct (negb (forallb (fun s => mem_yv s services) sv && nodup_yv sv)); [discriminate H|].
  destruct (negb (forallb (fun s => mem_yv s processes) pc && nodup_yv pc)); [discriminate H|].
  destruct (negb (mem_yv os oss)); [discriminate H|].
  destruct (parse_hostfw sizes services (lookup k_firewall c)) as [hfw|]; [|discriminate H].
  exists p, hfw. split; reflexivity.
Qed.

Lemma parse_hostfw_entry sizes services m hfw k v :
  parse_hostfw sizes services (Some (YMap m)) = Some hfw -> In (k, v) m ->
  exists q, eval_pair k = Some q.
Proof.
  cbn [parse_hostfw]. intros H Hin.
  rewrite (mapM_char _ (((O, O) : addr), @nil nat)) in H.
  match type of H with context [forallb ?f ?l] => destruct (forallb f l) eqn:Hall end;
    [|discriminate H].
  rewrite forallb_forall in Hall. specialize (Hall _ Hin). cbn [fst snd] in Hall.
  destruct (eval_pair k) as [q|]; [|discriminate Hall].
  exists q. reflexivity.
Qed.

Lemma C17_host_firewall_proof : C17_host_firewall_stmt.
Proof.
  intros d sc kv c m k v l Hload Hin Hsnd Hfw Hkv Hv.
  apply load_inv in Hload. destruct Hload as [Hvalid ->]. subst v.
  destruct (v_host_cfgs d) eqn:Hh; [|rewrite (vf_host_cfgs d Hh) in Hvalid; discriminate Hvalid].
  unfold v_host_cfgs in Hh. apply andb_true_iff in Hh. destruct Hh as [_ Hall].
  rewrite forallb_forall in Hall. specialize (Hall kv Hin). cbv beta in Hall.
  destruct (parse_host (d_sizes d) (d_os d) (d_srv d) (d_proc d) (d_sens d) kv) as [x|] eqn:Hp;
    [|discriminate Hall].
  destruct (parse_host_some_inv _ _ _ _ _ _ _ _ Hp Hsnd) as [p [hfw [Hep Hhfw]]].
  rewrite Hfw in Hhfw.
  destruct (parse_hostfw_entry _ _ _ _ _ _ Hhfw Hkv) as [q Hq].
  exists p, (snd (b_host d kv)). split; [exact Hep|]. split.
  { unfold build. cbn [s_hosts]. apply in_map_iff. exists kv. split; [|exact Hin].
    unfold b_host. rewrite Hsnd, Hep. reflexivity. }
  exists q. split; [exact Hq|].
  unfold b_host. rewrite Hsnd, Hfw. cbn [snd c_fw].
  apply in_map_iff. exists (k, YList l). split; [|exact Hkv].
  unfold b_fw_entry. cbn [fst snd]. rewrite Hq. reflexivity.
Qed.

(* ================================================================== *)
(* C18 *)

Lemma C18_rejects_proof : C18_rejects_stmt.
Proof.
  intros doc sc H. destruct doc as [| | | | | |d]; try discriminate H.
  apply load_inv in H. exists d. split; [reflexivity|exact (proj1 H)].
Qed.

Lemma C18_rules_proof : C18_rules_stmt.
Proof.
  intros d.
  repeat match goal with |- _ /\ _ => split end.
  - intros [k [Hin Hk]]. apply load_none. exact (vf_key d k Hin Hk).
  - intros [kv [Hin Hk]]. apply load_none, vf_sections. unfold v_sections.
    rewrite (forallb_false_in entry_ok d kv Hin); [apply andb_false_r|].
    unfold entry_ok. rewrite Hk. reflexivity.
  - intros [kv [t [Hin [Hk Ht]]]]. apply load_none, vf_sections. unfold v_sections.
    rewrite (forallb_false_in entry_ok d kv Hin); [apply andb_false_r|].
    unfold entry_ok. rewrite Hk. exact Ht.
  - intros H. apply load_none, vf_subnets. unfold v_subnets. rewrite H. reflexivity.
  - intros [x [Hin Hx]]. apply load_none, vf_subnets. unfold v_subnets.
    rewrite (forallb_false_in _ _ x Hin Hx). apply andb_false_r.
  - intros H. apply load_none, vf_topology. unfold v_topology.
    apply Nat.eqb_neq in H. rewrite H. reflexivity.
  - intros [r [Hin Hr]]. apply load_none, vf_topology. unfold v_topology.
    rewrite (forallb_false_in _ _ r Hin Hr). apply andb_false_r.
  - intros H. apply load_none, vf_names. unfold v_names.
    destruct H as [H|[H|H]]; rewrite H; btauto.
  - intros H. apply load_none, vf_sensitive. unfold v_sensitive. rewrite H. reflexivity.
  - intros [kv [Hin Hk]]. apply load_none, vf_sensitive. unfold v_sensitive.
    rewrite (forallb_false_in (fun kv0 => is_some (parse_sens_entry (d_sizes d) kv0)) _ kv Hin)
      by (rewrite Hk; reflexivity).
    btauto.
  - intros H. apply load_none, vf_sensitive. unfold v_sensitive. rewrite H. apply andb_false_r.
  - intros [kv [Hin Hk]]. apply load_none, vf_exploits. unfold v_exploits.
    apply (forallb_false_in _ _ kv Hin). rewrite Hk. reflexivity.
  - intros [kv [Hin Hk]]. apply load_none, vf_privescs. unfold v_privescs.
    apply (forallb_false_in _ _ kv Hin). rewrite Hk. reflexivity.
  - intros [k [Hin Hk]]. apply load_none. exact (scan_none d k Hin Hk).
  - intros H. apply load_none, vf_host_cfgs. unfold v_host_cfgs.
    apply Nat.eqb_neq in H. rewrite H. reflexivity.
  - intros [k [Hin Hk]]. apply load_none, vf_host_cfgs. unfold v_host_cfgs.
    rewrite (forallb_false_in (fun k0 => has_key k0 (d_hostm d)) _ k Hin Hk). btauto.
  - intros [kv [Hin Hk]]. apply load_none, vf_host_cfgs. unfold v_host_cfgs.
    rewrite (forallb_false_in
               (fun kv0 => is_some (parse_host (d_sizes d) (d_os d) (d_srv d) (d_proc d) (d_sens d) kv0))
               _ kv Hin) by (rewrite Hk; reflexivity).
    apply andb_false_r.
  - intros H. apply load_none, vf_firewall. unfold v_firewall. rewrite H. reflexivity.
  - intros [kv [Hin Hk]]. apply load_none, vf_firewall. unfold v_firewall.
    rewrite (forallb_false_in
               (fun kv0 => fw_setting_ok (d_srv d) (snd kv0) && is_some (eval_pair (fst kv0)))
               _ kv Hin) by (rewrite Hk; reflexivity).
    btauto.
  - intros H. apply load_none, vf_firewall. unfold v_firewall. rewrite H. apply andb_false_r.
  - intros H. apply load_none, vf_step_limit. unfold v_step_limit. rewrite H. reflexivity.
Qed.

Lemma C18_exploit_rule_proof : C18_exploit_rule_stmt.
Proof.
  intros oss services m H.
  destruct (parse_exploit oss services (YMap m)) as [e|] eqn:E; [exfalso|reflexivity].
  unfold parse_exploit in E.
  destruct (lookup f_service m) as [sv|] eqn:L1; [|discriminate E].
  destruct (lookup k_os m) as [os|] eqn:L2; [|discriminate E].
  destruct (lookup f_prob m) as [pr|] eqn:L3; [|discriminate E].
  destruct (lookup f_cost m) as [co|] eqn:L4; [|discriminate E].
  destruct (lookup f_access m) as [ac|] eqn:L5; [|discriminate E].
  destruct (negb (is_str sv)); [discriminate E|].
  destruct (index_yv sv services) as [si|] eqn:I1; [|discriminate E].
  destruct (os_field oss os) as [oo|] eqn:I2; [|discriminate E].
  destruct (access_of ac) as [al|] eqn:I3; [|discriminate E].
  destruct (prob_ok pr) eqn:I4; [|discriminate E].
  destruct (cost_ok co) eqn:I5; [|discriminate E].
  repeat match goal with
         | H : _ \/ _ |- _ => destruct H as [H|H]
         | H : exists _, _ |- _ => destruct H as [? H]
         | H : _ /\ _ |- _ => destruct H as [? H]
         end; congruence.
Qed.

Lemma C18_host_rule_proof : C18_host_rule_stmt.
Proof.
  intros sizes oss services processes sens k c H.
  destruct (parse_host sizes oss services processes sens (k, YMap c)) as [x|] eqn:E;
    [exfalso|reflexivity].
  unfold parse_host in E. cbn [fst snd] in E.
  destruct (eval_pair k) as [p|] eqn:Ep; [|discriminate E].
  destruct (negb (Nat.leb 3 (length c))); [discriminate E|].
  destruct (lookup k_os c) as [os|] eqn:L1; [|discriminate E].
  destruct (lookup k_services c) as [sv|] eqn:L2; [|discriminate E].
  destruct sv as [| | | | |sv|]; try discriminate E.
  destruct (lookup k_processes c) as [pc|] eqn:L3; [|discriminate E].
  destruct pc as [| | | | |pc|]; try discriminate E.
  destruct (forallb (fun s => mem_yv s services) sv) eqn:F1; [|discriminate E].
  destruct (nodup_yv sv) eqn:N1; [|discriminate E].
  destruct (forallb (fun s => mem_yv s processes) pc) eqn:F2; [|discriminate E].
  destruct (nodup_yv pc) eqn:N2; [|discriminate E].
  destruct (mem_yv os oss) eqn:M1; [|discriminate E].
  destruct (parse_hostfw sizes services (lookup k_firewall c)) as [hfw|] eqn:Hfw; [|discriminate E].
  cbn [negb andb] in E. cbv zeta in E.
  assert (Hval : match lookup f_value c with
                 | None => true
                 | Some v => is_num v && match assoc (z_addr p) sens with
                                         | Some sv' => num_fx v =? sv'
                                         | None => true end
                 end = true).
  { change (host_value_ok (lookup f_value c) (assoc (z_addr p) sens) = true).
    match type of E with (if negb ?b then _ else _) = _ => destruct b end;
      [reflexivity|discriminate E]. }
  clear E.
  rewrite forallb_forall in F1, F2.
  destruct H as [H|[H|[H|[H|[H|[H|[H|[H|[H|[H|H]]]]]]]]]].
  - congruence.
  - congruence.
  - congruence.
  - destruct H as [os' [H1 H2]]. congruence.
  - destruct H as [sv' [s [H1 [H2 H3]]]]. injection H1 as <-.
    rewrite (F1 s H2) in H3. discriminate H3.
  - destruct H as [sv' [H1 H2]]. congruence.
  - destruct H as [pc' [s [H1 [H2 H3]]]]. injection H1 as <-.
    rewrite (F2 s H2) in H3. discriminate H3.
  - destruct H as [pc' [H1 H2]]. congruence.
  - destruct H as [fwv [H1 H2]]. rewrite H1 in Hfw. congruence.
  - destruct H as [v [H1 H2]]. rewrite H1, H2 in Hval. discriminate Hval.
  - destruct H as [v [p' [sv' [H1 [H2 [H3 H4]]]]]]. injection H2 as <-.
    rewrite H1, H3 in Hval. apply andb_true_iff in Hval. destruct Hval as [_ Hval].
    apply Z.eqb_eq in Hval. contradiction.
Qed.

Print Assumptions C17_accepts_and_means_proof.
Print Assumptions C17_components_proof.
Print Assumptions C17_host_firewall_proof.
Print Assumptions C17_prob_one_ok_proof.
Print Assumptions C18_rejects_proof.
Print Assumptions C18_rules_proof.
Print Assumptions C18_exploit_rule_proof.
Print Assumptions C18_host_rule_proof.
