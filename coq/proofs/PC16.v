(* PC16.v -- proof of C16 (plan soundness): replaying the plan computed by [solve]
   from the initial state reaches the state computed by [solve]; the plan only uses
   actions of the flat space. *)
From NasimV Require Import Solve.

(* ---------- (1) boolean equalities decide Leibniz equality ---------- *)
Lemma list_eqb_sound {A : Type} (eqb : A -> A -> bool) :
  (forall x y, eqb x y = true -> x = y) ->
  forall l1 l2, list_eqb eqb l1 l2 = true -> l1 = l2.
Proof.
  intros Heqb l1.
  induction l1 as [|x r1 IH]; intros l2 H; destruct l2 as [|y r2].
  - reflexivity.
  - cbn in H. discriminate H.
  - cbn in H. discriminate H.
  - cbn in H. apply andb_prop in H. destruct H as [Hxy Hr].
    apply Heqb in Hxy. apply IH in Hr. subst. reflexivity.
Qed.

Lemma list_eqb_bool_sound (l1 l2 : list bool) : list_eqb Bool.eqb l1 l2 = true -> l1 = l2.
Proof. apply list_eqb_sound. intros x y H. apply eqb_prop. exact H. Qed.

Lemma addr_eqb_sound (a b : addr) : addr_eqb a b = true -> a = b.
Proof.
  destruct a as [a1 a2]. destruct b as [b1 b2]. unfold addr_eqb. cbn [fst snd].
  intros H. apply andb_prop in H. destruct H as [H1 H2].
  apply Nat.eqb_eq in H1. apply Nat.eqb_eq in H2. subst. reflexivity.
Qed.

Lemma hrow_eqb_sound (h g : hrow) : hrow_eqb h g = true -> h = g.
Proof.
  destruct h as [ha hc hr hd hv hdv hac hos hsrv hproc].
  destruct g as [ga gc gr gd gv gdv gac gos gsrv gproc].
  unfold hrow_eqb.
  cbn [h_addr h_comp h_reach h_disc h_val h_dval h_acc h_os h_srv h_proc].
  intros H.
  apply andb_prop in H. destruct H as [H H10].
  apply andb_prop in H. destruct H as [H H9].
  apply andb_prop in H. destruct H as [H H8].
  apply andb_prop in H. destruct H as [H H7].
  apply andb_prop in H. destruct H as [H H6].
  apply andb_prop in H. destruct H as [H H5].
  apply andb_prop in H. destruct H as [H H4].
  apply andb_prop in H. destruct H as [H H3].
  apply andb_prop in H. destruct H as [H1 H2].
  apply addr_eqb_sound in H1.
  apply eqb_prop in H2. apply eqb_prop in H3. apply eqb_prop in H4.
  apply Z.eqb_eq in H5. apply Z.eqb_eq in H6. apply Nat.eqb_eq in H7.
  apply list_eqb_bool_sound in H8. apply list_eqb_bool_sound in H9.
  apply list_eqb_bool_sound in H10.
  subst. reflexivity.
Qed.

Lemma state_eqb_sound (s t : state) : state_eqb s t = true -> s = t.
Proof. unfold state_eqb. apply list_eqb_sound. exact hrow_eqb_sound. Qed.

(* ---------- (2) replay over append / singleton ---------- *)
Lemma run_steps_app_fst sc l1 :
  forall st l2,
    fst (run_steps sc st (l1 ++ l2)) = fst (run_steps sc (fst (run_steps sc st l1)) l2).
Proof.
  induction l1 as [|[a k] r IH]; intros st l2.
  - reflexivity.
  - cbn [app run_steps].
    specialize (IH (next sc st a k) l2).
    destruct (run_steps sc (next sc st a k) (r ++ l2)) as [stf v] eqn:E1.
    destruct (run_steps sc (next sc st a k) r) as [stg w] eqn:E2.
    cbn [fst] in IH |- *. exact IH.
Qed.

Lemma replay_nil sc st : replay sc st [] = st.
Proof. reflexivity. Qed.

Lemma replay_app sc st l1 l2 :
  replay sc st (l1 ++ l2) = replay sc (replay sc st l1) l2.
Proof. unfold replay. rewrite map_app. apply run_steps_app_fst. Qed.

Lemma replay_single sc st a : replay sc st [a] = next sc st a 0.
Proof. unfold replay. cbn [map run_steps fst]. reflexivity. Qed.

(* ---------- (3) invariant of sweep ---------- *)
Lemma sweep_inv sc (all : list action) st0 acts :
  forall st pl,
    incl acts all ->
    replay sc st0 pl = st ->
    Forall (fun a => In a all) pl ->
    replay sc st0 (snd (sweep sc acts st pl)) = fst (sweep sc acts st pl)
    /\ Forall (fun a => In a all) (snd (sweep sc acts st pl)).
Proof.
  induction acts as [|a r IH]; intros st pl Hincl Hrep Hall.
  - cbn [sweep fst snd]. split; assumption.
  - cbn [sweep].
    assert (Hr : incl r all).
    { intros x Hx. apply Hincl. right. exact Hx. }
    destruct (state_eqb (next sc st a 0) st) eqn:E.
    + apply IH; assumption.
    + apply IH.
      * exact Hr.
      * rewrite replay_app, Hrep. apply replay_single.
      * apply Forall_app. split.
        -- exact Hall.
        -- constructor.
           ++ apply Hincl. left. reflexivity.
           ++ constructor.
Qed.

(* ---------- (4) invariant of closure_loop ---------- *)
Lemma closure_loop_inv sc st0 fuel :
  forall st pl,
    replay sc st0 pl = st ->
    Forall (fun a => In a (flat sc)) pl ->
    replay sc st0 (snd (closure_loop sc fuel st pl)) = fst (closure_loop sc fuel st pl)
    /\ Forall (fun a => In a (flat sc)) (snd (closure_loop sc fuel st pl)).
Proof.
  induction fuel as [|f IH]; intros st pl Hrep Hall.
  - cbn [closure_loop fst snd]. split; assumption.
  - cbn [closure_loop].
    pose proof (sweep_inv sc (flat sc) st0 (flat sc) st pl (incl_refl _) Hrep Hall) as Hsw.
    destruct (sweep sc (flat sc) st pl) as [st' pl'] eqn:Esw.
    cbn [fst snd] in Hsw. destruct Hsw as [Hrep' Hall'].
    destruct (state_eqb st' st) eqn:E.
    + cbn [fst snd]. split; assumption.
    + apply IH; assumption.
Qed.

(* ---------- (5) C16 ---------- *)
Lemma C16_plan_sound_proof : C16_plan_sound_stmt.
Proof.
  unfold C16_plan_sound_stmt. intros sc.
  assert (H : replay sc (initial_state sc) (plan sc) = fst (solve sc)
              /\ Forall (fun a => In a (flat sc)) (plan sc)).
  { unfold plan, solve.
    apply closure_loop_inv.
    - apply replay_nil.
    - constructor. }
  destruct H as [H1 H2].
  split; [exact H1|]. split; [exact H2|].
  intros Hs. rewrite H1. exact Hs.
Qed.

Print Assumptions C16_plan_sound_proof.
