(* PC04.v -- proofs of the C04 statements (monotonicity, configuration frame,
   well-formedness preservation, reset = initial state) plus reusable
   infrastructure: actions of the space are act_ok, and lifting of state
   invariants over arbitrary operation histories. *)
From NasimV Require Import StmtDyn.
From NasimV.proofs Require Import RowLemmas.

(* ================= small list facts ================= *)
Lemma list_eqb_bool_eq (l1 l2 : list bool) : list_eqb Bool.eqb l1 l2 = true -> l1 = l2.
Proof.
  revert l2. induction l1 as [|x l1 IH]; intros [|y l2]; simpl; intros H; try discriminate; auto.
  apply andb_true_iff in H. destruct H as [H1 H2]. apply eqb_prop in H1. subst. f_equal. auto.
Qed.

Lemma list_eqb_bool_refl (l : list bool) : list_eqb Bool.eqb l l = true.
Proof. induction l as [|x l IH]; simpl; auto. rewrite eqb_reflx. exact IH. Qed.

Lemma mem_addr_In (a : addr) (l : list addr) : mem_addr a l = true -> In a l.
Proof.
  unfold mem_addr. intros H. apply existsb_exists in H. destruct H as [y [Hy E]].
  apply addr_eqb_eq in E. subst. exact Hy.
Qed.

Lemma in_combine_fst {A B C : Type} (hs : list (A * B)) (st : list C) x c h :
  In ((x, c), h) (combine hs st) -> In (x, h) (combine (map fst hs) st).
Proof.
  revert st. induction hs as [|[x0 c0] hs IH]; intros [|h0 st]; simpl; intros H; auto.
  destruct H as [H|H].
  - inversion H; subst. left; reflexivity.
  - right. apply IH. exact H.
Qed.

Lemma in_combine_lift {A B C : Type} (hs : list (A * B)) (st : list C) x h :
  In (x, h) (combine (map fst hs) st) -> exists c, In ((x, c), h) (combine hs st).
Proof.
  revert st. induction hs as [|[x0 c0] hs IH]; intros [|h0 st]; simpl; intros H; try contradiction.
  destruct H as [H|H].
  - inversion H; subst. exists c0. left; reflexivity.
  - destruct (IH _ H) as [c Hc]. exists c. right; exact Hc.
Qed.

Lemma in_combine_exists {A C : Type} (hs : list A) (st : list C) e :
  length st = length hs -> In e hs -> exists h, In (e, h) (combine hs st).
Proof.
  revert st. induction hs as [|e0 hs IH]; intros [|h0 st]; simpl; intros HL H; try contradiction; try discriminate.
  destruct H as [H|H].
  - subst. exists h0. left; reflexivity.
  - destruct (IH st) as [h Hh]; auto. exists h. right; exact Hh.
Qed.

Lemma forallb_combine_map {A B : Type} (P : A * B -> bool) (g : A -> B) (l : list A) :
  (forall e, In e l -> P (e, g e) = true) -> forallb P (combine l (map g l)) = true.
Proof.
  induction l as [|e l IH]; simpl; intros H; auto.
  rewrite H by auto. simpl. apply IH. intros e' He'. apply H. auto.
Qed.

(* ================= cfg_matches / same_config / row_le ================= *)
Lemma cfg_matches_spec x c h :
  cfg_matches x c h = true <->
  h_addr h = x /\ h_val h = c_val c /\ h_dval h = c_dval c
  /\ h_os h = c_os c /\ h_srv h = c_srv c /\ h_proc h = c_proc c.
Proof.
  unfold cfg_matches. rewrite !andb_true_iff, addr_eqb_eq, !Z.eqb_eq. split.
  - intros [[[[[H1 H2] H3] H4] H5] H6]. repeat split; auto using list_eqb_bool_eq.
  - intros (H1 & H2 & H3 & H4 & H5 & H6). rewrite H4, H5, H6.
    repeat split; auto using list_eqb_bool_refl.
Qed.

Lemma same_config_refl h : same_config h h.
Proof. unfold same_config. repeat split; reflexivity. Qed.

Lemma same_config_trans h1 h2 h3 : same_config h1 h2 -> same_config h2 h3 -> same_config h1 h3.
Proof.
  unfold same_config. intros (A1 & A2 & A3 & A4 & A5 & A6) (B1 & B2 & B3 & B4 & B5 & B6).
  repeat split; congruence.
Qed.

Lemma cfg_matches_same_config x c h h' :
  same_config h h' -> cfg_matches x c h = true -> cfg_matches x c h' = true.
Proof.
  intros (A1 & A2 & A3 & A4 & A5 & A6) H. apply cfg_matches_spec in H. apply cfg_matches_spec.
  destruct H as (B1 & B2 & B3 & B4 & B5 & B6). repeat split; congruence.
Qed.

Lemma row_le_refl h : row_le h h.
Proof. unfold row_le. repeat split; auto. Qed.

Lemma row_le_trans h1 h2 h3 : row_le h1 h2 -> row_le h2 h3 -> row_le h1 h3.
Proof.
  unfold row_le. intros (A1 & A2 & A3 & A4) (B1 & B2 & B3 & B4). repeat split; auto. lia.
Qed.

(* ================= wf_state, pointwise ================= *)
Lemma wf_state_acc : forall sc st x,
  wf_state sc st = true -> In x (addresses sc) -> (h_acc (get_row sc st x) <= 2)%nat.
Proof.
  intros sc st x Hwf Hin.
  pose proof (wf_state_length _ _ Hwf) as HL.
  pose proof (in_rows_of_addr sc st x HL Hin) as Hr.
  unfold rows, addresses in Hr. apply in_combine_lift in Hr. destruct Hr as [c Hc].
  unfold wf_state in Hwf. apply andb_true_iff in Hwf. destruct Hwf as [_ Hf].
  rewrite forallb_forall in Hf. specialize (Hf _ Hc). cbn [fst snd] in Hf.
  apply andb_true_iff in Hf. destruct Hf as [_ Hf]. apply Nat.leb_le in Hf. exact Hf.
Qed.

Lemma wf_state_iff sc st :
  NoDup (addresses sc) ->
  (wf_state sc st = true <->
   length st = length (s_hosts sc)
   /\ forall x c, In (x, c) (s_hosts sc) ->
        cfg_matches x c (get_row sc st x) = true /\ (h_acc (get_row sc st x) <= 2)%nat).
Proof.
  intros ND. split.
  - intros Hwf. pose proof (wf_state_length _ _ Hwf) as HL.
    unfold wf_state in Hwf. apply andb_true_iff in Hwf. destruct Hwf as [Hlen Hf].
    apply Nat.eqb_eq in Hlen. split; auto.
    intros x c Hin. destruct (in_combine_exists (s_hosts sc) st (x, c) Hlen Hin) as [h Hh].
    assert (get_row sc st x = h) as ->.
    { apply in_combine_fst in Hh.
      apply (@get_row_of_member sc st (x, h) ND HL Hh). }
    rewrite forallb_forall in Hf. specialize (Hf _ Hh). cbn [fst snd] in Hf.
    apply andb_true_iff in Hf. destruct Hf as [Hf1 Hf2]. apply Nat.leb_le in Hf2. auto.
  - intros [Hlen Hp]. unfold wf_state. apply andb_true_iff. split.
    + apply Nat.eqb_eq. exact Hlen.
    + apply forallb_forall. intros [[x c] h] Hin. cbn [fst snd].
      assert (HL : length st = length (addresses sc)).
      { unfold addresses. rewrite map_length. exact Hlen. }
      assert (get_row sc st x = h) as E.
      { apply in_combine_fst in Hin.
        apply (@get_row_of_member sc st (x, h) ND HL Hin). }
      apply in_combine_l in Hin. destruct (Hp _ _ Hin) as [H1 H2].
      rewrite E in H1, H2. rewrite H1. apply Nat.leb_le in H2. rewrite H2. reflexivity.
Qed.

Lemma in_addresses_cfg sc x : In x (addresses sc) -> exists c, In (x, c) (s_hosts sc).
Proof.
  unfold addresses. intros H. apply in_map_iff in H. destruct H as [[x' c] [E H]].
  simpl in E. subst. exists c. exact H.
Qed.

Lemma in_cfg_addresses sc x c : In (x, c) (s_hosts sc) -> In x (addresses sc).
Proof. intros H. unfold addresses. apply in_map_iff. exists (x, c). auto. Qed.

(* ================= shape of one step ================= *)
Lemma map_rows_map_rows sc f g st :
  map_rows sc g (map_rows sc f st) = map_rows sc (fun x h => g x (f x h)) st.
Proof.
  unfold map_rows at 1. rewrite rows_map_rows, map_map. unfold map_rows. reflexivity.
Qed.

Definition step_fun_ok (a : action) (t' : hrow) (f : addr -> hrow -> hrow) : Prop :=
  forall x h,
    f x h = h \/ f x h = set_disc h true \/ f x h = set_reach h true
    \/ (x = a_tgt a /\ (f x h = t' \/ f x h = set_reach t' true)).

Lemma next_shape sc st a k :
  length st = length (addresses sc) ->
  exists f, next sc st a k = map_rows sc f st
            /\ step_fun_ok a (fst (host_perform (get_row sc st (a_tgt a)) a)) f.
Proof.
  intros HL.
  assert (Hid : exists f, st = map_rows sc f st
            /\ step_fun_ok a (fst (host_perform (get_row sc st (a_tgt a)) a)) f).
  { exists (fun _ h => h). split.
    - symmetry. apply map_rows_id; auto.
    - intros x h. left. reflexivity. }
  unfold next, perform_action.
  destruct (is_noop a) eqn:Hnoop; [exact Hid|].
  destruct (negb (h_reach (get_row sc st (a_tgt a))) || negb (h_disc (get_row sc st (a_tgt a)))) eqn:G1;
    [exact Hid|].
  destruct (is_remote a && negb (has_remote_perm sc st a)) eqn:G2; [exact Hid|].
  destruct (is_exploit a && negb (traffic_permitted sc st (a_tgt a) (a_srv a))) eqn:G3; [exact Hid|].
  destruct (is_privesc a && negb (h_comp (get_row sc st (a_tgt a)))) eqn:G4; [exact Hid|].
  destruct (negb (is_exploit a && h_comp (get_row sc st (a_tgt a))) && chance_fails a k) eqn:G5;
    [exact Hid|].
  destruct (is_subnet_scan a) eqn:G6.
  - unfold subnet_scan.
    destruct (negb (h_comp (get_row sc st (a_tgt a)))) eqn:S1; [exact Hid|].
    destruct (negb (has_access (get_row sc st (a_tgt a)) (a_req a))) eqn:S2; [exact Hid|].
    cbn [fst]. eexists. split; [reflexivity|].
    intros x h. cbn beta. destruct (scan_hits sc (fst (a_tgt a)) x); auto.
  - destruct (host_perform (get_row sc st (a_tgt a)) a) as [t' r] eqn:HP. cbn [fst].
    destruct (is_exploit a && r_success r) eqn:G7.
    + unfold update_reachable, set_row. rewrite map_rows_map_rows.
      eexists. split; [reflexivity|]. intros x h. cbn beta.
      destruct (addr_eqb x (a_tgt a)) eqn:E.
      * apply addr_eqb_eq in E. right; right; right. split; auto.
        destruct (h_reach t'); auto. destruct (connected sc (fst (a_tgt a)) (fst x)); auto.
      * destruct (h_reach h); auto. destruct (connected sc (fst (a_tgt a)) (fst x)); auto.
    + unfold set_row. eexists. split; [reflexivity|]. intros x h. cbn beta.
      destruct (addr_eqb x (a_tgt a)) eqn:E; auto.
      apply addr_eqb_eq in E. right; right; right. split; auto.
Qed.

Lemma next_length sc st a k :
  length st = length (addresses sc) -> length (next sc st a k) = length st.
Proof.
  intros HL. destruct (next_shape sc st a k HL) as [f [-> _]]. apply length_map_rows; auto.
Qed.

(* generic pointwise transfer: any reflexive, transitive row relation that
   tolerates the three flag updates and the host-level transition *)
Lemma next_pointwise (R : hrow -> hrow -> Prop) sc st a k :
  wf_state sc st = true ->
  (forall h, R h h) ->
  (forall h, R h (set_disc h true)) ->
  (forall h, R h (set_reach h true)) ->
  (forall h1 h2 h3, R h1 h2 -> R h2 h3 -> R h1 h3) ->
  (In (a_tgt a) (addresses sc) ->
   R (get_row sc st (a_tgt a)) (fst (host_perform (get_row sc st (a_tgt a)) a))) ->
  forall x, In x (addresses sc) -> R (get_row sc st x) (get_row sc (next sc st a k) x).
Proof.
  intros Hwf Rrefl Rdisc Rreach Rtrans Rhost x Hin.
  pose proof (wf_state_length _ _ Hwf) as HL.
  destruct (next_shape sc st a k HL) as [f [-> Hf]].
  rewrite get_row_map_rows by (apply wf_state_in_rows; auto).
  destruct (Hf x (get_row sc st x)) as [E|[E|[E|[Ex [E|E]]]]]; rewrite E; auto.
  - subst x. auto.
  - subst x. eapply Rtrans; [apply Rhost; auto | apply Rreach].
Qed.

(* ================= host level ================= *)
Lemma set_disc_same_config h b : same_config h (set_disc h b).
Proof. unfold same_config. simpl. repeat split; reflexivity. Qed.
Lemma set_reach_same_config h b : same_config h (set_reach h b).
Proof. unfold same_config. simpl. repeat split; reflexivity. Qed.

Lemma host_perform_same_config h a : same_config h (fst (host_perform h a)).
Proof.
  unfold host_perform.
  destruct (a_kind a);
    repeat match goal with |- context [if ?c then _ else _] => destruct c end;
    simpl; unfold same_config; simpl; repeat split; reflexivity.
Qed.

Lemma gain_access_bounds h a :
  (h_acc h <= 2)%nat -> (a_acc a = 1 \/ a_acc a = 2)%nat ->
  (h_acc h <= gain_access h a <= 2)%nat.
Proof.
  intros Hh Ha. unfold gain_access, ROOT.
  destruct (Nat.eqb (h_acc h) 2) eqn:E; [lia|]. apply Nat.eqb_neq in E. lia.
Qed.

Lemma host_perform_mono h a :
  (h_acc h <= 2)%nat ->
  (is_exploit a = true \/ is_privesc a = true -> (a_acc a = 1 \/ a_acc a = 2)%nat) ->
  row_le h (fst (host_perform h a)) /\ (h_acc (fst (host_perform h a)) <= 2)%nat.
Proof.
  intros Hh Ha. unfold host_perform.
  assert (Hrefl : row_le h h /\ (h_acc h <= 2)%nat) by (split; [apply row_le_refl | exact Hh]).
  unfold is_exploit, is_privesc in *.
  destruct (a_kind a) eqn:K; cbn [akind_eqb andb] in *; try exact Hrefl;
    repeat match goal with |- context [if ?c then _ else _] => destruct c eqn:? end;
    cbn [fst]; try exact Hrefl.
  - (* exploit *)
    pose proof (gain_access_bounds h a Hh (Ha (or_introl eq_refl))) as B.
    unfold row_le. simpl. repeat split; auto; lia.
  - (* privesc *)
    pose proof (gain_access_bounds h a Hh (Ha (or_intror eq_refl))) as B.
    unfold row_le. simpl. repeat split; auto; lia.
Qed.

(* the row relation used for monotonicity and well-formedness at once *)
Definition row_step (h h' : hrow) : Prop :=
  same_config h h' /\ ((h_acc h <= 2)%nat -> row_le h h' /\ (h_acc h' <= 2)%nat).

Lemma row_step_refl h : row_step h h.
Proof. split; [apply same_config_refl|]. intros H. split; [apply row_le_refl | exact H]. Qed.

Lemma row_step_trans h1 h2 h3 : row_step h1 h2 -> row_step h2 h3 -> row_step h1 h3.
Proof.
  intros [A1 A2] [B1 B2]. split; [eapply same_config_trans; eauto|].
  intros H. destruct (A2 H) as [A3 A4]. destruct (B2 A4) as [B3 B4].
  split; [eapply row_le_trans; eauto | exact B4].
Qed.

Lemma row_step_disc h : row_step h (set_disc h true).
Proof.
  split; [apply set_disc_same_config|]. intros H. unfold row_le. simpl. repeat split; auto.
Qed.

Lemma row_step_reach h : row_step h (set_reach h true).
Proof.
  split; [apply set_reach_same_config|]. intros H. unfold row_le. simpl. repeat split; auto.
Qed.

Lemma next_row_step sc st a k x :
  wf_state sc st = true -> act_ok sc a -> In x (addresses sc) ->
  row_step (get_row sc st x) (get_row sc (next sc st a k) x).
Proof.
  intros Hwf (Ht & Hacc & _) Hin.
  apply (next_pointwise row_step); auto.
  - apply row_step_refl.
  - apply row_step_disc.
  - apply row_step_reach.
  - apply row_step_trans.
  - intros _. split; [apply host_perform_same_config|]. intros H. apply host_perform_mono; auto.
Qed.

(* ================= reset and the initial state ================= *)
Lemma get_row_net_reset sc st x :
  wf_state sc st = true -> In x (addresses sc) ->
  get_row sc (net_reset sc st) x = reset_row sc x (get_row sc st x).
Proof.
  intros Hwf Hin. unfold net_reset. apply get_row_map_rows. apply wf_state_in_rows; auto.
Qed.

Lemma reset_row_same_config sc x h : same_config h (reset_row sc x h).
Proof. unfold same_config, reset_row. simpl. repeat split; reflexivity. Qed.

Lemma wf_initial_state sc : wf_state sc (initial_state sc) = true.
Proof.
  unfold wf_state, initial_state. rewrite map_length, Nat.eqb_refl. cbn [andb].
  apply forallb_combine_map. intros [x c] _. cbn [fst snd].
  replace (cfg_matches x c (init_row sc x c)) with true; [reflexivity|].
  symmetry. apply cfg_matches_spec. unfold init_row. simpl. repeat split; reflexivity.
Qed.

Lemma reset_row_init_row sc x c h :
  cfg_matches x c h = true -> reset_row sc x h = init_row sc x c.
Proof.
  intros H. apply cfg_matches_spec in H. destruct H as (H1 & H2 & H3 & H4 & H5 & H6).
  unfold reset_row, init_row. cbv zeta. rewrite H1, H2, H3, H4, H5, H6. reflexivity.
Qed.

Lemma reset_init_aux sc (hs : list (addr * hostcfg)) : forall (st : list hrow),
  length st = length hs ->
  forallb (fun p => cfg_matches (fst (fst p)) (snd (fst p)) (snd p) && Nat.leb (h_acc (snd p)) 2)
          (combine hs st) = true ->
  map (fun p => reset_row sc (fst p) (snd p)) (combine (map fst hs) st)
  = map (fun e => init_row sc (fst e) (snd e)) hs.
Proof.
  induction hs as [|[x c] hs IH]; intros [|h st] HL Hf; try discriminate; auto.
  cbn [map combine fst snd forallb] in *.
  apply andb_true_iff in Hf. destruct Hf as [Hf1 Hf2].
  apply andb_true_iff in Hf1. destruct Hf1 as [Hc _].
  f_equal.
  - apply reset_row_init_row. exact Hc.
  - apply IH; auto.
Qed.

(* ================= the five C04 statements ================= *)
Lemma C04_monotone_proof : C04_monotone_stmt.
Proof.
  intros sc st a k x WF Hwf Hok Hin. unfold row.
  destruct (next_row_step sc st a k x Hwf Hok Hin) as [_ H].
  apply H. apply wf_state_acc; auto.
Qed.

Lemma C04_config_frame_proof : C04_config_frame_stmt.
Proof.
  intros sc st a k x WF Hwf Hin. unfold row. split.
  - apply (next_pointwise same_config); auto.
    + apply same_config_refl.
    + intros h. apply set_disc_same_config.
    + intros h. apply set_reach_same_config.
    + apply same_config_trans.
    + intros _. apply host_perform_same_config.
  - rewrite get_row_net_reset by auto. apply reset_row_same_config.
Qed.

Lemma C04_reset_is_init_proof : C04_reset_is_init_stmt.
Proof.
  intros sc st _ Hwf. unfold wf_state in Hwf. apply andb_true_iff in Hwf.
  destruct Hwf as [HL Hf]. apply Nat.eqb_eq in HL.
  unfold net_reset, map_rows, rows, addresses, initial_state.
  apply reset_init_aux; auto.
Qed.

Lemma C04_wf_preserved_proof : C04_wf_preserved_stmt.
Proof.
  intros sc st a k WF Hwf Hok. split; [|split].
  - pose proof (wf_nodup sc WF) as ND.
    pose proof (wf_state_length _ _ Hwf) as HL.
    apply (wf_state_iff sc (next sc st a k) ND).
    destruct (proj1 (wf_state_iff sc st ND) Hwf) as [Hlen Hp]. split.
    + rewrite next_length; auto.
    + intros x c Hin. destruct (Hp x c Hin) as [H1 H2].
      destruct (next_row_step sc st a k x Hwf Hok (in_cfg_addresses sc x c Hin)) as [S1 S2].
      split.
      * eapply cfg_matches_same_config; eauto.
      * apply S2. exact H2.
  - rewrite (C04_reset_is_init_proof sc st WF Hwf). apply wf_initial_state.
  - apply wf_initial_state.
Qed.

(* ================= actions of the space are act_ok ================= *)
Lemma wf_all_addrs sc a : wf_scenario sc = true -> In a (all_addrs sc) -> In a (addresses sc).
Proof.
  intros H Hin.
  assert (F : forallb (fun a => mem_addr a (addresses sc)) (all_addrs sc) = true)
    by (unfold wf_scenario in H; repeat rewrite andb_true_iff in H; tauto).
  rewrite forallb_forall in F. apply mem_addr_In. apply F. exact Hin.
Qed.

Lemma wf_exploits sc e : wf_scenario sc = true -> In e (s_exploits sc) -> wf_edef sc e = true.
Proof.
  intros H Hin.
  assert (F : forallb (wf_edef sc) (s_exploits sc) = true)
    by (unfold wf_scenario in H; repeat rewrite andb_true_iff in H; tauto).
  rewrite forallb_forall in F. auto.
Qed.

Lemma wf_privescs sc p : wf_scenario sc = true -> In p (s_privescs sc) -> wf_pdef sc p = true.
Proof.
  intros H Hin.
  assert (F : forallb (wf_pdef sc) (s_privescs sc) = true)
    by (unfold wf_scenario in H; repeat rewrite andb_true_iff in H; tauto).
  rewrite forallb_forall in F. auto.
Qed.

Lemma wf_nsubnets sc : wf_scenario sc = true -> (2 <= nsubnets sc)%nat.
Proof.
  intros H.
  assert (F : Nat.leb 2 (nsubnets sc) = true)
    by (unfold wf_scenario in H; repeat rewrite andb_true_iff in H; tauto).
  apply Nat.leb_le. exact F.
Qed.

Lemma wf_subnet_pos sc s : wf_scenario sc = true -> (s < nsubnets sc)%nat -> (0 < subnet_size sc s)%nat.
Proof.
  intros H Hs.
  assert (F : forallb (fun x => Nat.ltb 0 x) (s_subnets sc) = true)
    by (unfold wf_scenario in H; repeat rewrite andb_true_iff in H; tauto).
  rewrite forallb_forall in F. unfold subnet_size. apply Nat.ltb_lt. apply F.
  apply nth_In. exact Hs.
Qed.

Lemma in_all_addrs sc s h :
  (0 < s < nsubnets sc)%nat -> (h < subnet_size sc s)%nat -> In (s, h) (all_addrs sc).
Proof.
  intros Hs Hh. unfold all_addrs. apply in_flat_map. exists s. split.
  - apply in_seq. lia.
  - apply in_map_iff. exists h. split; auto. apply in_seq. lia.
Qed.

Lemma wf_edef_acc sc e : wf_edef sc e = true -> (e_acc e = 1 \/ e_acc e = 2)%nat.
Proof.
  unfold wf_edef. rewrite !andb_true_iff, orb_true_iff, !Nat.eqb_eq. tauto.
Qed.

Lemma wf_pdef_acc sc p : wf_pdef sc p = true -> (p_acc p = 1 \/ p_acc p = 2)%nat.
Proof.
  unfold wf_pdef. rewrite !andb_true_iff, orb_true_iff, !Nat.eqb_eq. tauto.
Qed.

Lemma noop_tgt_in sc : wf_scenario sc = true -> In (a_tgt noop) (addresses sc).
Proof.
  intros WF. apply wf_all_addrs; auto. cbn [noop a_tgt].
  pose proof (wf_nsubnets sc WF) as N.
  apply in_all_addrs; [lia|]. apply wf_subnet_pos; auto; lia.
Qed.

Lemma scan_act_ok sc k t c :
  In t (addresses sc) -> k <> KExploit -> k <> KPrivesc -> k <> KNoop -> act_ok sc (mk_scan k t c).
Proof.
  intros Ht K1 K2 K3. unfold act_ok, mk_scan, is_exploit, is_privesc, is_noop. cbn [a_tgt a_kind a_acc a_req].
  split; [exact Ht|]. split.
  - intros [H|H]; destruct k; simpl in H; try discriminate; congruence.
  - intros _. reflexivity.
Qed.

Lemma host_actions_ok sc t a :
  wf_scenario sc = true -> In t (addresses sc) -> In a (host_actions sc t) -> act_ok sc a.
Proof.
  intros WF Ht Hin. unfold host_actions in Hin.
  cbn [app In] in Hin.
  destruct Hin as [<-|[<-|[<-|[<-|Hin]]]]; try (apply scan_act_ok; auto; discriminate).
  apply in_app_or in Hin. destruct Hin as [Hin|Hin]; apply in_map_iff in Hin.
  - destruct Hin as [e [<- He]]. unfold act_ok, mk_exploit. cbn [a_tgt a_acc a_req].
    split; [exact Ht|]. split; [|intros _; reflexivity].
    intros _. eapply wf_edef_acc. apply wf_exploits; eauto.
  - destruct Hin as [p [<- Hp]]. unfold act_ok, mk_privesc. cbn [a_tgt a_acc a_req].
    split; [exact Ht|]. split; [|intros _; reflexivity].
    intros _. eapply wf_pdef_acc. apply wf_privescs; eauto.
Qed.

Lemma in_space_act_ok : forall sc a, wf_scenario sc = true -> in_space sc a -> act_ok sc a.
Proof.
  intros sc a WF [->|Hin].
  - unfold act_ok. split; [apply noop_tgt_in; auto|]. split.
    + intros [H|H]; discriminate.
    + intros H; discriminate.
  - unfold flat in Hin. apply in_flat_map in Hin. destruct Hin as [t [Ht Ha]].
    eapply host_actions_ok; eauto.
Qed.

Lemma in_host_actions_flat sc t a : In t (addresses sc) -> In a (host_actions sc t) -> In a (flat sc).
Proof. intros Ht Ha. unfold flat. apply in_flat_map. exists t. auto. Qed.

Lemma decode_param_in_space sc v a :
  wf_scenario sc = true -> decode_param sc v = Some a -> in_space sc a.
Proof.
  intros WF H. unfold decode_param in H.
  destruct v as [|ty [|s [|h [|o [|sv [|pr [|? ?]]]]]]]; try discriminate.
  destruct (negb (Nat.ltb (S s) (nsubnets sc))) eqn:G1; [discriminate|].
  destruct (Nat.eqb (subnet_size sc (S s)) 0) eqn:G2; [discriminate|].
  apply negb_false_iff in G1. apply Nat.ltb_lt in G1. apply Nat.eqb_neq in G2.
  set (t := (S s, Nat.modulo h (subnet_size sc (S s)))) in *.
  assert (Ht : In t (addresses sc)).
  { apply wf_all_addrs; auto. apply in_all_addrs; [lia|]. apply Nat.mod_upper_bound. exact G2. }
  assert (Hscan : forall k c, In (mk_scan k t c) (host_actions sc t) -> in_space sc (mk_scan k t c)).
  { intros k c Hk. right. eapply in_host_actions_flat; eauto. }
  destruct ty as [|[|[|[|[|[|?]]]]]]; try discriminate.
  - (* exploit *)
    destruct (negb (Nat.leb o (s_nos sc))); [discriminate|].
    destruct (negb (Nat.ltb sv (s_nsrv sc))); [discriminate|].
    destruct (find_exploit sc sv match o with O => None | S o' => Some o' end) as [e|] eqn:F;
      inversion H; subst a; [|left; reflexivity].
    right. apply (in_host_actions_flat sc t); auto.
    unfold find_exploit in F. apply find_some in F. destruct F as [F _].
    unfold host_actions. apply in_or_app. right. apply in_or_app. left. apply in_map. exact F.
  - (* privesc *)
    destruct (negb (Nat.leb o (s_nos sc))); [discriminate|].
    destruct (negb (Nat.ltb pr (s_nproc sc))); [discriminate|].
    destruct (find_privesc sc pr match o with O => None | S o' => Some o' end) as [p|] eqn:F;
      inversion H; subst a; [|left; reflexivity].
    right. apply (in_host_actions_flat sc t); auto.
    unfold find_privesc in F. apply find_some in F. destruct F as [F _].
    unfold host_actions. apply in_or_app. right. apply in_or_app. right. apply in_map. exact F.
  - inversion H; subst a. apply Hscan. unfold host_actions. cbn [app In]. auto.
  - inversion H; subst a. apply Hscan. unfold host_actions. cbn [app In]. auto.
  - inversion H; subst a. apply Hscan. unfold host_actions. cbn [app In]. auto.
  - inversion H; subst a. apply Hscan. unfold host_actions. cbn [app In]. auto 6.
Qed.

Lemma decode_arg_in_space : forall sc m x a,
  wf_scenario sc = true -> arg_in_space x -> decode_arg sc m x = Some a -> in_space sc a.
Proof.
  intros sc m x a WF Hx H. destruct x as [n|v|a0]; cbn [arg_in_space] in Hx; [| |contradiction];
    unfold decode_arg in H; destruct (flat_actions m); try discriminate.
  - right. eapply nth_error_In; eauto.
  - eapply decode_param_in_space; eauto.
Qed.

Lemma decode_arg_act_ok sc m x a :
  wf_scenario sc = true -> arg_in_space x -> decode_arg sc m x = Some a -> act_ok sc a.
Proof. intros WF Hx H. apply in_space_act_ok; auto. eapply decode_arg_in_space; eauto. Qed.

(* ================= operation histories ================= *)
Lemma o_next_generative_step sc m st a k : o_next (generative_step sc m st a k) = next sc st a k.
Proof.
  unfold generative_step, next. destruct (perform_action sc st a k) as [[st' r] u]. reflexivity.
Qed.

Lemma next_wf sc st a k :
  wf_scenario sc = true -> wf_state sc st = true -> act_ok sc a -> wf_state sc (next sc st a k) = true.
Proof. intros WF Hwf Hok. apply (C04_wf_preserved_proof sc st a k WF Hwf Hok). Qed.

Lemma reset_wf sc st :
  wf_scenario sc = true -> wf_state sc st = true -> wf_state sc (net_reset sc st) = true.
Proof.
  intros WF Hwf. rewrite (C04_reset_is_init_proof sc st WF Hwf). apply wf_initial_state.
Qed.

Lemma run_op_invariant (P : state -> Prop) sc m :
  wf_scenario sc = true ->
  (forall st, wf_state sc st = true -> P (net_reset sc st)) ->
  (forall st a k, wf_state sc st = true -> act_ok sc a -> P st -> P (next sc st a k)) ->
  forall o e pool,
    op_in_space o ->
    wf_state sc (e_state e) = true -> P (e_state e) ->
    Forall (fun s => wf_state sc s = true /\ P s) pool ->
    let r := fst (run_op sc m (e, pool) o) in
    wf_state sc (e_state (fst r)) = true /\ P (e_state (fst r))
    /\ Forall (fun s => wf_state sc s = true /\ P s) (snd r).
Proof.
  intros WF Hreset Hstep o e pool Ho Hwf HP Hpool. cbv zeta.
  destruct o as [|x k|i x k|i| |]; unfold run_op.
  - (* reset *)
    cbn [fst snd env_reset e_state].
    assert (W : wf_state sc (net_reset sc (e_state e)) = true) by (apply reset_wf; auto).
    split; [exact W|]. split; [apply Hreset; auto|].
    apply Forall_app. split; auto.
  - (* step *)
    cbn [op_in_space] in Ho.
    destruct (decode_arg sc m x) as [a|] eqn:D; [|cbn [fst snd]; auto].
    pose proof (decode_arg_act_ok sc m x a WF Ho D) as Hok.
    unfold env_step. cbn [fst snd e_state]. rewrite o_next_generative_step.
    assert (W : wf_state sc (next sc (e_state e) a k) = true) by (apply next_wf; auto).
    split; [exact W|]. split; [apply Hstep; auto|].
    apply Forall_app. split; auto.
  - (* generative step *)
    cbn [op_in_space] in Ho.
    destruct (decode_arg sc m x) as [a|] eqn:D; [|cbn [fst snd]; auto].
    destruct (nth_error pool i) as [s|] eqn:N; [|cbn [fst snd]; auto].
    pose proof (decode_arg_act_ok sc m x a WF Ho D) as Hok.
    cbn [fst snd]. rewrite o_next_generative_step.
    split; [exact Hwf|]. split; [exact HP|].
    apply Forall_app. split; auto.
    apply nth_error_In in N. rewrite Forall_forall in Hpool. destruct (Hpool _ N) as [Ws Ps].
    constructor; [|constructor]. split; [apply next_wf; auto | apply Hstep; auto].
  - destruct (nth_error pool i); cbn [fst snd]; auto.
  - destruct (flat_actions m); cbn [fst snd]; auto.
  - (* generate_initial_state: the environment is untouched, the pool gains the initial state *)
    cbn [fst snd]. split; [exact Hwf|]. split; [exact HP|].
    apply Forall_app. split; auto.
    constructor; [|constructor]. split; [apply wf_initial_state|].
    rewrite <- (C04_reset_is_init_proof sc (e_state e) WF Hwf). apply Hreset; auto.
Qed.

Lemma run_ops_invariant :
  forall (P : state -> Prop) sc m,
    wf_scenario sc = true ->
    (forall st, wf_state sc st = true -> P (net_reset sc st)) ->
    (forall st a k, wf_state sc st = true -> act_ok sc a -> P st -> P (next sc st a k)) ->
    forall ops e pool,
      Forall op_in_space ops ->
      wf_state sc (e_state e) = true -> P (e_state e) ->
      Forall (fun s => wf_state sc s = true /\ P s) pool ->
      let r := fst (run_ops sc m (e, pool) ops) in
      wf_state sc (e_state (fst r)) = true /\ P (e_state (fst r))
      /\ Forall (fun s => wf_state sc s = true /\ P s) (snd r).
Proof.
  intros P sc m WF Hreset Hstep ops.
  induction ops as [|o ops IH]; intros e pool Hops Hwf HP Hpool; cbv zeta.
  - cbn [run_ops fst snd]. auto.
  - inversion Hops as [|? ? Ho Hops']; subst.
    pose proof (run_op_invariant P sc m WF Hreset Hstep o e pool Ho Hwf HP Hpool) as H1.
    cbv zeta in H1. cbn [run_ops].
    destruct (run_op sc m (e, pool) o) as [[e1 pool1] out] eqn:Hop.
    cbn [fst snd] in H1. destruct H1 as (A & B & C).
    specialize (IH e1 pool1 Hops' A B C). cbv zeta in IH.
    destruct (run_ops sc m (e1, pool1) ops) as [ep'' outs] eqn:Hr.
    cbn [fst snd] in *. exact IH.
Qed.

Lemma run_ops_app sc m ep l1 l2 :
  fst (run_ops sc m ep (l1 ++ l2)) = fst (run_ops sc m (fst (run_ops sc m ep l1)) l2).
Proof.
  revert ep. induction l1 as [|o l1 IH]; intros ep.
  - reflexivity.
  - cbn [app run_ops]. destruct (run_op sc m ep o) as [ep' out].
    specialize (IH ep').
    destruct (run_ops sc m ep' (l1 ++ l2)) as [e1 o1].
    destruct (run_ops sc m ep' l1) as [e2 o2].
    cbn [fst] in *. exact IH.
Qed.

Lemma init_env_wf : forall sc m,
  wf_scenario sc = true ->
  wf_state sc (e_state (env_init sc m)) = true /\ e_state (env_init sc m) = initial_state sc.
Proof.
  intros sc m WF. unfold env_init, env_reset. cbn [e_state].
  assert (E1 : net_reset sc (initial_state sc) = initial_state sc)
    by (apply C04_reset_is_init_proof; auto; apply wf_initial_state).
  rewrite E1, E1. split; [apply wf_initial_state | reflexivity].
Qed.

Lemma final_env_wf sc m ops :
  wf_scenario sc = true -> Forall op_in_space ops ->
  wf_state sc (e_state (final_env sc m ops)) = true.
Proof.
  intros WF Hops. destruct (init_env_wf sc m WF) as [W0 E0].
  pose proof (run_ops_invariant (fun _ => True) sc m WF (fun _ _ => I) (fun _ _ _ _ _ _ => I)
                ops (env_init sc m) [e_state (env_init sc m)] Hops W0 I) as H.
  cbv zeta in H. unfold final_env. apply H. constructor; auto.
Qed.

Lemma C04_reset_after_any_history_proof : C04_reset_after_any_history_stmt.
Proof.
  intros sc m ops WF Hops.
  pose proof (final_env_wf sc m ops WF Hops) as W.
  assert (E : final_env sc m (ops ++ [OReset]) = env_reset sc m (final_env sc m ops)).
  { unfold final_env. rewrite run_ops_app.
    destruct (run_ops sc m (env_init sc m, [e_state (env_init sc m)]) ops) as [[e1 pool1] outs].
    reflexivity. }
  rewrite E. unfold env_reset. cbn [e_state e_steps].
  split; [|split; [reflexivity | exact W]].
  apply C04_reset_is_init_proof; auto.
Qed.

Print Assumptions C04_monotone_proof.
Print Assumptions C04_config_frame_proof.
Print Assumptions C04_wf_preserved_proof.
Print Assumptions C04_reset_is_init_proof.
Print Assumptions C04_reset_after_any_history_proof.
Print Assumptions run_ops_invariant.
