(* PC03.v -- proofs of the C03 statements (reachability / discovery invariant). *)
From NasimV Require Import StmtDyn.
From NasimV.proofs Require Import RowLemmas.

(* ---------- action kinds are exclusive ---------- *)
Lemma noop_excl a :
  is_noop a = true -> is_exploit a = false /\ is_subnet_scan a = false.
Proof.
  unfold is_noop, is_exploit, is_subnet_scan.
  destruct (a_kind a); cbn [akind_eqb]; intros H; try discriminate; auto.
Qed.

Lemma ss_not_ex a : is_subnet_scan a = true -> is_exploit a = false.
Proof.
  unfold is_exploit, is_subnet_scan.
  destruct (a_kind a); cbn [akind_eqb]; intros H; try discriminate; auto.
Qed.

(* ---------- host level: the three status flags ---------- *)
Lemma host_perform_flags h a :
  h_disc (fst (host_perform h a)) = h_disc h
  /\ h_reach (fst (host_perform h a)) = h_reach h
  /\ h_comp (fst (host_perform h a))
     = h_comp h || (is_exploit a && r_success (snd (host_perform h a))).
Proof.
  unfold host_perform, is_exploit.
  destruct (a_kind a) eqn:K; cbn [akind_eqb andb fst snd r_success];
    repeat match goal with
           | |- context [if ?c then _ else _] => destruct c eqn:?
           end;
    cbn [fst snd r_success res_perm res_plain set_acc set_comp h_disc h_reach h_comp andb];
    rewrite ?orb_false_r, ?orb_true_r; auto.
Qed.

(* ---------- lookups ---------- *)
Lemma reach_in sc st a :
  wf_state sc st = true -> h_reach (get_row sc st a) = true -> In a (addresses sc).
Proof.
  intros WF H. unfold get_row in H.
  destruct (find (fun p => addr_eqb (fst p) a) (rows sc st)) as [p|] eqn:F.
  - apply find_addr_fst in F. destruct F as [<- Hin].
    unfold rows in Hin. destruct p as [x h]. apply in_combine_l in Hin. exact Hin.
  - cbn in H. discriminate.
Qed.

Lemma get_row_set_row sc st a h' x :
  In a (map fst (rows sc st)) ->
  get_row sc (set_row sc st a h') x = if addr_eqb x a then h' else get_row sc st x.
Proof.
  intros Hin. destruct (addr_eqb x a) eqn:X.
  - apply addr_eqb_eq in X. subst x. apply get_row_set_row_same; auto.
  - apply addr_eqb_neq in X. apply get_row_set_row_other. congruence.
Qed.

(* ---------- step characterisation ---------- *)
Definition exs (sc : scenario) (st : state) (a : action) (k : Z) : bool :=
  is_exploit a && r_success (res sc st a k).
Definition sss (sc : scenario) (st : state) (a : action) (k : Z) : bool :=
  is_subnet_scan a && r_success (res sc st a k).

Ltac triv :=
  cbn [fst snd r_success res_conn res_perm res_undef res_plain];
  rewrite ?andb_false_r; cbn [andb];
  split; [discriminate|]; split; [discriminate|];
  intros; rewrite ?orb_false_r; auto.

Lemma step_char sc st a k :
  wf_scenario sc = true -> wf_state sc st = true ->
  (exs sc st a k = true ->
     In (a_tgt a) (addresses sc)
     /\ h_reach (trow sc st a) = true /\ h_disc (trow sc st a) = true)
  /\ (sss sc st a k = true ->
     In (a_tgt a) (addresses sc) /\ h_comp (trow sc st a) = true)
  /\ forall x, In x (addresses sc) ->
       h_comp (row sc (next sc st a k) x)
         = h_comp (row sc st x) || (exs sc st a k && addr_eqb x (a_tgt a))
       /\ h_disc (row sc (next sc st a k) x)
         = h_disc (row sc st x) || (sss sc st a k && connected sc (fst (a_tgt a)) (fst x))
       /\ h_reach (row sc (next sc st a k) x)
         = h_reach (row sc st x) || (exs sc st a k && connected sc (fst (a_tgt a)) (fst x)).
Proof.
  intros WS WF.
  pose proof (wf_nodup _ WS) as ND.
  pose proof (wf_state_length _ _ WF) as HL.
  unfold exs, sss, next, res, trow, row, perform_action.
  destruct (is_noop a) eqn:N.
  { destruct (noop_excl _ N) as [E S]. rewrite E, S. triv. }
  set (t := get_row sc st (a_tgt a)).
  destruct (negb (h_reach t) || negb (h_disc t)) eqn:G1; [triv|].
  apply orb_false_iff in G1. destruct G1 as [G1 G1'].
  apply negb_false_iff in G1. apply negb_false_iff in G1'.
  assert (TIN : In (a_tgt a) (addresses sc)) by (eapply reach_in; eauto).
  assert (TIN' : In (a_tgt a) (map fst (rows sc st))) by (apply wf_state_in_rows; auto).
  destruct (is_remote a && negb (has_remote_perm sc st a)) eqn:G2; [triv|].
  destruct (is_exploit a && negb (traffic_permitted sc st (a_tgt a) (a_srv a))) eqn:G3; [triv|].
  destruct (is_privesc a && negb (h_comp t)) eqn:G4; [triv|].
  destruct (negb (is_exploit a && h_comp t) && chance_fails a k) eqn:G5; [triv|].
  destruct (is_subnet_scan a) eqn:SS.
  - (* subnet scan *)
    rewrite (ss_not_ex _ SS). unfold subnet_scan. fold t.
    destruct (negb (h_comp t)) eqn:C; [triv|].
    destruct (negb (has_access t (a_req a))) eqn:A; [triv|].
    apply negb_false_iff in C.
    cbn [fst snd r_success andb].
    split; [discriminate|]. split; [auto|].
    intros x Hx.
    rewrite get_row_map_rows by (apply wf_state_in_rows; auto).
    unfold scan_hits.
    destruct (connected sc (fst (a_tgt a)) (fst x));
      cbn [set_disc h_comp h_disc h_reach]; rewrite ?orb_false_r, ?orb_true_r; auto.
  - (* host-level action *)
    pose proof (host_perform_flags t a) as HF.
    destruct (host_perform t a) as [t' r] eqn:HP.
    cbn [fst snd] in HF. destruct HF as (HD & HR & HC).
    cbn [fst snd andb].
    split; [intros _; auto|]. split; [discriminate|].
    intros x Hx.
    assert (XIN : In x (map fst (rows sc st))) by (apply wf_state_in_rows; auto).
    assert (ROW1 : h_comp (get_row sc (set_row sc st (a_tgt a) t') x)
                   = h_comp (get_row sc st x)
                     || (is_exploit a && r_success r && addr_eqb x (a_tgt a))
                 /\ h_disc (get_row sc (set_row sc st (a_tgt a) t') x) = h_disc (get_row sc st x)
                 /\ h_reach (get_row sc (set_row sc st (a_tgt a) t') x) = h_reach (get_row sc st x)).
    { rewrite get_row_set_row by auto.
      destruct (addr_eqb x (a_tgt a)) eqn:X.
      - apply addr_eqb_eq in X. subst x. fold t. rewrite andb_true_r. auto.
      - rewrite andb_false_r, orb_false_r. auto. }
    destruct ROW1 as (R1 & R2 & R3).
    destruct (is_exploit a && r_success r) eqn:EX.
    + unfold update_reachable.
      rewrite get_row_map_rows
        by (unfold set_row; rewrite map_fst_rows_map_rows; exact XIN).
      destruct (h_reach (get_row sc (set_row sc st (a_tgt a) t') x)) eqn:RR.
      * rewrite R1, R2, RR. rewrite <- R3. cbn [andb orb]. rewrite orb_false_r. auto.
      * destruct (connected sc (fst (a_tgt a)) (fst x)) eqn:CN;
          cbn [set_reach h_comp h_disc h_reach andb];
          rewrite ?R1, ?R2, ?RR; rewrite <- ?R3; rewrite ?orb_false_r, ?orb_true_r; auto.
    + rewrite R1, R2, R3. cbn [andb]. rewrite ?orb_false_r. auto.
Qed.

(* ================= C03 ================= *)
Lemma C03_reset_proof : C03_reset_stmt.
Proof.
  unfold C03_reset_stmt. intros sc st WS WF.
  assert (FLD : forall x, In x (addresses sc) ->
            h_comp (row sc (net_reset sc st) x) = false
            /\ h_disc (row sc (net_reset sc st) x) = subnet_public sc (fst x)
            /\ h_reach (row sc (net_reset sc st) x) = subnet_public sc (fst x)).
  { intros x Hx. unfold row, net_reset.
    rewrite get_row_map_rows by (apply wf_state_in_rows; auto).
    unfold reset_row. cbn [h_comp h_disc h_reach]. auto. }
  split.
  - unfold Inv3. intros x Hx. destruct (FLD x Hx) as (F1 & F2 & F3).
    rewrite F1, F2, F3. split; [|split].
    + split.
      * intros H; left; exact H.
      * intros [H|[y [[Hy Cy] _]]]; [exact H|].
        destruct (FLD y Hy) as (Fy & _). congruence.
    + discriminate.
    + auto.
  - intros x Hx. destruct (FLD x Hx) as (F1 & F2 & F3). auto.
Qed.

Lemma C03_step_proof : C03_step_stmt.
Proof.
  unfold C03_step_stmt. intros sc st a k WS WF AOK INV.
  destruct (step_char sc st a k WS WF) as (EXP & SSP & CH).
  unfold Inv3. intros x Hx.
  destruct (CH x Hx) as (Cx & Dx & Rx).
  destruct (INV x Hx) as (IR & ICD & IDR).
  split; [|split].
  - split.
    + rewrite Rx. intros H. apply orb_true_iff in H. destruct H as [H|H].
      * apply IR in H. destruct H as [H|[y [[Hy Cy] CN]]]; [left; exact H|].
        right. exists y. split; [|exact CN]. split; [exact Hy|].
        destruct (CH y Hy) as (Cy' & _). rewrite Cy', Cy. reflexivity.
      * apply andb_true_iff in H. destruct H as [E CN].
        destruct (EXP E) as (TIN & _).
        right. exists (a_tgt a). split; [|exact CN]. split; [exact TIN|].
        destruct (CH _ TIN) as (Ct & _). rewrite Ct, E, addr_eqb_refl.
        apply orb_true_r.
    + rewrite Rx. intros [H|[y [[Hy Cy] CN]]].
      * assert (h_reach (row sc st x) = true) as -> by (apply IR; left; exact H). reflexivity.
      * destruct (CH y Hy) as (Cy' & _). rewrite Cy' in Cy.
        apply orb_true_iff in Cy. destruct Cy as [Cy|Cy].
        -- assert (h_reach (row sc st x) = true) as ->; [|reflexivity].
           apply IR. right. exists y. split; [split; auto|exact CN].
        -- apply andb_true_iff in Cy. destruct Cy as [E X].
           apply addr_eqb_eq in X. subst y. rewrite E, CN. apply orb_true_r.
  - rewrite Cx, Dx. intros H. apply orb_true_iff in H. destruct H as [H|H].
    + rewrite (ICD H). reflexivity.
    + apply andb_true_iff in H. destruct H as [E X].
      apply addr_eqb_eq in X. subst x.
      destruct (EXP E) as (_ & _ & DT). unfold trow in DT. unfold row. rewrite DT. reflexivity.
  - rewrite Dx, Rx. intros H. apply orb_true_iff in H. destruct H as [H|H].
    + rewrite (IDR H). reflexivity.
    + apply andb_true_iff in H. destruct H as [S CN].
      destruct (SSP S) as (TIN & CT).
      assert (h_reach (row sc st x) = true) as ->; [|reflexivity].
      apply IR. right. exists (a_tgt a). split; [|exact CN].
      split; [exact TIN|exact CT].
Qed.

Lemma C03_discovery_only_by_scan_proof : C03_discovery_only_by_scan_stmt.
Proof.
  unfold C03_discovery_only_by_scan_stmt. intros sc st a k x WS WF Hx NE.
  destruct (step_char sc st a k WS WF) as (_ & SSP & CH).
  destruct (CH x Hx) as (_ & Dx & _).
  destruct (sss sc st a k && connected sc (fst (a_tgt a)) (fst x)) eqn:G.
  - apply andb_true_iff in G. destruct G as [S CN].
    destruct (SSP S) as (_ & CT).
    unfold sss in S. apply andb_true_iff in S. destruct S as [S1 S2]. auto.
  - rewrite orb_false_r in Dx. congruence.
Qed.

Lemma C03_scan_discovers_exactly_proof : C03_scan_discovers_exactly_stmt.
Proof.
  unfold C03_scan_discovers_exactly_stmt. intros sc st a k x WS WF Hx SS RS.
  destruct (step_char sc st a k WS WF) as (_ & _ & CH).
  destruct (CH x Hx) as (_ & Dx & _).
  rewrite Dx. unfold sss. rewrite SS, RS. reflexivity.
Qed.

Print Assumptions C03_reset_proof.
Print Assumptions C03_step_proof.
Print Assumptions C03_discovery_only_by_scan_proof.
Print Assumptions C03_scan_discovers_exactly_proof.
