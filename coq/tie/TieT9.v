(* Level-2 tie for load_action_list (static file, re-checked against the regenerated gen/TrActions.v):
   the order in which the source appends actions -- per address: each scan class with its cost field,
   then one action per exploit definition, then one per escalation definition -- is the order of the
   model's flat action list, on which C11's positional theorems are stated. *)
From Coq Require Import List ZArith.
From NasimV Require Import Base Scenario Actions.
From NasimV.gen Require Import TrActions.
Import ListNotations.

Definition scan_kind (k : nat) : akind :=
  match k with 0%nat => KSrvScan | 1%nat => KOsScan | 2%nat => KSubScan | _ => KProcScan end.
Definition cost_field (sc : scenario) (c : nat) : Z :=
  match c with 0%nat => s_ssc sc | 1%nat => s_osc sc | 2%nat => s_subc sc | _ => s_psc sc end.

Definition slot_actions (sc : scenario) (t : addr) (s : slot) : list action :=
  match s with
  | SScan k c => [mk_scan (scan_kind k) t (cost_field sc c)]
  | SExploits => map (mk_exploit t) (s_exploits sc)
  | SPrivescs => map (mk_privesc t) (s_privescs sc)
  end.

Lemma tie_T9_host_actions : forall sc t,
  host_actions sc t = flat_map (slot_actions sc t) tr_host_slots.
Proof.
  intros sc t. unfold host_actions, tr_host_slots. cbn [flat_map slot_actions scan_kind cost_field app].
  rewrite app_nil_r. reflexivity.
Qed.
Print Assumptions tie_T9_host_actions.

Lemma tie_T9_flat : forall sc,
  flat sc = flat_map (fun t => flat_map (slot_actions sc t) tr_host_slots) (addresses sc).
Proof.
  intros sc. unfold flat. apply flat_map_ext. intros t. apply tie_T9_host_actions.
Qed.
Print Assumptions tie_T9_flat.
