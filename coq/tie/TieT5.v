(* Level-2 tie for the entitlement table of State.get_observation (static file, re-checked
   against gen/TrHost.v). *)
From NasimV Require Import HostGates.
From NasimV.gen Require Import TrHost.

Theorem tie_T5 : entitle_stmt tr_target_mask tr_disc_mask.
Proof.
  split.
  - intros k Hk. destruct k; reflexivity.
  - intros b. reflexivity.
Qed.
Print Assumptions tie_T5.
