(* Level-2 tie for the search loops of Network (static file, re-checked against the regenerated
   gen/TrSearch.v): has_required_remote_permission, traffic_permitted, subnet_traffic_permitted and the
   goal test are, for ALL scenarios, states and actions, the model's has_remote_perm /
   traffic_permitted / subnet_traffic_permitted / goal -- "some row satisfies the source's per-source
   test" (the iteration over every row is what stays modelled). *)
From Coq Require Import Bool List Arith.
From NasimV Require Import Base Scenario Host Network.
From NasimV.gen Require Import TrSearch.

Lemma existsb_ext' {A} (f g : A -> bool) l : (forall x, f x = g x) -> existsb f l = existsb g l.
Proof. intros H. induction l as [|x l IH]; cbn [existsb]; [reflexivity|]. rewrite H, IH. reflexivity. Qed.
Lemma forallb_ext' {A} (f g : A -> bool) l : (forall x, f x = g x) -> forallb f l = forallb g l.
Proof. intros H. induction l as [|x l IH]; cbn [forallb]; [reflexivity|]. rewrite H, IH. reflexivity. Qed.

Lemma tie_T11_permission : forall sc st a,
  has_remote_perm sc st a =
  tr_perm_early (subnet_public sc (fst (a_tgt a)))
  || existsb (fun p => tr_perm_src (h_comp (snd p)) (is_scan a) (connected sc (fst (fst p)) (fst (a_tgt a)))
                                   (is_exploit a)
                                   (subnet_traffic_permitted sc (fst (fst p)) (fst (a_tgt a)) (a_srv a))
                                   (has_access (snd p) (a_req a))) (rows sc st).
Proof.
  intros sc st a. unfold has_remote_perm, tr_perm_early.
  destruct (subnet_public sc (fst (a_tgt a))); cbn [orb]; [reflexivity|].
  apply existsb_ext'. intros p. unfold tr_perm_src.
  destruct (h_comp (snd p)), (is_scan a), (connected sc (fst (fst p)) (fst (a_tgt a))), (is_exploit a),
           (subnet_traffic_permitted sc (fst (fst p)) (fst (a_tgt a)) (a_srv a)), (has_access (snd p) (a_req a));
    reflexivity.
Qed.
Print Assumptions tie_T11_permission.

Lemma tie_T11_traffic : forall sc st t srv,
  traffic_permitted sc st t srv =
  tr_traffic_early (subnet_public sc (fst t)) (subnet_traffic_permitted sc O (fst t) srv)
  || existsb (fun p => tr_traffic_src (h_comp (snd p)) (subnet_traffic_permitted sc (fst (fst p)) (fst t) srv)
                                      (negb (host_denies sc (fst p) t srv))) (rows sc st).
Proof.
  intros sc st t srv. unfold traffic_permitted, tr_traffic_early. f_equal.
  apply existsb_ext'. intros p. unfold tr_traffic_src.
  destruct (h_comp (snd p)), (subnet_traffic_permitted sc (fst (fst p)) (fst t) srv), (host_denies sc (fst p) t srv);
    reflexivity.
Qed.
Print Assumptions tie_T11_traffic.

Lemma tie_T11_subnet_rule : forall sc s t srv,
  subnet_traffic_permitted sc s t srv = tr_sub_permitted (Nat.eqb s t) (connected sc s t) (fw_allows sc s t srv).
Proof. intros. reflexivity. Qed.
Print Assumptions tie_T11_subnet_rule.

Lemma tie_T11_goal : forall sc st,
  goal sc st = forallb (fun e => tr_goal_host (has_access (get_row sc st (fst e)) ROOT)) (s_sens sc).
Proof.
  intros sc st. unfold goal. apply forallb_ext'. intros e. unfold tr_goal_host.
  rewrite negb_involutive. reflexivity.
Qed.
Print Assumptions tie_T11_goal.

Lemma tie_T11_accessors : forall sc (h : hrow) lvl src dst srv,
  has_access h lvl = tr_has_access (h_acc h) lvl
  /\ negb (host_denies sc src dst srv) = tr_host_permits (host_denies sc src dst srv).
Proof. intros. split; reflexivity. Qed.
Print Assumptions tie_T11_accessors.
