(* Level-2 tie for the per-host loop bodies of Network.reset, _update_reachable and
   _perform_subnet_scan (static file, re-checked against gen/TrLoops.v). *)
From NasimV Require Import Network.
From NasimV.gen Require Import TrLoops.

(* reset: the status part of the model's reset_row *)
Lemma tie_T6_reset : forall sc a h,
  let h' := reset_row sc a h in
  (h_comp h', h_reach h', h_disc h', h_acc h')
  = tr_reset_row (subnet_public sc (fst a)) (h_comp h) (h_reach h) (h_disc h) (h_acc h).
Proof. intros. reflexivity. Qed.

(* _update_reachable: one row *)
Lemma tie_T6_update_reachable : forall sc csub (x : addr) (h : hrow),
  h_reach (if h_reach h then h else if connected sc csub (fst x) then set_reach h true else h)
  = tr_update_reach_row (h_reach h) (connected sc csub (fst x)).
Proof.
  intros sc csub x h. unfold tr_update_reach_row.
  destruct (h_reach h) eqn:R; [exact R|]. destruct (connected sc csub (fst x)); [reflexivity|exact R].
Qed.

Lemma tie_T6_update_reachable_def : forall sc st csub,
  update_reachable sc st csub
  = map_rows sc (fun x h => if h_reach h then h else if connected sc csub (fst x) then set_reach h true else h) st.
Proof. reflexivity. Qed.

(* _perform_subnet_scan: the gates and one row of the loop *)
Lemma tie_T6_scan : forall sc st a,
  let t := get_row sc st (a_tgt a) in
  match tr_scan_gate (h_comp t) (has_access t (a_req a)) with
  | 0%nat => subnet_scan sc st a = (st, res_conn)
  | 1%nat => subnet_scan sc st a = (st, res_perm)
  | _ =>
      let tsub := fst (a_tgt a) in
      let rowf := fun (p : addr * hrow) => tr_scan_row (scan_hits sc tsub (fst p)) (h_disc (snd p)) in
      fst (subnet_scan sc st a)
      = map_rows sc (fun x h => if fst (fst (fst (tr_scan_row (scan_hits sc tsub x) (h_disc h)))) then set_disc h true else h) st
      /\ r_disc (snd (subnet_scan sc st a)) = map (fun p => fst (fst (fst (rowf p)))) (rows sc st)
      /\ r_newly (snd (subnet_scan sc st a)) = map (fun p => snd (fst (fst (rowf p)))) (rows sc st)
      /\ r_value (snd (subnet_scan sc st a))
         = sumZ (map (fun p => if snd (rowf p) then h_dval (snd p) else 0%Z) (rows sc st))
      /\ r_success (snd (subnet_scan sc st a)) = true
  end.
Proof.
  intros sc st a. cbv zeta. unfold tr_scan_gate, subnet_scan.
  destruct (h_comp (get_row sc st (a_tgt a))); cbn [negb]; [|reflexivity].
  destruct (has_access (get_row sc st (a_tgt a)) (a_req a)); cbn [negb]; [|reflexivity].
  cbn [fst snd r_disc r_newly r_value r_success].
  repeat split.
  - unfold map_rows. apply map_ext. intros p. unfold tr_scan_row.
    destruct (scan_hits sc (fst (a_tgt a)) (fst p)) eqn:H; reflexivity.
  - apply map_ext. intros p. unfold tr_scan_row. destruct (scan_hits sc (fst (a_tgt a)) (fst p)); reflexivity.
  - apply map_ext. intros p. unfold tr_scan_row. destruct (scan_hits sc (fst (a_tgt a)) (fst p)); reflexivity.
  - f_equal. apply map_ext. intros p. unfold tr_scan_row.
    destruct (scan_hits sc (fst (a_tgt a)) (fst p)); reflexivity.
Qed.

(* the discovered flag after the scan, row by row *)
Lemma tie_T6_scan_flag : forall c d, snd (fst (tr_scan_row c d)) = d || c.
Proof. intros [] []; reflexivity. Qed.

Print Assumptions tie_T6_reset.
Print Assumptions tie_T6_update_reachable.
Print Assumptions tie_T6_scan.
