(* Level-2 tie for the loader's host-value and step-limit rules (static file, re-checked against the
   regenerated gen/TrLoader.v).  "close" is the model's reading of math.isclose on the modelled numbers
   (equality of the 1/64 values; the harness keeps generated numbers either equal or far apart). *)
From Coq Require Import ZArith Bool List.
From NasimV Require Import Base Yaml Loader.
From NasimV.gen Require Import TrLoader.

Lemma tie_T13_value : forall (v : option yv) (sv : option Z),
  host_value v sv =
  tr_host_value (match sv with Some _ => true | None => false end)
                (match v with Some _ => true | None => false end)
                (match sv with Some x => x | None => 0%Z end)
                (match v with Some x => num_fx x | None => 0%Z end).
Proof. intros [v|] [sv|]; reflexivity. Qed.
Print Assumptions tie_T13_value.

Lemma tie_T13_value_ok : forall (v : option yv) (sv : option Z),
  host_value_ok v sv =
  tr_value_ok (match v with Some _ => true | None => false end)
              (match v with Some x => is_num x | None => false end)
              (match sv with Some _ => true | None => false end)
              (match v, sv with Some x, Some s => Z.eqb (num_fx x) s | _, _ => false end).
Proof. intros [v|] [sv|]; unfold host_value_ok, tr_value_ok; try reflexivity; destruct (is_num v); reflexivity. Qed.
Print Assumptions tie_T13_value_ok.

Lemma tie_T13_limit : forall d,
  match lookup k_steplimit d with
  | Some (YInt z) => parse_limit d = option_map (option_map Z.to_nat) (tr_limit true z)
  | None => parse_limit d = option_map (option_map Z.to_nat) (tr_limit false 0%Z)
  | Some _ => parse_limit d = None        (* not an integer: the source's `> 0` is only modelled for integers *)
  end.
Proof.
  intros d. unfold parse_limit, tr_limit.
  destruct (lookup k_steplimit d) as [[| z | | | | |]|]; cbn [negb option_map]; try reflexivity.
  destruct (0 <? z)%Z; reflexivity.
Qed.
Print Assumptions tie_T13_limit.
