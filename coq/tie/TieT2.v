(* Level-2 tie (static file, re-checked against the regenerated gen/Tr.v on every run): a lemma
   that stops compiling is a broken proof obligation.  See translator/translate.py. *)
From NasimV Require Import Gates Layout Actions Env.
From NasimV.proofs Require Import PGates.
From NasimV.gen Require Import Tr.
Open Scope Z_scope.

(* T2: the gate cascade read from Network.perform_action is the model's *)
Lemma tie_T2 : forall x, tr_perform_action x = gate_outcome x.
Proof.
  intros [a b c d e f g h i j k].
  destruct a, b, c, d, e, f, g, h, i, j, k; reflexivity.
Qed.

Theorem tie_T2_classifies :
  forall sc st a k, outcome_matches sc st a k (tr_perform_action (atoms_of sc st a k)).
Proof. intros. rewrite tie_T2. apply gates_classify_proof. Qed.

Print Assumptions tie_T2_classifies.
