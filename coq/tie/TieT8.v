(* Level-2 tie for NASimEnv.get_score_upper_bound and the totals it adds up (static file,
   re-checked against the regenerated gen/TrBound.v).  H is the hop count in reward units. *)
From Coq Require Import ZArith List.
From NasimV Require Import Base Hops.
From NasimV.gen Require Import TrBound.

Lemma tie_T8_bound : forall sc,
  score_upper_bound sc = tr_bound (total_sens_value sc) (total_disc_value sc) (U * min_hops sc).
Proof. intros sc. reflexivity. Qed.
Print Assumptions tie_T8_bound.

Lemma tie_T8_totals : forall sc,
  total_sens_value sc = sumZ (map (fun p => tr_sens_term (snd p)) (s_sens sc))
  /\ total_disc_value sc = sumZ (map (fun e => tr_disc_term (c_dval (snd e))) (s_hosts sc)).
Proof.
  intros sc. split.
  - unfold total_sens_value, tr_sens_term. reflexivity.
  - reflexivity.
Qed.
Print Assumptions tie_T8_totals.
