(* Level-2 tie for ParameterisedActionSpace.get_action (static file, re-checked against the regenerated
   gen/TrParam.v): the model's decode_param is, for every scenario and every vector, the decoder
   assembled from the source's own pieces -- which component means what, the class order, subnet + 1,
   host modulo the subnet size, 0 = "any OS", which scan takes which cost field. *)
From Coq Require Import ZArith List Bool Arith Lia.
From NasimV Require Import Base Scenario Actions.
From NasimV.gen Require Import TrParam.
Import ListNotations.

Definition scan_kind (k : nat) : akind :=
  match k with 0%nat => KSrvScan | 1%nat => KOsScan | 2%nat => KSubScan | _ => KProcScan end.
Definition cost_field (sc : scenario) (c : nat) : Z :=
  match c with 0%nat => s_ssc sc | 1%nat => s_osc sc | 2%nat => s_subc sc | _ => s_psc sc end.
Definition scan_cost_of (sc : scenario) (k : nat) : Z :=
  match find (fun p => Nat.eqb (fst p) k) tr_scan_costs with
  | Some p => cost_field sc (snd p)
  | None => 0%Z
  end.

Definition comp (v : list nat) (which : nat) : nat := nth (nth which tr_positions 0%nat) v 0%nat.

Definition decode_via_tr (sc : scenario) (v : list nat) : option action :=
  if negb (Nat.eqb (length v) 6) then None else
  let subnet := Z.to_nat (tr_pv_subnet (Z.of_nat (comp v 1))) in
  if negb (Nat.ltb subnet (nsubnets sc)) then None else
  let size := subnet_size sc subnet in
  if Nat.eqb size 0 then None else
  let t := (subnet, Z.to_nat (tr_pv_host (Z.of_nat (comp v 2)) (Z.of_nat size))) in
  match nth_error tr_types (comp v 0) with
  | None => None
  | Some c =>
      if Nat.ltb c 4 then Some (mk_scan (scan_kind c) t (scan_cost_of sc c))
      else
        if negb (Nat.leb (comp v 3) (s_nos sc)) then None else
        let os := option_map Z.to_nat (tr_pv_os (Z.of_nat (comp v 3))) in
        if Nat.eqb c 4 then
          if negb (Nat.ltb (comp v 4) (s_nsrv sc)) then None else
          Some (match find_exploit sc (comp v 4) os with Some e => mk_exploit t e | None => noop end)
        else
          if negb (Nat.ltb (comp v 5) (s_nproc sc)) then None else
          Some (match find_privesc sc (comp v 5) os with Some p => mk_privesc t p | None => noop end)
  end.

Lemma os_of (o : nat) :
  option_map Z.to_nat (tr_pv_os (Z.of_nat o)) = match o with O => None | S o' => Some o' end.
Proof.
  unfold tr_pv_os. destruct o as [|o']; [reflexivity|].
  destruct (Z.eqb_spec (Z.of_nat (S o')) 0) as [E|E]; [lia|].
  cbn [option_map]. f_equal. lia.
Qed.

Lemma tie_T12_decode : forall sc v, decode_param sc v = decode_via_tr sc v.
Proof.
  intros sc v. unfold decode_via_tr.
  destruct v as [|ty [|s [|h [|o [|sv [|pr [|x r]]]]]]]; try reflexivity.
  cbn [length Nat.eqb negb]. unfold comp. cbn [tr_positions nth].
  unfold tr_pv_subnet, tr_pv_host.
  replace (Z.to_nat (Z.of_nat s + 1)) with (S s) by lia.
  unfold decode_param.
  destruct (negb (Nat.ltb (S s) (nsubnets sc))); [reflexivity|].
  destruct (Nat.eqb_spec (subnet_size sc (S s)) 0) as [E0|E0]; [reflexivity|].
  replace (Z.to_nat (Z.of_nat h mod Z.of_nat (subnet_size sc (S s)))) with (Nat.modulo h (subnet_size sc (S s)))
    by (rewrite <- Nat2Z.inj_mod, Nat2Z.id; reflexivity).
  rewrite os_of.
  destruct ty as [|[|[|[|[|[|ty]]]]]]; cbn [tr_types nth_error Nat.ltb Nat.leb Nat.eqb scan_kind];
    unfold scan_cost_of; cbn [tr_scan_costs find fst snd Nat.eqb cost_field]; try reflexivity.
  destruct ty; reflexivity.
Qed.
Print Assumptions tie_T12_decode.
