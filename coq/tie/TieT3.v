(* Level-2 tie (static file, re-checked against the regenerated gen/Tr.v on every run): a lemma
   that stops compiling is a broken proof obligation.  See translator/translate.py. *)
From NasimV Require Import Gates Layout Actions Env.
From NasimV.proofs Require Import PGates.
From NasimV.gen Require Import Tr.
Open Scope Z_scope.

(* T3: step-limit flag and reward *)
Lemma tie_T3 : forall sc steps v c,
  tr_limit_reached (s_limit sc) steps = limit_reached sc steps /\ tr_reward v c = v - c.
Proof. intros. unfold tr_limit_reached, limit_reached, tr_reward. split; reflexivity. Qed.

Print Assumptions tie_T3.
