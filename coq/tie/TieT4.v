(* Level-2 tie for HostVector.perform_action (static file, re-checked against gen/TrHost.v). *)
From NasimV Require Import HostGates.
From NasimV.proofs Require Import PHostGates.
From NasimV.gen Require Import TrHost.

Lemma tie_T4 : forall x, tr_host_perform x = host_outcome x.
Proof.
  intros [a b c d e f g h i j k l m n].
  unfold tr_host_perform, host_outcome.
  cbn [ha_srvscan ha_osscan ha_exploit ha_runs_srv ha_os_none ha_runs_os ha_is_root ha_grant_root
       ha_comp ha_req_le ha_procscan ha_privesc ha_proc_none ha_runs_proc].
  destruct a; [reflexivity|]. destruct b; [reflexivity|].
  destruct c, d, e, f; cbn [andb orb negb]; try reflexivity;
    destruct g, h; cbn [andb orb negb]; try reflexivity;
    destruct i, j; cbn [andb orb negb]; try reflexivity;
    destruct k; cbn [andb orb negb]; try reflexivity;
    destruct l, m, n; reflexivity.
Qed.

Theorem tie_T4_classifies :
  forall h a,
    let o := tr_host_perform (hatoms_of h a) in
    let '(h', r) := host_perform h a in
    apply_houtcome h a o = (h', r_success r, r_value r)
    /\ r_perm r = match fst (fst (fst o)) with HPermErr => true | _ => false end
    /\ r_conn r = false /\ r_undef r = false.
Proof. intros h a. rewrite tie_T4. apply hostgates_classify_proof. Qed.
Print Assumptions tie_T4_classifies.
