(* Level-2 tie for Observation.get_space_bounds (static file, re-checked against the regenerated
   gen/TrSpace.v).  VMIN/VMAX/DMIN/DMAX are what the two min/max loops of Scenario compute over a
   non-empty host list (the loops themselves are text-matched by the translator). *)
From Coq Require Import ZArith List Lia.
From NasimV Require Import Base Scenario Obs.
From NasimV.gen Require Import TrSpace.
Import ListNotations.
Open Scope Z_scope.

Lemma minl_acc a b l : minl (Z.min a b) l = Z.min b (minl a l).
Proof. induction l as [|x l IH]; cbn [minl fold_right] in *; [lia|]. unfold minl in *. rewrite IH. lia. Qed.
Lemma maxl_acc a b l : maxlZ (Z.max a b) l = Z.max b (maxlZ a l).
Proof. induction l as [|x l IH]; cbn [maxlZ fold_right] in *; [lia|]. unfold maxlZ in *. rewrite IH. lia. Qed.

Lemma fold_left_min v l : fold_left Z.min l v = minl v l.
Proof.
  revert v. induction l as [|x l IH]; intros v; cbn [fold_left]; [reflexivity|].
  rewrite IH, minl_acc. reflexivity.
Qed.
Lemma fold_left_max v l : fold_left Z.max l v = maxlZ v l.
Proof.
  revert v. induction l as [|x l IH]; intros v; cbn [fold_left]; [reflexivity|].
  rewrite IH, maxl_acc. reflexivity.
Qed.

Lemma minl_le d l : minl d l <= d.
Proof. unfold minl. induction l as [|x l IH]; cbn [fold_right]; lia. Qed.
Lemma maxl_ge d l : d <= maxlZ d l.
Proof. unfold maxlZ. induction l as [|x l IH]; cbn [fold_right]; lia. Qed.

Lemma minl_app d l1 l2 : minl d (l1 ++ l2) = Z.min (minl d l1) (minl d l2).
Proof.
  induction l1 as [|x l1 IH]; cbn [app].
  - pose proof (minl_le d l2). unfold minl in *. cbn [fold_right]. lia.
  - unfold minl in *. cbn [fold_right]. rewrite IH. lia.
Qed.
Lemma maxl_app d l1 l2 : maxlZ d (l1 ++ l2) = Z.max (maxlZ d l1) (maxlZ d l2).
Proof.
  induction l1 as [|x l1 IH]; cbn [app].
  - pose proof (maxl_ge d l2). unfold maxlZ in *. cbn [fold_right]. lia.
  - unfold maxlZ in *. cbn [fold_right]. rewrite IH. lia.
Qed.

Lemma minl_base d v l : minl d (v :: l) = Z.min d (minl v l).
Proof. unfold minl. cbn [fold_right]. induction l as [|x l IH]; cbn [fold_right]; lia. Qed.
Lemma maxl_base d v l : maxlZ d (v :: l) = Z.max d (maxlZ v l).
Proof. unfold maxlZ. cbn [fold_right]. induction l as [|x l IH]; cbn [fold_right]; lia. Qed.

(* the four loop results for a non-empty host list h :: r *)
Section Bounds.
  Variable sc : scenario.
  Variables (h : addr * hostcfg) (r : list (addr * hostcfg)).
  Hypothesis Hh : s_hosts sc = h :: r.
  Let vals := map (fun e => c_val (snd e)) r.
  Let dvals := map (fun e => c_dval (snd e)) r.
  Let VMIN := fold_left Z.min vals (c_val (snd h)).
  Let VMAX := fold_left Z.max vals (c_val (snd h)).
  Let DMIN := fold_left Z.min dvals (c_dval (snd h)).
  Let DMAX := fold_left Z.max dvals (c_dval (snd h)).

  Lemma tie_T10_low :
    obs_low sc = tr_obs_low U VMIN VMAX DMIN DMAX (2 * U) (U * Z.of_nat (fst (s_bounds sc))) (U * Z.of_nat (snd (s_bounds sc))).
  Proof.
    unfold obs_low, tr_obs_low, VMIN, DMIN, vals, dvals. rewrite Hh. cbn [map].
    rewrite minl_app, !minl_base, !fold_left_min. lia.
  Qed.

  Lemma tie_T10_high :
    obs_high sc = tr_obs_high U VMIN VMAX DMIN DMAX (2 * U) (U * Z.of_nat (fst (s_bounds sc))) (U * Z.of_nat (snd (s_bounds sc))).
  Proof.
    unfold obs_high, tr_obs_high, VMAX, DMAX, vals, dvals. rewrite Hh. cbn [map].
    rewrite !maxl_app, !maxl_base, !fold_left_max. unfold maxlZ at 3. cbn [fold_right]. lia.
  Qed.
End Bounds.
Print Assumptions tie_T10_low.
Print Assumptions tie_T10_high.
