(* Level-2 tie (static file, re-checked against the regenerated gen/Tr.v on every run): a lemma
   that stops compiling is a broken proof obligation.  See translator/translate.py. *)
From NasimV Require Import Gates Layout Actions Env.
From NasimV.proofs Require Import PGates.
From NasimV.gen Require Import Tr.
Open Scope Z_scope.

(* T1: index arithmetic read from HostVector._update_vector_idxs *)
Lemma tie_T1_idxs : forall L,
  tr_vector_idxs (Z.of_nat (L_b0 L)) (Z.of_nat (L_b1 L)) (Z.of_nat (L_nos L)) (Z.of_nat (L_nsrv L))
                 (Z.of_nat (L_nproc L))
  = map Z.of_nat [subnet_idx L; hostaddr_idx L; comp_idx L; reach_idx L; disc_idx L; val_idx L;
                  dval_idx L; acc_idx L; os_start L; srv_start L; proc_start L; width L].
Proof.
  intros L. cbv [tr_vector_idxs subnet_idx hostaddr_idx comp_idx reach_idx disc_idx val_idx
    dval_idx acc_idx os_start srv_start proc_start width map].
  repeat (apply f_equal2; [lia|]). reflexivity.
Qed.

Lemma tie_T1_dims : forall sc,
  tr_state_dims (Z.of_nat (fst (s_bounds sc))) (Z.of_nat (snd (s_bounds sc))) (Z.of_nat (s_nos sc))
                (Z.of_nat (s_nsrv sc)) (Z.of_nat (s_nproc sc)) (Z.of_nat (length (s_hosts sc)))
  = (Z.of_nat (fst (state_dims sc)), Z.of_nat (snd (state_dims sc)))
  /\ tr_obs_dims (Z.of_nat (fst (state_dims sc)), Z.of_nat (snd (state_dims sc)))
     = (Z.of_nat (fst (obs_dims sc)), Z.of_nat (snd (obs_dims sc))).
Proof.
  intros sc. cbv [tr_state_dims tr_obs_dims state_dims obs_dims fst snd].
  split; apply f_equal2; lia.
Qed.

Lemma tie_T1_action_count : forall sc,
  tr_action_space_size (Z.of_nat (length (s_exploits sc))) (Z.of_nat (length (s_privescs sc)))
                       (Z.of_nat (length (s_hosts sc)))
  = Z.of_nat (action_space_size sc).
Proof. intros sc. unfold tr_action_space_size, action_space_size. cbv zeta. lia. Qed.

Lemma tie_T1_nvec : forall sc, (1 <= nsubnets sc)%nat ->
  tr_nvec (Z.of_nat (nsubnets sc)) (Z.of_nat (maxl (s_subnets sc))) (Z.of_nat (s_nos sc))
          (Z.of_nat (s_nsrv sc)) (Z.of_nat (s_nproc sc))
  = map Z.of_nat (nvec sc).
Proof.
  intros sc H. unfold tr_nvec, nvec. cbn [map]. repeat (apply f_equal2; [lia|]). reflexivity.
Qed.

Print Assumptions tie_T1_idxs.
Print Assumptions tie_T1_dims.
Print Assumptions tie_T1_action_count.
Print Assumptions tie_T1_nvec.
