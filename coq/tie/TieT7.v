(* Level-2 tie for ScenarioGenerator._generate_subnets (static file, re-checked against the
   regenerated gen/TrGen.v): for every number of hosts >= 2 the source's arithmetic gives the
   model's subnet sizes, and hence (C15_hosts_count) exactly the requested number of hosts. *)
From Coq Require Import ZArith List Bool Lia Arith.
From NasimV Require Import Base Gen.
From NasimV.gen Require Import TrGen.
Import ListNotations.

Lemma map_replicate_repeat (n : nat) (x : nat) :
  map Z.of_nat (replicate n x) = repeat (Z.of_nat x) n.
Proof. induction n as [|n IH]; cbn [replicate repeat map]; [reflexivity|]. rewrite IH. reflexivity. Qed.

Lemma ceil_div_cdiv (a b : nat) : (0 < b)%nat -> Z.of_nat (ceil_div a b) = cdiv (Z.of_nat a) (Z.of_nat b).
Proof.
  intros Hb. unfold ceil_div, cdiv.
  rewrite Nat2Z.inj_div, Nat2Z.inj_sub, Nat2Z.inj_add by lia.
  assert (Hb' : (0 < Z.of_nat b)%Z) by lia.
  pose proof (Z.div_mod (Z.of_nat a + Z.of_nat b - Z.of_nat 1) (Z.of_nat b) ltac:(lia)) as E1.
  pose proof (Z.mod_pos_bound (Z.of_nat a + Z.of_nat b - Z.of_nat 1) (Z.of_nat b) Hb') as B1.
  pose proof (Z.div_mod (- Z.of_nat a) (Z.of_nat b) ltac:(lia)) as E2.
  pose proof (Z.mod_pos_bound (- Z.of_nat a) (Z.of_nat b) Hb') as B2.
  nia.
Qed.

Lemma tie_T7_subnets : forall nh : nat, (2 <= nh)%nat ->
  map Z.of_nat (gen_subnets nh) = tr_gen_subnets (Z.of_nat nh).
Proof.
  intros nh Hnh. unfold gen_subnets, tr_gen_subnets. cbv zeta.
  assert (Hd : (ceil_div nh 40 + ceil_div nh 41 <= nh)%nat).
  { unfold ceil_div.
    pose proof (Nat.div_mod (nh + 40 - 1) 40 ltac:(lia)). pose proof (Nat.mod_upper_bound (nh + 40 - 1) 40 ltac:(lia)).
    pose proof (Nat.div_mod (nh + 41 - 1) 41 ltac:(lia)). pose proof (Nat.mod_upper_bound (nh + 41 - 1) 41 ltac:(lia)).
    lia. }
  rewrite !map_app, map_replicate_repeat. cbn [map].
  assert (H40 : cdiv (Z.of_nat nh) 40 = Z.of_nat (ceil_div nh 40)).
  { rewrite (ceil_div_cdiv nh 40) by lia. reflexivity. }
  assert (H41 : cdiv (Z.of_nat nh) (40 + 1) = Z.of_nat (ceil_div nh 41)).
  { rewrite (ceil_div_cdiv nh 41) by lia. reflexivity. }
  rewrite H40, H41.
  set (u := (nh - ceil_div nh 40 - ceil_div nh 41)%nat).
  assert (Hu : (Z.of_nat nh - Z.of_nat (ceil_div nh 40) - Z.of_nat (ceil_div nh 41))%Z = Z.of_nat u) by (unfold u; lia).
  rewrite Hu.
  replace (Z.of_nat u / 5)%Z with (Z.of_nat (u / 5)) by (rewrite Nat2Z.inj_div; reflexivity).
  replace (Z.of_nat u mod 5)%Z with (Z.of_nat (u mod 5)) by (rewrite Nat2Z.inj_mod; reflexivity).
  rewrite Nat2Z.id.
  destruct (Nat.eqb_spec (u mod 5) 0) as [E|E].
  - rewrite E. reflexivity.
  - replace (Z.of_nat (u mod 5) =? 0)%Z with false by (symmetry; apply Z.eqb_neq; lia). reflexivity.
Qed.
Print Assumptions tie_T7_subnets.

(* consequence inside the kernel: the source's subnet sizes add up to the requested number of hosts + the internet *)
Lemma tie_T7_total : forall nh : nat, (2 <= nh)%nat ->
  fold_right Z.add 0%Z (tr_gen_subnets (Z.of_nat nh)) = (Z.of_nat nh + 1)%Z.
Proof.
  intros nh Hnh. rewrite <- tie_T7_subnets by exact Hnh.
  unfold gen_subnets.
  assert (Hd : (ceil_div nh 40 + ceil_div nh 41 <= nh)%nat).
  { unfold ceil_div.
    pose proof (Nat.div_mod (nh + 40 - 1) 40 ltac:(lia)). pose proof (Nat.mod_upper_bound (nh + 40 - 1) 40 ltac:(lia)).
    pose proof (Nat.div_mod (nh + 41 - 1) 41 ltac:(lia)). pose proof (Nat.mod_upper_bound (nh + 41 - 1) 41 ltac:(lia)).
    lia. }
  set (u := (nh - ceil_div nh 40 - ceil_div nh 41)%nat).
  assert (Hrep : forall n, fold_right Z.add 0%Z (map Z.of_nat (replicate n 5%nat)) = (5 * Z.of_nat n)%Z).
  { induction n as [|n IH]; cbn [replicate map fold_right]; [lia|]. rewrite IH. lia. }
  rewrite !map_app. cbn [map app fold_right].
  assert (Happ : forall l1 l2, fold_right Z.add 0%Z (l1 ++ l2) = (fold_right Z.add 0%Z l1 + fold_right Z.add 0%Z l2)%Z).
  { induction l1 as [|x l1 IH]; intros l2; cbn [app fold_right]; [lia|]. rewrite IH. lia. }
  rewrite Happ, Hrep.
  pose proof (Nat.div_mod u 5 ltac:(lia)) as Eu.
  destruct (Nat.eqb_spec (u mod 5) 0) as [E|E]; cbn [map fold_right]; unfold u in *; lia.
Qed.
Print Assumptions tie_T7_total.
